/-
C10, helper file 2 (no Batteries in scope: `split` on the character-literal patterns of
`parseValuePart` loops under `Batteries.Data.Char`): brace profiles, `parse_string` returns well
nested text, and the invariant "every stored value is well nested" through the `.bib` reader up
to `parse_command`.  Continued in `Lemmas/BibDepth.lean`.
-/
import PybtexModel.Lemmas.BibTotal

namespace Pybtex.Bib


/-! ## §1 brace profiles -/

def isBrace (c : Char) : Bool := c = '{' || c = '}'

/-- the brace skeleton of a string -/
def braces (s : Str) : Str := s.filter isBrace

/-- from depth `d` the true nesting depth stays within `[0, 100]` -/
def profOK : Nat → Str → Bool
  | _, [] => true
  | d, c :: r =>
    if c = '{' then decide (d + 1 ≤ 100) && profOK (d + 1) r
    else if c = '}' then decide (1 ≤ d) && profOK (d - 1) r
    else profOK d r

def endDepth : Nat → Str → Nat
  | d, [] => d
  | d, c :: r =>
    if c = '{' then endDepth (d + 1) r
    else if c = '}' then endDepth (d - 1) r
    else endDepth d r

/-- a well nested value: balanced, never deeper than 100 -/
def VOK (v : Str) : Prop := profOK 0 v = true ∧ endDepth 0 v = 0

instance (v : Str) : Decidable (VOK v) := by unfold VOK; infer_instance

theorem braces_append (a b : Str) : braces (a ++ b) = braces a ++ braces b := by
  simp [braces]

theorem braces_cons_brace {c : Char} (h : isBrace c = true) (r : Str) : braces (c :: r) = c :: braces r := by
  simp [braces, h]

theorem braces_cons_plain {c : Char} (h : isBrace c = false) (r : Str) : braces (c :: r) = braces r := by
  simp [braces, h]

theorem isBrace_false {c : Char} (h1 : c ≠ '{') (h2 : c ≠ '}') : isBrace c = false := by
  simp [isBrace, h1, h2]

theorem endDepth_append (d : Nat) (a b : Str) : endDepth d (a ++ b) = endDepth (endDepth d a) b := by
  induction a generalizing d with
  | nil => rfl
  | cons c r ih =>
    simp only [List.cons_append, endDepth]
    split
    · exact ih _
    · split <;> exact ih _

theorem profOK_append (d : Nat) (a b : Str) :
    profOK d (a ++ b) = (profOK d a && profOK (endDepth d a) b) := by
  induction a generalizing d with
  | nil => simp [profOK, endDepth]
  | cons c r ih =>
    simp only [List.cons_append, profOK, endDepth]
    split
    · rw [ih, Bool.and_assoc]
    · split
      · rw [ih, Bool.and_assoc]
      · exact ih _

theorem profOK_braces (d : Nat) (s : Str) : profOK d (braces s) = profOK d s := by
  induction s generalizing d with
  | nil => rfl
  | cons c r ih =>
    by_cases h1 : c = '{'
    · subst h1; rw [braces_cons_brace (by decide)]; simp only [profOK, if_true, ih]
    · by_cases h2 : c = '}'
      · subst h2; rw [braces_cons_brace (by decide)]
        simp only [profOK, if_true, ih]
      · rw [braces_cons_plain (isBrace_false h1 h2)]
        simp only [profOK, if_neg h1, if_neg h2, ih]

theorem endDepth_braces (d : Nat) (s : Str) : endDepth d (braces s) = endDepth d s := by
  induction s generalizing d with
  | nil => rfl
  | cons c r ih =>
    by_cases h1 : c = '{'
    · subst h1; rw [braces_cons_brace (by decide)]; simp only [endDepth, if_true, ih]
    · by_cases h2 : c = '}'
      · subst h2; rw [braces_cons_brace (by decide)]
        simp only [endDepth, if_true, ih]
      · rw [braces_cons_plain (isBrace_false h1 h2)]
        simp only [endDepth, if_neg h1, if_neg h2, ih]

theorem endDepth_le (d : Nat) (s : Str) (h : profOK d s = true) (hd : d ≤ 100) : endDepth d s ≤ 100 := by
  induction s generalizing d with
  | nil => exact hd
  | cons c r ih =>
    simp only [profOK] at h
    simp only [endDepth]
    split at h
    · simp only [Bool.and_eq_true, decide_eq_true_eq] at h
      rw [if_pos ‹_›]; exact ih _ h.2 h.1
    · split at h
      · simp only [Bool.and_eq_true, decide_eq_true_eq] at h
        rw [if_neg ‹_›, if_pos ‹_›]; exact ih _ h.2 (by omega)
      · rw [if_neg ‹_›, if_neg ‹_›]; exact ih _ h hd

/-! ## §3 `parse_string` returns well nested text -/

theorem skipToChar_plain {p : Char → Bool} {s chunk rest : Str}
    (h : skipToChar p s = some (chunk, rest)) :
    ∃ plain c, chunk = plain ++ [c] ∧ p c = true ∧ ∀ x ∈ plain, p x = false := by
  induction s generalizing chunk with
  | nil => simp [skipToChar] at h
  | cons c r ih =>
    simp only [skipToChar] at h
    split at h
    · rename_i hp
      injection h with h; injection h with h1 h2
      subst h1
      exact ⟨[], c, rfl, hp, by simp⟩
    · rename_i hp
      cases hr : skipToChar p r with
      | none => simp [hr] at h
      | some x =>
        obtain ⟨x1, x2⟩ := x
        simp only [hr, Option.map_some, Option.some.injEq, Prod.mk.injEq] at h
        obtain ⟨h1, h2⟩ := h
        subst h1; subst h2
        obtain ⟨plain, d, e, hd, hpl⟩ := ih hr
        refine ⟨c :: plain, d, by rw [e]; rfl, hd, ?_⟩
        intro y hy
        rcases List.mem_cons.1 hy with hy | hy
        · subst hy; simpa using hp
        · exact hpl y hy

theorem profOK_plain (d : Nat) (plain : Str) (h : ∀ x ∈ plain, x ≠ '{' ∧ x ≠ '}') :
    profOK d plain = true ∧ endDepth d plain = d := by
  induction plain with
  | nil => exact ⟨rfl, rfl⟩
  | cons c r ih =>
    have hc := h c (by simp)
    simp only [profOK, endDepth, if_neg hc.1, if_neg hc.2]
    exact ih (fun x hx => h x (List.mem_cons_of_mem _ hx))

/-- the text collected by `parse_string` after `acc`: well nested from depth `d`, back at depth 0
before the closing delimiter -/
theorem strLoop_prof (fuel : Nat) (quoted : Bool) (d : Nat) (acc : Str) (s : St) {str : Str} {s' : St}
    (h : strLoop fuel quoted d acc s = .ok str s') :
    ∃ body, str.dropLast = acc ++ body ∧ profOK d body = true ∧ endDepth d body = 0 := by
  induction fuel generalizing d acc s with
  | zero => simp [strLoop] at h
  | succ fuel ih =>
    unfold strLoop at h
    simp only at h
    split at h
    · cases h
    · rename_i chunk rest hsk
      obtain ⟨plain, c, hch, hpc, hpl⟩ := skipToChar_plain hsk
      have hplain : ∀ x ∈ plain, x ≠ '{' ∧ x ≠ '}' := by
        intro x hx
        have := hpl x hx
        simp only [Bool.or_eq_false_iff, decide_eq_false_iff_not] at this
        exact ⟨this.1.2, this.1.1⟩
      obtain ⟨hp1, hp2⟩ := profOK_plain d plain hplain
      have hlast : chunk.getLast? = some c := by rw [hch]; simp
      rw [hlast] at h
      split at h
      · rename_i hc
        injection hc with hc; subst hc
        split at h
        · cases h
        · rename_i hd
          obtain ⟨body, hb, hb1, hb2⟩ := ih _ _ _ h
          refine ⟨plain ++ ['{'] ++ body, by rw [hb, hch]; simp, ?_, ?_⟩
          · rw [List.append_assoc, profOK_append, hp1, hp2]
            simp only [List.cons_append, List.nil_append, profOK, if_true, Bool.true_and, Bool.and_eq_true,
              decide_eq_true_eq]
            exact ⟨by omega, hb1⟩
          · rw [List.append_assoc, endDepth_append, hp2]
            simpa [endDepth] using hb2
      · rename_i hc
        injection hc with hc; subst hc
        split at h
        · rename_i hd0
          split at h
          · cases h
          · injection h with h1 _
            subst h1
            refine ⟨plain, by rw [hch]; simp, hp1, ?_⟩
            rw [hp2, hd0]
        · rename_i hd0
          obtain ⟨body, hb, hb1, hb2⟩ := ih _ _ _ h
          refine ⟨plain ++ ['}'] ++ body, by rw [hb, hch]; simp, ?_, ?_⟩
          · rw [List.append_assoc, profOK_append, hp1, hp2]
            have h0 : profOK d (['}'] ++ body) = (decide (1 ≤ d) && profOK (d - 1) body) := rfl
            rw [h0, hb1]
            simp only [Bool.true_and, Bool.and_true, decide_eq_true_eq]
            omega
          · rw [List.append_assoc, endDepth_append, hp2]
            simpa [endDepth] using hb2
      · rename_i hc1 hc2
        have hcq : c = '"' ∧ d = 0 := by
          simp only [Bool.or_eq_true, decide_eq_true_eq, Bool.and_eq_true] at hpc
          rcases hpc with (hpc | hpc) | hpc
          · exact absurd (by rw [hpc]) (hc2)
          · exact absurd (by rw [hpc]) (hc1)
          · exact ⟨hpc.2, hpc.1.2⟩
        injection h with h1 _
        subst h1
        refine ⟨plain, by rw [hch]; simp, hp1, ?_⟩
        rw [hp2, hcq.2]

/-! ## §4 every stored value is well nested; `Person()` never hits the nesting guard -/

theorem VOK.nil : VOK [] := ⟨rfl, rfl⟩

theorem VOK.append {a b : Str} (ha : VOK a) (hb : VOK b) : VOK (a ++ b) := by
  refine ⟨?_, ?_⟩
  · rw [profOK_append, ha.1, ha.2, hb.1]; rfl
  · rw [endDepth_append, ha.2, hb.2]

theorem VOK.flatten {l : List Str} (h : ∀ p ∈ l, VOK p) : VOK l.flatten := by
  induction l with
  | nil => exact VOK.nil
  | cons x l ih =>
    rw [List.flatten_cons]
    exact VOK.append (h x (by simp)) (ih (fun p hp => h p (List.mem_cons_of_mem _ hp)))

theorem VOK.of_plain {v : Str} (h : ∀ x ∈ v, x ≠ '{' ∧ x ≠ '}') : VOK v := profOK_plain 0 v h

/-- well nested macro table -/
def MOK (m : CIDict Str) : Prop := ∀ p ∈ m.dict, VOK p.2

theorem dget_mem {K V : Type} [DecidableEq K] {l : List (K × V)} {k : K} {v : V} (h : dget l k = some v) :
    ∃ p ∈ l, p.2 = v := by
  induction l with
  | nil => simp [dget] at h
  | cons p l ih =>
    obtain ⟨k', v'⟩ := p
    simp only [dget] at h
    split at h
    · injection h with h; exact ⟨(k', v'), by simp, h⟩
    · obtain ⟨q, hq, hv⟩ := ih h
      exact ⟨q, List.mem_cons_of_mem _ hq, hv⟩

theorem dset_mem {K V : Type} [DecidableEq K] {l : List (K × V)} {k : K} {v : V} {q : K × V}
    (h : q ∈ dset l k v) : q ∈ l ∨ q.2 = v := by
  induction l with
  | nil => simp [dset] at h; right; rw [h]
  | cons p l ih =>
    obtain ⟨k', v'⟩ := p
    simp only [dset] at h
    split at h
    · rcases List.mem_cons.1 h with h | h
      · right; rw [h]
      · left; exact List.mem_cons_of_mem _ h
    · rcases List.mem_cons.1 h with h | h
      · left; rw [h]; simp
      · rcases ih h with h | h
        · left; exact List.mem_cons_of_mem _ h
        · right; exact h

theorem MOK.setItem {m : CIDict Str} (h : MOK m) (k v : Str) (hv : VOK v) : MOK (m.setItem k v) := by
  intro p hp
  rcases dset_mem hp with hp | hp
  · exact h p hp
  · rw [hp]; exact hv

theorem MOK.getItem {m : CIDict Str} (h : MOK m) {k v : Str} (hg : m.getItem k = some v) : VOK v := by
  obtain ⟨p, hp, hv⟩ := dget_mem hg
  rw [← hv]; exact h p hp

theorem dofPairs_mem {K V : Type} [DecidableEq K] (ps : List (K × V)) (P : V → Prop) (h : ∀ p ∈ ps, P p.2) :
    ∀ q ∈ dofPairs ps, P q.2 := by
  unfold dofPairs
  suffices ∀ (init : List (K × V)), (∀ q ∈ init, P q.2) →
      ∀ q ∈ ps.foldl (fun d p => dset d p.1 p.2) init, P q.2 from this [] (by simp)
  induction ps with
  | nil => intro init hi; exact hi
  | cons p ps ih =>
    intro init hi
    simp only [List.foldl_cons]
    apply ih (fun q hq => h q (List.mem_cons_of_mem _ hq))
    intro q hq
    rcases dset_mem hq with hq | hq
    · exact hi q hq
    · rw [hq]; exact h p (by simp)

theorem MOK.ofPairs {ps : List (Str × Str)} (h : ∀ p ∈ ps, VOK p.2) : MOK (CIDict.ofPairs ps) := by
  unfold MOK CIDict.ofPairs
  simp only
  apply dofPairs_mem _ VOK
  intro p hp
  obtain ⟨q, hq, rfl⟩ := List.mem_map.1 hp
  exact dofPairs_mem ps VOK h q hq

/-- the data part of the invariant: macros, the value and fields being collected, nothing of kind
`nameTooDeep` reported -/
def SOK (s : St) : Prop :=
  MOK s.macros ∧ (∀ p ∈ s.curValue, VOK p) ∧ (∀ f ∈ s.curFields, ∀ p ∈ f.2, VOK p) ∧
  (∀ e ∈ s.errs, e.kind ≠ .nameTooDeep)

def AOK : Abort → Prop
  | .syn e => e.kind ≠ .nameTooDeep
  | .raised e => e.kind ≠ .nameTooDeep
  | .skip => True

def ROK {α : Type} : Res α → Prop
  | .ok _ s' => SOK s'
  | .fail a s' => SOK s' ∧ AOK a

theorem handleError_rok {s : St} {e : Err} (h : SOK s) (he : e.kind ≠ .nameTooDeep) :
    ROK (handleError s e) := by
  unfold handleError
  split
  · exact ⟨h, he⟩
  · refine ⟨h.1, h.2.1, h.2.2.1, ?_⟩
    intro e' he'
    rcases List.mem_append.1 he' with he' | he'
    · exact h.2.2.2 e' he'
    · simp only [List.mem_singleton] at he'; subst he'; exact he

theorem firstMatch_matchAt {ps : List Pat} {s v r : Str} {p : Pat}
    (h : firstMatch ps s = some (p, v, r)) : p.matchAt s = some (v, r) := by
  induction ps with
  | nil => simp [firstMatch] at h
  | cons q qs ih =>
    simp only [firstMatch] at h
    split at h
    · rename_i v' r' hm
      simp only [Option.some.injEq, Prod.mk.injEq] at h
      obtain ⟨h0, h1, h2⟩ := h; subst h0; subst h1; subst h2
      exact hm
    · exact ih h

theorem getToken_rok {s : St} (pats : List Pat) (h : SOK s) :
    ROK (getToken pats s) ∧
    ∀ p v s', getToken pats s = .ok (some (p, v)) s' → ∃ t r, p.matchAt t = some (v, r) := by
  unfold getToken
  simp only
  split
  · exact ⟨⟨h, by simp [AOK]⟩, fun p v s' hh => by cases hh⟩
  · split
    · exact ⟨h, fun p v s' hh => by cases hh⟩
    · rename_i p v r hm
      refine ⟨h, ?_⟩
      intro p' v' s' hh
      injection hh with hh _
      injection hh with hh
      injection hh with h1 h2
      subst h1; subst h2
      exact ⟨_, _, firstMatch_matchAt hm⟩

theorem required_rok {s : St} (pats : List Pat) (desc : String) (h : SOK s) :
    ROK (required pats desc s) ∧
    ∀ p v s', required pats desc s = .ok (p, v) s' → ∃ t r, p.matchAt t = some (v, r) := by
  obtain ⟨h1, h2⟩ := getToken_rok pats h
  unfold required
  cases hr : getToken pats s with
  | fail a s' => rw [hr] at h1; exact ⟨h1, fun p v s' hh => by cases hh⟩
  | ok t s' =>
    rw [hr] at h1
    cases t with
    | none => exact ⟨⟨h1, by simp [AOK]⟩, fun p v s' hh => by cases hh⟩
    | some t =>
      refine ⟨h1, ?_⟩
      intro p v s'' hh
      injection hh with hh1 hh2
      subst hh1; subst hh2
      exact h2 p v s' hr

theorem matchAt_number {t v r : Str} (h : Pat.number.matchAt t = some (v, r)) :
    ∀ c ∈ v, c ≠ '{' ∧ c ≠ '}' := by
  simp only [Pat.matchAt] at h
  split at h
  · cases h
  · simp only [Option.some.injEq, Prod.mk.injEq] at h
    obtain ⟨h1, _⟩ := h; subst h1
    intro c hc
    have := mem_takeWhile_imp hc
    constructor <;> (intro hc'; subst hc'; revert this; decide)

theorem strLoop_rok (fuel : Nat) (quoted : Bool) (d : Nat) (acc : Str) (s : St) (h : SOK s) :
    ROK (strLoop fuel quoted d acc s) := by
  induction fuel generalizing d acc s with
  | zero => exact ⟨h, by simp [AOK]⟩
  | succ fuel ih =>
    unfold strLoop
    simp only
    split
    · exact ⟨h, by simp [AOK]⟩
    · rename_i chunk rest hsk
      have h' : SOK { s with rest := rest, ln := s.ln + countNl chunk } := h
      split
      · split
        · exact ⟨h', by simp [AOK]⟩
        · exact ih _ _ _ h'
      · split
        · split
          · exact ⟨h', by simp [AOK]⟩
          · exact h'
        · exact ih _ _ _ h'
      · exact h'

theorem substituteMacro_rok {s : St} (name : Str) (h : SOK s) :
    ROK (substituteMacro name s) ∧ ∀ v s', substituteMacro name s = .ok v s' → VOK v := by
  unfold substituteMacro
  split
  · rename_i v hg
    exact ⟨h, fun v' s' hh => by injection hh with h1 _; subst h1; exact h.1.getItem hg⟩
  · split
    · have hg := handleError_rok (e := ⟨.undefinedMacro name, some s.ln⟩) h (by simp)
      cases hr : handleError s ⟨.undefinedMacro name, some s.ln⟩ with
      | fail a s' => rw [hr] at hg; exact ⟨hg, fun v s'' hh => by cases hh⟩
      | ok a s' =>
        rw [hr] at hg
        exact ⟨hg, fun v s'' hh => by injection hh with h1 _; subst h1; exact VOK.nil⟩
    · exact ⟨h, fun v s'' hh => by injection hh with h1 _; subst h1; exact VOK.nil⟩

theorem parseValuePart_rok1 {s : St} (h : SOK s) : ROK (parseValuePart s) := by
  obtain ⟨hg, hv⟩ := required_rok [.lit '"', .lit '{', .number, .name] "field value" h
  unfold parseValuePart
  cases hr : required [.lit '"', .lit '{', .number, .name] "field value" s with
  | fail a s' => rw [hr] at hg; exact hg
  | ok t s1 =>
    rw [hr] at hg
    obtain ⟨p, v⟩ := t
    simp only
    have hstr : ∀ q, ROK (match strLoop (s1.rest.length + 1) q 0 [] s1 with
        | .fail e s => .fail e s
        | .ok str s => .ok str.dropLast s) := by
      intro q
      have h1 := strLoop_rok (s1.rest.length + 1) q 0 [] s1 hg
      cases hs : strLoop (s1.rest.length + 1) q 0 [] s1 with
      | fail a s' => rw [hs] at h1; exact h1
      | ok str s' => rw [hs] at h1; exact h1
    split
    · exact hstr true
    · exact hstr false
    · exact hg
    · exact (substituteMacro_rok v hg).1

theorem parseValuePart_rok2 {s : St} (h : SOK s) {v : Str} {s' : St}
    (hh : parseValuePart s = .ok v s') : VOK v := by
  obtain ⟨hg, hv⟩ := required_rok [.lit '"', .lit '{', .number, .name] "field value" h
  unfold parseValuePart at hh
  cases hr : required [.lit '"', .lit '{', .number, .name] "field value" s with
  | fail a s1 => rw [hr] at hh; cases hh
  | ok t s1 =>
    rw [hr] at hg hh
    obtain ⟨p, w⟩ := t
    simp only at hh
    have hstr : ∀ q, (match strLoop (s1.rest.length + 1) q 0 [] s1 with
        | .fail e s => .fail e s
        | .ok str s => .ok str.dropLast s) = Res.ok v s' → VOK v := by
      intro q hq
      cases hs : strLoop (s1.rest.length + 1) q 0 [] s1 with
      | fail a s'' => rw [hs] at hq; cases hq
      | ok str s'' =>
        rw [hs] at hq
        injection hq with hh1 _
        subst hh1
        obtain ⟨body, hb, hb1, hb2⟩ := strLoop_prof _ _ _ _ _ hs
        rw [hb]; exact ⟨hb1, hb2⟩
    split at hh
    · exact hstr true hh
    · exact hstr false hh
    · injection hh with hh1 _
      subst hh1
      obtain ⟨t, r, hm⟩ := hv _ _ _ hr
      exact VOK.of_plain (matchAt_number hm)
    · exact (substituteMacro_rok w hg).2 _ _ hh

theorem parseValuePart_rok {s : St} (h : SOK s) :
    ROK (parseValuePart s) ∧ ∀ v s', parseValuePart s = .ok v s' → VOK v :=
  ⟨parseValuePart_rok1 h, fun _ _ hh => parseValuePart_rok2 h hh⟩

theorem parseValueLoop_rok (fuel : Nat) (parts : List Str) (s : St) (h : SOK s)
    (hp : ∀ p ∈ parts, VOK p) :
    ROK (parseValueLoop fuel parts s) ∧
    ∀ ps s', parseValueLoop fuel parts s = .ok ps s' → ∀ p ∈ ps, VOK p := by
  induction fuel generalizing parts s with
  | zero => exact ⟨⟨h, by simp [AOK]⟩, fun ps s' hh => by cases hh⟩
  | succ fuel ih =>
    unfold parseValueLoop
    obtain ⟨hg, hv⟩ := parseValuePart_rok h
    cases hr : parseValuePart s with
    | fail a s' => rw [hr] at hg; exact ⟨hg, fun ps s'' hh => by cases hh⟩
    | ok part s1 =>
      rw [hr] at hg
      simp only
      have hparts : ∀ p ∈ parts ++ [part], VOK p := by
        intro p hp'
        rcases List.mem_append.1 hp' with hp' | hp'
        · exact hp p hp'
        · simp only [List.mem_singleton] at hp'; subst hp'; exact hv _ _ hr
      obtain ⟨hg2, _⟩ := getToken_rok [.lit '#'] hg
      cases hr2 : getToken [.lit '#'] s1 with
      | fail a s' => rw [hr2] at hg2; exact ⟨hg2, fun ps s'' hh => by cases hh⟩
      | ok t s2 =>
        rw [hr2] at hg2
        cases t with
        | none =>
          refine ⟨hg2, ?_⟩
          intro ps s'' hh
          injection hh with hh1 _
          subst hh1; exact hparts
        | some t => exact ih _ s2 hg2 hparts

theorem parseValue_rok {s : St} (h : SOK s) : ROK (parseValue s) := by
  unfold parseValue
  obtain ⟨hg, hv⟩ := parseValueLoop_rok (s.rest.length + 1) [] s h (by simp)
  cases hr : parseValueLoop (s.rest.length + 1) [] s with
  | fail a s' => rw [hr] at hg; exact hg
  | ok parts s' =>
    rw [hr] at hg
    exact ⟨hg.1, hv _ _ hr, hg.2.2.1, hg.2.2.2⟩

theorem parseField_rok {s : St} (h : SOK s) : ROK (parseField s) := by
  unfold parseField
  obtain ⟨hg, _⟩ := getToken_rok [.name] h
  cases hr : getToken [.name] s with
  | fail a s' => rw [hr] at hg; exact hg
  | ok t s1 =>
    rw [hr] at hg
    cases t with
    | none => exact hg
    | some t =>
      obtain ⟨_, name⟩ := t
      simp only
      have h1 : SOK { s1 with curFieldName := some name } := hg
      obtain ⟨hg2, _⟩ := required_rok [.lit '='] (descOf [.lit '=']) h1
      cases hr2 : required [.lit '='] (descOf [.lit '=']) { s1 with curFieldName := some name } with
      | fail a s' => rw [hr2] at hg2; exact hg2
      | ok t2 s2 =>
        rw [hr2] at hg2
        exact parseValue_rok hg2

theorem parseEntryFields_rok (fuel : Nat) (s : St) (h : SOK s) : ROK (parseEntryFields fuel s) := by
  induction fuel generalizing s with
  | zero => exact ⟨h, by simp [AOK]⟩
  | succ fuel ih =>
    unfold parseEntryFields
    simp only
    have h0 : SOK { s with curFieldName := none, curValue := [] } :=
      ⟨h.1, by simp, h.2.2.1, h.2.2.2⟩
    have hg := parseField_rok h0
    cases hr : parseField { s with curFieldName := none, curValue := [] } with
    | fail a s' => rw [hr] at hg; exact hg
    | ok u s1 =>
      rw [hr] at hg
      simp only
      have key : ∀ s1' : St, SOK s1' → ROK (match getToken [.lit ','] s1' with
          | .fail e s => .fail e s
          | .ok none s => .ok () s
          | .ok (some _) s => parseEntryFields fuel s) := by
        intro s1' h1
        obtain ⟨hg2, _⟩ := getToken_rok [.lit ','] h1
        cases hr2 : getToken [.lit ','] s1' with
        | fail a s' => rw [hr2] at hg2; exact hg2
        | ok t s2 =>
          rw [hr2] at hg2
          cases t with
          | none => exact hg2
          | some t => exact ih s2 hg2
      apply key
      split
      · split
        · refine ⟨hg.1, hg.2.1, ?_, hg.2.2.2⟩
          intro f hf p hp
          rcases List.mem_append.1 hf with hf | hf
          · exact hg.2.2.1 f hf p hp
          · simp only [List.mem_singleton] at hf
            subst hf
            exact hg.2.1 p hp
        · exact hg
      · exact hg

theorem parseEntryBody_rok {s : St} (paren : Bool) (h : SOK s) : ROK (parseEntryBody paren s) := by
  unfold parseEntryBody
  obtain ⟨hg, _⟩ := required_rok [if paren then .keyParen else .keyBrace] "entry key" h
  cases hr : required [if paren then .keyParen else .keyBrace] "entry key" s with
  | fail a s' => rw [hr] at hg; exact hg
  | ok t s1 =>
    rw [hr] at hg
    obtain ⟨_, key⟩ := t
    simp only
    have h1 : SOK { s1 with curKey := some key } := hg
    have hg2 := parseEntryFields_rok (s1.rest.length + 2) { s1 with curKey := some key } h1
    cases hr2 : parseEntryFields (s1.rest.length + 2) { s1 with curKey := some key } with
    | fail a s' => rw [hr2] at hg2; exact hg2
    | ok u s2 =>
      rw [hr2] at hg2
      simp only
      split
      · exact hg2
      · exact ⟨hg2, trivial⟩

theorem parseStringBody_rok {s : St} (h : SOK s) : ROK (parseStringBody s) := by
  unfold parseStringBody
  obtain ⟨hg, _⟩ := required_rok [.name] (descOf [.name]) h
  cases hr : required [.name] (descOf [.name]) s with
  | fail a s' => rw [hr] at hg; exact hg
  | ok t s1 =>
    rw [hr] at hg
    obtain ⟨_, name⟩ := t
    simp only
    have h1 : SOK { s1 with curFieldName := some name } := hg
    obtain ⟨hg2, _⟩ := required_rok [.lit '='] (descOf [.lit '=']) h1
    cases hr2 : required [.lit '='] (descOf [.lit '=']) { s1 with curFieldName := some name } with
    | fail a s' => rw [hr2] at hg2; exact hg2
    | ok t2 s2 =>
      rw [hr2] at hg2
      simp only
      have hg3 := parseValue_rok hg2
      cases hr3 : parseValue s2 with
      | fail a s' => rw [hr3] at hg3; exact hg3
      | ok u s3 =>
        rw [hr3] at hg3
        exact ⟨hg3.1.setItem _ _ (VOK.flatten hg3.2.1), hg3.2.1, hg3.2.2.1, hg3.2.2.2⟩

/-- a parsed command whose field values are well nested -/
def CmdOK : Cmd → Prop
  | .entry _ _ fs => ∀ f ∈ fs, ∀ p ∈ f.2, VOK p
  | _ => True

theorem afterBody_rok (body : Res Unit) (bodyEnd : Pat) :
    ROK body →
    ROK (match body with
      | .fail e s => .fail e s
      | .ok _ s =>
        match required [bodyEnd] (descOf [bodyEnd]) s with
        | .fail e s => .fail e s
        | .ok _ s => (.ok () s : Res Unit)) := by
  intro hb
  cases body with
  | fail a s' => exact hb
  | ok u s1 =>
    simp only
    obtain ⟨hg, _⟩ := required_rok [bodyEnd] (descOf [bodyEnd]) (s := s1) hb
    cases hr : required [bodyEnd] (descOf [bodyEnd]) s1 with
    | fail a s' => rw [hr] at hg; exact hg
    | ok t s2 => rw [hr] at hg; exact hg

/-- result of `parse_command`: state fine, command fine -/
def CROK : Res Cmd → Prop
  | .ok c s' => SOK s' ∧ CmdOK c
  | .fail a s' => SOK s' ∧ AOK a

theorem finish_rok (ab : Res Unit) (mk : St → Cmd) (hmk : ∀ s, SOK s → CmdOK (mk s)) :
    ROK ab →
    CROK (match ab with
      | .ok _ s => .ok (mk s) s
      | .fail (.syn e) s =>
        match handleError s e with
        | .fail a s => .fail a s
        | .ok _ s => .ok (mk s) s
      | .fail a s => .fail a s) := by
  intro h
  cases ab with
  | ok u s1 => exact ⟨h, hmk _ h⟩
  | fail a s1 =>
    cases a with
    | syn e =>
      simp only
      have hg := handleError_rok h.1 (e := e) h.2
      cases hr : handleError s1 e with
      | fail a s' => rw [hr] at hg; exact hg
      | ok u s' => rw [hr] at hg; exact ⟨hg, hmk _ hg⟩
    | skip => exact h
    | raised e => exact h

theorem parseCommand_rok {s : St} (h : SOK s) : CROK (parseCommand s) := by
  unfold parseCommand
  simp only
  have h0 : SOK { s with curKey := none, curFields := [], curFieldName := none, curValue := [] } :=
    ⟨h.1, by simp, by simp, h.2.2.2⟩
  obtain ⟨hg, _⟩ := required_rok [.name] (descOf [.name]) h0
  cases hr : required [.name] (descOf [.name])
      { s with curKey := none, curFields := [], curFieldName := none, curValue := [] } with
  | fail a s' => rw [hr] at hg; exact hg
  | ok t s1 =>
    rw [hr] at hg
    obtain ⟨_, command⟩ := t
    simp only
    obtain ⟨hg2, _⟩ := required_rok [.lit '(', .lit '{'] (descOf [.lit '(', .lit '{']) (s := s1) hg
    cases hr2 : required [.lit '(', .lit '{'] (descOf [.lit '(', .lit '{']) s1 with
    | fail a s' => rw [hr2] at hg2; exact hg2
    | ok t2 s2 =>
      rw [hr2] at hg2
      obtain ⟨open_, _⟩ := t2
      simp only
      split
      · exact ⟨hg2, trivial⟩
      · apply finish_rok
        · intro s' hs'
          split
          · trivial
          · trivial
          · exact hs'.2.2.1
        · apply afterBody_rok
          split
          · exact parseStringBody_rok hg2
          · exact parseValue_rok hg2
          · exact parseEntryBody_rok _ hg2


end Pybtex.Bib
