/-
Helper lemmas for C12 (`Props/C12.lean`): the scanner `scanM` against the reference notions of
`Spec/TeXString.lean`, and the primitives built on it.
-/
import PybtexModel.Model.TeXString
import PybtexModel.Spec.TeXString
import PybtexModel.Lemmas.Basic

namespace Pybtex
open Spec

/-! ### slices -/

theorem slice_eq {α} (s : List α) (a a' k k' : Nat)
    (h1 : min a s.length = min a' s.length)
    (h2 : min k (s.length - a) = min k' (s.length - a')) :
    (s.drop a).take k = (s.drop a').take k' := by
  by_cases ha : a < s.length
  · have : a = a' := by omega
    subst this
    rw [List.take_eq_take_iff]
    simpa using h2
  · have h3 : s.length ≤ a := by omega
    have h4 : s.length ≤ a' := by omega
    rw [List.drop_eq_nil_of_le h3, List.drop_eq_nil_of_le h4]; simp

theorem pyNorm_max (n : Nat) (i : Int) : pyNorm n (max i 0) = min i.toNat n := by
  unfold pyNorm
  have : ¬ (max i 0 < 0) := by omega
  rw [if_neg this]; omega

theorem bibtexSubstring_eq_spec (s : Str) (start len : Int) :
    bibtexSubstring s start len = Spec.substring s start len := by
  unfold bibtexSubstring Spec.substring pySlice
  simp only [pyNorm_max]
  by_cases h0 : start = 0
  · simp [h0]
  by_cases hl : len ≤ 0
  · simp only [hl, true_or, if_true]
    split
    · simp only [List.take_eq_nil_iff]; left; omega
    · split
      · simp only [List.take_eq_nil_iff]; left; omega
      · rfl
  · simp only [hl, h0, or_self, if_false]
    split
    · apply slice_eq <;> omega
    · rename_i hneg
      have hneg' : start < 0 := by omega
      simp only [hneg', if_true]
      split
      · simp only [List.take_eq_nil_iff]; left; omega
      · apply slice_eq <;> omega

/-! ### the scanner against the reference state machine -/

@[reducible] def ScanMode.sp : ScanMode → Bool
  | .norm _ => false
  | .spec _ _ => true
@[reducible] def ScanMode.depth : ScanMode → Nat
  | .norm d => d
  | .spec k _ => k
@[reducible] def ScanMode.acc : ScanMode → Str
  | .norm _ => []
  | .spec _ acc => acc

/-- concatenation of the token texts -/
def tokText (toks : List Tok) : Str := (toks.map Prod.fst).flatten

@[simp] theorem tokText_nil : tokText [] = [] := rfl
@[simp] theorem tokText_cons (t : Tok) (r : List Tok) : tokText (t :: r) = t.1 ++ tokText r := by
  simp [tokText]
@[simp] theorem tokText_append (a b : List Tok) : tokText (a ++ b) = tokText a ++ tokText b := by
  simp [tokText]

end Pybtex
