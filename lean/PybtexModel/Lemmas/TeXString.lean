/-
Helper lemmas for C12 (`Props/C12.lean`): the scanner `scanM` against the reference notions of
`Spec/TeXString.lean`, and the primitives built on it.
-/
import PybtexModel.Model.TeXString
import PybtexModel.Spec.TeXString
import PybtexModel.Lemmas.Basic

namespace Pybtex
open Spec

/-! ### slices -/

theorem slice_eq {α} (s : List α) (a a' k k' : Nat)
    (h1 : min a s.length = min a' s.length)
    (h2 : min k (s.length - a) = min k' (s.length - a')) :
    (s.drop a).take k = (s.drop a').take k' := by
  by_cases ha : a < s.length
  · have : a = a' := by omega
    subst this
    rw [List.take_eq_take_iff]
    simpa using h2
  · have h3 : s.length ≤ a := by omega
    have h4 : s.length ≤ a' := by omega
    rw [List.drop_eq_nil_of_le h3, List.drop_eq_nil_of_le h4]; simp

theorem pyNorm_max (n : Nat) (i : Int) : pyNorm n (max i 0) = min i.toNat n := by
  unfold pyNorm
  have : ¬ (max i 0 < 0) := by omega
  rw [if_neg this]; omega

theorem bibtexSubstring_eq_spec (s : Str) (start len : Int) :
    bibtexSubstring s start len = Spec.substring s start len := by
  unfold bibtexSubstring Spec.substring pySlice
  simp only [pyNorm_max]
  by_cases h0 : start = 0
  · simp [h0]
  by_cases hl : len ≤ 0
  · simp only [hl, true_or, if_true]
    split
    · simp only [List.take_eq_nil_iff]; left; omega
    · split
      · simp only [List.take_eq_nil_iff]; left; omega
      · rfl
  · simp only [hl, h0, or_self, if_false]
    split
    · apply slice_eq <;> omega
    · rename_i hneg
      have hneg' : start < 0 := by omega
      simp only [hneg', if_true]
      split
      · simp only [List.take_eq_nil_iff]; left; omega
      · apply slice_eq <;> omega

/-! ### the scanner against the reference state machine -/

@[reducible] def ScanMode.sp : ScanMode → Bool
  | .norm _ => false
  | .spec _ _ => true
@[reducible] def ScanMode.depth : ScanMode → Nat
  | .norm d => d
  | .spec k _ => k
@[reducible] def ScanMode.acc : ScanMode → Str
  | .norm _ => []
  | .spec _ acc => acc

/-- concatenation of the token texts -/
def tokText (toks : List Tok) : Str := (toks.map Prod.fst).flatten

@[simp] theorem tokText_nil : tokText [] = [] := rfl
@[simp] theorem tokText_cons (t : Tok) (r : List Tok) : tokText (t :: r) = t.1 ++ tokText r := by
  simp [tokText]
@[simp] theorem tokText_append (a b : List Tok) : tokText (a ++ b) = tokText a ++ tokText b := by
  simp [tokText]

def closeIf : Bool → Str | true => ['}'] | false => []

theorem scanM_text (m : ScanMode) (s : Str) (toks : List Tok) (h : scanM m s = some toks) :
    tokText toks = m.acc ++ s ++ closeIf (endsInSpecial m.sp m.depth s) := by
  fun_induction scanM m s generalizing toks with
  | case1 => cases h; simp [ScanMode.acc, ScanMode.sp, endsInSpecial, closeIf]
  | case2 => cases h; simp [ScanMode.acc, ScanMode.sp, endsInSpecial, closeIf]
  | case3 d r hs ih =>
    obtain ⟨t, ht, rfl⟩ := Option.map_eq_some_iff.1 h
    have := ih t ht
    simp only [ScanMode.acc, ScanMode.sp, ScanMode.depth, endsInSpecial] at this ⊢
    simp [this, hs]
  | case4 => simp at h
  | case5 d r hs hd ih =>
    obtain ⟨t, ht, rfl⟩ := Option.map_eq_some_iff.1 h
    have := ih t ht
    have hb : (decide (d = 0) && decide (r.head? = some '\\')) = false := by
      simpa using hs
    simp only [ScanMode.acc, ScanMode.sp, ScanMode.depth, endsInSpecial] at this ⊢
    rw [hb]; simp [this]
  | case6 d c r hc hcd ih =>
    obtain ⟨t, ht, rfl⟩ := Option.map_eq_some_iff.1 h
    have := ih t ht
    simp only [ScanMode.acc, ScanMode.sp, ScanMode.depth, endsInSpecial] at this ⊢
    simp [this, hcd.1]
  | case7 d c r hc hcd ih =>
    obtain ⟨t, ht, rfl⟩ := Option.map_eq_some_iff.1 h
    have := ih t ht
    simp only [ScanMode.acc, ScanMode.sp, ScanMode.depth, endsInSpecial] at this ⊢
    by_cases hc' : c = '}'
    · have : d = 0 := by simp [hc'] at hcd; exact hcd
      subst this; simp_all
    · simp [this, hc, hc']
  | case8 => simp at h
  | case9 k acc r hk ih =>
    have := ih toks h
    simp only [ScanMode.acc, ScanMode.sp, ScanMode.depth, endsInSpecial] at this ⊢
    simp [this]
  | case10 k acc r hk _ ih =>
    obtain ⟨t, ht, rfl⟩ := Option.map_eq_some_iff.1 h
    have := ih t ht
    simp only [ScanMode.acc, ScanMode.sp, ScanMode.depth, endsInSpecial] at this ⊢
    have h1 : ¬ (1 < k) := by omega
    have h2 : k - 1 = 0 := by omega
    simp [this, h1, h2]
  | case11 k acc r hk _ ih =>
    have := ih toks h
    simp only [ScanMode.acc, ScanMode.sp, ScanMode.depth, endsInSpecial] at this ⊢
    have h1 : (1 < k) := by omega
    simp [this, h1]
  | case12 k acc c r hc hc2 ih =>
    have := ih toks h
    simp only [ScanMode.acc, ScanMode.sp, ScanMode.depth, endsInSpecial] at this ⊢
    simp [this, hc, hc2]

/-! ### balanced strings have no unclosed special character -/

theorem endsInSpecial_of_depthAfter (s : Str) : ∀ (sp : Bool) (d e : Nat),
    depthAfter d s = some e → (sp = true → 1 ≤ d) → endsInSpecial sp d s = true → 1 ≤ e := by
  induction s with
  | nil => intro sp d e h hs he; simp [depthAfter] at h; simp [endsInSpecial] at he; subst h; exact hs he
  | cons c r ih =>
    intro sp d e h hs he
    simp only [depthAfter, endsInSpecial] at h he
    split at h
    · simp only [if_pos ‹c = '{'›] at he
      exact ih _ _ _ h (by intro; omega) he
    · simp only [if_neg ‹¬ c = '{'›] at he
      split at h
      · simp only [if_pos ‹c = '}'›] at he
        split at h
        · cases h
        · refine ih _ _ _ h ?_ he
          simp; omega
      · simp only [if_neg ‹¬ c = '}'›] at he
        exact ih _ _ _ h hs he

theorem specialsClosed_of_balanced (s : Str) (h : balanced s = true) : specialsClosed s = true := by
  simp only [balanced, decide_eq_true_eq] at h
  simp only [specialsClosed, Bool.not_eq_true']
  cases he : endsInSpecial false 0 s with
  | false => rfl
  | true => have := endsInSpecial_of_depthAfter s false 0 0 h (by simp) he; omega

theorem depthAfter_append (a b : Str) : ∀ d, depthAfter d (a ++ b) = (depthAfter d a).bind fun d' => depthAfter d' b := by
  induction a with
  | nil => intro d; simp [depthAfter]
  | cons c r ih =>
    intro d
    simp only [List.cons_append, depthAfter]
    split
    · exact ih _
    · split
      · split
        · rfl
        · exact ih _
      · exact ih _

/-! ### levels -/

/-- every token's level is the brace depth after it, starting from depth `d` -/
def LevelChain : Nat → List Tok → Prop
  | _, [] => True
  | d, (t, l) :: r => depthAfter d t = some l ∧ LevelChain l r

theorem LevelChain.prefix {d : Nat} {toks : List Tok} (h : LevelChain d toks) :
    ∀ pre t post, toks = pre ++ t :: post → depthAfter d (tokText (pre ++ [t])) = some t.2 := by
  induction toks generalizing d with
  | nil => intro pre t post h; simp at h
  | cons t0 r ih =>
    intro pre t post heq
    obtain ⟨t0t, t0l⟩ := t0
    cases pre with
    | nil =>
      simp only [List.nil_append, List.cons.injEq] at heq
      obtain ⟨rfl, rfl⟩ := heq
      simpa [tokText] using h.1
    | cons p pre' =>
      simp only [List.cons_append, List.cons.injEq] at heq
      obtain ⟨rfl, rfl⟩ := heq
      simp only [List.cons_append, tokText_cons, depthAfter_append, h.1, Option.bind_some]
      exact ih h.2 pre' t post rfl

def LevelsGoal (s : Str) (toks : List Tok) : ScanMode → Prop
  | .norm d => ∀ e, depthAfter d s = some e → endsInSpecial false d s = false → LevelChain d toks
  | .spec k acc => ∀ e, depthAfter k s = some e → endsInSpecial true k s = false →
      1 ≤ k → depthAfter 1 acc = some k → LevelChain 1 toks

theorem scanM_levels (m : ScanMode) (s : Str) (toks : List Tok) (h : scanM m s = some toks) :
    LevelsGoal s toks m := by
  fun_induction scanM m s generalizing toks with
  | case1 => cases h; simp [LevelsGoal, LevelChain]
  | case2 => simp [LevelsGoal, endsInSpecial]
  | case3 d r hs ih =>
    obtain ⟨t, ht, rfl⟩ := Option.map_eq_some_iff.1 h
    simp only [LevelsGoal]
    intro e hd hsp
    simp only [depthAfter, endsInSpecial, if_true] at hd hsp
    obtain ⟨rfl, hr⟩ := hs
    have := ih t ht e hd (by simpa [hr] using hsp)
    exact ⟨by simp [depthAfter], this (by omega) (by simp [depthAfter])⟩
  | case4 => simp at h
  | case5 d r hs hd' ih =>
    obtain ⟨t, ht, rfl⟩ := Option.map_eq_some_iff.1 h
    have hb : (decide (d = 0) && decide (r.head? = some '\\')) = false := by
      simpa using hs
    simp only [LevelsGoal]
    intro e hd hsp
    simp only [depthAfter, endsInSpecial, if_true] at hd hsp
    rw [hb] at hsp
    have := ih t ht e hd (by simpa using hsp)
    exact ⟨by simp [depthAfter], this⟩
  | case6 d c r hc hcd ih =>
    obtain ⟨t, ht, rfl⟩ := Option.map_eq_some_iff.1 h
    obtain ⟨rfl, hd0⟩ := hcd
    have hne : d ≠ 0 := by omega
    simp only [LevelsGoal]
    intro e hd hsp
    simp only [depthAfter, endsInSpecial, if_true, if_neg hc, if_neg hne] at hd hsp
    have := ih t ht e hd (by simpa using hsp)
    exact ⟨by simp [depthAfter, hne], this⟩
  | case7 d c r hc hcd ih =>
    obtain ⟨t, ht, rfl⟩ := Option.map_eq_some_iff.1 h
    simp only [LevelsGoal]
    intro e hd hsp
    by_cases hc' : c = '}'
    · have : d = 0 := by simp [hc'] at hcd; exact hcd
      subst this; subst hc'
      simp [depthAfter] at hd
    · simp only [depthAfter, endsInSpecial, if_neg hc, if_neg hc'] at hd hsp
      have := ih t ht e hd hsp
      exact ⟨by simp [depthAfter, hc, hc'], this⟩
  | case8 => simp at h
  | case9 k acc r hk ih =>
    simp only [LevelsGoal]
    intro e hd hsp h1 h2
    simp only [depthAfter, endsInSpecial, if_true] at hd hsp
    exact ih toks h e hd (by simpa using hsp) (by omega) (by simp [depthAfter_append, h2, depthAfter])
  | case10 k acc r hk hne ih =>
    obtain ⟨t, ht, rfl⟩ := Option.map_eq_some_iff.1 h
    simp only [LevelsGoal]
    intro e hd hsp h1 h2
    have hk1 : k = 1 := by omega
    subst hk1
    simp only [depthAfter, endsInSpecial, if_true, if_neg hne] at hd hsp
    simp at hd hsp
    have := ih t ht e hd hsp
    exact ⟨h2, by simp [depthAfter], this⟩
  | case11 k acc r hk hne ih =>
    have hk0 : k ≠ 0 := by omega
    have hk1 : 1 < k := by omega
    simp only [LevelsGoal]
    intro e hd hsp h1 h2
    simp only [depthAfter, endsInSpecial, if_true, if_neg hne, if_neg hk0] at hd hsp
    exact ih toks h e hd (by simpa [hk1] using hsp) (by omega) (by simp [depthAfter_append, h2, depthAfter, hk0])
  | case12 k acc c r hc hc2 ih =>
    simp only [LevelsGoal]
    intro e hd hsp h1 h2
    simp only [depthAfter, endsInSpecial, if_neg hc, if_neg hc2] at hd hsp
    exact ih toks h e hd hsp h1 (by simp [depthAfter_append, h2, depthAfter, hc, hc2])

/-! ### the nesting guard -/

theorem le_maxDepth (s : Str) (d : Nat) : d ≤ maxDepth d s := by
  cases s with
  | nil => simp [maxDepth]
  | cons c r => simp only [maxDepth]; split <;> [skip; split] <;> omega

theorem scanM_isSome_iff (m : ScanMode) (s : Str) (hm : m.depth ≤ maxLevel) :
    (scanM m s).isSome ↔ maxDepth m.depth s ≤ maxLevel := by
  fun_induction scanM m s with
  | case1 => simpa [maxDepth] using hm
  | case2 => simpa [maxDepth] using hm
  | case3 d r hs ih =>
    obtain ⟨rfl, hr⟩ := hs
    simp only [Option.isSome_map, maxDepth, if_true]
    simp only [ScanMode.depth] at ih hm ⊢
    rw [ih (by simp [maxLevel])]
    have := le_maxDepth r 1
    simp only [Nat.zero_add]; omega
  | case4 d r hs hd =>
    simp only [maxDepth, if_true, ScanMode.depth, Option.isSome_none] at hm ⊢
    have := le_maxDepth r (d + 1)
    simp only [maxLevel, Bool.false_eq_true, false_iff] at *; omega
  | case5 d r hs hd ih =>
    simp only [Option.isSome_map, maxDepth, if_true]
    simp only [ScanMode.depth] at ih hm ⊢
    rw [ih (by omega)]
    have := le_maxDepth r (d + 1)
    omega
  | case6 d c r hc hcd ih =>
    simp only [Option.isSome_map, maxDepth, if_neg hc, if_pos hcd.1]
    simp only [ScanMode.depth] at ih hm ⊢
    rw [ih (by omega)]
    omega
  | case7 d c r hc hcd ih =>
    simp only [Option.isSome_map, maxDepth, if_neg hc]
    simp only [ScanMode.depth] at ih hm ⊢
    rw [ih hm]
    by_cases hc' : c = '}'
    · have : d = 0 := by simp [hc'] at hcd; exact hcd
      subst this; simp [hc']
    · simp only [if_neg hc']; omega
  | case8 k acc r hk =>
    simp only [maxDepth, if_true, ScanMode.depth, Option.isSome_none] at hm ⊢
    have := le_maxDepth r (k + 1)
    simp only [maxLevel, Bool.false_eq_true, false_iff] at *; omega
  | case9 k acc r hk ih =>
    simp only [maxDepth, if_true]
    simp only [ScanMode.depth] at ih hm ⊢
    rw [ih (by omega)]
    have := le_maxDepth r (k + 1)
    omega
  | case10 k acc r hk hne ih =>
    simp only [Option.isSome_map, maxDepth, if_neg hne, if_true]
    simp only [ScanMode.depth] at ih hm ⊢
    rw [ih (by simp)]
    have : k - 1 = 0 := by omega
    rw [this]; omega
  | case11 k acc r hk hne ih =>
    simp only [maxDepth, if_neg hne, if_true]
    simp only [ScanMode.depth] at ih hm ⊢
    rw [ih (by omega)]
    omega
  | case12 k acc c r hc hc2 ih =>
    simp only [maxDepth, if_neg hc, if_neg hc2]
    simp only [ScanMode.depth] at ih hm ⊢
    rw [ih hm]
    omega

/-! ### text length -/

/-- number of tokens that are not a brace -/
def tokCount (toks : List Tok) : Nat := (toks.filter fun t => !isBraceTok t.1).length

@[simp] theorem tokCount_nil : tokCount [] = 0 := rfl
theorem tokCount_cons (t : Tok) (r : List Tok) :
    tokCount (t :: r) = (if isBraceTok t.1 then 0 else 1) + tokCount r := by
  simp only [tokCount, List.filter_cons]
  cases isBraceTok t.1 <;> simp
  omega

theorem isBraceTok_open : isBraceTok ['{'] = true := by decide
theorem isBraceTok_close : isBraceTok ['}'] = true := by decide
theorem isBraceTok_single (c : Char) : isBraceTok [c] = (c = '{' || c = '}') := by
  simp [isBraceTok]
theorem isBraceTok_of_head {t : Str} (h : t.head? = some '\\') : isBraceTok t = false := by
  cases t with
  | nil => simp at h
  | cons c r =>
    simp only [List.head?_cons, Option.some.injEq] at h
    subst h
    simp [isBraceTok]

theorem bibtexLen_eq (s : Str) : bibtexLen s = (scan s).map tokCount := rfl

def CountGoal (s : Str) (toks : List Tok) : ScanMode → Prop
  | .norm d => tokCount toks = textLength false d s
  | .spec k acc => (acc ++ s).head? = some '\\' → tokCount toks = 1 + textLength true k s

theorem scanM_count (m : ScanMode) (s : Str) (toks : List Tok) (h : scanM m s = some toks) :
    CountGoal s toks m := by
  fun_induction scanM m s generalizing toks with
  | case1 => cases h; simp [CountGoal, textLength]
  | case2 k acc =>
    cases h
    simp only [CountGoal, List.append_nil]
    intro hh
    simp [tokCount_cons, isBraceTok_of_head hh, isBraceTok_close, textLength]
  | case3 d r hs ih =>
    obtain ⟨t, ht, rfl⟩ := Option.map_eq_some_iff.1 h
    obtain ⟨rfl, hr⟩ := hs
    have := ih t ht
    simp only [CountGoal, List.nil_append] at this ⊢
    simp [tokCount_cons, isBraceTok_open, textLength, hr, this hr]
  | case4 => simp at h
  | case5 d r hs hd' ih =>
    obtain ⟨t, ht, rfl⟩ := Option.map_eq_some_iff.1 h
    have hb : (decide (d = 0) && decide (r.head? = some '\\')) = false := by
      simpa using hs
    have := ih t ht
    simp only [CountGoal] at this ⊢
    simp only [tokCount_cons, isBraceTok_open, textLength, if_true, hb, this]
    simp
  | case6 d c r hc hcd ih =>
    obtain ⟨t, ht, rfl⟩ := Option.map_eq_some_iff.1 h
    obtain ⟨rfl, hd0⟩ := hcd
    have := ih t ht
    simp only [CountGoal] at this ⊢
    simp only [tokCount_cons, isBraceTok_close, textLength, if_true, if_neg hc, this]
    simp
  | case7 d c r hc hcd ih =>
    obtain ⟨t, ht, rfl⟩ := Option.map_eq_some_iff.1 h
    have := ih t ht
    simp only [CountGoal] at this ⊢
    by_cases hc' : c = '}'
    · have : d = 0 := by simp [hc'] at hcd; exact hcd
      subst this; subst hc'
      simp only [tokCount_cons, isBraceTok_close, textLength, if_true, if_neg hc, this]
      simp
    · simp only [tokCount_cons, isBraceTok_single, textLength, if_neg hc, if_neg hc', this]
      simp [hc, hc']
  | case8 => simp at h
  | case9 k acc r hk ih =>
    have := ih toks h
    simp only [CountGoal] at this ⊢
    intro hh
    rw [this (by simpa using hh)]
    simp [textLength]
  | case10 k acc r hk hne ih =>
    obtain ⟨t, ht, rfl⟩ := Option.map_eq_some_iff.1 h
    have := ih t ht
    simp only [CountGoal] at this ⊢
    intro hh
    have hacc : acc.head? = some '\\' := by
      cases acc with
      | nil => simp at hh
      | cons a acc' => simpa using hh
    have h1 : ¬ (1 < k) := by omega
    have h2 : k - 1 = 0 := by omega
    simp [tokCount_cons, isBraceTok_of_head hacc, isBraceTok_close, textLength, this, h1, h2]
  | case11 k acc r hk hne ih =>
    have := ih toks h
    simp only [CountGoal] at this ⊢
    intro hh
    have h1 : (1 < k) := by omega
    rw [this (by simpa using hh)]
    simp [textLength, h1]
  | case12 k acc c r hc hc2 ih =>
    have := ih toks h
    simp only [CountGoal] at this ⊢
    intro hh
    rw [this (by simpa using hh)]
    simp [textLength, hc, hc2]

/-- scanning text without braces: one token per character -/
theorem scanM_plain (s : Str) (d : Nat) (hs : ∀ c ∈ s, c ≠ '{' ∧ c ≠ '}') :
    scanM (.norm d) s = some (s.map fun c => ([c], d)) := by
  induction s with
  | nil => simp [scanM]
  | cons c r ih =>
    have hc := hs c (by simp)
    have := ih (fun x hx => hs x (List.mem_cons_of_mem _ hx))
    simp [scanM, hc.1, hc.2, this]

theorem tokCount_plain (s : Str) (d : Nat) (hs : ∀ c ∈ s, c ≠ '{' ∧ c ≠ '}') :
    tokCount (s.map fun c => ([c], d)) = s.length := by
  induction s with
  | nil => rfl
  | cons c r ih =>
    have hc := hs c (by simp)
    have := ih (fun x hx => hs x (List.mem_cons_of_mem _ hx))
    simp [tokCount_cons, isBraceTok_single, hc.1, hc.2, this]; omega

/-- the body of a group: from depth `j` to depth `j'` without ever closing the group -/
theorem scanM_spec_body (body rest : Str) : ∀ (j j' : Nat) (acc : Str),
    depthAfter j body = some j' → maxDepth (j + 1) body ≤ maxLevel →
    scanM (.spec (j + 1) acc) (body ++ rest) = scanM (.spec (j' + 1) (acc ++ body)) rest := by
  induction body with
  | nil => intro j j' acc h _; simp [depthAfter] at h; subst h; simp
  | cons c r ih =>
    intro j j' acc h hm
    simp only [depthAfter, maxDepth] at h hm
    simp only [List.cons_append, scanM]
    by_cases hc : c = '{'
    · simp only [if_pos hc] at h hm ⊢
      have := le_maxDepth r (j + 1 + 1)
      rw [if_neg (by omega), ih _ _ _ h (by omega)]
      simp [hc]
    · simp only [if_neg hc] at h hm ⊢
      by_cases hc' : c = '}'
      · simp only [if_pos hc'] at h hm ⊢
        by_cases hj : j = 0
        · simp [hj] at h
        · simp only [if_neg hj] at h
          rw [if_neg (by omega)]
          have e1 : j + 1 - 1 = (j - 1) + 1 := by omega
          rw [e1] at hm ⊢
          rw [ih _ _ _ h (by omega)]
          simp [hc']
      · simp only [if_neg hc'] at h hm ⊢
        rw [ih _ _ _ h (by omega)]
        simp

/-- a closed special character is three tokens: `{`, its inner text, `}` -/
theorem scan_special (body r : Str) (hb : balanced body = true) (hm : maxDepth 1 body ≤ maxLevel) :
    scan (['{', '\\'] ++ body ++ ['}'] ++ r) =
      (scan r).map fun t => (['{'], 1) :: ('\\' :: body, 1) :: (['}'], 0) :: t := by
  simp only [balanced, decide_eq_true_eq] at hb
  have := scanM_spec_body body ('}' :: r) 0 0 ['\\'] hb (by simpa using hm)
  simp only [scan, List.cons_append, List.nil_append, List.append_assoc, scanM, List.head?_cons,
    and_self, if_true]
  simp only [Nat.zero_add] at this
  simp only [this, scanM, List.cons_append, List.nil_append]
  simp [Function.comp_def]

theorem textLength_no_backslash (s : Str) (hs : ∀ c ∈ s, c ≠ '\\') : ∀ d,
    textLength false d s = (s.filter fun c => c ≠ '{' ∧ c ≠ '}').length := by
  induction s with
  | nil => intro d; rfl
  | cons c r ih =>
    intro d
    have := ih (fun x hx => hs x (List.mem_cons_of_mem _ hx))
    have hr : r.head? ≠ some '\\' := by
      cases r with
      | nil => simp
      | cons a r' => simpa using hs a (by simp)
    simp only [textLength, List.filter_cons]
    by_cases hc : c = '{'
    · simp [hc, hr, this]
    · by_cases hc' : c = '}'
      · simp [hc', this]
      · simp [hc, hc', this]; omega

/-! ### one step of the scanner -/

theorem scanM_norm_open_special {r : Str} (hr : r.head? = some '\\') :
    scanM (.norm 0) ('{' :: r) = (scanM (.spec 1 []) r).map ((['{'], 1) :: ·) := by
  simp [scanM, hr]

theorem scanM_norm_open {d : Nat} {r : Str} (hs : ¬ (d = 0 ∧ r.head? = some '\\')) (hd : ¬ d ≥ maxLevel) :
    scanM (.norm d) ('{' :: r) = (scanM (.norm (d + 1)) r).map ((['{'], d + 1) :: ·) := by
  simp only [scanM, if_true, if_neg hs, if_neg hd]

theorem scanM_norm_close {d : Nat} {r : Str} (hd : d > 0) :
    scanM (.norm d) ('}' :: r) = (scanM (.norm (d - 1)) r).map ((['}'], d - 1) :: ·) := by
  have h1 : ¬ ('}' = '{') := by decide
  simp only [scanM, if_neg h1, true_and, if_pos hd]

theorem scanM_norm_char {d : Nat} {c : Char} {r : Str} (hc : ¬ c = '{') (hcd : ¬ (c = '}' ∧ d > 0)) :
    scanM (.norm d) (c :: r) = (scanM (.norm d) r).map (([c], d) :: ·) := by
  simp only [scanM, if_neg hc, if_neg hcd]

theorem scanM_spec_open {k : Nat} {acc r : Str} (hk : ¬ k ≥ maxLevel) :
    scanM (.spec k acc) ('{' :: r) = scanM (.spec (k + 1) (acc ++ ['{'])) r := by
  simp only [scanM, if_true, if_neg hk]

theorem scanM_spec_close1 {k : Nat} {acc r : Str} (hk : k ≤ 1) :
    scanM (.spec k acc) ('}' :: r) = (scanM (.norm 0) r).map fun t => (acc, 1) :: (['}'], 0) :: t := by
  have h1 : ¬ ('}' = '{') := by decide
  simp only [scanM, if_neg h1, if_true, if_pos hk]

theorem scanM_spec_close {k : Nat} {acc r : Str} (hk : ¬ k ≤ 1) :
    scanM (.spec k acc) ('}' :: r) = scanM (.spec (k - 1) (acc ++ ['}'])) r := by
  have h1 : ¬ ('}' = '{') := by decide
  simp only [scanM, if_neg h1, if_true, if_neg hk]

theorem scanM_spec_char {k : Nat} {acc r : Str} {c : Char} (hc : ¬ c = '{') (hc2 : ¬ c = '}') :
    scanM (.spec k acc) (c :: r) = scanM (.spec k (acc ++ [c])) r := by
  simp only [scanM, if_neg hc, if_neg hc2]
/-! ### text prefix -/

/-- `prefixAux` with the level of the previous token made explicit (so that the closing braces
after the last token need no look-ahead) -/
def prefixGo (n : Int) : Nat → Nat → List Tok → Str
  | _, lvl, [] => List.replicate lvl '}'
  | len, _, (t, l) :: r =>
    let len' := if isBraceTok t then len else len + 1
    if (len' : Int) ≥ n then t ++ List.replicate l '}' else t ++ prefixGo n len' l r

theorem prefixGo_cons_brace (n : Int) (len lvl : Nat) (t : Str) (l : Nat) (r : List Tok)
    (hb : isBraceTok t = true) :
    prefixGo n len lvl ((t, l) :: r) =
      if (len : Int) ≥ n then t ++ List.replicate l '}' else t ++ prefixGo n len l r := by
  simp only [prefixGo, hb, if_true]

theorem prefixGo_cons_nonbrace (n : Int) (len lvl : Nat) (t : Str) (l : Nat) (r : List Tok)
    (hb : isBraceTok t = false) :
    prefixGo n len lvl ((t, l) :: r) =
      if ((len + 1 : Nat) : Int) ≥ n then t ++ List.replicate l '}' else t ++ prefixGo n (len + 1) l r := by
  simp only [prefixGo, hb, Bool.false_eq_true, if_false]

theorem prefixAux_eq_go (n : Int) (toks : List Tok) : toks ≠ [] → ∀ len lvl,
    prefixAux n len toks = prefixGo n len lvl toks := by
  induction toks with
  | nil => intro h; exact absurd rfl h
  | cons t r ih =>
    intro _ len lvl
    obtain ⟨t, l⟩ := t
    simp only [prefixAux, prefixGo]
    generalize (if isBraceTok t = true then len else len + 1) = len'
    by_cases hstop : (len' : Int) ≥ n
    · simp only [if_pos hstop]
    · simp only [if_neg hstop]
      cases r with
      | nil => simp [prefixGo]
      | cons x r' => simp only; rw [ih (by simp)]

theorem prefixAux_zero_eq_go (n : Int) (toks : List Tok) (len : Nat) :
    prefixAux n len toks = prefixGo n len 0 toks := by
  cases toks with
  | nil => simp [prefixAux, prefixGo]
  | cons t r => exact prefixAux_eq_go n _ (by simp) len 0

theorem scanM_closers (d : Nat) :
    ∃ toks', scanM (.norm d) (List.replicate d '}') = some toks' ∧ tokCount toks' = 0 := by
  induction d with
  | zero => exact ⟨[], by simp [scanM], by simp⟩
  | succ d ih =>
    obtain ⟨t, ht, hc⟩ := ih
    refine ⟨(['}'], d) :: t, ?_, ?_⟩
    · rw [List.replicate_succ, scanM_norm_close (by omega)]
      simp [ht]
    · simp [tokCount_cons, isBraceTok_close, hc]

theorem scanM_norm_cons_shape {d : Nat} {c : Char} {r : Str} {toks : List Tok}
    (h : scanM (.norm d) (c :: r) = some toks) : ∃ l rest, toks = ([c], l) :: rest := by
  simp only [scanM] at h
  split at h
  · rename_i hc; subst hc
    split at h
    · obtain ⟨t, _, rfl⟩ := Option.map_eq_some_iff.1 h; exact ⟨_, _, rfl⟩
    · split at h
      · cases h
      · obtain ⟨t, _, rfl⟩ := Option.map_eq_some_iff.1 h; exact ⟨_, _, rfl⟩
  · split at h
    · rename_i hc; obtain ⟨rfl, _⟩ := hc
      obtain ⟨t, _, rfl⟩ := Option.map_eq_some_iff.1 h; exact ⟨_, _, rfl⟩
    · obtain ⟨t, _, rfl⟩ := Option.map_eq_some_iff.1 h; exact ⟨_, _, rfl⟩

theorem prefixGo_head (n : Int) (len d : Nat) (r : Str) (toks : List Tok)
    (h : scanM (.norm d) r = some toks) (hh : (prefixGo n len d toks).head? = some '\\') :
    r.head? = some '\\' := by
  cases r with
  | nil =>
    simp only [scanM, Option.some.injEq] at h
    subst h
    simp only [prefixGo] at hh
    cases d with
    | zero => simp at hh
    | succ d => simp [List.replicate_succ] at hh
  | cons c r' =>
    obtain ⟨l, rest, rfl⟩ := scanM_norm_cons_shape h
    cases hb : isBraceTok [c] with
    | true =>
      rw [prefixGo_cons_brace _ _ _ _ _ _ hb] at hh
      split at hh <;> simpa using hh
    | false =>
      rw [prefixGo_cons_nonbrace _ _ _ _ _ _ hb] at hh
      split at hh <;> simpa using hh

def PrefixGoal (n : Int) (s : Str) (toks : List Tok) : ScanMode → Prop
  | .norm d => ∀ len : Nat, (len : Int) < n →
      ∃ toks', scanM (.norm d) (prefixGo n len d toks) = some toks' ∧
        tokCount toks' = min (n - len).toNat (tokCount toks)
  | .spec k acc => (acc ++ s).head? = some '\\' → ∀ len : Nat, (len : Int) < n →
      ∃ Y toks', prefixGo n len 1 toks = acc ++ Y ∧ (acc ++ Y).head? = some '\\' ∧
        scanM (.spec k acc) Y = some toks' ∧
        tokCount toks' = min (n - len).toNat (tokCount toks)

theorem head_acc_of_close {acc r : Str} (hh : (acc ++ '}' :: r).head? = some '\\') :
    acc.head? = some '\\' := by
  cases acc with
  | nil => simp at hh
  | cons a acc' => simpa using hh

theorem scanM_prefix (n : Int) (m : ScanMode) (s : Str) (toks : List Tok) (h : scanM m s = some toks) :
    PrefixGoal n s toks m := by
  fun_induction scanM m s generalizing toks with
  | case1 d =>
    cases h
    simp only [PrefixGoal, prefixGo, tokCount_nil]
    intro len hlen
    obtain ⟨t, ht, hc⟩ := scanM_closers d
    exact ⟨t, ht, by omega⟩
  | case2 k acc =>
    cases h
    simp only [PrefixGoal, List.append_nil]
    intro hh len hlen
    have hb := isBraceTok_of_head hh
    have hY : prefixGo n len 1 [(acc, 1), (['}'], 0)] = acc ++ ['}'] := by
      rw [prefixGo_cons_nonbrace _ _ _ _ _ _ hb, prefixGo_cons_brace _ _ _ _ _ _ isBraceTok_close]
      simp [prefixGo]
    have hh2 : (acc ++ ['}']).head? = some '\\' := by
      cases acc with
      | nil => simp at hh
      | cons a acc' => simpa using hh
    by_cases hk : k ≤ 1
    · refine ⟨['}'], [(acc, 1), (['}'], 0)], hY, hh2, by rw [scanM_spec_close1 hk]; simp [scanM], ?_⟩
      simp [tokCount_cons, hb, isBraceTok_close]; omega
    · refine ⟨['}'], [(acc ++ ['}'], 1), (['}'], 0)], hY, hh2, by rw [scanM_spec_close hk]; simp [scanM], ?_⟩
      simp [tokCount_cons, hb, isBraceTok_close, isBraceTok_of_head hh2]; omega
  | case3 d r hs ih =>
    obtain ⟨t, ht, rfl⟩ := Option.map_eq_some_iff.1 h
    obtain ⟨rfl, hr⟩ := hs
    have := ih t ht
    simp only [PrefixGoal, List.nil_append] at this ⊢
    intro len hlen
    obtain ⟨Y, toks', h1, h2, h3, h4⟩ := this hr len hlen
    refine ⟨(['{'], 1) :: toks', ?_, ?_⟩
    · rw [prefixGo_cons_brace _ _ _ _ _ _ isBraceTok_open, if_neg (by omega), h1]
      simp only [List.cons_append, List.nil_append]
      rw [scanM_norm_open_special h2, h3]; rfl
    · simp [tokCount_cons, isBraceTok_open, h4]
  | case4 => simp at h
  | case5 d r hs hd' ih =>
    obtain ⟨t, ht, rfl⟩ := Option.map_eq_some_iff.1 h
    have := ih t ht
    simp only [PrefixGoal] at this ⊢
    intro len hlen
    obtain ⟨toks', h3, h4⟩ := this len hlen
    refine ⟨(['{'], d + 1) :: toks', ?_, ?_⟩
    · rw [prefixGo_cons_brace _ _ _ _ _ _ isBraceTok_open, if_neg (by omega)]
      simp only [List.cons_append, List.nil_append]
      have hX : ¬ (d = 0 ∧ (prefixGo n len (d + 1) t).head? = some '\\') := by
        rintro ⟨hd0, hX⟩
        exact hs ⟨hd0, prefixGo_head n len (d + 1) r t ht hX⟩
      rw [scanM_norm_open hX hd', h3]; rfl
    · simp [tokCount_cons, isBraceTok_open, h4]
  | case6 d c r hc hcd ih =>
    obtain ⟨t, ht, rfl⟩ := Option.map_eq_some_iff.1 h
    have := ih t ht
    simp only [PrefixGoal] at this ⊢
    intro len hlen
    obtain ⟨toks', h3, h4⟩ := this len hlen
    refine ⟨(['}'], d - 1) :: toks', ?_, ?_⟩
    · rw [prefixGo_cons_brace _ _ _ _ _ _ isBraceTok_close, if_neg (by omega)]
      simp only [List.cons_append, List.nil_append]
      rw [scanM_norm_close hcd.2, h3]; rfl
    · simp [tokCount_cons, isBraceTok_close, h4]
  | case7 d c r hc hcd ih =>
    obtain ⟨t, ht, rfl⟩ := Option.map_eq_some_iff.1 h
    have := ih t ht
    simp only [PrefixGoal] at this ⊢
    intro len hlen
    by_cases hc' : c = '}'
    · have hb : isBraceTok [c] = true := by simp [isBraceTok_single, hc']
      obtain ⟨toks', h3, h4⟩ := this len hlen
      refine ⟨([c], d) :: toks', ?_, ?_⟩
      · rw [prefixGo_cons_brace _ _ _ _ _ _ hb, if_neg (by omega)]
        simp only [List.cons_append, List.nil_append]
        rw [scanM_norm_char hc hcd, h3]; rfl
      · simp [tokCount_cons, hb, h4]
    · have hb : isBraceTok [c] = false := by simp [isBraceTok_single, hc, hc']
      rw [prefixGo_cons_nonbrace _ _ _ _ _ _ hb]
      by_cases hstop : ((len + 1 : Nat) : Int) ≥ n
      · obtain ⟨tc, htc, hcc⟩ := scanM_closers d
        refine ⟨([c], d) :: tc, ?_, ?_⟩
        · simp only [if_pos hstop, List.cons_append, List.nil_append]
          rw [scanM_norm_char hc hcd, htc]; rfl
        · simp [tokCount_cons, hb, hcc]; omega
      · obtain ⟨toks', h3, h4⟩ := this (len + 1) (by omega)
        refine ⟨([c], d) :: toks', ?_, ?_⟩
        · simp only [if_neg hstop, List.cons_append, List.nil_append]
          rw [scanM_norm_char hc hcd, h3]; rfl
        · simp [tokCount_cons, hb, h4]; omega
  | case8 => simp at h
  | case9 k acc r hk ih =>
    have := ih toks h
    simp only [PrefixGoal] at this ⊢
    intro hh len hlen
    obtain ⟨Y, toks', h1, h2, h3, h4⟩ := this (by simpa using hh) len hlen
    refine ⟨'{' :: Y, toks', by simpa using h1, by simpa using h2, ?_, h4⟩
    rw [scanM_spec_open hk, h3]
  | case10 k acc r hk hne ih =>
    obtain ⟨t, ht, rfl⟩ := Option.map_eq_some_iff.1 h
    have := ih t ht
    simp only [PrefixGoal] at this ⊢
    intro hh len hlen
    have hacc := head_acc_of_close hh
    have hb := isBraceTok_of_head hacc
    have hh2 : ∀ Z, (acc ++ '}' :: Z).head? = some '\\' := by
      intro Z
      cases acc with
      | nil => simp at hacc
      | cons a acc' => simpa using hacc
    by_cases hstop : ((len + 1 : Nat) : Int) ≥ n
    · refine ⟨['}'], [(acc, 1), (['}'], 0)], ?_, hh2 _, by rw [scanM_spec_close1 hk]; simp [scanM], ?_⟩
      · rw [prefixGo_cons_nonbrace _ _ _ _ _ _ hb, if_pos hstop]; rfl
      · simp [tokCount_cons, hb, isBraceTok_close]; omega
    · obtain ⟨toks', h3, h4⟩ := this (len + 1) (by omega)
      refine ⟨'}' :: prefixGo n (len + 1) 0 t, (acc, 1) :: (['}'], 0) :: toks', ?_, hh2 _, ?_, ?_⟩
      · rw [prefixGo_cons_nonbrace _ _ _ _ _ _ hb, if_neg hstop,
          prefixGo_cons_brace _ _ _ _ _ _ isBraceTok_close, if_neg (by omega)]
        rfl
      · rw [scanM_spec_close1 hk, h3]; rfl
      · simp [tokCount_cons, hb, isBraceTok_close, h4]; omega
  | case11 k acc r hk hne ih =>
    have := ih toks h
    simp only [PrefixGoal] at this ⊢
    intro hh len hlen
    obtain ⟨Y, toks', h1, h2, h3, h4⟩ := this (by simpa using hh) len hlen
    refine ⟨'}' :: Y, toks', by simpa using h1, by simpa using h2, ?_, h4⟩
    rw [scanM_spec_close hk, h3]
  | case12 k acc c r hc hc2 ih =>
    have := ih toks h
    simp only [PrefixGoal] at this ⊢
    intro hh len hlen
    obtain ⟨Y, toks', h1, h2, h3, h4⟩ := this (by simpa using hh) len hlen
    refine ⟨c :: Y, toks', by simpa using h1, by simpa using h2, ?_, h4⟩
    rw [scanM_spec_char hc hc2, h3]

/-! ### the text prefix is a prefix plus closing braces -/

/-- level of the last token (`lvl` if there is none) -/
def lastLvl : Nat → List Tok → Nat
  | lvl, [] => lvl
  | _, (_, l) :: r => lastLvl l r

theorem prefixGo_shape (n : Int) (toks : List Tok) : ∀ len lvl,
    ∃ pre post, toks = pre ++ post ∧
      prefixGo n len lvl toks = tokText pre ++ List.replicate (lastLvl lvl pre) '}' := by
  induction toks with
  | nil => intro len lvl; exact ⟨[], [], rfl, by simp [prefixGo, lastLvl]⟩
  | cons t r ih =>
    intro len lvl
    obtain ⟨t, l⟩ := t
    simp only [prefixGo]
    generalize (if isBraceTok t = true then len else len + 1) = len'
    by_cases hstop : (len' : Int) ≥ n
    · exact ⟨[(t, l)], r, rfl, by simp [if_pos hstop, lastLvl]⟩
    · obtain ⟨pre, post, h1, h2⟩ := ih len' l
      exact ⟨(t, l) :: pre, post, by simp [h1], by simp [if_neg hstop, h2, lastLvl]⟩

theorem depthSat_append (a b : Str) : ∀ d, depthSat d (a ++ b) = depthSat (depthSat d a) b := by
  induction a with
  | nil => intro d; rfl
  | cons c r ih =>
    intro d
    simp only [List.cons_append, depthSat]
    split
    · exact ih _
    · split <;> exact ih _

/-- every token's level is the saturating brace depth after it -/
def SatChain : Nat → List Tok → Prop
  | _, [] => True
  | d, (t, l) :: r => depthSat d t = l ∧ SatChain l r

theorem SatChain.depth {toks : List Tok} : ∀ {d : Nat}, SatChain d toks →
    depthSat d (tokText toks) = lastLvl d toks := by
  induction toks with
  | nil => intro d _; rfl
  | cons t r ih =>
    intro d h
    obtain ⟨t, l⟩ := t
    simp only [tokText_cons, depthSat_append, h.1, lastLvl]
    exact ih h.2

theorem SatChain.left {pre post : List Tok} : ∀ {d : Nat}, SatChain d (pre ++ post) → SatChain d pre := by
  induction pre with
  | nil => intro d _; trivial
  | cons t r ih =>
    intro d h
    obtain ⟨t, l⟩ := t
    exact ⟨h.1, ih h.2⟩

def SatGoal (s : Str) (toks : List Tok) : ScanMode → Prop
  | .norm d => endsInSpecial false d s = false → SatChain d toks
  | .spec k acc => endsInSpecial true k s = false → 1 ≤ k → depthSat 1 acc = k → SatChain 1 toks

theorem scanM_sat (m : ScanMode) (s : Str) (toks : List Tok) (h : scanM m s = some toks) :
    SatGoal s toks m := by
  fun_induction scanM m s generalizing toks with
  | case1 => cases h; simp [SatGoal, SatChain]
  | case2 => simp [SatGoal, endsInSpecial]
  | case3 d r hs ih =>
    obtain ⟨t, ht, rfl⟩ := Option.map_eq_some_iff.1 h
    simp only [SatGoal]
    intro hsp
    simp only [endsInSpecial, if_true] at hsp
    obtain ⟨rfl, hr⟩ := hs
    have := ih t ht (by simpa [hr] using hsp)
    exact ⟨by simp [depthSat], this (by omega) (by simp [depthSat])⟩
  | case4 => simp at h
  | case5 d r hs hd' ih =>
    obtain ⟨t, ht, rfl⟩ := Option.map_eq_some_iff.1 h
    have hb : (decide (d = 0) && decide (r.head? = some '\\')) = false := by
      simpa using hs
    simp only [SatGoal]
    intro hsp
    simp only [endsInSpecial, if_true] at hsp
    rw [hb] at hsp
    have := ih t ht (by simpa using hsp)
    exact ⟨by simp [depthSat], this⟩
  | case6 d c r hc hcd ih =>
    obtain ⟨t, ht, rfl⟩ := Option.map_eq_some_iff.1 h
    obtain ⟨rfl, hd0⟩ := hcd
    simp only [SatGoal]
    intro hsp
    simp only [endsInSpecial, if_true, if_neg hc] at hsp
    have := ih t ht (by simpa using hsp)
    exact ⟨by simp [depthSat], this⟩
  | case7 d c r hc hcd ih =>
    obtain ⟨t, ht, rfl⟩ := Option.map_eq_some_iff.1 h
    simp only [SatGoal]
    intro hsp
    by_cases hc' : c = '}'
    · have : d = 0 := by simp [hc'] at hcd; exact hcd
      subst this; subst hc'
      simp only [endsInSpecial, if_neg hc, if_true] at hsp
      have := ih t ht (by simpa using hsp)
      exact ⟨by simp [depthSat], this⟩
    · simp only [endsInSpecial, if_neg hc, if_neg hc'] at hsp
      have := ih t ht hsp
      exact ⟨by simp [depthSat, hc, hc'], this⟩
  | case8 => simp at h
  | case9 k acc r hk ih =>
    simp only [SatGoal]
    intro hsp h1 h2
    simp only [endsInSpecial, if_true] at hsp
    exact ih toks h (by simpa using hsp) (by omega) (by simp [depthSat_append, h2, depthSat])
  | case10 k acc r hk hne ih =>
    obtain ⟨t, ht, rfl⟩ := Option.map_eq_some_iff.1 h
    simp only [SatGoal]
    intro hsp h1 h2
    have hk1 : k = 1 := by omega
    subst hk1
    simp only [endsInSpecial, if_true, if_neg hne] at hsp
    simp at hsp
    have := ih t ht hsp
    exact ⟨h2, by simp [depthSat], this⟩
  | case11 k acc r hk hne ih =>
    have hk1 : 1 < k := by omega
    simp only [SatGoal]
    intro hsp h1 h2
    simp only [endsInSpecial, if_true, if_neg hne] at hsp
    exact ih toks h (by simpa [hk1] using hsp) (by omega) (by simp [depthSat_append, h2, depthSat])
  | case12 k acc c r hc hc2 ih =>
    simp only [SatGoal]
    intro hsp h1 h2
    simp only [endsInSpecial, if_neg hc, if_neg hc2] at hsp
    exact ih toks h hsp h1 (by simp [depthSat_append, h2, depthSat, hc, hc2])

/-- where the brace depth never goes negative, the saturating depth is the depth -/
theorem depthSat_of_depthAfter (s : Str) : ∀ d e, depthAfter d s = some e → depthSat d s = e := by
  induction s with
  | nil => intro d e h; simpa [depthAfter, depthSat] using h
  | cons c r ih =>
    intro d e h
    simp only [depthAfter, depthSat] at h ⊢
    split
    · rename_i hc; rw [if_pos hc] at h; exact ih _ _ h
    · rename_i hc; rw [if_neg hc] at h
      split
      · rename_i hc'; rw [if_pos hc'] at h
        split at h
        · cases h
        · exact ih _ _ h
      · rename_i hc'; rw [if_neg hc'] at h; exact ih _ _ h

/-! ### purify -/

theorem purifyTok_range (t : Tok) : ∀ c ∈ purifyTok t, isAlnum c = true ∨ c = ' ' := by
  intro c hc
  unfold purifyTok at hc
  split at hc
  · exact Or.inl (List.mem_filter.1 hc).2
  · split at hc
    · rename_i h; exact Or.inl (List.all_eq_true.1 h.2 c hc)
    · split at hc
      · simp at hc; exact Or.inr hc
      · simp at hc

theorem not_brace_of_alnum_or_space {c : Char} (h : isAlnum c = true ∨ c = ' ') : c ≠ '{' ∧ c ≠ '}' := by
  rcases h with h | rfl
  · constructor <;> rintro rfl <;> exact absurd h (by decide)
  · decide

theorem purifyTok_single {c : Char} (h : isAlnum c = true ∨ c = ' ') : purifyTok ([c], 0) = [c] := by
  rcases h with h | rfl
  · simp [purifyTok, h]
  · decide

theorem purify_fixed (p : Str) (hp : ∀ c ∈ p, isAlnum c = true ∨ c = ' ') : bibtexPurify p = some p := by
  unfold bibtexPurify scan
  rw [scanM_plain p 0 (fun c hc => not_brace_of_alnum_or_space (hp c hc))]
  simp only [Option.map_some, Option.some.injEq, List.map_map]
  induction p with
  | nil => rfl
  | cons c r ih =>
    have := ih (fun x hx => hp x (List.mem_cons_of_mem _ hx))
    simp only [List.map_cons, List.flatten_cons, Function.comp_apply, purifyTok_single (hp c (by simp)), this]
    rfl

/-! ### characters under ASCII case mapping -/

theorem isAlpha_eq (c : Char) : isAlpha c = c.isAlpha := by
  simp only [isAlpha, Char.isAlpha, Char.isUpper, Char.isLower, Char.toNat, UInt32.le_iff_toNat_le,
    ge_iff_le, Bool.decide_and]
  have h1 : 'A'.val.toNat = 65 := by decide
  have h2 : 'Z'.val.toNat = 90 := by decide
  have h3 : 'a'.val.toNat = 97 := by decide
  have h4 : 'z'.val.toNat = 122 := by decide
  rw [h1, h2, h3, h4]

theorem lowerC_of_not_alpha {c : Char} (h : isAlpha c = false) : lowerC c = c := by
  apply Char.toLower_eq_of_not_isUpper
  rw [isAlpha_eq] at h
  simp only [Char.isAlpha, Bool.or_eq_false_iff] at h
  simp [h.1]

theorem upperC_of_not_alpha {c : Char} (h : isAlpha c = false) : upperC c = c := by
  apply Char.toUpper_eq_of_not_isLower
  rw [isAlpha_eq] at h
  simp only [Char.isAlpha, Bool.or_eq_false_iff] at h
  simp [h.2]

theorem isAlpha_lowerC (c : Char) : isAlpha (lowerC c) = isAlpha c := by
  simp [isAlpha_eq, lowerC, Char.isAlpha_toLower_eq_isAlpha]

theorem isAlpha_upperC (c : Char) : isAlpha (upperC c) = isAlpha c := by
  simp [isAlpha_eq, upperC, Char.isAlpha_toUpper_eq_isAlpha]

theorem lowerC_upperC (c : Char) : lowerC (upperC c) = lowerC c := Char.toLower_toUpper_eq_toLower c
theorem upperC_upperC (c : Char) : upperC (upperC c) = upperC c := Char.toUpper_toUpper_eq_toUpper c

/-- a non-letter is the image of itself only -/
theorem lowerC_eq_iff {c x : Char} (hx : isAlpha x = false) : lowerC c = x ↔ c = x := by
  cases hc : isAlpha c with
  | false => rw [lowerC_of_not_alpha hc]
  | true =>
    constructor
    · intro h
      have := isAlpha_lowerC c
      rw [h, hx, hc] at this; cases this
    · intro h; rw [h, hx] at hc; cases hc

theorem eq_iff_of_lowerC_eq {a b x : Char} (h : lowerC a = lowerC b) (hx : isAlpha x = false) :
    a = x ↔ b = x := by
  rw [← lowerC_eq_iff hx, h, lowerC_eq_iff hx]

theorem isWs_of_lowerC_eq {a b : Char} (h : lowerC a = lowerC b) : isWs a = isWs b := by
  cases ha : isAlpha a with
  | false =>
    rw [lowerC_of_not_alpha ha] at h
    have hb : isAlpha b = false := by
      have := isAlpha_lowerC b; rw [← h, ha] at this; exact this.symm
    rw [lowerC_of_not_alpha hb] at h; rw [h]
  | true =>
    have hb : isAlpha b = true := by
      have h1 := isAlpha_lowerC b; have h2 := isAlpha_lowerC a; rw [← h, h2, ha] at h1; exact h1.symm
    have key : ∀ c, isAlpha c = true → isWs c = false := by
      intro c hc
      simp only [isAlpha, Bool.or_eq_true, Bool.and_eq_true, decide_eq_true_eq] at hc
      simp only [isWs, wsCodes, List.contains_eq_mem, List.mem_cons, List.not_mem_nil, or_false,
        decide_eq_false_iff_not]
      omega
    rw [key a ha, key b hb]

theorem brace_not_alpha : isAlpha '{' = false ∧ isAlpha '}' = false ∧ isAlpha '\\' = false ∧
    isAlpha ' ' = false ∧ isAlpha ':' = false := by decide

/-! strings -/

theorem upper_length (s : Str) : (upper s).length = s.length := by simp [upper]

theorem lower_upper (s : Str) : lower (upper s) = lower s := by
  induction s with
  | nil => rfl
  | cons c s ih => simp only [upper, List.map_cons, lower_cons, lowerC_upperC] at ih ⊢; rw [ih]

theorem upper_upper (s : Str) : upper (upper s) = upper s := by
  induction s with
  | nil => rfl
  | cons c s ih => simp only [upper, List.map_cons, upperC_upperC] at ih ⊢; rw [ih]

theorem lower_eq_cons {s' : Str} {c : Char} {r : Str} (h : lower s' = lower (c :: r)) :
    ∃ c' r', s' = c' :: r' ∧ lowerC c' = lowerC c ∧ lower r' = lower r := by
  cases s' with
  | nil => simp at h
  | cons c' r' =>
    simp only [lower_cons, List.cons.injEq] at h
    exact ⟨c', r', rfl, h.1, h.2⟩

theorem lower_eq_nil {s' : Str} (h : lower s' = lower []) : s' = [] := by
  cases s' with
  | nil => rfl
  | cons c' r' => simp at h

theorem length_eq_of_lower_eq {a b : Str} (h : lower a = lower b) : a.length = b.length := by
  have := congrArg List.length h
  simpa using this

theorem head_iff_of_lower_eq {a b : Str} (h : lower a = lower b) {x : Char} (hx : isAlpha x = false) :
    a.head? = some x ↔ b.head? = some x := by
  cases a with
  | nil => rw [lower_eq_nil h.symm]
  | cons c r =>
    obtain ⟨c', r', rfl, h1, _⟩ := lower_eq_cons h.symm
    simp only [List.head?_cons, Option.some.injEq]
    exact eq_iff_of_lowerC_eq h1.symm hx

/-! ### case conversion of one token -/

theorem lower_convertStr (m : CaseMode) (st : CaseState) (w : Str) : lower (convertStr m st w) = lower w := by
  cases m with
  | l => simp [convertStr]
  | u => simp [convertStr, lower_upper]
  | t => simp only [convertStr]; split <;> simp

theorem convertStr_idem (m : CaseMode) (st : CaseState) (w : Str) :
    convertStr m st (convertStr m st w) = convertStr m st w := by
  cases m with
  | l => simp [convertStr]
  | u => simp [convertStr, upper_upper]
  | t => simp only [convertStr]; split <;> simp

theorem joinWith_splitSpace (t : Str) : joinWith [' '] (splitSpace t) = t := by
  induction t with
  | nil => rfl
  | cons c r ih =>
    simp only [splitSpace]
    split
    · rename_i hc
      have hne : splitSpace r ≠ [] := by
        cases r with
        | nil => simp [splitSpace]
        | cons a r' => simp only [splitSpace]; split <;> [simp; (split <;> simp)]
      cases hs : splitSpace r with
      | nil => exact absurd hs hne
      | cons w ws => rw [hs] at ih; simp [joinWith, ih, hc]
    · cases hs : splitSpace r with
      | nil => rw [hs] at ih; simp only [joinWith] at ih ⊢; rw [← ih]
      | cons w ws =>
        rw [hs] at ih
        cases ws with
        | nil => simp only [joinWith] at ih ⊢; rw [ih]
        | cons w2 ws' => simp only [joinWith, List.cons_append] at ih ⊢; rw [ih]

theorem splitSpace_ne_nil (t : Str) : splitSpace t ≠ [] := by
  cases t with
  | nil => simp [splitSpace]
  | cons a r' => simp only [splitSpace]; split <;> [simp; (split <;> simp)]

theorem splitSpace_no_space (t : Str) : ∀ w ∈ splitSpace t, ' ' ∉ w := by
  induction t with
  | nil => simp [splitSpace]
  | cons c r ih =>
    simp only [splitSpace]
    split
    · intro w hw
      rcases List.mem_cons.1 hw with rfl | hw
      · simp
      · exact ih w hw
    · rename_i hc
      cases hs : splitSpace r with
      | nil => exact absurd hs (splitSpace_ne_nil r)
      | cons w0 ws =>
        rw [hs] at ih
        intro w hw
        rcases List.mem_cons.1 hw with rfl | hw
        · have := ih w0 (by simp)
          simp only [List.mem_cons, not_or]
          exact ⟨fun h => hc h.symm, this⟩
        · exact ih w (List.mem_cons_of_mem _ hw)

theorem splitSpace_word_cons {x rest : Str} (hx : ' ' ∉ x) :
    splitSpace (x ++ ' ' :: rest) = x :: splitSpace rest := by
  induction x with
  | nil => simp [splitSpace]
  | cons c r ih =>
    have hc : ¬ c = ' ' := fun h => hx (by simp [h])
    have := ih (fun h => hx (List.mem_cons_of_mem _ h))
    simp only [List.cons_append, splitSpace, if_neg hc, this]

theorem splitSpace_word {x : Str} (hx : ' ' ∉ x) : splitSpace x = [x] := by
  induction x with
  | nil => rfl
  | cons c r ih =>
    have hc : ¬ c = ' ' := fun h => hx (by simp [h])
    have := ih (fun h => hx (List.mem_cons_of_mem _ h))
    simp only [splitSpace, if_neg hc, this]

theorem splitSpace_joinWith (ws : List Str) (hne : ws ≠ []) (hw : ∀ w ∈ ws, ' ' ∉ w) :
    splitSpace (joinWith [' '] ws) = ws := by
  induction ws with
  | nil => exact absurd rfl hne
  | cons x r ih =>
    cases r with
    | nil => simpa [joinWith] using splitSpace_word (hw x (by simp))
    | cons y r' =>
      simp only [joinWith, List.append_assoc, List.cons_append, List.nil_append]
      rw [splitSpace_word_cons (hw x (by simp)), ih (by simp) (fun w h => hw w (List.mem_cons_of_mem _ h))]

theorem lower_joinWith_map (f : Str → Str) (hf : ∀ w, lower (f w) = lower w) (ws : List Str) :
    lower (joinWith [' '] (ws.map f)) = lower (joinWith [' '] ws) := by
  induction ws with
  | nil => rfl
  | cons x r ih =>
    cases r with
    | nil => simp [joinWith, hf]
    | cons y r' =>
      simp only [List.map_cons, joinWith, lower_append, hf] at ih ⊢
      rw [ih]

/-- the word map of `convertSpecial` -/
def specialWord (m : CaseMode) (st : CaseState) (w : Str) : Str :=
  if startsWithBackslash w then w else convertStr m st w

theorem convertSpecial_eq (m : CaseMode) (st : CaseState) (t : Str) :
    convertSpecial m st t = joinWith [' '] ((splitSpace t).map (specialWord m st)) := rfl

theorem lower_specialWord (m : CaseMode) (st : CaseState) (w : Str) : lower (specialWord m st w) = lower w := by
  simp only [specialWord]; split <;> simp [lower_convertStr]

theorem lower_convertSpecial (m : CaseMode) (st : CaseState) (t : Str) :
    lower (convertSpecial m st t) = lower t := by
  rw [convertSpecial_eq, lower_joinWith_map _ (lower_specialWord m st), joinWith_splitSpace]

theorem startsWithBackslash_of_lower_eq {a b : Str} (h : lower a = lower b) :
    startsWithBackslash a = startsWithBackslash b := by
  have := head_iff_of_lower_eq h brace_not_alpha.2.2.1
  simp only [startsWithBackslash]
  by_cases hb : b.head? = some '\\'
  · simp [hb, this.2 hb]
  · have : ¬ a.head? = some '\\' := fun ha => hb (this.1 ha)
    simp [hb, this]

theorem mem_iff_of_lower_eq {a b : Str} (h : lower a = lower b) {x : Char} (hx : isAlpha x = false) :
    x ∈ a ↔ x ∈ b := by
  induction a generalizing b with
  | nil => rw [lower_eq_nil h.symm]
  | cons c r ih =>
    obtain ⟨c', r', rfl, h1, h2⟩ := lower_eq_cons h.symm
    simp only [List.mem_cons]
    rw [ih h2.symm, eq_comm, eq_iff_of_lowerC_eq h1.symm hx, eq_comm]

theorem specialWord_idem (m : CaseMode) (st : CaseState) (w : Str) :
    specialWord m st (specialWord m st w) = specialWord m st w := by
  have h := startsWithBackslash_of_lower_eq (lower_specialWord m st w)
  cases hw : startsWithBackslash w with
  | true => simp [specialWord, hw]
  | false =>
    rw [hw] at h
    have e : specialWord m st w = convertStr m st w := by simp [specialWord, hw]
    rw [e] at h ⊢
    simp [specialWord, h, convertStr_idem]

theorem convertSpecial_idem (m : CaseMode) (st : CaseState) (t : Str) :
    convertSpecial m st (convertSpecial m st t) = convertSpecial m st t := by
  rw [convertSpecial_eq m st t]
  rw [convertSpecial_eq, splitSpace_joinWith]
  · rw [List.map_map]
    congr 1
    apply List.map_congr_left
    intro w _
    exact specialWord_idem m st w
  · simpa using splitSpace_ne_nil t
  · intro w hw
    obtain ⟨w0, hw0, rfl⟩ := List.mem_map.1 hw
    rw [mem_iff_of_lower_eq (lower_specialWord m st w0) brace_not_alpha.2.2.2.1]
    exact splitSpace_no_space t w0 hw0

/-! ### case conversion token by token -/

def caseNext (st : CaseState) (t : Str) : CaseState :=
  if t = [':'] then .afterColon
  else if (t ≠ [] ∧ t.all isWs) ∧ st = .afterColon then .start
  else .normal

def caseTok (m : CaseMode) (st : CaseState) (t : Tok) : Str :=
  match t with
  | (t, 0) => convertStr m st t
  | (t, l + 1) => if l + 1 = 1 ∧ startsWithBackslash t then convertSpecial m st t else t

def caseToks (m : CaseMode) : CaseState → List Tok → List Tok
  | _, [] => []
  | st, (t, 0) :: r => (caseTok m st (t, 0), 0) :: caseToks m (caseNext st t) r
  | st, (t, l + 1) :: r => (caseTok m st (t, l + 1), l + 1) :: caseToks m st r

theorem changeCaseAux_eq (m : CaseMode) (toks : List Tok) : ∀ st,
    changeCaseAux m st toks = tokText (caseToks m st toks) := by
  induction toks with
  | nil => intro st; rfl
  | cons t r ih =>
    intro st
    obtain ⟨t, l⟩ := t
    cases l with
    | zero => simp only [changeCaseAux, caseToks, tokText_cons, caseTok, caseNext, ih]
    | succ l => simp only [changeCaseAux, caseToks, tokText_cons, caseTok, ih]

theorem lower_caseTok (m : CaseMode) (st : CaseState) (t : Tok) : lower (caseTok m st t) = lower t.1 := by
  obtain ⟨t, l⟩ := t
  cases l with
  | zero => simp [caseTok, lower_convertStr]
  | succ l => simp only [caseTok]; split <;> simp [lower_convertSpecial]

theorem lower_caseToks (m : CaseMode) (toks : List Tok) : ∀ st,
    lower (tokText (caseToks m st toks)) = lower (tokText toks) := by
  induction toks with
  | nil => intro st; rfl
  | cons t r ih =>
    intro st
    obtain ⟨t, l⟩ := t
    cases l with
    | zero => simp only [caseToks, tokText_cons, lower_append, lower_caseTok, ih]
    | succ l => simp only [caseToks, tokText_cons, lower_append, lower_caseTok, ih]

/-! ### scanning strings with the same skeleton -/

/-- same token lengths and levels -/
def Shape (a b : List Tok) : Prop :=
  List.Forall₂ (fun t t' : Tok => t.1.length = t'.1.length ∧ t.2 = t'.2) a b

theorem Shape.cons' {t t' : Tok} {a b : List Tok} (h1 : t.1.length = t'.1.length) (h2 : t.2 = t'.2)
    (h : Shape a b) : Shape (t :: a) (t' :: b) := List.Forall₂.cons ⟨h1, h2⟩ h

theorem shape_eq {a : List Tok} : ∀ {b c : List Tok}, Shape a b → Shape a c → tokText b = tokText c → b = c := by
  induction a with
  | nil => intro b c hb hc _; cases hb; cases hc; rfl
  | cons t a ih =>
    intro b c hb hc htxt
    cases hb with
    | cons hb1 hb2 =>
      cases hc with
      | cons hc1 hc2 =>
        rename_i tb b' tc c'
        simp only [tokText_cons] at htxt
        have hlen : tb.1.length = tc.1.length := by rw [← hb1.1, hc1.1]
        obtain ⟨e1, e2⟩ := List.append_inj htxt hlen
        have e3 : tb = tc := Prod.ext e1 (by rw [← hb1.2, hc1.2])
        rw [e3, ih hb2 hc2 e2]

theorem endsInSpecial_of_lower_eq (s : Str) : ∀ (s' : Str) (sp : Bool) (d : Nat), lower s' = lower s →
    endsInSpecial sp d s' = endsInSpecial sp d s := by
  induction s with
  | nil => intro s' sp d h; rw [lower_eq_nil h]
  | cons c r ih =>
    intro s' sp d h
    obtain ⟨c', r', rfl, h1, h2⟩ := lower_eq_cons h
    have e1 := eq_iff_of_lowerC_eq h1 brace_not_alpha.1
    have e2 := eq_iff_of_lowerC_eq h1 brace_not_alpha.2.1
    have e3 := head_iff_of_lower_eq h2 brace_not_alpha.2.2.1
    simp only [endsInSpecial, e1, e2, e3, ih r' _ _ h2]

def SkelGoal (s : Str) (toks : List Tok) : ScanMode → Prop
  | .norm d => ∀ s', lower s' = lower s → ∃ toks', scanM (.norm d) s' = some toks' ∧ Shape toks toks'
  | .spec k acc => ∀ s' acc', lower s' = lower s → lower acc' = lower acc →
      ∃ toks', scanM (.spec k acc') s' = some toks' ∧ Shape toks toks'

theorem scanM_skel (m : ScanMode) (s : Str) (toks : List Tok) (h : scanM m s = some toks) :
    SkelGoal s toks m := by
  fun_induction scanM m s generalizing toks with
  | case1 d =>
    cases h
    simp only [SkelGoal]
    intro s' hs
    rw [lower_eq_nil hs]
    exact ⟨[], by simp [scanM], List.Forall₂.nil⟩
  | case2 k acc =>
    cases h
    simp only [SkelGoal]
    intro s' acc' hs hacc
    rw [lower_eq_nil hs]
    exact ⟨[(acc', 1), (['}'], 0)], by simp [scanM],
      Shape.cons' (length_eq_of_lower_eq hacc.symm) rfl (Shape.cons' rfl rfl List.Forall₂.nil)⟩
  | case3 d r hs ih =>
    obtain ⟨t, ht, rfl⟩ := Option.map_eq_some_iff.1 h
    obtain ⟨rfl, hr⟩ := hs
    have := ih t ht
    simp only [SkelGoal] at this ⊢
    intro s' hs'
    obtain ⟨c', r', rfl, h1, h2⟩ := lower_eq_cons hs'
    have hc' : c' = '{' := (eq_iff_of_lowerC_eq h1 brace_not_alpha.1).2 rfl
    subst hc'
    have hr' := (head_iff_of_lower_eq h2 brace_not_alpha.2.2.1).2 hr
    obtain ⟨toks', h3, h4⟩ := this r' [] h2 rfl
    exact ⟨(['{'], 1) :: toks', by rw [scanM_norm_open_special hr', h3]; rfl, Shape.cons' rfl rfl h4⟩
  | case4 => simp at h
  | case5 d r hs hd' ih =>
    obtain ⟨t, ht, rfl⟩ := Option.map_eq_some_iff.1 h
    have := ih t ht
    simp only [SkelGoal] at this ⊢
    intro s' hs'
    obtain ⟨c', r', rfl, h1, h2⟩ := lower_eq_cons hs'
    have hc' : c' = '{' := (eq_iff_of_lowerC_eq h1 brace_not_alpha.1).2 rfl
    subst hc'
    have hr' : ¬ (d = 0 ∧ r'.head? = some '\\') := fun hh =>
      hs ⟨hh.1, (head_iff_of_lower_eq h2 brace_not_alpha.2.2.1).1 hh.2⟩
    obtain ⟨toks', h3, h4⟩ := this r' h2
    exact ⟨(['{'], d + 1) :: toks', by rw [scanM_norm_open hr' hd', h3]; rfl, Shape.cons' rfl rfl h4⟩
  | case6 d c r hc hcd ih =>
    obtain ⟨t, ht, rfl⟩ := Option.map_eq_some_iff.1 h
    have := ih t ht
    simp only [SkelGoal] at this ⊢
    intro s' hs'
    obtain ⟨c', r', rfl, h1, h2⟩ := lower_eq_cons hs'
    have hc' : c' = '}' := (eq_iff_of_lowerC_eq h1 brace_not_alpha.2.1).2 hcd.1
    subst hc'
    obtain ⟨toks', h3, h4⟩ := this r' h2
    exact ⟨(['}'], d - 1) :: toks', by rw [scanM_norm_close hcd.2, h3]; rfl, Shape.cons' rfl rfl h4⟩
  | case7 d c r hc hcd ih =>
    obtain ⟨t, ht, rfl⟩ := Option.map_eq_some_iff.1 h
    have := ih t ht
    simp only [SkelGoal] at this ⊢
    intro s' hs'
    obtain ⟨c', r', rfl, h1, h2⟩ := lower_eq_cons hs'
    have hc1 : ¬ c' = '{' := fun hh => hc ((eq_iff_of_lowerC_eq h1 brace_not_alpha.1).1 hh)
    have hc2 : ¬ (c' = '}' ∧ d > 0) := fun hh =>
      hcd ⟨(eq_iff_of_lowerC_eq h1 brace_not_alpha.2.1).1 hh.1, hh.2⟩
    obtain ⟨toks', h3, h4⟩ := this r' h2
    exact ⟨([c'], d) :: toks', by rw [scanM_norm_char hc1 hc2, h3]; rfl, Shape.cons' rfl rfl h4⟩
  | case8 => simp at h
  | case9 k acc r hk ih =>
    have := ih toks h
    simp only [SkelGoal] at this ⊢
    intro s' acc' hs' hacc
    obtain ⟨c', r', rfl, h1, h2⟩ := lower_eq_cons hs'
    have hc' : c' = '{' := (eq_iff_of_lowerC_eq h1 brace_not_alpha.1).2 rfl
    subst hc'
    obtain ⟨toks', h3, h4⟩ := this r' (acc' ++ ['{']) h2 (by simp [hacc])
    exact ⟨toks', by rw [scanM_spec_open hk, h3], h4⟩
  | case10 k acc r hk hne ih =>
    obtain ⟨t, ht, rfl⟩ := Option.map_eq_some_iff.1 h
    have := ih t ht
    simp only [SkelGoal] at this ⊢
    intro s' acc' hs' hacc
    obtain ⟨c', r', rfl, h1, h2⟩ := lower_eq_cons hs'
    have hc' : c' = '}' := (eq_iff_of_lowerC_eq h1 brace_not_alpha.2.1).2 rfl
    subst hc'
    obtain ⟨toks', h3, h4⟩ := this r' h2
    exact ⟨(acc', 1) :: (['}'], 0) :: toks', by rw [scanM_spec_close1 hk, h3]; rfl,
      Shape.cons' (length_eq_of_lower_eq hacc.symm) rfl (Shape.cons' rfl rfl h4)⟩
  | case11 k acc r hk hne ih =>
    have := ih toks h
    simp only [SkelGoal] at this ⊢
    intro s' acc' hs' hacc
    obtain ⟨c', r', rfl, h1, h2⟩ := lower_eq_cons hs'
    have hc' : c' = '}' := (eq_iff_of_lowerC_eq h1 brace_not_alpha.2.1).2 rfl
    subst hc'
    obtain ⟨toks', h3, h4⟩ := this r' (acc' ++ ['}']) h2 (by simp [hacc])
    exact ⟨toks', by rw [scanM_spec_close hk, h3], h4⟩
  | case12 k acc c r hc hc2 ih =>
    have := ih toks h
    simp only [SkelGoal] at this ⊢
    intro s' acc' hs' hacc
    obtain ⟨c', r', rfl, h1, h2⟩ := lower_eq_cons hs'
    have hc1 : ¬ c' = '{' := fun hh => hc ((eq_iff_of_lowerC_eq h1 brace_not_alpha.1).1 hh)
    have hc2' : ¬ c' = '}' := fun hh => hc2 ((eq_iff_of_lowerC_eq h1 brace_not_alpha.2.1).1 hh)
    obtain ⟨toks', h3, h4⟩ := this r' (acc' ++ [c']) h2 (by simp [hacc, h1])
    exact ⟨toks', by rw [scanM_spec_char hc1 hc2', h3], h4⟩

/-! ### case conversion is idempotent on token lists -/

theorem eq_singleton_iff_of_lower_eq {a b : Str} (h : lower a = lower b) {x : Char} (hx : isAlpha x = false) :
    a = [x] ↔ b = [x] := by
  cases a with
  | nil => rw [lower_eq_nil h.symm]
  | cons c r =>
    obtain ⟨c', r', rfl, h1, h2⟩ := lower_eq_cons h.symm
    have e := eq_iff_of_lowerC_eq h1 hx
    cases r with
    | nil => rw [lower_eq_nil h2]; simp [e]
    | cons c2 r2 =>
      obtain ⟨c2', r2', rfl, _, _⟩ := lower_eq_cons h2
      simp

theorem all_isWs_of_lower_eq {a b : Str} (h : lower a = lower b) : a.all isWs = b.all isWs := by
  induction a generalizing b with
  | nil => rw [lower_eq_nil h.symm]
  | cons c r ih =>
    obtain ⟨c', r', rfl, h1, h2⟩ := lower_eq_cons h.symm
    simp only [List.all_cons, ih h2.symm, isWs_of_lowerC_eq h1]

theorem caseNext_of_lower_eq (st : CaseState) {a b : Str} (h : lower a = lower b) :
    caseNext st a = caseNext st b := by
  have e1 := eq_singleton_iff_of_lower_eq h brace_not_alpha.2.2.2.2
  have e2 := all_isWs_of_lower_eq h
  have e3 : a = [] ↔ b = [] := by
    constructor
    · intro ha; subst ha; exact lower_eq_nil h.symm
    · intro hb; subst hb; exact lower_eq_nil h
  have e4 : a ≠ [] ↔ b ≠ [] := not_congr e3
  simp only [caseNext, e1, e2, e4]

theorem caseTok_idem (m : CaseMode) (st : CaseState) (t : Str) (l : Nat) :
    caseTok m st (caseTok m st (t, l), l) = caseTok m st (t, l) := by
  cases l with
  | zero => simp only [caseTok, convertStr_idem]
  | succ l =>
    simp only [caseTok]
    split
    · rename_i hc
      have := startsWithBackslash_of_lower_eq (lower_convertSpecial m st t)
      rw [if_pos ⟨hc.1, by rw [this]; exact hc.2⟩, convertSpecial_idem]
    · rfl

theorem caseToks_idem (m : CaseMode) (toks : List Tok) : ∀ st,
    caseToks m st (caseToks m st toks) = caseToks m st toks := by
  induction toks with
  | nil => intro st; rfl
  | cons t r ih =>
    intro st
    obtain ⟨t, l⟩ := t
    cases l with
    | zero =>
      simp only [caseToks, caseTok_idem]
      have : caseNext st (caseTok m st (t, 0)) = caseNext st t :=
        caseNext_of_lower_eq st (lower_caseTok m st (t, 0))
      rw [this, ih]
    | succ l => simp only [caseToks, caseTok_idem, ih]

theorem caseToks_shape (m : CaseMode) (toks : List Tok) : ∀ st, Shape toks (caseToks m st toks) := by
  induction toks with
  | nil => intro st; exact List.Forall₂.nil
  | cons t r ih =>
    intro st
    obtain ⟨t, l⟩ := t
    cases l with
    | zero =>
      exact Shape.cons' (length_eq_of_lower_eq (lower_caseTok m st (t, 0)).symm) rfl (ih _)
    | succ l =>
      exact Shape.cons' (length_eq_of_lower_eq (lower_caseTok m st (t, l + 1)).symm) rfl (ih _)

/-! ### what case conversion leaves alone -/

theorem forall₂_map_self {α β} (R : α → β → Prop) (f : α → β) (hf : ∀ a, R a (f a)) :
    ∀ l : List α, List.Forall₂ R l (l.map f)
  | [] => List.Forall₂.nil
  | a :: l => List.Forall₂.cons (hf a) (forall₂_map_self R f hf l)

/-- relation between a token and its case-converted form: same level; a token inside braces that
is not a special character is unchanged; in a special character the words (split at spaces) that
start with a backslash are unchanged and the others keep their letters up to case -/
def CaseTokRel (t t' : Tok) : Prop :=
  t'.2 = t.2 ∧
  (1 ≤ t.2 → ¬ (t.2 = 1 ∧ startsWithBackslash t.1 = true) → t'.1 = t.1) ∧
  (t.2 = 1 → startsWithBackslash t.1 = true →
    ∃ ws', t'.1 = joinWith [' '] ws' ∧
      List.Forall₂ (fun w w' => (startsWithBackslash w = true → w' = w) ∧ lower w' = lower w)
        (splitSpace t.1) ws')

theorem caseTokRel_caseTok (m : CaseMode) (st : CaseState) (t : Str) (l : Nat) :
    CaseTokRel (t, l) (caseTok m st (t, l), l) := by
  refine ⟨rfl, ?_, ?_⟩
  · intro h1 h2
    cases l with
    | zero => simp at h1
    | succ l => simp only [caseTok]; rw [if_neg h2]
  · intro h1 h2
    simp only at h1 h2
    subst h1
    have e : caseTok m st (t, 1) = convertSpecial m st t := by simp [caseTok, h2]
    rw [e]
    refine ⟨_, convertSpecial_eq m st t, forall₂_map_self _ _ ?_ _⟩
    intro w
    exact ⟨fun hw => by simp [specialWord, hw], lower_specialWord m st w⟩

theorem caseToks_rel (m : CaseMode) (toks : List Tok) : ∀ st,
    List.Forall₂ CaseTokRel toks (caseToks m st toks) := by
  induction toks with
  | nil => intro st; exact List.Forall₂.nil
  | cons t r ih =>
    intro st
    obtain ⟨t, l⟩ := t
    cases l with
    | zero => exact List.Forall₂.cons (caseTokRel_caseTok m st t 0) (ih _)
    | succ l => exact List.Forall₂.cons (caseTokRel_caseTok m st t (l + 1)) (ih _)

/-! ### `re.split` on the separators -/

/-- the separator predicate of the specification for each separator of the package -/
def sepPred : Sep → Str → Bool
  | .space => isSpaceSep
  | .comma => fun m => m == [',']
  | .hyphen => fun m => m == ['-']
  | .and => isAndSep

theorem spaceRun_le (prev : Option Char) (s : Str) : spaceRun prev s ≤ s.length := by
  fun_induction spaceRun prev s <;> simp only [List.length_cons, List.length_nil] <;> omega

theorem spaceUnits_cons_of_ne {c : Char} {r : Str} (hc : ¬ c = '\\') :
    spaceUnits (c :: r) = ((isWs c || decide (c = '~')) && spaceUnits r) := by
  conv => lhs; unfold spaceUnits
  simp [hc]

theorem spaceRun_units (prev : Option Char) (s : Str) : spaceUnits (s.take (spaceRun prev s)) = true := by
  fun_induction spaceRun prev s with
  | case1 => simp [spaceUnits]
  | case2 prev r' ih =>
    have : 2 + spaceRun (some ' ') r' = (spaceRun (some ' ') r' + 1) + 1 := by omega
    rw [this, List.take_succ_cons, List.take_succ_cons]
    simp [spaceUnits, ih]
  | case3 => simp [spaceUnits]
  | case4 prev c r hc hw ih =>
    have : 1 + spaceRun (some c) r = spaceRun (some c) r + 1 := by omega
    rw [this, List.take_succ_cons, spaceUnits_cons_of_ne hc]
    simp [hw, ih]
  | case5 prev c r hc hw ht ih =>
    have : 1 + spaceRun (some c) r = spaceRun (some c) r + 1 := by omega
    rw [this, List.take_succ_cons]
    rw [spaceUnits_cons_of_ne hc, ih]
    simp [ht.1]
  | case6 => simp [spaceUnits]

theorem sepMatch_le (sep : Sep) (prev : Option Char) (s : Str) : sepMatch sep prev s ≤ s.length := by
  cases sep with
  | space => exact spaceRun_le prev s
  | comma =>
    simp only [sepMatch]; split
    · cases s with
      | nil => simp at *
      | cons => simp
    · omega
  | hyphen =>
    simp only [sepMatch]; split
    · cases s with
      | nil => simp at *
      | cons => simp
    · omega
  | and =>
    simp only [sepMatch]; split
    · rename_i h
      unfold isAndAt at h
      split at h
      · simp
      · cases h
    · omega

theorem sepMatch_valid (sep : Sep) (prev : Option Char) (s : Str) (h : sepMatch sep prev s ≠ 0) :
    sepPred sep (s.take (sepMatch sep prev s)) = true := by
  cases sep with
  | space =>
    simp only [sepMatch] at h ⊢
    simp only [sepPred, isSpaceSep, spaceRun_units, Bool.and_true, decide_eq_true_eq]
    intro h0
    have := congrArg List.length h0
    have hle := spaceRun_le prev s
    simp only [List.length_take, List.length_nil] at this
    omega
  | comma =>
    simp only [sepMatch] at h ⊢
    split at h
    · rename_i hh
      cases s with
      | nil => simp at hh
      | cons c r => simp at hh; simp [sepPred, hh]
    · exact absurd rfl h
  | hyphen =>
    simp only [sepMatch] at h ⊢
    split at h
    · rename_i hh
      cases s with
      | nil => simp at hh
      | cons c r => simp at hh; simp [sepPred, hh]
    · exact absurd rfl h
  | and =>
    simp only [sepMatch] at h ⊢
    split at h
    · rename_i hh
      rw [if_pos hh]
      unfold isAndAt at hh
      split at hh
      · simpa [sepPred, isAndSep] using hh
      · cases hh
    · exact absurd rfl h

theorem reSplitAux_spec (sep : Sep) : ∀ (fuel : Nat) (prev : Option Char) (cur s : Str), s.length < fuel →
    SplitsTo (sepPred sep) (cur ++ s) (reSplitAux sep fuel prev cur s) := by
  intro fuel
  induction fuel with
  | zero => intro _ _ s h; omega
  | succ fuel ih =>
    intro prev cur s hlen
    cases s with
    | nil => simp only [reSplitAux, List.append_nil]; exact SplitsTo.one cur
    | cons c r =>
      simp only [reSplitAux]
      split
      · have := ih (some c) (cur ++ [c]) r (by simpa using hlen)
        simpa using this
      · rename_i hn
        have hle := sepMatch_le sep prev (c :: r)
        have hlen' : ((c :: r).drop (sepMatch sep prev (c :: r))).length < fuel := by
          simp only [List.length_drop, List.length_cons] at hlen hle ⊢; omega
        have h1 := ih ((c :: r)[sepMatch sep prev (c :: r) - 1]?) [] _ hlen'
        have h2 := SplitsTo.cons cur _ _ _ (sepMatch_valid sep prev (c :: r) hn) h1
        simpa [List.take_append_drop] using h2

theorem reSplit_spec (sep : Sep) (s : Str) : SplitsTo (sepPred sep) s (reSplit sep s) := by
  have := reSplitAux_spec sep (s.length + 1) none [] s (by omega)
  simpa [reSplit] using this

/-- the fuel of `reSplit` (length + 1) is never exhausted: any larger fuel gives the same result -/
theorem reSplitAux_fuel (sep : Sep) : ∀ (f1 f2 : Nat) (prev : Option Char) (cur s : Str),
    s.length < f1 → s.length < f2 → reSplitAux sep f1 prev cur s = reSplitAux sep f2 prev cur s := by
  intro f1
  induction f1 with
  | zero => intro _ _ _ s h; omega
  | succ f1 ih =>
    intro f2 prev cur s h1 h2
    cases f2 with
    | zero => omega
    | succ f2 =>
      cases s with
      | nil => simp [reSplitAux]
      | cons c r =>
        simp only [reSplitAux]
        split
        · exact ih f2 _ _ _ (by simpa using h1) (by simpa using h2)
        · rename_i hn
          have hle := sepMatch_le sep prev (c :: r)
          congr 1
          apply ih <;> simp only [List.length_drop, List.length_cons] at h1 h2 hle ⊢ <;> omega

/-! ### `SplitsTo` -/

theorem Spec.SplitsTo.ne_nil {isSep : Str → Bool} {s : Str} {L : List Str} (h : SplitsTo isSep s L) : L ≠ [] := by
  cases h <;> simp

theorem Spec.SplitsTo.prepend {isSep : Str → Bool} {s p : Str} {ps : List Str} (x : Str)
    (h : SplitsTo isSep s (p :: ps)) : SplitsTo isSep (x ++ s) ((x ++ p) :: ps) := by
  cases h with
  | one => exact SplitsTo.one _
  | cons _ m rest _ hm hr =>
    have := SplitsTo.cons (x ++ p) m rest ps hm hr
    simpa using this

theorem Spec.SplitsTo.cons_inv {isSep : Str → Bool} {x p : Str} {ps : List Str}
    (h : SplitsTo isSep x (p :: ps)) (hne : ps ≠ []) :
    ∃ m rest, x = p ++ m ++ rest ∧ isSep m = true ∧ SplitsTo isSep rest ps := by
  cases h with
  | one => exact absurd rfl hne
  | cons _ m rest _ hm hr => exact ⟨m, rest, rfl, hm, hr⟩

/-- the last part of a split glued to the first part of the next one -/
theorem Spec.SplitsTo.merge {isSep : Str → Bool} {y b : Str} {B : List Str} (hy : SplitsTo isSep y (b :: B)) :
    ∀ {A : List Str} {x a : Str}, SplitsTo isSep x (A ++ [a]) →
      SplitsTo isSep (x ++ y) (A ++ (a ++ b) :: B) := by
  intro A
  induction A with
  | nil =>
    intro x a hx
    cases hx with
    | one => exact hy.prepend _
    | cons _ m rest ps hm hr => exact absurd rfl hr.ne_nil
  | cons p A ih =>
    intro x a hx
    obtain ⟨m, rest, rfl, hm, hr⟩ := hx.cons_inv (by simp)
    have := SplitsTo.cons p m _ _ hm (ih hr)
    simpa using this

theorem Spec.SplitsTo.mem_of_mem {isSep : Str → Bool} {s : Str} {L : List Str} (h : SplitsTo isSep s L) :
    ∀ p ∈ L, ∀ c ∈ p, c ∈ s := by
  induction h with
  | one p => intro q hq c hc; simp at hq; subst hq; exact hc
  | cons p m rest ps hm hr ih =>
    intro q hq c hc
    rcases List.mem_cons.1 hq with rfl | hq
    · simp [hc]
    · have := ih q hq c hc
      simp [this]

/-! ### `_find_closing_brace` -/

theorem fcbAux_concat (level : Nat) (acc pending s : Str) :
    (fcbAux level acc pending s).1 ++ (fcbAux level acc pending s).2 = acc ++ pending ++ s := by
  fun_induction fcbAux level acc pending s with
  | case1 level acc pending => simp
  | case2 level acc pending r ih => rw [ih]; simp
  | case3 level acc pending r hc hl => simp
  | case4 level acc pending r hc hl ih => rw [ih]; simp
  | case5 level acc pending c r hc hc' ih => rw [ih]; simp

theorem findClosingBrace_length (s : Str) : (findClosingBrace s).2.length ≤ s.length := by
  have := congrArg List.length (fcbAux_concat 1 [] [] s)
  simp only [List.length_append, List.nil_append] at this
  simp only [findClosingBrace]; omega

/-- on a string whose first unmatched closing brace is found, the result is the text up to and
including that brace, and the rest -/
theorem fcbAux_matching (body tail : Str) : ∀ (j : Nat) (acc pending : Str), depthAfter j body = some 0 →
    fcbAux (j + 1) acc pending (body ++ '}' :: tail) = (acc ++ pending ++ body ++ ['}'], tail) := by
  induction body with
  | nil =>
    intro j acc pending h
    simp only [depthAfter, Option.some.injEq] at h
    subst h
    simp [fcbAux]
  | cons c r ih =>
    intro j acc pending h
    simp only [depthAfter] at h
    simp only [List.cons_append, fcbAux]
    by_cases hc : c = '{'
    · simp only [if_pos hc] at h ⊢
      rw [ih _ _ _ h]; simp [hc]
    · simp only [if_neg hc] at h ⊢
      by_cases hc' : c = '}'
      · simp only [if_pos hc'] at h ⊢
        by_cases hj : j = 0
        · simp [hj] at h
        · simp only [if_neg hj] at h
          rw [if_neg (by omega)]
          have e1 : j + 1 - 1 = (j - 1) + 1 := by omega
          rw [e1, ih _ _ _ h]; simp [hc']
      · simp only [if_neg hc'] at h ⊢
        rw [ih _ _ _ h]; simp

theorem findClosingBrace_matching (body tail : Str) (h : depthAfter 0 body = some 0) :
    findClosingBrace (body ++ '}' :: tail) = (body ++ ['}'], tail) := by
  simpa [findClosingBrace] using fcbAux_matching body tail 0 [] [] h

/-! ### decomposition of a balanced string -/

theorem depthAfter_plain (s : Str) (hs : ∀ c ∈ s, c ≠ '{' ∧ c ≠ '}') (d : Nat) : depthAfter d s = some d := by
  induction s with
  | nil => rfl
  | cons c r ih =>
    have hc := hs c (by simp)
    simp only [depthAfter, if_neg hc.1, if_neg hc.2]
    exact ih (fun x hx => hs x (List.mem_cons_of_mem _ hx))

theorem balanced_head (s : Str) (e : Nat) (h : depthAfter 0 s = some e) :
    (∀ c ∈ s.takeWhile (· ≠ '{'), c ≠ '{' ∧ c ≠ '}') ∧
    depthAfter 0 (s.dropWhile (· ≠ '{')) = some e := by
  induction s with
  | nil => simpa using h
  | cons c r ih =>
    by_cases hc : c = '{'
    · subst hc; simpa using h
    · simp only [depthAfter, if_neg hc] at h
      by_cases hc' : c = '}'
      · simp [hc'] at h
      · simp only [if_neg hc'] at h
        have := ih h
        simp only [List.takeWhile_cons, List.dropWhile_cons, ne_eq, hc, not_false_eq_true, decide_true, if_true]
        refine ⟨?_, this.2⟩
        intro x hx
        rcases List.mem_cons.1 hx with rfl | hx
        · exact ⟨hc, hc'⟩
        · exact this.1 x hx

theorem matching_brace (rest : Str) : ∀ j, depthAfter (j + 1) rest = some 0 →
    ∃ body tail, rest = body ++ '}' :: tail ∧ depthAfter j body = some 0 ∧ depthAfter 0 tail = some 0 := by
  induction rest with
  | nil => intro j h; simp [depthAfter] at h
  | cons c r ih =>
    intro j h
    simp only [depthAfter] at h
    by_cases hc : c = '{'
    · simp only [if_pos hc] at h
      obtain ⟨body, tail, rfl, h1, h2⟩ := ih _ h
      exact ⟨c :: body, tail, rfl, by simp [depthAfter, hc, h1], h2⟩
    · simp only [if_neg hc] at h
      by_cases hc' : c = '}'
      · simp only [if_pos hc', Nat.add_one_ne_zero, if_false, Nat.add_sub_cancel] at h
        cases j with
        | zero => exact ⟨[], r, by simp [hc'], rfl, h⟩
        | succ j =>
          obtain ⟨body, tail, rfl, h1, h2⟩ := ih _ h
          exact ⟨c :: body, tail, rfl, by simp [depthAfter, hc', h1], h2⟩
      · simp only [if_neg hc'] at h
        obtain ⟨body, tail, rfl, h1, h2⟩ := ih _ h
        exact ⟨c :: body, tail, rfl, by simp [depthAfter, hc, hc', h1], h2⟩

theorem balanced_append {a b : Str} (ha : balanced a = true) (hb : balanced b = true) :
    balanced (a ++ b) = true := by
  simp only [balanced, decide_eq_true_eq] at *
  rw [depthAfter_append, ha]; exact hb

theorem depthAfter_shift (s : Str) : ∀ d e k, depthAfter d s = some e → depthAfter (d + k) s = some (e + k) := by
  induction s with
  | nil => intro d e k h; simp only [depthAfter, Option.some.injEq] at h ⊢; omega
  | cons c r ih =>
    intro d e k h
    simp only [depthAfter] at h ⊢
    split
    · rename_i hc; rw [if_pos hc] at h
      have := ih _ _ k h
      have e1 : d + 1 + k = d + k + 1 := by omega
      rwa [e1] at this
    · rename_i hc; rw [if_neg hc] at h
      split
      · rename_i hc'; rw [if_pos hc'] at h
        split at h
        · cases h
        · rename_i hd
          rw [if_neg (by omega)]
          have := ih _ _ k h
          have e1 : d - 1 + k = d + k - 1 := by omega
          rwa [e1] at this
      · rename_i hc'; rw [if_neg hc'] at h; exact ih _ _ k h

theorem balanced_group {body : Str} (h : depthAfter 0 body = some 0) :
    balanced ('{' :: body ++ ['}']) = true := by
  have h1 := depthAfter_shift body 0 0 1 h
  simp only [Nat.zero_add] at h1
  simp [balanced, depthAfter, depthAfter_append, h1]

/-! ### the main loop of `split_tex_string` -/

/-- `''.join(word_parts)` -/
def preOf : Option Str → Str
  | none => []
  | some w => w

/-- the part of one iteration that handles the text before the next opening brace -/
def headStep (sep : Sep) (head : Str) (result : List Str) (wp : Option Str) : List Str × Option Str :=
  if head ≠ [] then
    match reSplit sep head with
    | [] => (result, wp)
    | [p] => (result, some (preOf wp ++ p))
    | p :: ps => (result ++ [preOf wp ++ p] ++ ps.dropLast, ps.getLast?)
  else (result, wp)

@[simp] theorem preOf_some (w : Str) : preOf (some w) = w := rfl
@[simp] theorem preOf_none : preOf none = [] := rfl

def finish (result : List Str) (wp : Option Str) : List Str :=
  match wp with
  | none => result
  | some w => result ++ [w]

theorem splitLoop_zero (sep : Sep) (s : Str) (result : List Str) (wp : Option Str) :
    splitLoop sep 0 s result wp = finish result wp := by
  cases wp <;> rfl

theorem splitLoop_succ (sep : Sep) (fuel : Nat) (s : Str) (result : List Str) (wp : Option Str) :
    splitLoop sep (fuel + 1) s result wp =
      match s.dropWhile (· ≠ '{') with
      | [] => finish (headStep sep (s.takeWhile (· ≠ '{')) result wp).1
                (headStep sep (s.takeWhile (· ≠ '{')) result wp).2
      | _ :: rest =>
        splitLoop sep fuel (findClosingBrace rest).2
          (headStep sep (s.takeWhile (· ≠ '{')) result wp).1
          (some (preOf (headStep sep (s.takeWhile (· ≠ '{')) result wp).2 ++ ['{'] ++
            (findClosingBrace rest).1)) := by
  rfl

theorem finish_append (r1 r2 : List Str) (wp : Option Str) : finish (r1 ++ r2) wp = r1 ++ finish r2 wp := by
  cases wp <;> simp [finish]

theorem headStep_acc (sep : Sep) (head : Str) (result : List Str) (wp : Option Str) :
    headStep sep head result wp =
      (result ++ (headStep sep head [] wp).1, (headStep sep head [] wp).2) := by
  unfold headStep
  split
  · split <;> simp
  · simp

theorem splitLoop_acc (sep : Sep) : ∀ (fuel : Nat) (s : Str) (result : List Str) (wp : Option Str),
    splitLoop sep fuel s result wp = result ++ splitLoop sep fuel s [] wp := by
  intro fuel
  induction fuel with
  | zero => intro s result wp; simp only [splitLoop_zero]; cases wp <;> simp [finish]
  | succ fuel ih =>
    intro s result wp
    rw [splitLoop_succ, splitLoop_succ, headStep_acc]
    split
    · simp only [finish_append]
    · simp only []
      rw [ih, ih _ (headStep sep _ [] wp).1]
      simp

/-- what `headStep` does in terms of the split of the head -/
theorem headStep_spec (sep : Sep) (head : Str) (wp : Option Str) :
    ∃ (A : List Str) (a : Str), SplitsTo (sepPred sep) head (A ++ [a]) ∧
      ((A = [] ∧ (headStep sep head [] wp).1 = [] ∧ preOf (headStep sep head [] wp).2 = preOf wp ++ a ∧
          ((headStep sep head [] wp).2 = none → wp = none ∧ head = [])) ∨
       (∃ p A', A = p :: A' ∧ (headStep sep head [] wp).1 = (preOf wp ++ p) :: A' ∧
          (headStep sep head [] wp).2 = some a)) := by
  by_cases hh : head = []
  · subst hh
    refine ⟨[], [], SplitsTo.one [], Or.inl ⟨rfl, ?_, ?_, ?_⟩⟩ <;> simp [headStep]
  · have hsp := reSplit_spec sep head
    unfold headStep
    rw [if_pos hh]
    cases hr : reSplit sep head with
    | nil => rw [hr] at hsp; exact absurd rfl hsp.ne_nil
    | cons p ps =>
      rw [hr] at hsp
      cases ps with
      | nil =>
        exact ⟨[], p, hsp, Or.inl ⟨rfl, rfl, rfl, by simp⟩⟩
      | cons q qs =>
        have hne : q :: qs ≠ [] := by simp
        refine ⟨p :: (q :: qs).dropLast, (q :: qs).getLast hne, ?_, Or.inr ⟨p, (q :: qs).dropLast, rfl, ?_, ?_⟩⟩
        · rw [List.cons_append, List.dropLast_concat_getLast hne]; exact hsp
        · simp
        · simp only []
          exact List.getLast?_eq_some_getLast hne

/-- the fuel of `splitLoop` (length + 1) is never exhausted: any larger fuel gives the same result -/
theorem splitLoop_fuel (sep : Sep) : ∀ (f1 f2 : Nat) (s : Str) (result : List Str) (wp : Option Str),
    s.length < f1 → s.length < f2 → splitLoop sep f1 s result wp = splitLoop sep f2 s result wp := by
  intro f1
  induction f1 with
  | zero => intro _ s _ _ h; omega
  | succ f1 ih =>
    intro f2 s result wp h1 h2
    cases f2 with
    | zero => omega
    | succ f2 =>
      rw [splitLoop_succ, splitLoop_succ]
      have hs : s.length = (s.takeWhile (· ≠ '{')).length + (s.dropWhile (· ≠ '{')).length := by
        have := congrArg List.length (List.takeWhile_append_dropWhile (p := (· ≠ '{')) (l := s))
        simp only [List.length_append] at this; omega
      split
      · rfl
      · rename_i c rest hd
        rw [hd] at hs
        have := findClosingBrace_length rest
        simp only [List.length_cons] at hs
        apply ih <;> omega

theorem balanced_of_plain {s : Str} (hs : ∀ c ∈ s, c ≠ '{' ∧ c ≠ '}') : balanced s = true := by
  simp [balanced, depthAfter_plain s hs 0]

theorem Spec.SplitsTo.singleton_inv {isSep : Str → Bool} {x a : Str} (h : SplitsTo isSep x [a]) : x = a := by
  cases h with
  | one => rfl
  | cons _ m rest ps hm hr => exact absurd rfl hr.ne_nil

/-- the loop on balanced input: the pieces are a split of the text (with the pending word glued
to the first piece) and every piece is balanced -/
theorem splitLoop_main (sep : Sep) : ∀ (fuel : Nat) (s : Str) (wp : Option Str), s.length < fuel →
    depthAfter 0 s = some 0 → (s ≠ [] ∨ wp ≠ none) →
    ∃ p ps, splitLoop sep fuel s [] wp = (preOf wp ++ p) :: ps ∧
      SplitsTo (sepPred sep) s (p :: ps) ∧ ∀ q ∈ p :: ps, balanced q = true := by
  intro fuel
  induction fuel with
  | zero => intro s _ h; omega
  | succ fuel ih =>
    intro s wp hlen hbal hne
    rw [splitLoop_succ]
    have hs : s = s.takeWhile (· ≠ '{') ++ s.dropWhile (· ≠ '{') := List.takeWhile_append_dropWhile.symm
    obtain ⟨hplain, hafter⟩ := balanced_head s 0 hbal
    obtain ⟨A, a, hA, hcase⟩ := headStep_spec sep (s.takeWhile (· ≠ '{')) wp
    have hAbal : ∀ q ∈ A ++ [a], balanced q = true := fun q hq =>
      balanced_of_plain (fun c hc => hplain c (hA.mem_of_mem q hq c hc))
    generalize hhead : s.takeWhile (· ≠ '{') = head at *
    generalize hst : headStep sep head [] wp = st at *
    cases hd : s.dropWhile (· ≠ '{') with
    | nil =>
      rw [hd, List.append_nil] at hs
      simp only []
      rcases hcase with ⟨rfl, h1, h2, h3⟩ | ⟨p, A', rfl, h1, h2⟩
      · cases hst2 : st.2 with
        | none =>
          obtain ⟨hw, hh⟩ := h3 hst2
          rcases hne with hne | hne
          · exact absurd (hs.trans hh) hne
          · exact absurd hw hne
        | some w =>
          rw [hst2, preOf_some] at h2
          refine ⟨a, [], ?_, ?_, hAbal⟩
          · simp only [finish, h1, h2, List.nil_append]
          · rw [hs]; exact hA
      · refine ⟨p, A' ++ [a], ?_, ?_, hAbal⟩
        · simp only [finish, h1, h2, List.cons_append]
        · rw [hs]; exact hA
    | cons c rest =>
      rw [hd] at hafter hs
      have hc : c = '{' := by
        have : (s.dropWhile (· ≠ '{')).head? = some c := by rw [hd]; rfl
        have := List.head?_dropWhile_not (fun x => decide (x ≠ '{')) s
        rw [hd] at this
        simpa using this
      subst hc
      have hrest : depthAfter 1 rest = some 0 := by simpa [depthAfter] using hafter
      obtain ⟨body, tail, rfl, hb1, hb2⟩ := matching_brace rest 0 hrest
      simp only []
      rw [findClosingBrace_matching body tail hb1]
      have htl : tail.length < fuel := by
        have := congrArg List.length hs
        simp only [List.length_append, List.length_cons] at this
        omega
      obtain ⟨p2, ps2, h5, h6, h7⟩ := ih tail (some (preOf st.2 ++ ['{'] ++ (body ++ ['}']))) htl hb2
        (Or.inr (by simp))
      rw [splitLoop_acc, h5]
      have hg := balanced_group hb1
      have hy : SplitsTo (sepPred sep) (('{' :: body ++ ['}']) ++ tail) ((('{' :: body ++ ['}']) ++ p2) :: ps2) :=
        h6.prepend _
      have hm := hy.merge hA
      have hs' : s = head ++ (('{' :: body ++ ['}']) ++ tail) := by rw [hs]; simp
      rw [← hs'] at hm
      have hbal2 : balanced (a ++ (('{' :: body ++ ['}']) ++ p2)) = true :=
        balanced_append (hAbal a (by simp)) (balanced_append hg (h7 p2 (by simp)))
      rcases hcase with ⟨rfl, h1, h2, h3⟩ | ⟨p, A', rfl, h1, h2⟩
      · refine ⟨a ++ (('{' :: body ++ ['}']) ++ p2), ps2, ?_, by simpa using hm, ?_⟩
        · simp only [preOf_some, h1, h2, List.nil_append, List.append_assoc, List.cons_append]
        · intro q hq
          rcases List.mem_cons.1 hq with rfl | hq
          · exact hbal2
          · exact h7 q (List.mem_cons_of_mem _ hq)
      · refine ⟨p, A' ++ (a ++ (('{' :: body ++ ['}']) ++ p2)) :: ps2, ?_, by simpa using hm, ?_⟩
        · simp only [preOf_some, h1, h2, List.nil_append, List.append_assoc, List.cons_append]
        · intro q hq
          simp only [List.mem_cons, List.mem_append] at hq
          rcases hq with rfl | hq | rfl | hq
          · exact hAbal _ (by simp)
          · exact hAbal q (by simp [hq])
          · exact hbal2
          · exact h7 q (List.mem_cons_of_mem _ hq)
end Pybtex
