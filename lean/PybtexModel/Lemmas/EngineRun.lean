/-
Helper lemmas for C06, part 2: the loop of `Interpreter.run` as the engine front ends drive it
(`Model/Engine.lean`: lazy parsing of the style, files opened by `READ`, unknown commands), tied
to the interpreter's `runProgram` / `run` on which the frame theorems of `Lemmas/Engine.lean`
are stated.
-/
import PybtexModel.Lemmas.Engine

namespace Pybtex.Engine
open Pybtex Pybtex.Interp

/-! ### the lazily parsed script -/

theorem parsePrefixF_spec (fuel : Nat) (st : Scanner.St) :
    Bst.parseF fuel st =
      match (parsePrefixF fuel st).2 with
      | none => .ok (parsePrefixF fuel st).1
      | some e => .error e := by
  induction fuel generalizing st with
  | zero => rfl
  | succ n ih =>
    simp only [Bst.parseF, parsePrefixF]
    cases h : Bst.parseCommand st with
    | error e => cases e <;> rfl
    | ok r =>
      obtain ⟨c, st1⟩ := r
      simp only [ih st1]
      cases (parsePrefixF n st1).2 <;> rfl

/-- the commands run before a syntax error surfaces are the commands a complete parse would
have returned: `Bst.parseFile` is `.ok` of the prefix when the parser reaches the end of the
text, and the error otherwise -/
theorem parsePrefix_spec (src : Str) :
    Bst.parseFile src =
      match (parsePrefix src).2 with
      | none => .ok (parsePrefix src).1
      | some e => .error e := by
  simp only [Bst.parseFile, Bst.parseStream, Bst.parseText, parsePrefix, bstText]
  exact parsePrefixF_spec _ _

theorem lookup_any {β : Type} (a : Str) (l : List (Str × β)) (b : β) (h : l.lookup a = some b) :
    l.any (fun p => p.1 = a) = true := by
  induction l with
  | nil => simp at h
  | cons x xs ih =>
    obtain ⟨k, v⟩ := x
    simp only [List.lookup] at h
    by_cases hk : a == k
    · simp only [List.any_cons, Bool.or_eq_true, decide_eq_true_eq]
      exact .inl (beq_iff_eq.1 hk).symm
    · simp only [hk] at h
      simp only [List.any_cons, Bool.or_eq_true]
      exact .inr (ih h)

/-- the parser only lets commands through whose `command_<name>` method exists -/
theorem parseCommand_known {st st' : Scanner.St} {c : Bst.Command} (h : Bst.parseCommand st = .ok (c, st')) :
    knownCommand c.name = true := by
  unfold Bst.parseCommand at h
  split at h
  · cases h
  · rename_i kind commandName st1 _
    split at h
    · cases h
    · rename_i arity ha
      split at h
      · cases h
      · cases h
        exact lookup_any _ _ _ ha

theorem parsePrefixF_known (fuel : Nat) (st : Scanner.St) :
    ∀ c ∈ (parsePrefixF fuel st).1, knownCommand c.name = true := by
  induction fuel generalizing st with
  | zero => intro c hc; cases hc
  | succ n ih =>
    intro c hc
    simp only [parsePrefixF] at hc
    split at hc
    · cases hc
    · cases hc
    · rename_i c0 st1 h0
      rcases List.mem_cons.1 hc with rfl | hc
      · exact parseCommand_known h0
      · exact ih st1 c hc

theorem parsePrefix_known (src : Str) : ∀ c ∈ (parsePrefix src).1, knownCommand c.name = true :=
  parsePrefixF_known _ _

/-! ### the traced loop computes the loop -/

theorem runProgramT_fst (fuel : Nat) (j : Job) (prog : Bst.Program) (s : St) (tr : List SortObs) :
    (match runProgramT fuel j prog s tr with | .error e => .error e | .ok r => .ok r.1) = runProgramF fuel j prog s := by
  induction prog generalizing s tr with
  | nil => rfl
  | cons c cs ih =>
    simp only [runProgramT, runProgramF]
    cases stepF fuel j c s with
    | error e => rfl
    | ok s' => exact ih s' _

theorem interpreterRunT_fst (fuel : Nat) (j : Job) (prog : Bst.Program) :
    (match interpreterRunT fuel j prog with | .error e => .error e | .ok r => .ok r.1) = interpreterRun fuel j prog := by
  simp only [interpreterRunT, interpreterRun, ← runProgramT_fst fuel j prog (initSt j.citations) []]
  cases runProgramT fuel j prog (initSt j.citations) [] with
  | error e => rfl
  | ok r => rfl

/-- the driver's traced run returns the model's result -/
theorem formatFromFilesT_fst (files : Files) (srcs : List Src) (style : Str) (cits : List Str) (mc : Int)
    (alt : Option (List (Str × Bib.Entry) × List Str)) :
    (match formatFromFilesT files srcs style cits mc alt with | .error e => .error e | .ok r => .ok r.1) =
      formatFromFiles files srcs style cits mc alt := by
  simp only [formatFromFilesT, formatFromFiles]
  cases files.text (style ++ ".bst".toList) with
  | none => rfl
  | some bst =>
    simp only [← interpreterRunT_fst]
    cases interpreterRunT runFuel ⟨files, srcs, cits, mc, alt⟩ (parsePrefix bst).1 with
    | error e => rfl
    | ok r => cases (parsePrefix bst).2 <;> rfl

theorem makeBibliographyT_fst (files : Files) (aux : Str) (fuel : Nat) (so : Option Str) (fmt : Option Format) (mc : Int) :
    (match makeBibliographyT files aux fuel so fmt mc with | .error e => .error e | .ok r => .ok (r.1.1, r.2)) =
      makeBibliography files aux fuel so fmt mc := by
  simp only [makeBibliographyT, makeBibliography]
  cases Aux.parse files.aux fuel aux with
  | error a => rfl
  | ok st =>
    dsimp only
    rcases st.style with _ | style
    · rfl
    rcases st.data with _ | data
    · rfl
    dsimp only
    simp only [← formatFromFilesT_fst]
    cases formatFromFilesT files (bibSrcs data (fmt.getD bibtexFormat).suffix) (so.getD style) st.citations mc
      (fmt.getD bibtexFormat).alt <;> rfl

/-! ### the loop of `Interpreter.run` and the interpreter's `runProgram` -/

theorem known_of_read {c : Bst.Command} (h : upper c.name = "READ".toList) : knownCommand c.name = true := by
  simp only [knownCommand, h]; decide

/-- the files are not touched before `READ`: a `READ`-free stretch of known commands runs as in
the interpreter, whatever the job's files and sources are -/
theorem runProgramF_append_noread (fuel : Nat) (j : Job) (inp : Input) (pre rest : Bst.Program) (s : St)
    (hn : ∀ c ∈ pre, upper c.name ≠ "READ".toList) (hk : ∀ c ∈ pre, knownCommand c.name = true) :
    runProgramF fuel j (pre ++ rest) s =
      match runProgram fuel inp pre s with
      | .error e => .error (.run e)
      | .ok s' => runProgramF fuel j rest s' := by
  induction pre generalizing s with
  | nil => rfl
  | cons c cs ih =>
    have h1 := hn c (List.mem_cons_self ..)
    have h2 := hk c (List.mem_cons_self ..)
    simp only [List.cons_append, runProgramF, runProgram, stepF, h1, h2, if_false, if_true]
    rw [runCommand_inp fuel (j.input []) inp c s h1]
    cases runCommand fuel inp c s with
    | error e => rfl
    | ok s' =>
      simp only [liftRun]
      exact ih s' (fun c hc => hn c (List.mem_cons_of_mem _ hc)) (fun c hc => hk c (List.mem_cons_of_mem _ hc))

theorem runProgramF_noread (fuel : Nat) (j : Job) (inp : Input) (prog : Bst.Program) (s : St)
    (hn : ∀ c ∈ prog, upper c.name ≠ "READ".toList) (hk : ∀ c ∈ prog, knownCommand c.name = true) :
    runProgramF fuel j prog s = liftRun (runProgram fuel inp prog s) := by
  have := runProgramF_append_noread fuel j inp prog [] s hn hk
  rw [List.append_nil] at this
  rw [this]
  cases runProgram fuel inp prog s <;> rfl

/-- when the sources can be read (`READ` would get the texts `ts`), the loop is the
interpreter's `runProgram` on these texts -/
theorem runProgramF_eq (fuel : Nat) (j : Job) (ts : List Str) (prog : Bst.Program) (s : St)
    (hr : readInput j = .ok ts) (hk : ∀ c ∈ prog, knownCommand c.name = true) :
    runProgramF fuel j prog s = liftRun (runProgram fuel (j.input ts) prog s) := by
  induction prog generalizing s with
  | nil => rfl
  | cons c cs ih =>
    have h2 := hk c (List.mem_cons_self ..)
    simp only [runProgramF, runProgram, stepF, hr, h2, if_true]
    by_cases h1 : upper c.name = "READ".toList
    · simp only [h1, if_true]
      cases runCommand fuel (j.input ts) c s with
      | error e => rfl
      | ok s' => simp only [liftRun]; exact ih s' (fun c hc => hk c (List.mem_cons_of_mem _ hc))
    · simp only [h1, if_false]
      rw [runCommand_inp fuel (j.input []) (j.input ts) c s h1]
      cases runCommand fuel (j.input ts) c s with
      | error e => rfl
      | ok s' => simp only [liftRun]; exact ih s' (fun c hc => hk c (List.mem_cons_of_mem _ hc))

/-- a result of the interpreter's `run` as a result of the engine -/
def ofRun (r : Except (IErr × List Interp.Report) Output) : Except Err Result :=
  match r with
  | .error (e, _) => .error (.run e)
  | .ok o => .ok ⟨o.bbl, o.reports, o.printed⟩

theorem interpreterRun_eq_run (fuel : Nat) (j : Job) (ts : List Str) (prog : Bst.Program)
    (hr : readInput j = .ok ts) (hk : ∀ c ∈ prog, knownCommand c.name = true) :
    interpreterRun fuel j prog = ofRun (run fuel prog (j.input ts)) := by
  simp only [interpreterRun, run, runProgramF_eq fuel j ts prog _ hr hk, initSt, Job.input]
  cases runProgram fuel _ prog _ <;> rfl

/-- THE bridge: when the style file exists and parses and the sources can be read, the engine's
run is the interpreter's `run` on the parsed style and the texts of the sources -/
theorem formatFromFiles_eq_run (files : Files) (srcs : List Src) (style : Str) (cits : List Str) (mc : Int)
    (alt : Option (List (Str × Bib.Entry) × List Str)) (bst : Str) (prog : Bst.Program) (ts : List Str)
    (hb : files.text (style ++ ".bst".toList) = some bst) (hp : Bst.parseFile bst = .ok prog)
    (hr : readInput ⟨files, srcs, cits, mc, alt⟩ = .ok ts) :
    formatFromFiles files srcs style cits mc alt =
      ofRun (run runFuel prog { bibTexts := ts, citations := cits, minCrossrefs := mc, alt := alt }) := by
  have hs := parsePrefix_spec bst
  rw [hp] at hs
  cases h2 : (parsePrefix bst).2 with
  | some e => rw [h2] at hs; cases hs
  | none =>
    rw [h2] at hs
    injection hs with hs
    subst hs
    simp only [formatFromFiles, hb, h2, interpreterRun_eq_run runFuel _ ts _ hr (parsePrefix_known bst), Job.input]
    generalize ofRun _ = r
    cases r <;> rfl

/-! ### the sources -/

theorem readSrcs_text (files : Files) (texts : List Str) : readSrcs files (texts.map .text) = .ok texts := by
  induction texts with
  | nil => rfl
  | cons t ts ih => simp only [List.map_cons, readSrcs, ih]

theorem readSrcs_file (files : Files) (names texts : List Str)
    (h : List.Forall₂ (fun n t => files.text n = some t) names texts) :
    readSrcs files (names.map .file) = .ok texts := by
  induction h with
  | nil => rfl
  | cons h1 _ ih => simp only [List.map_cons, readSrcs, h1, ih]

/-- only `READ` looks at the sources, and only through their texts -/
theorem runProgramF_srcs (fuel : Nat) (files : Files) (srcs srcs' : List Src) (cits : List Str) (mc : Int)
    (alt : Option (List (Str × Bib.Entry) × List Str)) (prog : Bst.Program) (s : St)
    (h : readSrcs files srcs = readSrcs files srcs') :
    runProgramF fuel ⟨files, srcs, cits, mc, alt⟩ prog s = runProgramF fuel ⟨files, srcs', cits, mc, alt⟩ prog s := by
  induction prog generalizing s with
  | nil => rfl
  | cons c cs ih =>
    have : stepF fuel ⟨files, srcs, cits, mc, alt⟩ c s = stepF fuel ⟨files, srcs', cits, mc, alt⟩ c s := by
      simp only [stepF, readInput, Job.input, h]
    simp only [runProgramF, this]
    cases stepF fuel ⟨files, srcs', cits, mc, alt⟩ c s with
    | error e => rfl
    | ok s' => exact ih s'

theorem formatFromFiles_srcs (files : Files) (srcs srcs' : List Src) (style : Str) (cits : List Str) (mc : Int)
    (alt : Option (List (Str × Bib.Entry) × List Str)) (h : readSrcs files srcs = readSrcs files srcs') :
    formatFromFiles files srcs style cits mc alt = formatFromFiles files srcs' style cits mc alt := by
  simp only [formatFromFiles, interpreterRun, runProgramF_srcs runFuel files srcs srcs' cits mc alt _ _ h]

/-- with a `bib_format` reader neither the file system nor the sources are consulted by the loop -/
theorem runProgramF_alt (fuel : Nat) (files files' : Files) (srcs srcs' : List Src) (cits : List Str) (mc : Int)
    (db : List (Str × Bib.Entry) × List Str) (prog : Bst.Program) (s : St) :
    runProgramF fuel ⟨files, srcs, cits, mc, some db⟩ prog s = runProgramF fuel ⟨files', srcs', cits, mc, some db⟩ prog s := by
  induction prog generalizing s with
  | nil => rfl
  | cons c cs ih =>
    have : stepF fuel ⟨files, srcs, cits, mc, some db⟩ c s = stepF fuel ⟨files', srcs', cits, mc, some db⟩ c s := by
      simp only [stepF, readInput, Job.input]
    simp only [runProgramF, this]
    cases stepF fuel ⟨files', srcs', cits, mc, some db⟩ c s with
    | error e => rfl
    | ok s' => exact ih s'

end Pybtex.Engine
