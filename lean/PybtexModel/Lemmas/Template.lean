/-
Helper lemmas for C07 (Python formatting engine): orders and stable insertion sort, labels,
the resolve → sort → label → template pipeline, the template evaluator.
-/
import PybtexModel.Spec.PyStyle
import PybtexModel.Lemmas.RichText
import PybtexModel.Lemmas.Citations
import PybtexModel.Lemmas.Crossref

namespace Pybtex.Tmpl
open Pybtex.RT Pybtex.Tmpl.Spec

/-! ### `strLt`, `tripleLt`: strict total orders -/

theorem strLt_irrefl (a : Str) : strLt a a = false := by
  induction a with
  | nil => rfl
  | cons c r ih => simp [strLt, ih]

theorem strLt_trans : ∀ {a b c : Str}, strLt a b = true → strLt b c = true → strLt a c = true := by
  intro a
  induction a with
  | nil =>
    intro b c h1 h2
    cases b with
    | nil => simp [strLt] at h1
    | cons y b => cases c with
      | nil => simp [strLt] at h2
      | cons z c => simp [strLt]
  | cons x a ih =>
    intro b c h1 h2
    cases b with
    | nil => simp [strLt] at h1
    | cons y b => cases c with
      | nil => simp [strLt] at h2
      | cons z c =>
        simp only [strLt] at h1 h2 ⊢
        split at h1
        · split at h2
          · rw [if_pos (by omega)]
          · split at h2
            · cases h2
            · rw [if_pos (by omega)]
        · split at h1
          · cases h1
          · split at h2
            · rw [if_pos (by omega)]
            · split at h2
              · cases h2
              · rw [if_neg (by omega), if_neg (by omega)]
                exact ih h1 h2

theorem strLt_total : ∀ {a b : Str}, strLt a b = false → strLt b a = false → a = b := by
  intro a
  induction a with
  | nil => intro b h1 h2; cases b with
    | nil => rfl
    | cons y b => simp [strLt] at h1
  | cons x a ih =>
    intro b h1 h2
    cases b with
    | nil => simp [strLt] at h2
    | cons y b =>
      simp only [strLt] at h1 h2
      split at h1
      · cases h1
      · split at h2
        · cases h2
        · have hxy : x.toNat = y.toNat := by omega
          rw [if_neg (by omega)] at h1
          rw [Char.toNat_inj.1 hxy, ih h1 h2]

theorem strLt_asymm {a b : Str} (h : strLt a b = true) : strLt b a = false := by
  cases h' : strLt b a with
  | false => rfl
  | true => have := strLt_trans h h'; rw [strLt_irrefl] at this; cases this

theorem tripleLt_irrefl (a : Str × Str × Str) : tripleLt a a = false := by
  simp [tripleLt, strLt_irrefl]

theorem tripleLt_trans {a b c : Str × Str × Str} (h1 : tripleLt a b = true) (h2 : tripleLt b c = true) :
    tripleLt a c = true := by
  obtain ⟨a1, a2, a3⟩ := a
  obtain ⟨b1, b2, b3⟩ := b
  obtain ⟨c1, c2, c3⟩ := c
  simp only [tripleLt] at h1 h2 ⊢
  -- first components
  by_cases hab : strLt a1 b1 = true
  · by_cases hbc : strLt b1 c1 = true
    · rw [if_pos (strLt_trans hab hbc)]
    · rw [if_neg hbc] at h2
      by_cases hcb : strLt c1 b1 = true
      · rw [if_pos hcb] at h2; cases h2
      · have : b1 = c1 := strLt_total (by simpa using hbc) (by simpa using hcb)
        subst this; rw [if_pos hab]
  · rw [if_neg hab] at h1
    by_cases hba : strLt b1 a1 = true
    · rw [if_pos hba] at h1; cases h1
    · rw [if_neg hba] at h1
      have e1 : a1 = b1 := strLt_total (by simpa using hab) (by simpa using hba)
      subst e1
      by_cases hbc : strLt a1 c1 = true
      · rw [if_pos hbc]
      · rw [if_neg hbc] at h2 ⊢
        by_cases hcb : strLt c1 a1 = true
        · rw [if_pos hcb] at h2; cases h2
        · rw [if_neg hcb] at h2 ⊢
          -- second components
          by_cases hab2 : strLt a2 b2 = true
          · by_cases hbc2 : strLt b2 c2 = true
            · rw [if_pos (strLt_trans hab2 hbc2)]
            · rw [if_neg hbc2] at h2
              by_cases hcb2 : strLt c2 b2 = true
              · rw [if_pos hcb2] at h2; cases h2
              · have : b2 = c2 := strLt_total (by simpa using hbc2) (by simpa using hcb2)
                subst this; rw [if_pos hab2]
          · rw [if_neg hab2] at h1
            by_cases hba2 : strLt b2 a2 = true
            · rw [if_pos hba2] at h1; cases h1
            · rw [if_neg hba2] at h1
              have e2 : a2 = b2 := strLt_total (by simpa using hab2) (by simpa using hba2)
              subst e2
              by_cases hbc2 : strLt a2 c2 = true
              · rw [if_pos hbc2]
              · rw [if_neg hbc2] at h2 ⊢
                by_cases hcb2 : strLt c2 a2 = true
                · rw [if_pos hcb2] at h2; cases h2
                · rw [if_neg hcb2] at h2 ⊢
                  exact strLt_trans h1 h2

theorem tripleLt_total {a b : Str × Str × Str} (h1 : tripleLt a b = false) (h2 : tripleLt b a = false) : a = b := by
  obtain ⟨a1, a2, a3⟩ := a
  obtain ⟨b1, b2, b3⟩ := b
  simp only [tripleLt] at h1 h2
  by_cases hab : strLt a1 b1 = true
  · rw [if_pos hab] at h1; cases h1
  · rw [if_neg hab] at h1 h2
    by_cases hba : strLt b1 a1 = true
    · rw [if_pos hba] at h2; cases h2
    · rw [if_neg hba] at h1 h2
      have e1 : a1 = b1 := strLt_total (by simpa using hab) (by simpa using hba)
      by_cases hab2 : strLt a2 b2 = true
      · rw [if_pos hab2] at h1; cases h1
      · rw [if_neg hab2] at h1 h2
        by_cases hba2 : strLt b2 a2 = true
        · rw [if_pos hba2] at h2; cases h2
        · rw [if_neg hba2] at h1 h2
          have e2 : a2 = b2 := strLt_total (by simpa using hab2) (by simpa using hba2)
          have e3 : a3 = b3 := strLt_total h1 h2
          rw [e1, e2, e3]

/-! ### stable insertion sort, generically -/

/-- a strict weak order given as a Boolean comparison -/
structure StrictWeak {α : Type} (lt : α → α → Bool) : Prop where
  irrefl : ∀ a, lt a a = false
  trans : ∀ a b c, lt a b = true → lt b c = true → lt a c = true
  negtrans : ∀ a b c, lt a b = true → lt a c = true ∨ lt c b = true

theorem StrictWeak.asymm {α : Type} {lt : α → α → Bool} (h : StrictWeak lt) {a b : α} (hab : lt a b = true) :
    lt b a = false := by
  cases h' : lt b a with
  | false => rfl
  | true => have := h.trans _ _ _ hab h'; rw [h.irrefl] at this; cases this

/-- a comparison of keys by a strict total order is a strict weak order -/
theorem strictWeak_of_key {α κ : Type} (key : α → κ) (lt : κ → κ → Bool)
    (hirr : ∀ a, lt a a = false) (htr : ∀ a b c, lt a b = true → lt b c = true → lt a c = true)
    (htot : ∀ a b, lt a b = false → lt b a = false → a = b) :
    StrictWeak fun a b => lt (key a) (key b) where
  irrefl a := hirr _
  trans a b c := htr _ _ _
  negtrans a b c hab := by
    cases hac : lt (key a) (key c) with
    | true => exact Or.inl rfl
    | false =>
      right
      cases hca : lt (key c) (key a) with
      | true => exact htr _ _ _ hca hab
      | false => rw [← htot _ _ hac hca]; exact hab

theorem keyLt_strictWeak : StrictWeak keyLt :=
  strictWeak_of_key sortingKey tripleLt tripleLt_irrefl (fun _ _ _ => tripleLt_trans) (fun _ _ => tripleLt_total)

theorem eqv_keyLt (a b : PEntry) : eqv keyLt a b = true ↔ sortingKey a = sortingKey b := by
  simp only [eqv, keyLt, Bool.and_eq_true, Bool.not_eq_true']
  constructor
  · rintro ⟨h1, h2⟩; exact tripleLt_total h1 h2
  · intro h; rw [h]; exact ⟨tripleLt_irrefl _, tripleLt_irrefl _⟩

section sort
variable {α : Type} {lt : α → α → Bool}

theorem mem_insertBy {x y : α} {l : List α} : y ∈ insertBy lt x l ↔ y = x ∨ y ∈ l := by
  induction l with
  | nil => simp [insertBy]
  | cons z r ih =>
    simp only [insertBy]
    split
    · simp
    · simp only [List.mem_cons, ih]
      constructor
      · rintro (h | h | h) <;> simp [h]
      · rintro (h | h | h) <;> simp [h]

theorem insertBy_perm (x : α) (l : List α) : (insertBy lt x l).Perm (x :: l) := by
  induction l with
  | nil => simp [insertBy]
  | cons z r ih =>
    simp only [insertBy]
    split
    · exact List.Perm.refl _
    · exact ((List.Perm.cons z ih).trans (List.Perm.swap x z r))

theorem insertBy_sorted (h : StrictWeak lt) (x : α) {l : List α} (hl : SortedBy lt l) :
    SortedBy lt (insertBy lt x l) := by
  unfold SortedBy at *
  induction l with
  | nil => simp [insertBy]
  | cons z r ih =>
    rw [List.pairwise_cons] at hl
    simp only [insertBy]
    split
    · rename_i hxz
      rw [List.pairwise_cons]
      refine ⟨?_, List.pairwise_cons.2 hl⟩
      intro y hy
      rcases List.mem_cons.1 hy with rfl | hy
      · exact h.asymm hxz
      · cases hyx : lt y x with
        | false => rfl
        | true => have := h.trans _ _ _ hyx hxz; rw [hl.1 y hy] at this; cases this
    · rename_i hxz
      rw [List.pairwise_cons]
      refine ⟨?_, ih hl.2⟩
      intro y hy
      rcases mem_insertBy.1 hy with rfl | hy
      · simpa using hxz
      · exact hl.1 y hy

/-- everything in a sorted list that starts above `x` is above `x` -/
theorem lt_of_sorted_cons (h : StrictWeak lt) {x z : α} {r : List α} (hl : SortedBy lt (z :: r))
    (hxz : lt x z = true) : ∀ y ∈ z :: r, lt x y = true := by
  intro y hy
  rcases List.mem_cons.1 hy with rfl | hy
  · exact hxz
  · rcases h.negtrans _ _ y hxz with h' | h'
    · exact h'
    · have := (List.pairwise_cons.1 hl).1 y hy; rw [this] at h'; cases h'

theorem eqv_lt_false (h : StrictWeak lt) {a x y : α} (hax : eqv lt a x = true) (hxy : lt x y = true) :
    eqv lt a y = false := by
  simp only [eqv, Bool.and_eq_true, Bool.not_eq_true'] at hax
  have : lt a y = true := by
    rcases h.negtrans _ _ a hxy with h' | h'
    · rw [hax.2] at h'; cases h'
    · exact h'
  simp [eqv, this]

/-- insertion puts the new element after every equivalent one -/
theorem insertBy_filter_eqv (h : StrictWeak lt) (a x : α) {l : List α} (hl : SortedBy lt l) :
    (insertBy lt x l).filter (eqv lt a) = l.filter (eqv lt a) ++ [x].filter (eqv lt a) := by
  induction l with
  | nil => simp [insertBy]
  | cons z r ih =>
    simp only [insertBy]
    split
    · rename_i hxz
      cases hax : eqv lt a x with
      | false => simp [List.filter_cons, hax]
      | true =>
        have hnone : (z :: r).filter (eqv lt a) = [] := by
          rw [List.filter_eq_nil_iff]
          intro y hy
          rw [eqv_lt_false h hax (lt_of_sorted_cons h hl hxz y hy)]
          simp
        rw [List.filter_cons, hax, if_pos rfl, hnone]
        simp [hax]
    · have hr : SortedBy lt r := (List.pairwise_cons.1 hl).2
      rw [List.filter_cons, ih hr, List.filter_cons (x := z) (xs := r)]
      split <;> simp

theorem foldl_insertBy_perm (acc l : List α) :
    (l.foldl (fun acc x => insertBy lt x acc) acc).Perm (acc ++ l) := by
  induction l generalizing acc with
  | nil => simp
  | cons x l ih =>
    simp only [List.foldl_cons]
    refine (ih _).trans ?_
    refine ((insertBy_perm x acc).append_right l).trans ?_
    simpa using (List.perm_middle (l₁ := acc) (a := x) (l₂ := l)).symm

theorem foldl_insertBy_sorted (h : StrictWeak lt) (acc l : List α) (hacc : SortedBy lt acc) :
    SortedBy lt (l.foldl (fun acc x => insertBy lt x acc) acc) := by
  induction l generalizing acc with
  | nil => simpa
  | cons x l ih => simp only [List.foldl_cons]; exact ih _ (insertBy_sorted h x hacc)

theorem foldl_insertBy_stable (h : StrictWeak lt) (a : α) (acc l : List α) (hacc : SortedBy lt acc) :
    (l.foldl (fun acc x => insertBy lt x acc) acc).filter (eqv lt a)
      = acc.filter (eqv lt a) ++ l.filter (eqv lt a) := by
  induction l generalizing acc with
  | nil => simp
  | cons x l ih =>
    simp only [List.foldl_cons]
    rw [ih _ (insertBy_sorted h x hacc), insertBy_filter_eqv h a x hacc, List.append_assoc]
    congr 1
    rw [List.filter_cons (x := x) (xs := l)]
    simp only [List.filter_cons, List.filter_nil]
    split <;> simp

theorem sortBy_perm (lt : α → α → Bool) (l : List α) : (sortBy lt l).Perm l := by
  simpa [sortBy] using foldl_insertBy_perm (lt := lt) [] l

theorem sortBy_sorted (h : StrictWeak lt) (l : List α) : SortedBy lt (sortBy lt l) :=
  foldl_insertBy_sorted h [] l List.Pairwise.nil

/-- stability: elements that compare equal keep their relative order -/
theorem sortBy_stable (h : StrictWeak lt) (a : α) (l : List α) :
    (sortBy lt l).filter (eqv lt a) = l.filter (eqv lt a) := by
  simpa [sortBy] using foldl_insertBy_stable h a [] l List.Pairwise.nil

end sort

/-! ### the pipeline: resolve → sort → label → template -/

theorem contains_setItem {V : Type} (d : CIDict V) (k k' : Str) (v : V) :
    (d.setItem k v).contains k' = (decide (lower k = lower k') || d.contains k') := by
  unfold CIDict.contains CIDict.setItem dhas
  by_cases h : lower k = lower k'
  · simp only [h, dget_dset_same]; simp
  · simp only [dget_dset_ne _ _ _ _ (Ne.symm h)]; simp [h]

theorem contains_foldl_setItem (es : List PEntry) (d : CIDict Entry) (k : Str)
    (h : (es.foldl (fun d e => d.setItem e.key e.toEntry) d).contains k = true) :
    d.contains k = true ∨ ∃ e ∈ es, lower e.key = lower k := by
  induction es generalizing d with
  | nil => exact Or.inl h
  | cons e es ih =>
    rcases ih _ h with h' | ⟨e', he', hk⟩
    · rw [contains_setItem] at h'
      simp only [Bool.or_eq_true, decide_eq_true_eq] at h'
      rcases h' with h' | h'
      · exact Or.inr ⟨e, by simp, h'⟩
      · exact Or.inl h'
    · exact Or.inr ⟨e', by simp [he'], hk⟩

theorem storedEntry_of_contains (es : List PEntry) (k : Str) (h : (mkDb es).entries.contains k = true) :
    (storedEntry es k).isSome = true := by
  rcases contains_foldl_setItem es CIDict.empty k h with h' | ⟨e, he, hk⟩
  · simp [CIDict.contains, CIDict.empty, dhas, dget] at h'
  · unfold storedEntry
    rw [List.find?_isSome]
    exact ⟨e, he, by simpa using hk⟩

theorem contains_of_mem_removeMissing (db : BibData) (l : List Str) :
    ∀ k ∈ (db.removeMissing l).1, db.entries.contains k = true := by
  induction l with
  | nil => simp [BibData.removeMissing]
  | cons c l ih =>
    intro k hk
    simp only [BibData.removeMissing] at hk
    split at hk
    · rename_i hc
      rcases List.mem_cons.1 hk with rfl | hk
      · exact hc
      · exact ih k hk
    · exact ih k hk

theorem removeMissing_sublist (db : BibData) (l : List Str) : (db.removeMissing l).1.Sublist l := by
  induction l with
  | nil => simp [BibData.removeMissing]
  | cons c l ih =>
    simp only [BibData.removeMissing]
    split
    · exact ih.cons_cons c
    · exact ih.cons c

theorem map_filterMap_of_isSome {α β : Type} (f : α → Option β) (l : List α)
    (h : ∀ a ∈ l, (f a).isSome = true) : l.map f = (l.filterMap f).map some := by
  induction l with
  | nil => rfl
  | cons a l ih =>
    have ha := h a (by simp)
    cases hf : f a with
    | none => rw [hf] at ha; cases ha
    | some b =>
      rw [List.filterMap_cons_some hf, List.map_cons, List.map_cons, hf,
        ih (fun a ha => h a (List.mem_cons_of_mem _ ha))]

/-- every resolved key denotes an entry: nothing is dropped by the lookup -/
theorem resolvedKeys_stored (es : List PEntry) (cites : List Str) (mc : Int) :
    (resolvedKeys es cites mc).map (storedEntry es) = (resolvedEntries es cites mc).map some := by
  apply map_filterMap_of_isSome
  intro k hk
  exact storedEntry_of_contains es k (contains_of_mem_removeMissing _ _ k hk)

theorem storedEntry_key {es : List PEntry} {k : Str} {e : PEntry} (h : storedEntry es k = some e) :
    e ∈ es ∧ lower e.key = lower k := by
  unfold storedEntry at h
  exact ⟨List.mem_of_find?_eq_some h, by simpa using List.find?_some h⟩

theorem resolvedEntries_keys (es : List PEntry) (cites : List Str) (mc : Int) :
    (resolvedEntries es cites mc).map (fun e => lower e.key) = (resolvedKeys es cites mc).map lower := by
  have h := resolvedKeys_stored es cites mc
  unfold resolvedEntries at *
  generalize resolvedKeys es cites mc = l at h
  induction l with
  | nil => rfl
  | cons k l ih =>
    simp only [List.map_cons] at h
    cases hk : storedEntry es k with
    | none =>
      rw [hk, List.filterMap_cons_none hk] at h
      cases hl : l.filterMap (storedEntry es) with
      | nil => rw [hl] at h; cases h
      | cons x xs =>
        -- impossible: the head of the right-hand side is `some _`
        rw [hl] at h; simp at h
    | some e =>
      rw [List.filterMap_cons_some hk] at h ⊢
      simp only [List.map_cons, List.cons.injEq] at h ⊢
      exact ⟨(storedEntry_key hk).2, ih h.2⟩

theorem formatEntries_ok (db : BibData) (items : Str → Option Item) :
    ∀ (l : List (Str × PEntry)) (fs : List Formatted), formatEntries db items l = .ok fs →
      fs.map (·.key) = l.map (·.2.key) ∧ fs.map (·.label) = l.map (·.1) := by
  intro l
  induction l with
  | nil => intro fs h; simp only [formatEntries, Except.ok.injEq] at h; subst h; simp
  | cons p l ih =>
    intro fs h
    obtain ⟨label, e⟩ := p
    simp only [formatEntries] at h
    split at h
    · cases h
    · split at h
      · cases h
      · cases h
      · cases h
      · split at h
        · cases h
        · rename_i l' hl'
          simp only [Except.ok.injEq] at h
          subst h
          obtain ⟨h1, h2⟩ := ih l' hl'
          simp [h1, h2]

theorem alphaSuffix_length (all : List Str) : ∀ (l seen : List Str), (alphaSuffix all l seen).length = l.length := by
  intro l
  induction l with
  | nil => intro seen; rfl
  | cons x l ih => intro seen; simp only [alphaSuffix]; split <;> simp [ih]

theorem mapM_option_length {α β : Type} (f : α → Option β) :
    ∀ (l : List α) (r : List β), l.mapM f = some r → r.length = l.length := by
  intro l
  induction l with
  | nil => intro r h; simp at h; subst h; rfl
  | cons a l ih =>
    intro r h
    rw [List.mapM_cons] at h
    cases hf : f a with
    | none => rw [hf] at h; simp at h
    | some b =>
      rw [hf] at h
      cases hl : l.mapM f with
      | none => rw [hl] at h; simp at h
      | some r' =>
        rw [hl] at h
        simp at h
        subst h
        simp [ih r' hl]

theorem formatLabels_length {lab : Labels} {es : List PEntry} {ls : List Str}
    (h : formatLabels lab es = some ls) : ls.length = es.length := by
  cases lab with
  | number =>
    simp only [formatLabels, Option.some.injEq] at h
    subst h; simp [numberLabels]
  | alpha =>
    simp only [formatLabels, alphaLabels, Option.map_eq_some_iff] at h
    obtain ⟨base, hb, rfl⟩ := h
    rw [alphaSuffix_length, mapM_option_length _ _ _ hb]

theorem formatBibliography_eq (es : List PEntry) (items : Str → Option Item) (cites : List Str) (mc : Int)
    (sorting : Sorting) (lab : Labels) :
    formatBibliography es items cites mc sorting lab =
      match formatLabels lab (sortEntries sorting (resolvedEntries es cites mc)) with
      | none => (((mkDb es).addExtraCitations cites mc).2 ++
          ((mkDb es).removeMissingPy ((mkDb es).addExtraCitations cites mc).1).2, .error .labelIndex)
      | some ls => (((mkDb es).addExtraCitations cites mc).2 ++
          ((mkDb es).removeMissingPy ((mkDb es).addExtraCitations cites mc).1).2,
          formatEntries (mkDb es) items (ls.zip (sortEntries sorting (resolvedEntries es cites mc)))) := rfl

/-- a successful run: the sorted entries, their labels, and the formatted entries line up -/
theorem formatBibliography_ok {es : List PEntry} {items : Str → Option Item} {cites : List Str} {mc : Int}
    {sorting : Sorting} {lab : Labels} {rep : List Report} {fs : List Formatted}
    (h : formatBibliography es items cites mc sorting lab = (rep, .ok fs)) :
    ∃ ls, formatLabels lab (sortEntries sorting (resolvedEntries es cites mc)) = some ls ∧
      fs.map (·.key) = (sortEntries sorting (resolvedEntries es cites mc)).map (·.key) ∧
      fs.map (·.label) = ls := by
  rw [formatBibliography_eq] at h
  split at h
  · simp only [Prod.mk.injEq] at h; cases h.2
  · rename_i ls hls
    simp only [Prod.mk.injEq] at h
    have hlen := formatLabels_length hls
    obtain ⟨h1, h2⟩ := formatEntries_ok _ _ _ _ h.2
    refine ⟨ls, hls, ?_, ?_⟩
    · have hf : (fun x : Str × PEntry => x.2.key) = PEntry.key ∘ Prod.snd := rfl
      rw [h1, hf, ← List.map_map, List.map_snd_zip (by omega)]
    · have hf : (fun x : Str × PEntry => x.1) = Prod.fst := rfl
      rw [h2, hf, List.map_fst_zip (by omega)]

/-! ### labels -/

theorem natToStr_eq (n : Nat) : natToStr n = Nat.toDigits 10 n := by simp [natToStr]

theorem natToStr_inj {m n : Nat} (h : natToStr m = natToStr n) : m = n := by
  have := congrArg (fun l => Nat.ofDigitChars 10 l 0) h
  simpa [natToStr_eq] using this

theorem numberLabels_nodup (n : Nat) : (numberLabels n).Nodup := by
  unfold numberLabels List.Nodup
  rw [List.pairwise_map]
  refine (List.nodup_range (n := n)).imp ?_
  intro a b hab h
  exact hab (by have := natToStr_inj h; omega)

theorem countOf_cons (y : Str) (l : List Str) (x : Str) :
    countOf (y :: l) x = (if y = x then 1 else 0) + countOf l x := by
  simp only [countOf, List.filter_cons]
  by_cases h : y = x
  · simp [h]; omega
  · simp [h]

theorem countOf_pos_of_mem {l : List Str} {x : Str} (h : x ∈ l) : 0 < countOf l x := by
  induction l with
  | nil => cases h
  | cons y l ih =>
    rw [countOf_cons]
    rcases List.mem_cons.1 h with rfl | h
    · simp; omega
    · have := ih h; omega

theorem mem_of_countOf_pos {l : List Str} {x : Str} (h : 0 < countOf l x) : x ∈ l := by
  induction l with
  | nil => simp [countOf] at h
  | cons y l ih =>
    rw [countOf_cons] at h
    by_cases hy : y = x
    · simp [hy]
    · rw [if_neg hy] at h; exact List.mem_cons_of_mem _ (ih (by omega))

theorem suffixChar_inj : ∀ i, i < 26 → ∀ j, j < 26 → suffixChar i = suffixChar j → i = j := by decide

/-- what the suffix loop emits: a base label that occurs once, or a base label that occurs several
times followed by the letter numbered by its occurrence -/
theorem mem_alphaSuffix (all : List Str) : ∀ (cur seen : List Str) (o : Str), o ∈ alphaSuffix all cur seen →
    (o ∈ cur ∧ countOf all o = 1) ∨
    ∃ m ∈ cur, countOf all m ≠ 1 ∧ ∃ k, countOf seen m ≤ k ∧ k < countOf seen m + countOf cur m ∧
      o = m ++ [suffixChar k] := by
  intro cur
  induction cur with
  | nil => intro seen o h; simp [alphaSuffix] at h
  | cons l r ih =>
    intro seen o h
    simp only [alphaSuffix] at h
    split at h
    · rename_i hl
      rcases List.mem_cons.1 h with rfl | h
      · exact Or.inl ⟨by simp, hl⟩
      · rcases ih seen o h with ⟨h1, h2⟩ | ⟨m, hm, hc, k, hk1, hk2, ho⟩
        · exact Or.inl ⟨List.mem_cons_of_mem _ h1, h2⟩
        · refine Or.inr ⟨m, List.mem_cons_of_mem _ hm, hc, k, hk1, ?_, ho⟩
          rw [countOf_cons]; omega
    · rename_i hl
      rcases List.mem_cons.1 h with rfl | h
      · refine Or.inr ⟨l, by simp, hl, countOf seen l, Nat.le_refl _, ?_, rfl⟩
        rw [countOf_cons]; simp; omega
      · rcases ih (l :: seen) o h with ⟨h1, h2⟩ | ⟨m, hm, hc, k, hk1, hk2, ho⟩
        · exact Or.inl ⟨List.mem_cons_of_mem _ h1, h2⟩
        · refine Or.inr ⟨m, List.mem_cons_of_mem _ hm, hc, k, ?_, ?_, ho⟩
          · rw [countOf_cons] at hk1; omega
          · rw [countOf_cons] at hk1 hk2 ⊢; omega

theorem alphaProviso_spec {all : List Str} (h : alphaProviso all = true) :
    (∀ l ∈ all, countOf all l ≤ 26) ∧
    (∀ l ∈ all, countOf all l = 1 → ∀ m ∈ all, countOf all m ≠ 1 → ∀ k, k < countOf all m →
      l ≠ m ++ [suffixChar k]) := by
  simp only [alphaProviso, List.all_eq_true, Bool.and_eq_true, decide_eq_true_eq, Bool.or_eq_true, bne_iff_ne,
    ne_eq, beq_iff_eq, List.mem_range] at h
  refine ⟨fun l hl => (h l hl).1, ?_⟩
  intro l hl h1 m hm hm1 k hk
  rcases (h l hl).2 with h' | h'
  · exact absurd h1 h'
  · rcases h' m hm with h'' | h''
    · exact absurd h'' hm1
    · exact h'' k hk

theorem alphaSuffix_nodup (all : List Str) (hp : alphaProviso all = true) :
    ∀ (cur seen : List Str),
      (∀ x, countOf cur x ≤ countOf all x) →
      (∀ x, countOf all x ≠ 1 → countOf seen x + countOf cur x = countOf all x) →
      (alphaSuffix all cur seen).Nodup := by
  obtain ⟨hp26, hpne⟩ := alphaProviso_spec hp
  intro cur
  induction cur with
  | nil => intro seen _ _; simp [alphaSuffix]
  | cons l r ih =>
    intro seen hle hsum
    have hlall : l ∈ all := mem_of_countOf_pos (by have := hle l; rw [countOf_cons] at this; simp at this; omega)
    have hler : ∀ x, countOf r x ≤ countOf all x := by
      intro x; have := hle x; rw [countOf_cons] at this; omega
    simp only [alphaSuffix]
    split
    · rename_i hl
      rw [List.nodup_cons]
      refine ⟨?_, ih seen hler ?_⟩
      · intro hmem
        rcases mem_alphaSuffix all r seen l hmem with ⟨h1, _⟩ | ⟨m, hm, hc, k, hk1, hk2, ho⟩
        · have := hle l
          have h2 := countOf_pos_of_mem h1
          rw [countOf_cons] at this; simp at this; omega
        · have hmall : m ∈ all := mem_of_countOf_pos (by have := hler m; have := countOf_pos_of_mem hm; omega)
          have := hsum m hc
          rw [countOf_cons] at this
          exact hpne l hlall hl m hmall hc k (by omega) ho
      · intro x hx
        have := hsum x hx
        rw [countOf_cons] at this
        have hne : ¬ l = x := by rintro rfl; exact hx hl
        rw [if_neg hne] at this; omega
    · rename_i hl
      rw [List.nodup_cons]
      have hsl := hsum l hl
      rw [countOf_cons] at hsl; simp only [if_true] at hsl
      refine ⟨?_, ih (l :: seen) hler ?_⟩
      · intro hmem
        rcases mem_alphaSuffix all r (l :: seen) _ hmem with ⟨h1, h2⟩ | ⟨m, hm, hc, k, hk1, hk2, ho⟩
        · have ho : (l ++ [suffixChar (countOf seen l)]) ∈ all :=
            mem_of_countOf_pos (by
              have := hler (l ++ [suffixChar (countOf seen l)]); have := countOf_pos_of_mem h1
              exact Nat.lt_of_lt_of_le (by assumption) (by assumption))
          exact hpne _ ho h2 l hlall hl (countOf seen l) (by omega) rfl
        · have hml : l = m ∧ suffixChar (countOf seen l) = suffixChar k := by
            have := List.append_inj' ho rfl
            exact ⟨this.1, by simpa [suffixChar] using this.2⟩
          obtain ⟨rfl, hch⟩ := hml
          have h26 := hp26 l hlall
          have hs := hsum l hl
          rw [countOf_cons] at hk1 hk2 hs; simp only [if_true] at hk1 hk2 hs
          have := suffixChar_inj (countOf seen l) (by omega) k (by omega) hch
          omega
      · intro x hx
        have := hsum x hx
        rw [countOf_cons] at this ⊢; omega

theorem alphaSuffix_nodup_top (all : List Str) (hp : alphaProviso all = true) : (alphaSuffix all all []).Nodup :=
  alphaSuffix_nodup all hp all [] (fun _ => Nat.le_refl _) (fun x _ => by simp [countOf])

/-! ### the evaluator: missing fields -/

theorem latexParts_not_missing : ∀ (fuel level : Nat) (cur v : Str) (f : Str),
    latexParts fuel level cur v ≠ .error (.missing f) := by
  intro fuel
  induction fuel with
  | zero => intro level cur v f; simp [latexParts]
  | succ n ih =>
    intro level cur v f
    cases v with
    | nil => simp only [latexParts]; split <;> simp
    | cons c r =>
      simp only [latexParts]
      split
      · split
        · rename_i e he; intro h; simp only [Except.error.injEq] at h; subst h; exact ih _ _ _ _ he
        · split
          · rename_i e he; intro h; simp only [Except.error.injEq] at h; subst h; exact ih _ _ _ _ he
          · simp
      · split
        · split <;> simp
        · exact ih _ _ _ _

theorem fromLatex_not_missing (v f : Str) : fromLatex v ≠ .error (.missing f) := by
  unfold fromLatex
  split
  · rename_i e he; intro h; simp only [Except.error.injEq] at h; subst h; exact latexParts_not_missing _ _ _ _ _ he
  · simp

/-- `optional` never fails with a missing field -/
theorem eval_optional_not_missing (fuel : Nat) (ctx : Ctx) (cs : List T) (f : Str) :
    eval fuel ctx (.optional cs) ≠ .error (.missing f) := by
  cases fuel with
  | zero => simp [eval]
  | succ n =>
    simp only [eval]
    split
    · simp
    · rename_i e hne _; intro h; simp only [Except.error.injEq] at h; subst h; exact hne f rfl
    · simp

/-- the text a `name_part` node builds from the values of its children -/
def namePartText (before : RT) (tie abbr : Bool) (children : List RT) : RT :=
  let children := if abbr then children.map abbreviate else children
  let parts := togetherParts true children
  if !truthy parts then mk .text []
  else if tie then mk .text [before, parts, tieOrSpace parts nbsp space none]
  else mk .text [before, parts]

theorem eval_namePart (n : Nat) (ctx : Ctx) (before : RT) (tie abbr : Bool) (cs : List T) :
    eval (n + 1) ctx (.namePart before tie abbr cs) =
      match evalList n ctx cs with
      | .error e => .error e
      | .ok children => .ok (namePartText before tie abbr children) := by
  simp only [eval]
  cases evalList n ctx cs with
  | error e => rfl
  | ok children =>
    simp only [namePartText]
    cases abbr <;> cases tie <;> simp only [if_true, if_false, Bool.false_eq_true] <;> split <;> rfl

theorem eval_href (n : Nat) (ctx : Ctx) (url : T) (ext : Bool) (cs : List T) :
    eval (n + 1) ctx (.href url ext cs) =
      match evalList n ctx cs with
      | .error e => .error e
      | .ok parts =>
        match eval n ctx url with
        | .error e => .error e
        | .ok u => .ok (mk (.href (toStr u) ext) parts) := by
  simp only [eval]
  cases evalList n ctx cs with
  | error e => rfl
  | ok parts => cases eval n ctx url <;> rfl

/-- the text a `sentence` node builds from the values of its children -/
def sentenceText (cf cap ap : Bool) (sep : RT) (parts : List RT) : RT :=
  let text := joinParts sep sep sep parts
  let text := if cf then RT.capfirst text else text
  let text := if cap then RT.capitalize text else text
  if ap then addPeriodT text else text

theorem eval_sentence (n : Nat) (ctx : Ctx) (cf cap ap : Bool) (sep : RT) (cs : List T) :
    eval (n + 1) ctx (.sentence cf cap ap sep cs) =
      match evalList n ctx cs with
      | .error e => .error e
      | .ok parts => .ok (sentenceText cf cap ap sep parts) := by
  simp only [eval]
  cases evalList n ctx cs <;> rfl

/-- the reported name belongs to a required node whose lookup fails -/
def MissOK (ctx : Ctx) (req : List Lookup) (f : Str) : Prop :=
  ∃ lk, lk.name = f ∧ lookupFails ctx lk = true ∧
    (lk ∈ req ∨ lk ∈ ctx.personTemplates.flatMap fun p => requiredNodesL p.2)

theorem MissOK.mono {ctx : Ctx} {req req' : List Lookup} {f : Str} (h : MissOK ctx req f)
    (hs : ∀ lk ∈ req, lk ∈ req') : MissOK ctx req' f := by
  obtain ⟨lk, h1, h2, h3⟩ := h
  exact ⟨lk, h1, h2, h3.imp (hs lk) id⟩

theorem eval_missing_sound (ctx : Ctx) : ∀ fuel,
    (∀ t f, eval fuel ctx t = .error (.missing f) → MissOK ctx (requiredNodes t) f) ∧
    (∀ ts f, evalList fuel ctx ts = .error (.missing f) → MissOK ctx (requiredNodesL ts) f) ∧
    (∀ ts f, evalFirst fuel ctx ts = .error (.missing f) → MissOK ctx (requiredNodesL ts) f) := by
  intro fuel
  induction fuel with
  | zero => refine ⟨?_, ?_, ?_⟩ <;> intro t f h <;> simp [eval, evalList, evalFirst] at h
  | succ n ih =>
    obtain ⟨ih1, ih2, ih3⟩ := ih
    refine ⟨?_, ?_, ?_⟩
    · intro t f h
      cases t with
      | lit r => simp [eval] at h
      | raw s => simp [eval] at h
      | join s s2 ls cs =>
        simp only [eval] at h
        split at h
        · rename_i e he; simp only [Except.error.injEq] at h; subst h
          simpa [requiredNodes] using ih2 _ _ he
        · cases h
      | together lt cs =>
        simp only [eval] at h
        split at h
        · rename_i e he; simp only [Except.error.injEq] at h; subst h
          simpa [requiredNodes] using ih2 _ _ he
        · cases h
      | sentence cf cap ap sep cs =>
        simp only [eval] at h
        split at h
        · rename_i e he; simp only [Except.error.injEq] at h; subst h
          simpa [requiredNodes] using ih2 _ _ he
        · cases h
      | field name fn raw =>
        simp only [eval] at h
        split at h
        · rename_i hf
          simp only [Except.error.injEq, TErr.missing.injEq] at h; subst h
          exact ⟨.field name, rfl, by simp [lookupFails, hf], Or.inl (by simp [requiredNodes])⟩
        · split at h
          · cases h
          · split at h
            · rename_i e he; simp only [Except.error.injEq] at h; subst h
              exact absurd he (fromLatex_not_missing _ _)
            · cases h
      | names role s s2 ls =>
        simp only [eval] at h
        split at h
        · rename_i hf
          simp only [Except.error.injEq, TErr.missing.injEq] at h; subst h
          exact ⟨.names role, rfl, by simp [lookupFails, hf], Or.inl (by simp [requiredNodes])⟩
        · rename_i r ts hf
          split at h
          · rename_i e he; simp only [Except.error.injEq] at h; subst h
            obtain ⟨lk, h1, h2, h3⟩ := ih2 _ _ he
            refine ⟨lk, h1, h2, Or.inr ?_⟩
            rcases h3 with h3 | h3
            · rw [List.mem_flatMap]
              exact ⟨(r, ts), List.mem_of_find?_eq_some hf, h3⟩
            · exact h3
          · cases h
      | optional cs => exact absurd h (eval_optional_not_missing _ _ _ _)
      | firstOf cs =>
        simp only [eval] at h
        simpa [requiredNodes] using ih3 _ _ h
      | tag name cs =>
        simp only [eval] at h
        split at h
        · rename_i e he; simp only [Except.error.injEq] at h; subst h
          simpa [requiredNodes] using ih2 _ _ he
        · cases h
      | href url ext cs =>
        simp only [eval] at h
        split at h
        · rename_i e he; simp only [Except.error.injEq] at h; subst h
          exact (ih2 _ _ he).mono (by simp [requiredNodes]; intro lk hlk; exact Or.inl hlk)
        · split at h
          · rename_i e he; simp only [Except.error.injEq] at h; subst h
            exact (ih1 _ _ he).mono (by simp [requiredNodes]; intro lk hlk; exact Or.inr hlk)
          · cases h
      | namePart before tie abbr cs =>
        rw [eval_namePart] at h
        split at h
        · rename_i e he; simp only [Except.error.injEq] at h; subst h
          simpa [requiredNodes] using ih2 _ _ he
        · cases h
    · intro ts f h
      cases ts with
      | nil => simp [evalList] at h
      | cons t ts =>
        simp only [evalList] at h
        split at h
        · rename_i e he; simp only [Except.error.injEq] at h; subst h
          exact (ih1 _ _ he).mono (by simp [requiredNodesL]; intro lk hlk; exact Or.inl hlk)
        · split at h
          · rename_i e he; simp only [Except.error.injEq] at h; subst h
            exact (ih2 _ _ he).mono (by simp [requiredNodesL]; intro lk hlk; exact Or.inr hlk)
          · cases h
    · intro ts f h
      cases ts with
      | nil => simp [evalFirst] at h
      | cons t ts =>
        simp only [evalFirst] at h
        split at h
        · rename_i e he; simp only [Except.error.injEq] at h; subst h
          exact (ih1 _ _ he).mono (by simp [requiredNodesL]; intro lk hlk; exact Or.inl hlk)
        · split at h
          · cases h
          · exact (ih3 _ _ h).mono (by simp [requiredNodesL]; intro lk hlk; exact Or.inr hlk)

/-- a `FieldIsMissing` from the pipeline comes from the template of one entry, all entries before
it (in formatting order) having been formatted -/
theorem formatEntries_missing (db : BibData) (items : Str → Option Item) :
    ∀ (l : List (Str × PEntry)) (f key : Str), formatEntries db items l = .error (.missingField f key) →
      ∃ pre label e post it, l = pre ++ (label, e) :: post ∧ e.key = key ∧ items e.key = some it ∧
        eval evalFuel { entry := e.toEntry, db := some db, personTemplates := it.personTemplates } it.template
          = .error (.missing f) ∧
        ∀ p ∈ pre, ∃ it r, items p.2.key = some it ∧
          eval evalFuel { entry := p.2.toEntry, db := some db, personTemplates := it.personTemplates } it.template = .ok r := by
  intro l
  induction l with
  | nil => intro f key h; simp [formatEntries] at h
  | cons p l ih =>
    intro f key h
    obtain ⟨label, e⟩ := p
    simp only [formatEntries] at h
    split at h
    · cases h
    · rename_i it hit
      split at h
      · rename_i f' hf'
        simp only [Except.error.injEq, BibErr.missingField.injEq] at h
        obtain ⟨rfl, rfl⟩ := h
        exact ⟨[], label, e, l, it, rfl, rfl, hit, hf', by simp⟩
      · cases h
      · cases h
      · rename_i text htext
        split at h
        · rename_i err herr
          simp only [Except.error.injEq] at h; subst h
          obtain ⟨pre, label', e', post, it', hl, hk, hi, he, hpre⟩ := ih f key herr
          refine ⟨(label, e) :: pre, label', e', post, it', by simp [hl], hk, hi, he, ?_⟩
          intro q hq
          rcases List.mem_cons.1 hq with rfl | hq
          · exact ⟨it, text, hit, htext⟩
          · exact hpre q hq
        · cases h

/-! ### fuel: more fuel never changes an answer other than "out of fuel" -/

theorem eval_mono_step (ctx : Ctx) : ∀ n,
    (∀ t, eval n ctx t ≠ .error .outOfFuel → eval (n + 1) ctx t = eval n ctx t) ∧
    (∀ ts, evalList n ctx ts ≠ .error .outOfFuel → evalList (n + 1) ctx ts = evalList n ctx ts) ∧
    (∀ ts, evalFirst n ctx ts ≠ .error .outOfFuel → evalFirst (n + 1) ctx ts = evalFirst n ctx ts) := by
  intro n
  induction n with
  | zero => refine ⟨?_, ?_, ?_⟩ <;> intro t h <;> exact absurd (by simp [eval, evalList, evalFirst]) h
  | succ n ih =>
    obtain ⟨ih1, ih2, ih3⟩ := ih
    refine ⟨?_, ?_, ?_⟩
    · intro t hne
      cases t with
      | lit r => simp only [eval]
      | raw s => simp only [eval]
      | join s s2 ls cs =>
        have hsub : evalList n ctx cs ≠ .error .outOfFuel := by intro h; apply hne; simp only [eval, h]
        simp only [eval, ih2 cs hsub]
      | together lt cs =>
        have hsub : evalList n ctx cs ≠ .error .outOfFuel := by intro h; apply hne; simp only [eval, h]
        simp only [eval, ih2 cs hsub]
      | sentence cf cap ap sep cs =>
        have hsub : evalList n ctx cs ≠ .error .outOfFuel := by intro h; apply hne; simp only [eval_sentence, h]
        simp only [eval_sentence, ih2 cs hsub]
      | field name fn raw => simp only [eval]
      | names role s s2 ls =>
        cases hf : ctx.personTemplates.find? (fun p => lower p.1 = lower role) with
        | none => simp only [eval, hf]
        | some p =>
          obtain ⟨r, ts⟩ := p
          have hsub : evalList n ctx ts ≠ .error .outOfFuel := by intro h; apply hne; simp only [eval, hf, h]
          simp only [eval, hf, ih2 ts hsub]
      | optional cs =>
        have hsub : evalList n ctx cs ≠ .error .outOfFuel := by intro h; apply hne; simp only [eval, h]
        simp only [eval, ih2 cs hsub]
      | firstOf cs =>
        have hsub : evalFirst n ctx cs ≠ .error .outOfFuel := by intro h; apply hne; simp only [eval, h]
        simp only [eval, ih3 cs hsub]
      | tag name cs =>
        have hsub : evalList n ctx cs ≠ .error .outOfFuel := by intro h; apply hne; simp only [eval, h]
        simp only [eval, ih2 cs hsub]
      | href url ext cs =>
        have hsub : evalList n ctx cs ≠ .error .outOfFuel := by intro h; apply hne; simp only [eval_href, h]
        cases hcs : evalList n ctx cs with
        | error e => simp only [eval_href, ih2 cs hsub, hcs]
        | ok parts =>
          have hsub2 : eval n ctx url ≠ .error .outOfFuel := by intro h; apply hne; simp only [eval_href, hcs, h]
          simp only [eval_href, ih2 cs hsub, hcs, ih1 url hsub2]
      | namePart before tie abbr cs =>
        have hsub : evalList n ctx cs ≠ .error .outOfFuel := by intro h; apply hne; simp only [eval_namePart, h]
        simp only [eval_namePart, ih2 cs hsub]
    · intro ts hne
      cases ts with
      | nil => simp only [evalList]
      | cons t ts =>
        have hsub : eval n ctx t ≠ .error .outOfFuel := by intro h; apply hne; simp only [evalList, h]
        cases ht : eval n ctx t with
        | error e => simp only [evalList, ih1 t hsub, ht]
        | ok r =>
          have hsub2 : evalList n ctx ts ≠ .error .outOfFuel := by intro h; apply hne; simp only [evalList, ht, h]
          simp only [evalList, ih1 t hsub, ht, ih2 ts hsub2]
    · intro ts hne
      cases ts with
      | nil => simp only [evalFirst]
      | cons t ts =>
        have hsub : eval n ctx t ≠ .error .outOfFuel := by intro h; apply hne; simp only [evalFirst, h]
        cases ht : eval n ctx t with
        | error e => simp only [evalFirst, ih1 t hsub, ht]
        | ok r =>
          by_cases htr : truthy r = true
          · simp only [evalFirst, ih1 t hsub, ht, htr, if_true]
          · have hsub2 : evalFirst n ctx ts ≠ .error .outOfFuel := by
              intro h; apply hne; simp only [evalFirst, ht, htr, h]; simp
            simp only [evalFirst, ih1 t hsub, ht, htr, ih3 ts hsub2]

theorem eval_mono {ctx : Ctx} {n : Nat} {t : T} {x : Except TErr RT} (h : eval n ctx t = x)
    (hx : x ≠ .error .outOfFuel) : ∀ m, n ≤ m → eval m ctx t = x := by
  intro m hm
  obtain ⟨k, rfl⟩ := Nat.exists_eq_add_of_le hm
  clear hm
  induction k with
  | zero => exact h
  | succ k ih => rw [← Nat.add_assoc, (eval_mono_step ctx (n + k)).1 t (by rw [ih]; exact hx), ih]

theorem evalList_mono {ctx : Ctx} {n : Nat} {ts : List T} {x : Except TErr (List RT)} (h : evalList n ctx ts = x)
    (hx : x ≠ .error .outOfFuel) : ∀ m, n ≤ m → evalList m ctx ts = x := by
  intro m hm
  obtain ⟨k, rfl⟩ := Nat.exists_eq_add_of_le hm
  clear hm
  induction k with
  | zero => exact h
  | succ k ih => rw [← Nat.add_assoc, (eval_mono_step ctx (n + k)).2.1 ts (by rw [ih]; exact hx), ih]

theorem evalFirst_mono {ctx : Ctx} {n : Nat} {ts : List T} {x : Except TErr RT} (h : evalFirst n ctx ts = x)
    (hx : x ≠ .error .outOfFuel) : ∀ m, n ≤ m → evalFirst m ctx ts = x := by
  intro m hm
  obtain ⟨k, rfl⟩ := Nat.exists_eq_add_of_le hm
  clear hm
  induction k with
  | zero => exact h
  | succ k ih => rw [← Nat.add_assoc, (eval_mono_step ctx (n + k)).2.2 ts (by rw [ih]; exact hx), ih]

/-- evaluation is deterministic in the fuel: two runs that do not run out of fuel agree -/
theorem eval_fuel_agree {ctx : Ctx} {n m : Nat} {t : T} (hn : eval n ctx t ≠ .error .outOfFuel)
    (hm : eval m ctx t ≠ .error .outOfFuel) : eval n ctx t = eval m ctx t := by
  rcases Nat.le_total n m with h | h
  · exact (eval_mono rfl hn m h).symm
  · exact eval_mono rfl hm n h

/-! ### exact characterisation of "missing field" -/

/-- the evaluation of `x` with this fuel ends in the error `e` -/
def failsWith (fuel : Nat) (ctx : Ctx) (x : Tgt) (e : TErr) : Prop :=
  match x with
  | .node t => eval fuel ctx t = .error e
  | .all ts => evalList fuel ctx ts = .error e
  | .first ts => evalFirst fuel ctx ts = .error e

theorem failsWith_mono {ctx : Ctx} {n : Nat} {x : Tgt} {f : Str} (h : failsWith n ctx x (.missing f)) :
    ∀ m, n ≤ m → failsWith m ctx x (.missing f) := by
  intro m hm
  cases x with
  | node t => exact eval_mono h (by simp) m hm
  | all ts => exact evalList_mono h (by simp) m hm
  | first ts => exact evalFirst_mono h (by simp) m hm

theorem missing_of_failsWith (ctx : Ctx) : ∀ fuel,
    (∀ t f, eval fuel ctx t = .error (.missing f) → Missing ctx (.node t) f) ∧
    (∀ ts f, evalList fuel ctx ts = .error (.missing f) → Missing ctx (.all ts) f) ∧
    (∀ ts f, evalFirst fuel ctx ts = .error (.missing f) → Missing ctx (.first ts) f) := by
  intro fuel
  induction fuel with
  | zero => refine ⟨?_, ?_, ?_⟩ <;> intro t f h <;> simp [eval, evalList, evalFirst] at h
  | succ n ih =>
    obtain ⟨ih1, ih2, ih3⟩ := ih
    refine ⟨?_, ?_, ?_⟩
    · intro t f h
      cases t with
      | lit r => simp [eval] at h
      | raw s => simp [eval] at h
      | join s s2 ls cs =>
        simp only [eval] at h
        split at h
        · rename_i e he; simp only [Except.error.injEq] at h; subst h; exact .join (ih2 _ _ he)
        · cases h
      | together lt cs =>
        simp only [eval] at h
        split at h
        · rename_i e he; simp only [Except.error.injEq] at h; subst h; exact .together (ih2 _ _ he)
        · cases h
      | sentence cf cap ap sep cs =>
        rw [eval_sentence] at h
        split at h
        · rename_i e he; simp only [Except.error.injEq] at h; subst h; exact .sentence (ih2 _ _ he)
        · cases h
      | field name fn raw =>
        simp only [eval] at h
        split at h
        · rename_i hf
          simp only [Except.error.injEq, TErr.missing.injEq] at h; subst h
          exact .field hf
        · split at h
          · cases h
          · split at h
            · rename_i e he; simp only [Except.error.injEq] at h; subst h
              exact absurd he (fromLatex_not_missing _ _)
            · cases h
      | names role s s2 ls =>
        simp only [eval] at h
        split at h
        · rename_i hf
          simp only [Except.error.injEq, TErr.missing.injEq] at h; subst h
          exact .names hf
        · rename_i r ts hf
          split at h
          · rename_i e he; simp only [Except.error.injEq] at h; subst h
            exact .namesIn hf (ih2 _ _ he)
          · cases h
      | optional cs => exact absurd h (eval_optional_not_missing _ _ _ _)
      | firstOf cs =>
        simp only [eval] at h
        exact .firstOf (ih3 _ _ h)
      | tag name cs =>
        simp only [eval] at h
        split at h
        · rename_i e he; simp only [Except.error.injEq] at h; subst h; exact .tag (ih2 _ _ he)
        · cases h
      | href url ext cs =>
        simp only [eval] at h
        split at h
        · rename_i e he; simp only [Except.error.injEq] at h; subst h; exact .hrefKids (ih2 _ _ he)
        · rename_i parts hparts
          split at h
          · rename_i e he; simp only [Except.error.injEq] at h; subst h
            exact .hrefUrl ⟨n, parts, hparts⟩ (ih1 _ _ he)
          · cases h
      | namePart before tie abbr cs =>
        rw [eval_namePart] at h
        split at h
        · rename_i e he; simp only [Except.error.injEq] at h; subst h; exact .namePart (ih2 _ _ he)
        · cases h
    · intro ts f h
      cases ts with
      | nil => simp [evalList] at h
      | cons t ts =>
        simp only [evalList] at h
        split at h
        · rename_i e he; simp only [Except.error.injEq] at h; subst h; exact .allHead (ih1 _ _ he)
        · rename_i r hr
          split at h
          · rename_i e he; simp only [Except.error.injEq] at h; subst h
            exact .allTail ⟨n, r, hr⟩ (ih2 _ _ he)
          · cases h
    · intro ts f h
      cases ts with
      | nil => simp [evalFirst] at h
      | cons t ts =>
        simp only [evalFirst] at h
        split at h
        · rename_i e he; simp only [Except.error.injEq] at h; subst h; exact .firstHead (ih1 _ _ he)
        · rename_i r hr
          split at h
          · cases h
          · rename_i htr
            exact .firstTail ⟨n, r, hr, by simpa using htr⟩ (ih3 _ _ h)

theorem failsWith_of_missing {ctx : Ctx} {x : Tgt} {f : Str} (h : Missing ctx x f) :
    ∃ fuel, failsWith fuel ctx x (.missing f) := by
  induction h with
  | field hf => exact ⟨1, by simp [failsWith, eval, hf]⟩
  | names hf => exact ⟨1, by simp [failsWith, eval, hf]⟩
  | @namesIn r s s2 ls p f hf _ ih =>
    obtain ⟨fuel, hfl⟩ := ih
    obtain ⟨r', ts⟩ := p
    exact ⟨fuel + 1, by simp only [failsWith] at hfl ⊢; simp only [eval, hf, hfl]⟩
  | join _ ih =>
    obtain ⟨fuel, hfl⟩ := ih
    exact ⟨fuel + 1, by simp only [failsWith] at hfl ⊢; simp only [eval, hfl]⟩
  | together _ ih =>
    obtain ⟨fuel, hfl⟩ := ih
    exact ⟨fuel + 1, by simp only [failsWith] at hfl ⊢; simp only [eval, hfl]⟩
  | sentence _ ih =>
    obtain ⟨fuel, hfl⟩ := ih
    exact ⟨fuel + 1, by simp only [failsWith] at hfl ⊢; simp only [eval_sentence, hfl]⟩
  | tag _ ih =>
    obtain ⟨fuel, hfl⟩ := ih
    exact ⟨fuel + 1, by simp only [failsWith] at hfl ⊢; simp only [eval, hfl]⟩
  | namePart _ ih =>
    obtain ⟨fuel, hfl⟩ := ih
    exact ⟨fuel + 1, by simp only [failsWith] at hfl ⊢; simp only [eval_namePart, hfl]⟩
  | hrefKids _ ih =>
    obtain ⟨fuel, hfl⟩ := ih
    exact ⟨fuel + 1, by simp only [failsWith] at hfl ⊢; simp only [eval, hfl]⟩
  | hrefUrl hok _ ih =>
    obtain ⟨fuel1, parts, hparts⟩ := hok
    obtain ⟨fuel2, hfl⟩ := ih
    refine ⟨max fuel1 fuel2 + 1, ?_⟩
    have h1 := evalList_mono hparts (by simp) (max fuel1 fuel2) (Nat.le_max_left _ _)
    have h2 := failsWith_mono hfl (max fuel1 fuel2) (Nat.le_max_right _ _)
    simp only [failsWith] at h2 ⊢
    simp only [eval, h1, h2]
  | firstOf _ ih =>
    obtain ⟨fuel, hfl⟩ := ih
    exact ⟨fuel + 1, by simp only [failsWith] at hfl ⊢; simp only [eval, hfl]⟩
  | allHead _ ih =>
    obtain ⟨fuel, hfl⟩ := ih
    exact ⟨fuel + 1, by simp only [failsWith] at hfl ⊢; simp only [evalList, hfl]⟩
  | allTail hok _ ih =>
    obtain ⟨fuel1, r, hr⟩ := hok
    obtain ⟨fuel2, hfl⟩ := ih
    refine ⟨max fuel1 fuel2 + 1, ?_⟩
    have h1 := eval_mono hr (by simp) (max fuel1 fuel2) (Nat.le_max_left _ _)
    have h2 := failsWith_mono hfl (max fuel1 fuel2) (Nat.le_max_right _ _)
    simp only [failsWith] at h2 ⊢
    simp only [evalList, h1, h2]
  | firstHead _ ih =>
    obtain ⟨fuel, hfl⟩ := ih
    exact ⟨fuel + 1, by simp only [failsWith] at hfl ⊢; simp only [evalFirst, hfl]⟩
  | firstTail hok _ ih =>
    obtain ⟨fuel1, r, hr, htr⟩ := hok
    obtain ⟨fuel2, hfl⟩ := ih
    refine ⟨max fuel1 fuel2 + 1, ?_⟩
    have h1 := eval_mono hr (by simp) (max fuel1 fuel2) (Nat.le_max_left _ _)
    have h2 := failsWith_mono hfl (max fuel1 fuel2) (Nat.le_max_right _ _)
    simp only [failsWith] at h2 ⊢
    simp only [evalFirst, h1, htr, h2]
    simp

end Pybtex.Tmpl
