/-
Helper lemmas for C07 (Python formatting engine): orders and stable insertion sort, labels,
the resolve → sort → label → template pipeline, the template evaluator.
-/
import PybtexModel.Spec.PyStyle
import PybtexModel.Lemmas.RichText
import PybtexModel.Lemmas.Citations
import PybtexModel.Lemmas.Crossref

namespace Pybtex.Tmpl
open Pybtex.RT Pybtex.Tmpl.Spec

/-! ### `strLt`, `tripleLt`: strict total orders -/

theorem strLt_irrefl (a : Str) : strLt a a = false := by
  induction a with
  | nil => rfl
  | cons c r ih => simp [strLt, ih]

theorem strLt_trans : ∀ {a b c : Str}, strLt a b = true → strLt b c = true → strLt a c = true := by
  intro a
  induction a with
  | nil =>
    intro b c h1 h2
    cases b with
    | nil => simp [strLt] at h1
    | cons y b => cases c with
      | nil => simp [strLt] at h2
      | cons z c => simp [strLt]
  | cons x a ih =>
    intro b c h1 h2
    cases b with
    | nil => simp [strLt] at h1
    | cons y b => cases c with
      | nil => simp [strLt] at h2
      | cons z c =>
        simp only [strLt] at h1 h2 ⊢
        split at h1
        · split at h2
          · rw [if_pos (by omega)]
          · split at h2
            · cases h2
            · rw [if_pos (by omega)]
        · split at h1
          · cases h1
          · split at h2
            · rw [if_pos (by omega)]
            · split at h2
              · cases h2
              · rw [if_neg (by omega), if_neg (by omega)]
                exact ih h1 h2

theorem strLt_total : ∀ {a b : Str}, strLt a b = false → strLt b a = false → a = b := by
  intro a
  induction a with
  | nil => intro b h1 h2; cases b with
    | nil => rfl
    | cons y b => simp [strLt] at h1
  | cons x a ih =>
    intro b h1 h2
    cases b with
    | nil => simp [strLt] at h2
    | cons y b =>
      simp only [strLt] at h1 h2
      split at h1
      · cases h1
      · split at h2
        · cases h2
        · have hxy : x.toNat = y.toNat := by omega
          rw [if_neg (by omega)] at h1
          rw [Char.toNat_inj.1 hxy, ih h1 h2]

theorem strLt_asymm {a b : Str} (h : strLt a b = true) : strLt b a = false := by
  cases h' : strLt b a with
  | false => rfl
  | true => have := strLt_trans h h'; rw [strLt_irrefl] at this; cases this

theorem tripleLt_irrefl (a : Str × Str × Str) : tripleLt a a = false := by
  simp [tripleLt, strLt_irrefl]

theorem tripleLt_trans {a b c : Str × Str × Str} (h1 : tripleLt a b = true) (h2 : tripleLt b c = true) :
    tripleLt a c = true := by
  obtain ⟨a1, a2, a3⟩ := a
  obtain ⟨b1, b2, b3⟩ := b
  obtain ⟨c1, c2, c3⟩ := c
  simp only [tripleLt] at h1 h2 ⊢
  -- first components
  by_cases hab : strLt a1 b1 = true
  · by_cases hbc : strLt b1 c1 = true
    · rw [if_pos (strLt_trans hab hbc)]
    · rw [if_neg hbc] at h2
      by_cases hcb : strLt c1 b1 = true
      · rw [if_pos hcb] at h2; cases h2
      · have : b1 = c1 := strLt_total (by simpa using hbc) (by simpa using hcb)
        subst this; rw [if_pos hab]
  · rw [if_neg hab] at h1
    by_cases hba : strLt b1 a1 = true
    · rw [if_pos hba] at h1; cases h1
    · rw [if_neg hba] at h1
      have e1 : a1 = b1 := strLt_total (by simpa using hab) (by simpa using hba)
      subst e1
      by_cases hbc : strLt a1 c1 = true
      · rw [if_pos hbc]
      · rw [if_neg hbc] at h2 ⊢
        by_cases hcb : strLt c1 a1 = true
        · rw [if_pos hcb] at h2; cases h2
        · rw [if_neg hcb] at h2 ⊢
          -- second components
          by_cases hab2 : strLt a2 b2 = true
          · by_cases hbc2 : strLt b2 c2 = true
            · rw [if_pos (strLt_trans hab2 hbc2)]
            · rw [if_neg hbc2] at h2
              by_cases hcb2 : strLt c2 b2 = true
              · rw [if_pos hcb2] at h2; cases h2
              · have : b2 = c2 := strLt_total (by simpa using hbc2) (by simpa using hcb2)
                subst this; rw [if_pos hab2]
          · rw [if_neg hab2] at h1
            by_cases hba2 : strLt b2 a2 = true
            · rw [if_pos hba2] at h1; cases h1
            · rw [if_neg hba2] at h1
              have e2 : a2 = b2 := strLt_total (by simpa using hab2) (by simpa using hba2)
              subst e2
              by_cases hbc2 : strLt a2 c2 = true
              · rw [if_pos hbc2]
              · rw [if_neg hbc2] at h2 ⊢
                by_cases hcb2 : strLt c2 a2 = true
                · rw [if_pos hcb2] at h2; cases h2
                · rw [if_neg hcb2] at h2 ⊢
                  exact strLt_trans h1 h2

theorem tripleLt_total {a b : Str × Str × Str} (h1 : tripleLt a b = false) (h2 : tripleLt b a = false) : a = b := by
  obtain ⟨a1, a2, a3⟩ := a
  obtain ⟨b1, b2, b3⟩ := b
  simp only [tripleLt] at h1 h2
  by_cases hab : strLt a1 b1 = true
  · rw [if_pos hab] at h1; cases h1
  · rw [if_neg hab] at h1 h2
    by_cases hba : strLt b1 a1 = true
    · rw [if_pos hba] at h2; cases h2
    · rw [if_neg hba] at h1 h2
      have e1 : a1 = b1 := strLt_total (by simpa using hab) (by simpa using hba)
      by_cases hab2 : strLt a2 b2 = true
      · rw [if_pos hab2] at h1; cases h1
      · rw [if_neg hab2] at h1 h2
        by_cases hba2 : strLt b2 a2 = true
        · rw [if_pos hba2] at h2; cases h2
        · rw [if_neg hba2] at h1 h2
          have e2 : a2 = b2 := strLt_total (by simpa using hab2) (by simpa using hba2)
          have e3 : a3 = b3 := strLt_total h1 h2
          rw [e1, e2, e3]

/-! ### stable insertion sort, generically -/

/-- a strict weak order given as a Boolean comparison -/
structure StrictWeak {α : Type} (lt : α → α → Bool) : Prop where
  irrefl : ∀ a, lt a a = false
  trans : ∀ a b c, lt a b = true → lt b c = true → lt a c = true
  negtrans : ∀ a b c, lt a b = true → lt a c = true ∨ lt c b = true

theorem StrictWeak.asymm {α : Type} {lt : α → α → Bool} (h : StrictWeak lt) {a b : α} (hab : lt a b = true) :
    lt b a = false := by
  cases h' : lt b a with
  | false => rfl
  | true => have := h.trans _ _ _ hab h'; rw [h.irrefl] at this; cases this

/-- a comparison of keys by a strict total order is a strict weak order -/
theorem strictWeak_of_key {α κ : Type} (key : α → κ) (lt : κ → κ → Bool)
    (hirr : ∀ a, lt a a = false) (htr : ∀ a b c, lt a b = true → lt b c = true → lt a c = true)
    (htot : ∀ a b, lt a b = false → lt b a = false → a = b) :
    StrictWeak fun a b => lt (key a) (key b) where
  irrefl a := hirr _
  trans a b c := htr _ _ _
  negtrans a b c hab := by
    cases hac : lt (key a) (key c) with
    | true => exact Or.inl rfl
    | false =>
      right
      cases hca : lt (key c) (key a) with
      | true => exact htr _ _ _ hca hab
      | false => rw [← htot _ _ hac hca]; exact hab

theorem keyLt_strictWeak : StrictWeak keyLt :=
  strictWeak_of_key sortingKey tripleLt tripleLt_irrefl (fun _ _ _ => tripleLt_trans) (fun _ _ => tripleLt_total)

theorem eqv_keyLt (a b : PEntry) : eqv keyLt a b = true ↔ sortingKey a = sortingKey b := by
  simp only [eqv, keyLt, Bool.and_eq_true, Bool.not_eq_true']
  constructor
  · rintro ⟨h1, h2⟩; exact tripleLt_total h1 h2
  · intro h; rw [h]; exact ⟨tripleLt_irrefl _, tripleLt_irrefl _⟩

section sort
variable {α : Type} {lt : α → α → Bool}

theorem mem_insertBy {x y : α} {l : List α} : y ∈ insertBy lt x l ↔ y = x ∨ y ∈ l := by
  induction l with
  | nil => simp [insertBy]
  | cons z r ih =>
    simp only [insertBy]
    split
    · simp
    · simp only [List.mem_cons, ih]
      constructor
      · rintro (h | h | h) <;> simp [h]
      · rintro (h | h | h) <;> simp [h]

theorem insertBy_perm (x : α) (l : List α) : (insertBy lt x l).Perm (x :: l) := by
  induction l with
  | nil => simp [insertBy]
  | cons z r ih =>
    simp only [insertBy]
    split
    · exact List.Perm.refl _
    · exact ((List.Perm.cons z ih).trans (List.Perm.swap x z r))

theorem insertBy_sorted (h : StrictWeak lt) (x : α) {l : List α} (hl : SortedBy lt l) :
    SortedBy lt (insertBy lt x l) := by
  unfold SortedBy at *
  induction l with
  | nil => simp [insertBy]
  | cons z r ih =>
    rw [List.pairwise_cons] at hl
    simp only [insertBy]
    split
    · rename_i hxz
      rw [List.pairwise_cons]
      refine ⟨?_, List.pairwise_cons.2 hl⟩
      intro y hy
      rcases List.mem_cons.1 hy with rfl | hy
      · exact h.asymm hxz
      · cases hyx : lt y x with
        | false => rfl
        | true => have := h.trans _ _ _ hyx hxz; rw [hl.1 y hy] at this; cases this
    · rename_i hxz
      rw [List.pairwise_cons]
      refine ⟨?_, ih hl.2⟩
      intro y hy
      rcases mem_insertBy.1 hy with rfl | hy
      · simpa using hxz
      · exact hl.1 y hy

/-- everything in a sorted list that starts above `x` is above `x` -/
theorem lt_of_sorted_cons (h : StrictWeak lt) {x z : α} {r : List α} (hl : SortedBy lt (z :: r))
    (hxz : lt x z = true) : ∀ y ∈ z :: r, lt x y = true := by
  intro y hy
  rcases List.mem_cons.1 hy with rfl | hy
  · exact hxz
  · rcases h.negtrans _ _ y hxz with h' | h'
    · exact h'
    · have := (List.pairwise_cons.1 hl).1 y hy; rw [this] at h'; cases h'

theorem eqv_lt_false (h : StrictWeak lt) {a x y : α} (hax : eqv lt a x = true) (hxy : lt x y = true) :
    eqv lt a y = false := by
  simp only [eqv, Bool.and_eq_true, Bool.not_eq_true'] at hax
  have : lt a y = true := by
    rcases h.negtrans _ _ a hxy with h' | h'
    · rw [hax.2] at h'; cases h'
    · exact h'
  simp [eqv, this]

/-- insertion puts the new element after every equivalent one -/
theorem insertBy_filter_eqv (h : StrictWeak lt) (a x : α) {l : List α} (hl : SortedBy lt l) :
    (insertBy lt x l).filter (eqv lt a) = l.filter (eqv lt a) ++ [x].filter (eqv lt a) := by
  induction l with
  | nil => simp [insertBy]
  | cons z r ih =>
    simp only [insertBy]
    split
    · rename_i hxz
      cases hax : eqv lt a x with
      | false => simp [List.filter_cons, hax]
      | true =>
        have hnone : (z :: r).filter (eqv lt a) = [] := by
          rw [List.filter_eq_nil_iff]
          intro y hy
          rw [eqv_lt_false h hax (lt_of_sorted_cons h hl hxz y hy)]
          simp
        rw [List.filter_cons, hax, if_pos rfl, hnone]
        simp [hax]
    · have hr : SortedBy lt r := (List.pairwise_cons.1 hl).2
      rw [List.filter_cons, ih hr, List.filter_cons (x := z) (xs := r)]
      split <;> simp

theorem foldl_insertBy_perm (acc l : List α) :
    (l.foldl (fun acc x => insertBy lt x acc) acc).Perm (acc ++ l) := by
  induction l generalizing acc with
  | nil => simp
  | cons x l ih =>
    simp only [List.foldl_cons]
    refine (ih _).trans ?_
    refine ((insertBy_perm x acc).append_right l).trans ?_
    simpa using (List.perm_middle (l₁ := acc) (a := x) (l₂ := l)).symm

theorem foldl_insertBy_sorted (h : StrictWeak lt) (acc l : List α) (hacc : SortedBy lt acc) :
    SortedBy lt (l.foldl (fun acc x => insertBy lt x acc) acc) := by
  induction l generalizing acc with
  | nil => simpa
  | cons x l ih => simp only [List.foldl_cons]; exact ih _ (insertBy_sorted h x hacc)

theorem foldl_insertBy_stable (h : StrictWeak lt) (a : α) (acc l : List α) (hacc : SortedBy lt acc) :
    (l.foldl (fun acc x => insertBy lt x acc) acc).filter (eqv lt a)
      = acc.filter (eqv lt a) ++ l.filter (eqv lt a) := by
  induction l generalizing acc with
  | nil => simp
  | cons x l ih =>
    simp only [List.foldl_cons]
    rw [ih _ (insertBy_sorted h x hacc), insertBy_filter_eqv h a x hacc, List.append_assoc]
    congr 1
    rw [List.filter_cons (x := x) (xs := l)]
    simp only [List.filter_cons, List.filter_nil]
    split <;> simp

theorem sortBy_perm (lt : α → α → Bool) (l : List α) : (sortBy lt l).Perm l := by
  simpa [sortBy] using foldl_insertBy_perm (lt := lt) [] l

theorem sortBy_sorted (h : StrictWeak lt) (l : List α) : SortedBy lt (sortBy lt l) :=
  foldl_insertBy_sorted h [] l List.Pairwise.nil

/-- stability: elements that compare equal keep their relative order -/
theorem sortBy_stable (h : StrictWeak lt) (a : α) (l : List α) :
    (sortBy lt l).filter (eqv lt a) = l.filter (eqv lt a) := by
  simpa [sortBy] using foldl_insertBy_stable h a [] l List.Pairwise.nil

end sort

/-! ### the pipeline: resolve → sort → label → template -/

theorem contains_setItem {V : Type} (d : CIDict V) (k k' : Str) (v : V) :
    (d.setItem k v).contains k' = (decide (lower k = lower k') || d.contains k') := by
  unfold CIDict.contains CIDict.setItem dhas
  by_cases h : lower k = lower k'
  · simp only [h, dget_dset_same]; simp
  · simp only [dget_dset_ne _ _ _ _ (Ne.symm h)]; simp [h]

theorem contains_foldl_setItem (es : List PEntry) (d : CIDict Entry) (k : Str)
    (h : (es.foldl (fun d e => d.setItem e.key e.toEntry) d).contains k = true) :
    d.contains k = true ∨ ∃ e ∈ es, lower e.key = lower k := by
  induction es generalizing d with
  | nil => exact Or.inl h
  | cons e es ih =>
    rcases ih _ h with h' | ⟨e', he', hk⟩
    · rw [contains_setItem] at h'
      simp only [Bool.or_eq_true, decide_eq_true_eq] at h'
      rcases h' with h' | h'
      · exact Or.inr ⟨e, by simp, h'⟩
      · exact Or.inl h'
    · exact Or.inr ⟨e', by simp [he'], hk⟩

theorem storedEntry_of_contains (es : List PEntry) (k : Str) (h : (mkDb es).entries.contains k = true) :
    (storedEntry es k).isSome = true := by
  rcases contains_foldl_setItem es CIDict.empty k h with h' | ⟨e, he, hk⟩
  · simp [CIDict.contains, CIDict.empty, dhas, dget] at h'
  · unfold storedEntry
    rw [List.find?_isSome]
    exact ⟨e, he, by simpa using hk⟩

theorem contains_of_mem_removeMissing (db : BibData) (l : List Str) :
    ∀ k ∈ (db.removeMissing l).1, db.entries.contains k = true := by
  induction l with
  | nil => simp [BibData.removeMissing]
  | cons c l ih =>
    intro k hk
    simp only [BibData.removeMissing] at hk
    split at hk
    · rename_i hc
      rcases List.mem_cons.1 hk with rfl | hk
      · exact hc
      · exact ih k hk
    · exact ih k hk

theorem removeMissing_sublist (db : BibData) (l : List Str) : (db.removeMissing l).1.Sublist l := by
  induction l with
  | nil => simp [BibData.removeMissing]
  | cons c l ih =>
    simp only [BibData.removeMissing]
    split
    · exact ih.cons_cons c
    · exact ih.cons c

theorem map_filterMap_of_isSome {α β : Type} (f : α → Option β) (l : List α)
    (h : ∀ a ∈ l, (f a).isSome = true) : l.map f = (l.filterMap f).map some := by
  induction l with
  | nil => rfl
  | cons a l ih =>
    have ha := h a (by simp)
    cases hf : f a with
    | none => rw [hf] at ha; cases ha
    | some b =>
      rw [List.filterMap_cons_some hf, List.map_cons, List.map_cons, hf,
        ih (fun a ha => h a (List.mem_cons_of_mem _ ha))]

/-- every resolved key denotes an entry: nothing is dropped by the lookup -/
theorem resolvedKeys_stored (es : List PEntry) (cites : List Str) (mc : Int) :
    (resolvedKeys es cites mc).map (storedEntry es) = (resolvedEntries es cites mc).map some := by
  apply map_filterMap_of_isSome
  intro k hk
  exact storedEntry_of_contains es k (contains_of_mem_removeMissing _ _ k hk)

theorem storedEntry_key {es : List PEntry} {k : Str} {e : PEntry} (h : storedEntry es k = some e) :
    e ∈ es ∧ lower e.key = lower k := by
  unfold storedEntry at h
  exact ⟨List.mem_of_find?_eq_some h, by simpa using List.find?_some h⟩

theorem resolvedEntries_keys (es : List PEntry) (cites : List Str) (mc : Int) :
    (resolvedEntries es cites mc).map (fun e => lower e.key) = (resolvedKeys es cites mc).map lower := by
  have h := resolvedKeys_stored es cites mc
  unfold resolvedEntries at *
  generalize resolvedKeys es cites mc = l at h
  induction l with
  | nil => rfl
  | cons k l ih =>
    simp only [List.map_cons] at h
    cases hk : storedEntry es k with
    | none =>
      rw [hk, List.filterMap_cons_none hk] at h
      cases hl : l.filterMap (storedEntry es) with
      | nil => rw [hl] at h; cases h
      | cons x xs =>
        -- impossible: the head of the right-hand side is `some _`
        rw [hl] at h; simp at h
    | some e =>
      rw [List.filterMap_cons_some hk] at h ⊢
      simp only [List.map_cons, List.cons.injEq] at h ⊢
      exact ⟨(storedEntry_key hk).2, ih h.2⟩

theorem formatEntries_ok (db : BibData) (items : Str → Option Item) :
    ∀ (l : List (Str × PEntry)) (fs : List Formatted), formatEntries db items l = .ok fs →
      fs.map (·.key) = l.map (·.2.key) ∧ fs.map (·.label) = l.map (·.1) := by
  intro l
  induction l with
  | nil => intro fs h; simp only [formatEntries, Except.ok.injEq] at h; subst h; simp
  | cons p l ih =>
    intro fs h
    obtain ⟨label, e⟩ := p
    simp only [formatEntries] at h
    split at h
    · cases h
    · split at h
      · cases h
      · cases h
      · cases h
      · split at h
        · cases h
        · rename_i l' hl'
          simp only [Except.ok.injEq] at h
          subst h
          obtain ⟨h1, h2⟩ := ih l' hl'
          simp [h1, h2]

theorem alphaSuffix_length (all : List Str) : ∀ (l seen : List Str), (alphaSuffix all l seen).length = l.length := by
  intro l
  induction l with
  | nil => intro seen; rfl
  | cons x l ih => intro seen; simp only [alphaSuffix]; split <;> simp [ih]

theorem mapM_option_length {α β : Type} (f : α → Option β) :
    ∀ (l : List α) (r : List β), l.mapM f = some r → r.length = l.length := by
  intro l
  induction l with
  | nil => intro r h; simp at h; subst h; rfl
  | cons a l ih =>
    intro r h
    rw [List.mapM_cons] at h
    cases hf : f a with
    | none => rw [hf] at h; simp at h
    | some b =>
      rw [hf] at h
      cases hl : l.mapM f with
      | none => rw [hl] at h; simp at h
      | some r' =>
        rw [hl] at h
        simp at h
        subst h
        simp [ih r' hl]

theorem formatLabels_length {lab : Labels} {es : List PEntry} {ls : List Str}
    (h : formatLabels lab es = some ls) : ls.length = es.length := by
  cases lab with
  | number =>
    simp only [formatLabels, Option.some.injEq] at h
    subst h; simp [numberLabels]
  | alpha =>
    simp only [formatLabels, alphaLabels, Option.map_eq_some_iff] at h
    obtain ⟨base, hb, rfl⟩ := h
    rw [alphaSuffix_length, mapM_option_length _ _ _ hb]

theorem formatBibliography_eq (es : List PEntry) (items : Str → Option Item) (cites : List Str) (mc : Int)
    (sorting : Sorting) (lab : Labels) :
    formatBibliography es items cites mc sorting lab =
      match formatLabels lab (sortEntries sorting (resolvedEntries es cites mc)) with
      | none => (((mkDb es).addExtraCitations cites mc).2 ++
          ((mkDb es).removeMissingPy ((mkDb es).addExtraCitations cites mc).1).2, .error .labelIndex)
      | some ls => (((mkDb es).addExtraCitations cites mc).2 ++
          ((mkDb es).removeMissingPy ((mkDb es).addExtraCitations cites mc).1).2,
          formatEntries (mkDb es) items (ls.zip (sortEntries sorting (resolvedEntries es cites mc)))) := rfl

/-- a successful run: the sorted entries, their labels, and the formatted entries line up -/
theorem formatBibliography_ok {es : List PEntry} {items : Str → Option Item} {cites : List Str} {mc : Int}
    {sorting : Sorting} {lab : Labels} {rep : List Report} {fs : List Formatted}
    (h : formatBibliography es items cites mc sorting lab = (rep, .ok fs)) :
    ∃ ls, formatLabels lab (sortEntries sorting (resolvedEntries es cites mc)) = some ls ∧
      fs.map (·.key) = (sortEntries sorting (resolvedEntries es cites mc)).map (·.key) ∧
      fs.map (·.label) = ls := by
  rw [formatBibliography_eq] at h
  split at h
  · simp only [Prod.mk.injEq] at h; cases h.2
  · rename_i ls hls
    simp only [Prod.mk.injEq] at h
    have hlen := formatLabels_length hls
    obtain ⟨h1, h2⟩ := formatEntries_ok _ _ _ _ h.2
    refine ⟨ls, hls, ?_, ?_⟩
    · have hf : (fun x : Str × PEntry => x.2.key) = PEntry.key ∘ Prod.snd := rfl
      rw [h1, hf, ← List.map_map, List.map_snd_zip (by omega)]
    · have hf : (fun x : Str × PEntry => x.1) = Prod.fst := rfl
      rw [h2, hf, List.map_fst_zip (by omega)]

/-- the database `format_bibliography` receives is well formed when its entries are -/
theorem foldl_setItem_wf (es : List PEntry) (h : ∀ e ∈ es, EntryWF e.toEntry) :
    ∀ (d : CIDict Entry), DbWF ⟨d, none, CISet.empty⟩ →
      DbWF ⟨es.foldl (fun d e => d.setItem e.key e.toEntry) d, none, CISet.empty⟩ := by
  induction es with
  | nil => intro d hd; exact hd
  | cons e es ih =>
    intro d hd
    exact ih (fun x hx => h x (List.mem_cons_of_mem _ hx)) _ (DbWF.setEntry hd (h e (by simp)) e.key none)

theorem mkDb_wf (es : List PEntry) (h : ∀ e ∈ es, EntryWF e.toEntry) : DbWF (mkDb es) :=
  foldl_setItem_wf es h CIDict.empty (DbWF.init none)

/-! ### labels -/

theorem natToStr_eq (n : Nat) : natToStr n = Nat.toDigits 10 n := by simp [natToStr]

theorem natToStr_inj {m n : Nat} (h : natToStr m = natToStr n) : m = n := by
  have := congrArg (fun l => Nat.ofDigitChars 10 l 0) h
  simpa [natToStr_eq] using this

theorem numberLabels_nodup (n : Nat) : (numberLabels n).Nodup := by
  unfold numberLabels List.Nodup
  rw [List.pairwise_map]
  refine (List.nodup_range (n := n)).imp ?_
  intro a b hab h
  exact hab (by have := natToStr_inj h; omega)

theorem countOf_cons (y : Str) (l : List Str) (x : Str) :
    countOf (y :: l) x = (if y = x then 1 else 0) + countOf l x := by
  simp only [countOf, List.filter_cons]
  by_cases h : y = x
  · simp [h]; omega
  · simp [h]

theorem countOf_pos_of_mem {l : List Str} {x : Str} (h : x ∈ l) : 0 < countOf l x := by
  induction l with
  | nil => cases h
  | cons y l ih =>
    rw [countOf_cons]
    rcases List.mem_cons.1 h with rfl | h
    · simp; omega
    · have := ih h; omega

theorem mem_of_countOf_pos {l : List Str} {x : Str} (h : 0 < countOf l x) : x ∈ l := by
  induction l with
  | nil => simp [countOf] at h
  | cons y l ih =>
    rw [countOf_cons] at h
    by_cases hy : y = x
    · simp [hy]
    · rw [if_neg hy] at h; exact List.mem_cons_of_mem _ (ih (by omega))

theorem suffixChar_inj : ∀ i, i < 26 → ∀ j, j < 26 → suffixChar i = suffixChar j → i = j := by decide

/-- what the suffix loop emits: a base label that occurs once, or a base label that occurs several
times followed by the letter numbered by its occurrence -/
theorem mem_alphaSuffix (all : List Str) : ∀ (cur seen : List Str) (o : Str), o ∈ alphaSuffix all cur seen →
    (o ∈ cur ∧ countOf all o = 1) ∨
    ∃ m ∈ cur, countOf all m ≠ 1 ∧ ∃ k, countOf seen m ≤ k ∧ k < countOf seen m + countOf cur m ∧
      o = m ++ [suffixChar k] := by
  intro cur
  induction cur with
  | nil => intro seen o h; simp [alphaSuffix] at h
  | cons l r ih =>
    intro seen o h
    simp only [alphaSuffix] at h
    split at h
    · rename_i hl
      rcases List.mem_cons.1 h with rfl | h
      · exact Or.inl ⟨by simp, hl⟩
      · rcases ih seen o h with ⟨h1, h2⟩ | ⟨m, hm, hc, k, hk1, hk2, ho⟩
        · exact Or.inl ⟨List.mem_cons_of_mem _ h1, h2⟩
        · refine Or.inr ⟨m, List.mem_cons_of_mem _ hm, hc, k, hk1, ?_, ho⟩
          rw [countOf_cons]; omega
    · rename_i hl
      rcases List.mem_cons.1 h with rfl | h
      · refine Or.inr ⟨l, by simp, hl, countOf seen l, Nat.le_refl _, ?_, rfl⟩
        rw [countOf_cons]; simp; omega
      · rcases ih (l :: seen) o h with ⟨h1, h2⟩ | ⟨m, hm, hc, k, hk1, hk2, ho⟩
        · exact Or.inl ⟨List.mem_cons_of_mem _ h1, h2⟩
        · refine Or.inr ⟨m, List.mem_cons_of_mem _ hm, hc, k, ?_, ?_, ho⟩
          · rw [countOf_cons] at hk1; omega
          · rw [countOf_cons] at hk1 hk2 ⊢; omega

theorem alphaProviso_spec {all : List Str} (h : alphaProviso all = true) :
    (∀ l ∈ all, countOf all l ≤ 26) ∧
    (∀ l ∈ all, countOf all l = 1 → ∀ m ∈ all, countOf all m ≠ 1 → ∀ k, k < countOf all m →
      l ≠ m ++ [suffixChar k]) := by
  simp only [alphaProviso, List.all_eq_true, Bool.and_eq_true, decide_eq_true_eq, Bool.or_eq_true, bne_iff_ne,
    ne_eq, beq_iff_eq, List.mem_range] at h
  refine ⟨fun l hl => (h l hl).1, ?_⟩
  intro l hl h1 m hm hm1 k hk
  rcases (h l hl).2 with h' | h'
  · exact absurd h1 h'
  · rcases h' m hm with h'' | h''
    · exact absurd h'' hm1
    · exact h'' k hk

theorem alphaSuffix_nodup (all : List Str) (hp : alphaProviso all = true) :
    ∀ (cur seen : List Str),
      (∀ x, countOf cur x ≤ countOf all x) →
      (∀ x, countOf all x ≠ 1 → countOf seen x + countOf cur x = countOf all x) →
      (alphaSuffix all cur seen).Nodup := by
  obtain ⟨hp26, hpne⟩ := alphaProviso_spec hp
  intro cur
  induction cur with
  | nil => intro seen _ _; simp [alphaSuffix]
  | cons l r ih =>
    intro seen hle hsum
    have hlall : l ∈ all := mem_of_countOf_pos (by have := hle l; rw [countOf_cons] at this; simp at this; omega)
    have hler : ∀ x, countOf r x ≤ countOf all x := by
      intro x; have := hle x; rw [countOf_cons] at this; omega
    simp only [alphaSuffix]
    split
    · rename_i hl
      rw [List.nodup_cons]
      refine ⟨?_, ih seen hler ?_⟩
      · intro hmem
        rcases mem_alphaSuffix all r seen l hmem with ⟨h1, _⟩ | ⟨m, hm, hc, k, hk1, hk2, ho⟩
        · have := hle l
          have h2 := countOf_pos_of_mem h1
          rw [countOf_cons] at this; simp at this; omega
        · have hmall : m ∈ all := mem_of_countOf_pos (by have := hler m; have := countOf_pos_of_mem hm; omega)
          have := hsum m hc
          rw [countOf_cons] at this
          exact hpne l hlall hl m hmall hc k (by omega) ho
      · intro x hx
        have := hsum x hx
        rw [countOf_cons] at this
        have hne : ¬ l = x := by rintro rfl; exact hx hl
        rw [if_neg hne] at this; omega
    · rename_i hl
      rw [List.nodup_cons]
      have hsl := hsum l hl
      rw [countOf_cons] at hsl; simp only [if_true] at hsl
      refine ⟨?_, ih (l :: seen) hler ?_⟩
      · intro hmem
        rcases mem_alphaSuffix all r (l :: seen) _ hmem with ⟨h1, h2⟩ | ⟨m, hm, hc, k, hk1, hk2, ho⟩
        · have ho : (l ++ [suffixChar (countOf seen l)]) ∈ all :=
            mem_of_countOf_pos (by
              have := hler (l ++ [suffixChar (countOf seen l)]); have := countOf_pos_of_mem h1
              exact Nat.lt_of_lt_of_le (by assumption) (by assumption))
          exact hpne _ ho h2 l hlall hl (countOf seen l) (by omega) rfl
        · have hml : l = m ∧ suffixChar (countOf seen l) = suffixChar k := by
            have := List.append_inj' ho rfl
            exact ⟨this.1, by simpa [suffixChar] using this.2⟩
          obtain ⟨rfl, hch⟩ := hml
          have h26 := hp26 l hlall
          have hs := hsum l hl
          rw [countOf_cons] at hk1 hk2 hs; simp only [if_true] at hk1 hk2 hs
          have := suffixChar_inj (countOf seen l) (by omega) k (by omega) hch
          omega
      · intro x hx
        have := hsum x hx
        rw [countOf_cons] at this ⊢; omega

theorem alphaSuffix_nodup_top (all : List Str) (hp : alphaProviso all = true) : (alphaSuffix all all []).Nodup :=
  alphaSuffix_nodup all hp all [] (fun _ => Nat.le_refl _) (fun x _ => by simp [countOf])

/-! ### the evaluator: missing fields -/

theorem latexParts_not_missing : ∀ (fuel level : Nat) (cur v : Str) (f : Str),
    latexParts fuel level cur v ≠ .error (.missing f) := by
  intro fuel
  induction fuel with
  | zero => intro level cur v f; simp [latexParts]
  | succ n ih =>
    intro level cur v f
    cases v with
    | nil => simp only [latexParts]; split <;> simp
    | cons c r =>
      simp only [latexParts]
      split
      · split
        · rename_i e he; intro h; simp only [Except.error.injEq] at h; subst h; exact ih _ _ _ _ he
        · split
          · rename_i e he; intro h; simp only [Except.error.injEq] at h; subst h; exact ih _ _ _ _ he
          · simp
      · split
        · split <;> simp
        · exact ih _ _ _ _

theorem fromLatex_not_missing (v f : Str) : fromLatex v ≠ .error (.missing f) := by
  unfold fromLatex
  split
  · rename_i e he; intro h; simp only [Except.error.injEq] at h; subst h; exact latexParts_not_missing _ _ _ _ _ he
  · simp

/-- `optional` never fails with a missing field -/
theorem eval_optional_not_missing (fuel : Nat) (ctx : Ctx) (cs : List T) (f : Str) :
    eval fuel ctx (.optional cs) ≠ .error (.missing f) := by
  cases fuel with
  | zero => simp [eval]
  | succ n =>
    simp only [eval]
    split
    · simp
    · rename_i e hne _; intro h; simp only [Except.error.injEq] at h; subst h; exact hne f rfl
    · simp

/-- the text a `name_part` node builds from the values of its children -/
def namePartText (before : RT) (tie abbr : Bool) (children : List RT) : RT :=
  let children := if abbr then children.map abbreviate else children
  let parts := togetherParts true children
  if !truthy parts then mk .text []
  else if tie then mk .text [before, parts, tieOrSpace parts nbsp space none]
  else mk .text [before, parts]

theorem eval_namePart (n : Nat) (ctx : Ctx) (before : RT) (tie abbr : Bool) (cs : List T) :
    eval (n + 1) ctx (.namePart before tie abbr cs) =
      match evalList n ctx cs with
      | .error e => .error e
      | .ok children => .ok (namePartText before tie abbr children) := by
  simp only [eval]
  cases evalList n ctx cs with
  | error e => rfl
  | ok children =>
    simp only [namePartText]
    cases abbr <;> cases tie <;> simp only [if_true, if_false, Bool.false_eq_true] <;> split <;> rfl

theorem eval_href (n : Nat) (ctx : Ctx) (url : T) (ext : Bool) (cs : List T) :
    eval (n + 1) ctx (.href url ext cs) =
      match eval n ctx url with
      | .error e => .error e
      | .ok u =>
        match evalList n ctx cs with
        | .error e => .error e
        | .ok parts => .ok (mk (.href (toStr u) ext) parts) := by
  simp only [eval]
  cases eval n ctx url with
  | error e => rfl
  | ok u => cases evalList n ctx cs <;> rfl

/-- the text a `sentence` node builds from the values of its children -/
def sentenceText (cf cap ap : Bool) (sep : RT) (parts : List RT) : RT :=
  let text := joinParts sep sep sep parts
  let text := if cf then RT.capfirst text else text
  let text := if cap then RT.capitalize text else text
  if ap then addPeriodT text else text

theorem eval_sentence (n : Nat) (ctx : Ctx) (cf cap ap : Bool) (sep : RT) (cs : List T) :
    eval (n + 1) ctx (.sentence cf cap ap sep cs) =
      match evalList n ctx cs with
      | .error e => .error e
      | .ok parts => .ok (sentenceText cf cap ap sep parts) := by
  simp only [eval]
  cases evalList n ctx cs <;> rfl

/-- the reported name belongs to a required node whose lookup fails -/
def MissOK (ctx : Ctx) (req : List Lookup) (f : Str) : Prop :=
  ∃ lk, lk.name = f ∧ lookupFails ctx lk = true ∧
    (lk ∈ req ∨ lk ∈ ctx.personTemplates.flatMap fun p => requiredNodesL p.2)

theorem MissOK.mono {ctx : Ctx} {req req' : List Lookup} {f : Str} (h : MissOK ctx req f)
    (hs : ∀ lk ∈ req, lk ∈ req') : MissOK ctx req' f := by
  obtain ⟨lk, h1, h2, h3⟩ := h
  exact ⟨lk, h1, h2, h3.imp (hs lk) id⟩

theorem eval_missing_sound (ctx : Ctx) : ∀ fuel,
    (∀ t f, eval fuel ctx t = .error (.missing f) → MissOK ctx (requiredNodes t) f) ∧
    (∀ ts f, evalList fuel ctx ts = .error (.missing f) → MissOK ctx (requiredNodesL ts) f) ∧
    (∀ ts f, evalFirst fuel ctx ts = .error (.missing f) → MissOK ctx (requiredNodesL ts) f) := by
  intro fuel
  induction fuel with
  | zero => refine ⟨?_, ?_, ?_⟩ <;> intro t f h <;> simp [eval, evalList, evalFirst] at h
  | succ n ih =>
    obtain ⟨ih1, ih2, ih3⟩ := ih
    refine ⟨?_, ?_, ?_⟩
    · intro t f h
      cases t with
      | lit r => simp [eval] at h
      | raw s => simp [eval] at h
      | join s s2 ls cs =>
        simp only [eval] at h
        split at h
        · rename_i e he; simp only [Except.error.injEq] at h; subst h
          simpa [requiredNodes] using ih2 _ _ he
        · cases h
      | together lt cs =>
        simp only [eval] at h
        split at h
        · rename_i e he; simp only [Except.error.injEq] at h; subst h
          simpa [requiredNodes] using ih2 _ _ he
        · cases h
      | sentence cf cap ap sep cs =>
        simp only [eval] at h
        split at h
        · rename_i e he; simp only [Except.error.injEq] at h; subst h
          simpa [requiredNodes] using ih2 _ _ he
        · cases h
      | field name fn raw =>
        simp only [eval] at h
        split at h
        · rename_i hf
          simp only [Except.error.injEq, TErr.missing.injEq] at h; subst h
          exact ⟨.field name, rfl, by simp [lookupFails, hf], Or.inl (by simp [requiredNodes])⟩
        · split at h
          · cases h
          · split at h
            · rename_i e he; simp only [Except.error.injEq] at h; subst h
              exact absurd he (fromLatex_not_missing _ _)
            · cases h
      | names role s s2 ls =>
        simp only [eval] at h
        split at h
        · rename_i hf
          simp only [Except.error.injEq, TErr.missing.injEq] at h; subst h
          exact ⟨.names role, rfl, by simp [lookupFails, hf], Or.inl (by simp [requiredNodes])⟩
        · rename_i r ts hf
          split at h
          · rename_i e he; simp only [Except.error.injEq] at h; subst h
            obtain ⟨lk, h1, h2, h3⟩ := ih2 _ _ he
            refine ⟨lk, h1, h2, Or.inr ?_⟩
            rcases h3 with h3 | h3
            · rw [List.mem_flatMap]
              exact ⟨(r, ts), List.mem_of_find?_eq_some hf, h3⟩
            · exact h3
          · cases h
      | optional cs => exact absurd h (eval_optional_not_missing _ _ _ _)
      | firstOf cs =>
        simp only [eval] at h
        simpa [requiredNodes] using ih3 _ _ h
      | tag name cs =>
        simp only [eval] at h
        split at h
        · rename_i e he; simp only [Except.error.injEq] at h; subst h
          simpa [requiredNodes] using ih2 _ _ he
        · cases h
      | href url ext cs =>
        simp only [eval] at h
        split at h
        · rename_i e he; simp only [Except.error.injEq] at h; subst h
          exact (ih1 _ _ he).mono (by simp [requiredNodes]; intro lk hlk; exact Or.inr hlk)
        · split at h
          · rename_i e he; simp only [Except.error.injEq] at h; subst h
            exact (ih2 _ _ he).mono (by simp [requiredNodes]; intro lk hlk; exact Or.inl hlk)
          · cases h
      | namePart before tie abbr cs =>
        rw [eval_namePart] at h
        split at h
        · rename_i e he; simp only [Except.error.injEq] at h; subst h
          simpa [requiredNodes] using ih2 _ _ he
        · cases h
    · intro ts f h
      cases ts with
      | nil => simp [evalList] at h
      | cons t ts =>
        simp only [evalList] at h
        split at h
        · rename_i e he; simp only [Except.error.injEq] at h; subst h
          exact (ih1 _ _ he).mono (by simp [requiredNodesL]; intro lk hlk; exact Or.inl hlk)
        · split at h
          · rename_i e he; simp only [Except.error.injEq] at h; subst h
            exact (ih2 _ _ he).mono (by simp [requiredNodesL]; intro lk hlk; exact Or.inr hlk)
          · cases h
    · intro ts f h
      cases ts with
      | nil => simp [evalFirst] at h
      | cons t ts =>
        simp only [evalFirst] at h
        split at h
        · rename_i e he; simp only [Except.error.injEq] at h; subst h
          exact (ih1 _ _ he).mono (by simp [requiredNodesL]; intro lk hlk; exact Or.inl hlk)
        · split at h
          · cases h
          · exact (ih3 _ _ h).mono (by simp [requiredNodesL]; intro lk hlk; exact Or.inr hlk)

/-- a `FieldIsMissing` from the pipeline comes from the template of one entry, all entries before
it (in formatting order) having been formatted -/
theorem formatEntries_missing (db : BibData) (items : Str → Option Item) :
    ∀ (l : List (Str × PEntry)) (f key : Str), formatEntries db items l = .error (.missingField f key) →
      ∃ pre label e post it, l = pre ++ (label, e) :: post ∧ e.key = key ∧ items e.key = some it ∧
        eval evalFuel { entry := e.toEntry, db := some db, personTemplates := it.personTemplates, decode := it.decode } it.template
          = .error (.missing f) ∧
        ∀ p ∈ pre, ∃ it r, items p.2.key = some it ∧
          eval evalFuel { entry := p.2.toEntry, db := some db, personTemplates := it.personTemplates, decode := it.decode } it.template = .ok r := by
  intro l
  induction l with
  | nil => intro f key h; simp [formatEntries] at h
  | cons p l ih =>
    intro f key h
    obtain ⟨label, e⟩ := p
    simp only [formatEntries] at h
    split at h
    · cases h
    · rename_i it hit
      split at h
      · rename_i f' hf'
        simp only [Except.error.injEq, BibErr.missingField.injEq] at h
        obtain ⟨rfl, rfl⟩ := h
        exact ⟨[], label, e, l, it, rfl, rfl, hit, hf', by simp⟩
      · cases h
      · cases h
      · rename_i text htext
        split at h
        · rename_i err herr
          simp only [Except.error.injEq] at h; subst h
          obtain ⟨pre, label', e', post, it', hl, hk, hi, he, hpre⟩ := ih f key herr
          refine ⟨(label, e) :: pre, label', e', post, it', by simp [hl], hk, hi, he, ?_⟩
          intro q hq
          rcases List.mem_cons.1 hq with rfl | hq
          · exact ⟨it, text, hit, htext⟩
          · exact hpre q hq
        · cases h

/-! ### fuel: more fuel never changes an answer other than "out of fuel" -/

theorem eval_mono_step (ctx : Ctx) : ∀ n,
    (∀ t, eval n ctx t ≠ .error .outOfFuel → eval (n + 1) ctx t = eval n ctx t) ∧
    (∀ ts, evalList n ctx ts ≠ .error .outOfFuel → evalList (n + 1) ctx ts = evalList n ctx ts) ∧
    (∀ ts, evalFirst n ctx ts ≠ .error .outOfFuel → evalFirst (n + 1) ctx ts = evalFirst n ctx ts) := by
  intro n
  induction n with
  | zero => refine ⟨?_, ?_, ?_⟩ <;> intro t h <;> exact absurd (by simp [eval, evalList, evalFirst]) h
  | succ n ih =>
    obtain ⟨ih1, ih2, ih3⟩ := ih
    refine ⟨?_, ?_, ?_⟩
    · intro t hne
      cases t with
      | lit r => simp only [eval]
      | raw s => simp only [eval]
      | join s s2 ls cs =>
        have hsub : evalList n ctx cs ≠ .error .outOfFuel := by intro h; apply hne; simp only [eval, h]
        simp only [eval, ih2 cs hsub]
      | together lt cs =>
        have hsub : evalList n ctx cs ≠ .error .outOfFuel := by intro h; apply hne; simp only [eval, h]
        simp only [eval, ih2 cs hsub]
      | sentence cf cap ap sep cs =>
        have hsub : evalList n ctx cs ≠ .error .outOfFuel := by intro h; apply hne; simp only [eval_sentence, h]
        simp only [eval_sentence, ih2 cs hsub]
      | field name fn raw => simp only [eval]
      | names role s s2 ls =>
        cases hf : ctx.personTemplates.find? (fun p => lower p.1 = lower role) with
        | none => simp only [eval, hf]
        | some p =>
          obtain ⟨r, ts⟩ := p
          have hsub : evalList n ctx ts ≠ .error .outOfFuel := by intro h; apply hne; simp only [eval, hf, h]
          simp only [eval, hf, ih2 ts hsub]
      | optional cs =>
        have hsub : evalList n ctx cs ≠ .error .outOfFuel := by intro h; apply hne; simp only [eval, h]
        simp only [eval, ih2 cs hsub]
      | firstOf cs =>
        have hsub : evalFirst n ctx cs ≠ .error .outOfFuel := by intro h; apply hne; simp only [eval, h]
        simp only [eval, ih3 cs hsub]
      | tag name cs =>
        have hsub : evalList n ctx cs ≠ .error .outOfFuel := by intro h; apply hne; simp only [eval, h]
        simp only [eval, ih2 cs hsub]
      | href url ext cs =>
        have hsub : eval n ctx url ≠ .error .outOfFuel := by intro h; apply hne; simp only [eval_href, h]
        cases hu : eval n ctx url with
        | error e => simp only [eval_href, ih1 url hsub, hu]
        | ok u =>
          have hsub2 : evalList n ctx cs ≠ .error .outOfFuel := by intro h; apply hne; simp only [eval_href, hu, h]
          simp only [eval_href, ih1 url hsub, hu, ih2 cs hsub2]
      | namePart before tie abbr cs =>
        have hsub : evalList n ctx cs ≠ .error .outOfFuel := by intro h; apply hne; simp only [eval_namePart, h]
        simp only [eval_namePart, ih2 cs hsub]
    · intro ts hne
      cases ts with
      | nil => simp only [evalList]
      | cons t ts =>
        have hsub : eval n ctx t ≠ .error .outOfFuel := by intro h; apply hne; simp only [evalList, h]
        cases ht : eval n ctx t with
        | error e => simp only [evalList, ih1 t hsub, ht]
        | ok r =>
          have hsub2 : evalList n ctx ts ≠ .error .outOfFuel := by intro h; apply hne; simp only [evalList, ht, h]
          simp only [evalList, ih1 t hsub, ht, ih2 ts hsub2]
    · intro ts hne
      cases ts with
      | nil => simp only [evalFirst]
      | cons t ts =>
        have hsub : eval n ctx t ≠ .error .outOfFuel := by intro h; apply hne; simp only [evalFirst, h]
        cases ht : eval n ctx t with
        | error e => simp only [evalFirst, ih1 t hsub, ht]
        | ok r =>
          by_cases htr : truthy r = true
          · simp only [evalFirst, ih1 t hsub, ht, htr, if_true]
          · have hsub2 : evalFirst n ctx ts ≠ .error .outOfFuel := by
              intro h; apply hne; simp only [evalFirst, ht, htr, h]; simp
            simp only [evalFirst, ih1 t hsub, ht, htr, ih3 ts hsub2]

theorem eval_mono {ctx : Ctx} {n : Nat} {t : T} {x : Except TErr RT} (h : eval n ctx t = x)
    (hx : x ≠ .error .outOfFuel) : ∀ m, n ≤ m → eval m ctx t = x := by
  intro m hm
  obtain ⟨k, rfl⟩ := Nat.exists_eq_add_of_le hm
  clear hm
  induction k with
  | zero => exact h
  | succ k ih => rw [← Nat.add_assoc, (eval_mono_step ctx (n + k)).1 t (by rw [ih]; exact hx), ih]

theorem evalList_mono {ctx : Ctx} {n : Nat} {ts : List T} {x : Except TErr (List RT)} (h : evalList n ctx ts = x)
    (hx : x ≠ .error .outOfFuel) : ∀ m, n ≤ m → evalList m ctx ts = x := by
  intro m hm
  obtain ⟨k, rfl⟩ := Nat.exists_eq_add_of_le hm
  clear hm
  induction k with
  | zero => exact h
  | succ k ih => rw [← Nat.add_assoc, (eval_mono_step ctx (n + k)).2.1 ts (by rw [ih]; exact hx), ih]

theorem evalFirst_mono {ctx : Ctx} {n : Nat} {ts : List T} {x : Except TErr RT} (h : evalFirst n ctx ts = x)
    (hx : x ≠ .error .outOfFuel) : ∀ m, n ≤ m → evalFirst m ctx ts = x := by
  intro m hm
  obtain ⟨k, rfl⟩ := Nat.exists_eq_add_of_le hm
  clear hm
  induction k with
  | zero => exact h
  | succ k ih => rw [← Nat.add_assoc, (eval_mono_step ctx (n + k)).2.2 ts (by rw [ih]; exact hx), ih]

/-- evaluation is deterministic in the fuel: two runs that do not run out of fuel agree -/
theorem eval_fuel_agree {ctx : Ctx} {n m : Nat} {t : T} (hn : eval n ctx t ≠ .error .outOfFuel)
    (hm : eval m ctx t ≠ .error .outOfFuel) : eval n ctx t = eval m ctx t := by
  rcases Nat.le_total n m with h | h
  · exact (eval_mono rfl hn m h).symm
  · exact eval_mono rfl hm n h

/-! ### exact characterisation of "missing field" -/

/-- the evaluation of `x` with this fuel ends in the error `e` -/
def failsWith (fuel : Nat) (ctx : Ctx) (x : Tgt) (e : TErr) : Prop :=
  match x with
  | .node t => eval fuel ctx t = .error e
  | .all ts => evalList fuel ctx ts = .error e
  | .first ts => evalFirst fuel ctx ts = .error e

theorem failsWith_mono {ctx : Ctx} {n : Nat} {x : Tgt} {f : Str} (h : failsWith n ctx x (.missing f)) :
    ∀ m, n ≤ m → failsWith m ctx x (.missing f) := by
  intro m hm
  cases x with
  | node t => exact eval_mono h (by simp) m hm
  | all ts => exact evalList_mono h (by simp) m hm
  | first ts => exact evalFirst_mono h (by simp) m hm

theorem missing_of_failsWith (ctx : Ctx) : ∀ fuel,
    (∀ t f, eval fuel ctx t = .error (.missing f) → Missing ctx (.node t) f) ∧
    (∀ ts f, evalList fuel ctx ts = .error (.missing f) → Missing ctx (.all ts) f) ∧
    (∀ ts f, evalFirst fuel ctx ts = .error (.missing f) → Missing ctx (.first ts) f) := by
  intro fuel
  induction fuel with
  | zero => refine ⟨?_, ?_, ?_⟩ <;> intro t f h <;> simp [eval, evalList, evalFirst] at h
  | succ n ih =>
    obtain ⟨ih1, ih2, ih3⟩ := ih
    refine ⟨?_, ?_, ?_⟩
    · intro t f h
      cases t with
      | lit r => simp [eval] at h
      | raw s => simp [eval] at h
      | join s s2 ls cs =>
        simp only [eval] at h
        split at h
        · rename_i e he; simp only [Except.error.injEq] at h; subst h; exact .join (ih2 _ _ he)
        · cases h
      | together lt cs =>
        simp only [eval] at h
        split at h
        · rename_i e he; simp only [Except.error.injEq] at h; subst h; exact .together (ih2 _ _ he)
        · cases h
      | sentence cf cap ap sep cs =>
        rw [eval_sentence] at h
        split at h
        · rename_i e he; simp only [Except.error.injEq] at h; subst h; exact .sentence (ih2 _ _ he)
        · cases h
      | field name fn raw =>
        simp only [eval] at h
        split at h
        · rename_i hf
          simp only [Except.error.injEq, TErr.missing.injEq] at h; subst h
          exact .field hf
        · split at h
          · cases h
          · split at h
            · rename_i e he; simp only [Except.error.injEq] at h; subst h
              exact absurd he (fromLatex_not_missing _ _)
            · cases h
      | names role s s2 ls =>
        simp only [eval] at h
        split at h
        · rename_i hf
          simp only [Except.error.injEq, TErr.missing.injEq] at h; subst h
          exact .names hf
        · rename_i r ts hf
          split at h
          · rename_i e he; simp only [Except.error.injEq] at h; subst h
            exact .namesIn hf (ih2 _ _ he)
          · cases h
      | optional cs => exact absurd h (eval_optional_not_missing _ _ _ _)
      | firstOf cs =>
        simp only [eval] at h
        exact .firstOf (ih3 _ _ h)
      | tag name cs =>
        simp only [eval] at h
        split at h
        · rename_i e he; simp only [Except.error.injEq] at h; subst h; exact .tag (ih2 _ _ he)
        · cases h
      | href url ext cs =>
        simp only [eval] at h
        split at h
        · rename_i e he; simp only [Except.error.injEq] at h; subst h; exact .hrefUrl (ih1 _ _ he)
        · rename_i u hu
          split at h
          · rename_i e he; simp only [Except.error.injEq] at h; subst h
            exact .hrefKids ⟨n, u, hu⟩ (ih2 _ _ he)
          · cases h
      | namePart before tie abbr cs =>
        rw [eval_namePart] at h
        split at h
        · rename_i e he; simp only [Except.error.injEq] at h; subst h; exact .namePart (ih2 _ _ he)
        · cases h
    · intro ts f h
      cases ts with
      | nil => simp [evalList] at h
      | cons t ts =>
        simp only [evalList] at h
        split at h
        · rename_i e he; simp only [Except.error.injEq] at h; subst h; exact .allHead (ih1 _ _ he)
        · rename_i r hr
          split at h
          · rename_i e he; simp only [Except.error.injEq] at h; subst h
            exact .allTail ⟨n, r, hr⟩ (ih2 _ _ he)
          · cases h
    · intro ts f h
      cases ts with
      | nil => simp [evalFirst] at h
      | cons t ts =>
        simp only [evalFirst] at h
        split at h
        · rename_i e he; simp only [Except.error.injEq] at h; subst h; exact .firstHead (ih1 _ _ he)
        · rename_i r hr
          split at h
          · cases h
          · rename_i htr
            exact .firstTail ⟨n, r, hr, by simpa using htr⟩ (ih3 _ _ h)

theorem failsWith_of_missing {ctx : Ctx} {x : Tgt} {f : Str} (h : Missing ctx x f) :
    ∃ fuel, failsWith fuel ctx x (.missing f) := by
  induction h with
  | field hf => exact ⟨1, by simp [failsWith, eval, hf]⟩
  | names hf => exact ⟨1, by simp [failsWith, eval, hf]⟩
  | @namesIn r s s2 ls p f hf _ ih =>
    obtain ⟨fuel, hfl⟩ := ih
    obtain ⟨r', ts⟩ := p
    exact ⟨fuel + 1, by simp only [failsWith] at hfl ⊢; simp only [eval, hf, hfl]⟩
  | join _ ih =>
    obtain ⟨fuel, hfl⟩ := ih
    exact ⟨fuel + 1, by simp only [failsWith] at hfl ⊢; simp only [eval, hfl]⟩
  | together _ ih =>
    obtain ⟨fuel, hfl⟩ := ih
    exact ⟨fuel + 1, by simp only [failsWith] at hfl ⊢; simp only [eval, hfl]⟩
  | sentence _ ih =>
    obtain ⟨fuel, hfl⟩ := ih
    exact ⟨fuel + 1, by simp only [failsWith] at hfl ⊢; simp only [eval_sentence, hfl]⟩
  | tag _ ih =>
    obtain ⟨fuel, hfl⟩ := ih
    exact ⟨fuel + 1, by simp only [failsWith] at hfl ⊢; simp only [eval, hfl]⟩
  | namePart _ ih =>
    obtain ⟨fuel, hfl⟩ := ih
    exact ⟨fuel + 1, by simp only [failsWith] at hfl ⊢; simp only [eval_namePart, hfl]⟩
  | hrefUrl _ ih =>
    obtain ⟨fuel, hfl⟩ := ih
    exact ⟨fuel + 1, by simp only [failsWith] at hfl ⊢; simp only [eval, hfl]⟩
  | hrefKids hok _ ih =>
    obtain ⟨fuel1, u, hu⟩ := hok
    obtain ⟨fuel2, hfl⟩ := ih
    refine ⟨max fuel1 fuel2 + 1, ?_⟩
    have h1 := eval_mono hu (by simp) (max fuel1 fuel2) (Nat.le_max_left _ _)
    have h2 := failsWith_mono hfl (max fuel1 fuel2) (Nat.le_max_right _ _)
    simp only [failsWith] at h2 ⊢
    simp only [eval, h1, h2]
  | firstOf _ ih =>
    obtain ⟨fuel, hfl⟩ := ih
    exact ⟨fuel + 1, by simp only [failsWith] at hfl ⊢; simp only [eval, hfl]⟩
  | allHead _ ih =>
    obtain ⟨fuel, hfl⟩ := ih
    exact ⟨fuel + 1, by simp only [failsWith] at hfl ⊢; simp only [evalList, hfl]⟩
  | allTail hok _ ih =>
    obtain ⟨fuel1, r, hr⟩ := hok
    obtain ⟨fuel2, hfl⟩ := ih
    refine ⟨max fuel1 fuel2 + 1, ?_⟩
    have h1 := eval_mono hr (by simp) (max fuel1 fuel2) (Nat.le_max_left _ _)
    have h2 := failsWith_mono hfl (max fuel1 fuel2) (Nat.le_max_right _ _)
    simp only [failsWith] at h2 ⊢
    simp only [evalList, h1, h2]
  | firstHead _ ih =>
    obtain ⟨fuel, hfl⟩ := ih
    exact ⟨fuel + 1, by simp only [failsWith] at hfl ⊢; simp only [evalFirst, hfl]⟩
  | firstTail hok _ ih =>
    obtain ⟨fuel1, r, hr, htr⟩ := hok
    obtain ⟨fuel2, hfl⟩ := ih
    refine ⟨max fuel1 fuel2 + 1, ?_⟩
    have h1 := eval_mono hr (by simp) (max fuel1 fuel2) (Nat.le_max_left _ _)
    have h2 := failsWith_mono hfl (max fuel1 fuel2) (Nat.le_max_right _ _)
    simp only [failsWith] at h2 ⊢
    simp only [evalFirst, h1, htr, h2]
    simp

/-! ### sentence terminators -/

/-- empty, or the last atom is a terminator -/
def TermF (s : Flat) : Prop := s = [] ∨ Flat.terminated Gen.terminators s = true

theorem terminated_nil (T : List Str) : Flat.terminated T [] = false := rfl

theorem terminated_append_right (T : List Str) (a b : Flat) (hb : b ≠ []) :
    Flat.terminated T (a ++ b) = Flat.terminated T b := by
  simp only [Flat.terminated, getLast?_append_of_ne_nil a b hb]

theorem terminated_push (T : List Str) (m : List Markup) (s : Flat) :
    Flat.terminated T (Flat.push m s) = Flat.terminated T s := by
  simp only [Flat.terminated, Flat.push, List.getLast?_map]
  cases s.getLast? with
  | none => rfl
  | some x => obtain ⟨a, st⟩ := x; cases a <;> rfl

theorem ne_nil_of_terminated {T : List Str} {s : Flat} (h : Flat.terminated T s = true) : s ≠ [] := by
  intro hs; rw [hs, terminated_nil] at h; cases h

theorem TermF.append {a b : Flat} (ha : TermF a) (hb : TermF b) : TermF (a ++ b) := by
  rcases hb with rfl | hb
  · simpa using ha
  · exact Or.inr (by rw [terminated_append_right _ _ _ (ne_nil_of_terminated hb)]; exact hb)

theorem TermF.push {m : List Markup} {s : Flat} (h : TermF s) : TermF (Flat.push m s) := by
  rcases h with rfl | h
  · exact Or.inl rfl
  · exact Or.inr (by rw [terminated_push]; exact h)

theorem terminated_iff_termF (r : RT) : Terminated r ↔ TermF (sem [] r) := by
  unfold Terminated TermF
  constructor
  · rintro (h | h)
    · exact Or.inl (sem_nil_of_len _ _ h)
    · exact Or.inr h
  · rintro (h | h)
    · left; have := sem_length r []; rw [h] at this; simpa using this.symm
    · exact Or.inr h

theorem termF_semL {ps : List RT} (h : ∀ p ∈ ps, Terminated p) : TermF (semL [] ps) := by
  induction ps with
  | nil => exact Or.inl rfl
  | cons p ps ih =>
    simp only [semL]
    exact ((terminated_iff_termF p).1 (h p (by simp))).append (ih fun q hq => h q (List.mem_cons_of_mem _ hq))

theorem terminated_mk (k : Kind) {ps : List RT} (h : ∀ p ∈ ps, Terminated p) : Terminated (mk k ps) := by
  rw [terminated_iff_termF, sem_mk, sem, semL_ctx]
  exact (termF_semL h).push

theorem terminated_of_len_zero {r : RT} (h : len r = 0) : Terminated r := Or.inl h

/-- `endswith` is sound for one-character suffixes, on any tree -/
theorem terminated_of_endsWith (T : List Str) (hT : ∀ x ∈ T, x.length = 1) (t : RT) :
    ∀ ctx, endsWith T t = true → Flat.terminated T (sem ctx t) = true := by
  induction t using RT.induct with
  | hstr s => intro ctx h; rw [terminated_str, ← any_suffix_single T hT]; simpa [endsWith] using h
  | hsym n => intro ctx h; simp [endsWith] at h
  | hnode k ps ih =>
    intro ctx h
    simp only [endsWith] at h
    simp only [sem]
    generalize ctx ++ k.markup = c
    induction ps with
    | nil => simp [endsWithL] at h
    | cons p ps ih2 =>
      cases ps with
      | nil =>
        simp only [endsWithL] at h
        simp only [semL, List.append_nil]
        exact ih p (by simp) c h
      | cons q r =>
        simp only [endsWithL] at h
        have := ih2 (fun x hx => ih x (by simp [hx])) h
        rw [semL, terminated_append_right _ _ _ (ne_nil_of_terminated this)]
        exact this

theorem terminators_single : ∀ x ∈ Gen.terminators, x.length = 1 := by decide

theorem terminated_addPeriodT (t : RT) : Terminated (addPeriodT t) := by
  unfold addPeriodT RT.addPeriod
  split
  · rename_i hc
    right
    have hdot : Flat.terminated Gen.terminators [((Atom.ch '.'), ([] : List Markup))] = true := by decide
    cases t with
    | str s =>
      simp only [append, sem_add, periodStr, sem, List.map_cons, List.map_nil]
      rw [terminated_append_right _ _ _ (by simp)]; exact hdot
    | sym n =>
      simp only [append, sem_add, periodStr, sem, List.map_cons, List.map_nil]
      rw [terminated_append_right _ _ _ (by simp)]; exact hdot
    | node k ps =>
      rw [sem_append_node]
      simp only [periodStr, sem, List.map_cons, List.map_nil]
      rw [terminated_append_right _ _ _ (by simp)]
      simp only [Flat.terminated, List.getLast?_singleton]; decide
  · rename_i hc
    simp only [Bool.and_eq_true, bne_iff_ne, ne_eq, Bool.not_eq_true', not_and, Bool.not_eq_false] at hc
    by_cases hl : len t = 0
    · exact Or.inl hl
    · exact Or.inr (terminated_of_endsWith _ terminators_single t [] (hc hl))

theorem joinWith_terminated (sep : Flat) : ∀ (l : List Flat), l ≠ [] →
    (∀ s ∈ l, Flat.terminated Gen.terminators s = true) →
    Flat.terminated Gen.terminators (joinWith sep l) = true := by
  intro l
  induction l with
  | nil => intro h; exact absurd rfl h
  | cons x l ih =>
    intro _ hall
    cases l with
    | nil => simpa [joinWith] using hall x (by simp)
    | cons y r =>
      have := ih (by simp) (fun s hs => hall s (List.mem_cons_of_mem _ hs))
      simp only [joinWith]
      rw [terminated_append_right _ _ _ (ne_nil_of_terminated this)]
      exact this

theorem terminated_of_truthy {p : RT} (ht : truthy p = true) (h : Terminated p) :
    Flat.terminated Gen.terminators (sem [] p) = true := by
  rcases h with h | h
  · simp [truthy, h] at ht
  · exact h

theorem getLast!_mem {α : Type} [Inhabited α] {l : List α} (h : l ≠ []) : l.getLast! ∈ l := by
  rw [List.getLast!_eq_getLast?_getD]
  cases hl : l.getLast? with
  | none => rw [List.getLast?_eq_none_iff] at hl; exact absurd hl h
  | some x => simpa using List.mem_of_getLast? hl

theorem terminated_joinParts (sep sep2 lastSep : RT) {parts : List RT} (h : ∀ p ∈ parts, Terminated p) :
    Terminated (joinParts sep sep2 lastSep parts) := by
  unfold joinParts
  have hf : ∀ p ∈ parts.filter truthy, Flat.terminated Gen.terminators (sem [] p) = true := by
    intro p hp
    rw [List.mem_filter] at hp
    exact terminated_of_truthy hp.2 (h p hp.1)
  generalize parts.filter truthy = ps at hf
  simp only
  split
  · exact terminated_mk _ fun p hp => Or.inr (hf p hp)
  · rename_i hlen
    split
    · right
      rw [sem_join]
      apply joinWith_terminated
      · intro hnil; rw [List.map_eq_nil_iff] at hnil; subst hnil; simp at hlen
      · intro s hs
        obtain ⟨p, hp, rfl⟩ := List.mem_map.1 hs
        exact hf p hp
    · right
      rw [sem_join]
      simp only [List.map_cons, List.map_nil, joinWith]
      have hne : ps ≠ [] := by intro h0; subst h0; simp at hlen
      have := hf _ (getLast!_mem hne)
      rw [terminated_append_right _ _ _ (ne_nil_of_terminated this)]
      exact this

theorem terminated_sentenceText (cf cap : Bool) (sep : RT) (parts : List RT) :
    Terminated (sentenceText cf cap true sep parts) := by
  simp only [sentenceText, if_true]
  exact terminated_addPeriodT _

theorem eval_terminated (ctx : Ctx) : ∀ fuel,
    (∀ t r, endsInSentence t = true → eval fuel ctx t = .ok r → Terminated r) ∧
    (∀ ts rs, endsInSentenceL ts = true → evalList fuel ctx ts = .ok rs → ∀ r ∈ rs, Terminated r) ∧
    (∀ ts r, endsInSentenceL ts = true → evalFirst fuel ctx ts = .ok r → Terminated r) := by
  intro fuel
  induction fuel with
  | zero => refine ⟨?_, ?_, ?_⟩ <;> intro t r _ h <;> simp [eval, evalList, evalFirst] at h
  | succ n ih =>
    obtain ⟨ih1, ih2, ih3⟩ := ih
    refine ⟨?_, ?_, ?_⟩
    · intro t r he h
      cases t with
      | lit x =>
        simp only [eval, Except.ok.injEq] at h; subst h
        simp only [endsInSentence, Bool.or_eq_true, beq_iff_eq] at he
        exact he
      | raw s => simp [endsInSentence] at he
      | join s s2 ls cs =>
        simp only [eval] at h
        split at h
        · cases h
        · rename_i parts hp
          simp only [Except.ok.injEq] at h; subst h
          exact terminated_joinParts _ _ _ (ih2 cs parts (by simpa [endsInSentence] using he) hp)
      | together lt cs => simp [endsInSentence] at he
      | sentence cf cap ap sep cs =>
        rw [eval_sentence] at h
        split at h
        · cases h
        · simp only [Except.ok.injEq] at h; subst h
          simp only [endsInSentence] at he; subst he
          exact terminated_sentenceText _ _ _ _
      | field name fn raw => simp [endsInSentence] at he
      | names role s s2 ls => simp [endsInSentence] at he
      | optional cs =>
        simp only [eval] at h
        split at h
        · simp only [Except.ok.injEq] at h; subst h
          exact terminated_of_len_zero (by simp [len_mk, lenL])
        · cases h
        · rename_i parts hp
          simp only [Except.ok.injEq] at h; subst h
          exact terminated_mk _ (ih2 cs parts (by simpa [endsInSentence] using he) hp)
      | firstOf cs =>
        simp only [eval] at h
        exact ih3 cs r (by simpa [endsInSentence] using he) h
      | tag name cs =>
        simp only [eval] at h
        split at h
        · cases h
        · rename_i parts hp
          simp only [Except.ok.injEq] at h; subst h
          exact terminated_mk _ (ih2 cs parts (by simpa [endsInSentence] using he) hp)
      | href url ext cs =>
        rw [eval_href] at h
        split at h
        · cases h
        · split at h
          · cases h
          · rename_i parts hp
            simp only [Except.ok.injEq] at h; subst h
            exact terminated_mk _ (ih2 cs parts (by simpa [endsInSentence] using he) hp)
      | namePart before tie abbr cs => simp [endsInSentence] at he
    · intro ts rs he h
      cases ts with
      | nil => simp only [evalList, Except.ok.injEq] at h; subst h; simp
      | cons t ts =>
        simp only [endsInSentenceL, Bool.and_eq_true] at he
        simp only [evalList] at h
        split at h
        · cases h
        · rename_i r hr
          split at h
          · cases h
          · rename_i rs' hrs
            simp only [Except.ok.injEq] at h; subst h
            intro x hx
            rcases List.mem_cons.1 hx with rfl | hx
            · exact ih1 t _ he.1 hr
            · exact ih2 ts rs' he.2 hrs x hx
    · intro ts r he h
      cases ts with
      | nil =>
        simp only [evalFirst, Except.ok.injEq] at h; subst h
        exact terminated_of_len_zero (by simp [len_mk, lenL])
      | cons t ts =>
        simp only [endsInSentenceL, Bool.and_eq_true] at he
        simp only [evalFirst] at h
        split at h
        · cases h
        · rename_i r' hr
          split at h
          · simp only [Except.ok.injEq] at h; subst h
            exact ih1 t _ he.1 hr
          · exact ih3 ts r he.2 h

/-! ### protected text -/

theorem protAtoms_append (a b : Flat) : protAtoms (a ++ b) = protAtoms a ++ protAtoms b := by
  simp [protAtoms]

theorem protAtoms_mapCase (f : Char → Char) (s : Flat) : protAtoms (Flat.mapCase f s) = protAtoms s := by
  induction s with
  | nil => rfl
  | cons x s ih =>
    obtain ⟨a, st⟩ := x
    simp only [protAtoms, Flat.mapCase, List.map_cons, List.filter_cons] at ih ⊢
    cases a with
    | sym n => simp only; rw [ih]
    | ch c =>
      simp only
      by_cases hp : Flat.isProt st = true
      · simp only [hp, if_true]; rw [ih]
      · simp only [hp]; rw [ih]; simp [hp]

theorem take_one_append_drop_one (s : Flat) :
    strSlice s none (some 1) ++ strSlice s (some 1) none = s := by
  have h1 := strSlice_take s 1
  have h2 := strSlice_drop s 1
  simp only [Int.natCast_one] at h1 h2
  rw [h1, h2, List.take_append_drop]

theorem protAtoms_lowerT (t : RT) : protAtoms (sem [] (lowerT t)) = protAtoms (sem [] t) := by
  rw [sem_lowerT, protAtoms_mapCase]

theorem protAtoms_upperT (t : RT) : protAtoms (sem [] (upperT t)) = protAtoms (sem [] t) := by
  rw [sem_upperT, protAtoms_mapCase]

theorem sem_capitalize (t : RT) :
    sem [] (capitalize t) = sem [] t ∨
    sem [] (capitalize t) = Flat.mapCase upperC (strSlice (sem [] t) none (some 1)) ++
      Flat.mapCase lowerC (strSlice (sem [] t) (some 1) none) := by
  have h := congrArg Abs.atoms (abs_capitalize t)
  unfold Abs.capitalize at h
  by_cases hp : (RT.abs t).top = Top.multi Kind.prot
  · rw [if_pos hp] at h; exact Or.inl h
  · rw [if_neg hp] at h; exact Or.inr h

theorem sem_capfirst (t : RT) :
    sem [] (capfirst t) = sem [] t ∨
    sem [] (capfirst t) = Flat.mapCase upperC (strSlice (sem [] t) none (some 1)) ++
      strSlice (sem [] t) (some 1) none := by
  have h := congrArg Abs.atoms (abs_capfirst t)
  unfold Abs.capfirst at h
  by_cases hp : (RT.abs t).top = Top.multi Kind.prot
  · rw [if_pos hp] at h; exact Or.inl h
  · rw [if_neg hp] at h; exact Or.inr h

theorem protAtoms_capitalize (t : RT) : protAtoms (sem [] (capitalize t)) = protAtoms (sem [] t) := by
  rcases sem_capitalize t with h | h
  · rw [h]
  · rw [h, protAtoms_append, protAtoms_mapCase, protAtoms_mapCase, ← protAtoms_append, take_one_append_drop_one]

theorem protAtoms_capfirst (t : RT) : protAtoms (sem [] (capfirst t)) = protAtoms (sem [] t) := by
  rcases sem_capfirst t with h | h
  · rw [h]
  · rw [h, protAtoms_append, protAtoms_mapCase, ← protAtoms_append, take_one_append_drop_one]

/-- a `Text` object -/
def IsText (r : RT) : Prop := ∃ ps, r = .node .text ps

theorem isText_mk (ps : List RT) : IsText (mk .text ps) := ⟨_, rfl⟩
theorem isText_join (sep : RT) (ps : List RT) : IsText (RT.join sep ps) := ⟨_, rfl⟩
theorem isText_add (a b : RT) : IsText (add a b) := ⟨_, rfl⟩

theorem isText_joinParts (sep sep2 lastSep : RT) (parts : List RT) : IsText (joinParts sep sep2 lastSep parts) := by
  unfold joinParts
  simp only
  split
  · exact isText_mk _
  · split
    · exact isText_join _ _
    · exact isText_join _ _

theorem isText_capfirst {r : RT} (h : IsText r) : IsText (capfirst r) := by
  obtain ⟨ps, rfl⟩ := h; exact isText_add _ _

theorem isText_capitalize {r : RT} (h : IsText r) : IsText (capitalize r) := by
  obtain ⟨ps, rfl⟩ := h; exact isText_add _ _

/-- the period `add_period` appends to a `Text` is not protected -/
theorem protAtoms_addPeriodT {r : RT} (h : IsText r) : protAtoms (sem [] (addPeriodT r)) = protAtoms (sem [] r) := by
  obtain ⟨ps, rfl⟩ := h
  unfold addPeriodT RT.addPeriod
  split
  · rw [sem_append_node, protAtoms_append]
    simp [periodStr, sem, Kind.markup, protAtoms, Flat.isProt]
  · rfl

theorem protAtoms_sentenceText (cf cap ap : Bool) (sep : RT) (parts : List RT) :
    protAtoms (sem [] (sentenceText cf cap ap sep parts)) = protAtoms (sem [] (joinParts sep sep sep parts)) := by
  have h0 := isText_joinParts sep sep sep parts
  simp only [sentenceText]
  generalize joinParts sep sep sep parts = x at h0 ⊢
  have h1 : IsText (if cf = true then capfirst x else x) ∧
      protAtoms (sem [] (if cf = true then capfirst x else x)) = protAtoms (sem [] x) := by
    split
    · exact ⟨isText_capfirst h0, protAtoms_capfirst x⟩
    · exact ⟨h0, rfl⟩
  generalize (if cf = true then capfirst x else x) = y at h1 ⊢
  have h2 : IsText (if cap = true then capitalize y else y) ∧
      protAtoms (sem [] (if cap = true then capitalize y else y)) = protAtoms (sem [] x) := by
    split
    · exact ⟨isText_capitalize h1.1, by rw [protAtoms_capitalize, h1.2]⟩
    · exact h1
  generalize (if cap = true then capitalize y else y) = z at h2 ⊢
  split
  · rw [protAtoms_addPeriodT h2.1, h2.2]
  · exact h2.2

/-! ### `Text.from_latex` -/

def chars (d : Nat) (s : Str) : Flat := s.map fun c => (Atom.ch c, List.replicate d Markup.prot)

theorem chars_append (d : Nat) (a b : Str) : chars d (a ++ b) = chars d a ++ chars d b := by simp [chars]

theorem sem_str_prot (d : Nat) (s : Str) : sem (List.replicate d Markup.prot) (.str s) = chars d s := rfl

theorem latexParts_rest_nil : ∀ (fuel : Nat) (cur v : Str) (parts : List RT) (rest : Str),
    latexParts fuel 0 cur v = .ok (parts, rest) → rest = [] := by
  intro fuel
  induction fuel with
  | zero => intro cur v parts rest h; simp [latexParts] at h
  | succ n ih =>
    intro cur v parts rest h
    cases v with
    | nil =>
      simp only [latexParts, bne_self_eq_false, Bool.false_eq_true, if_false, Except.ok.injEq, Prod.mk.injEq] at h
      exact h.2.symm
    | cons c r =>
      simp only [latexParts] at h
      split at h
      · split at h
        · cases h
        · split at h
          · cases h
          · rename_i more rest' h2
            simp only [Except.ok.injEq, Prod.mk.injEq] at h
            rw [← h.2]; exact ih _ _ _ _ h2
      · split at h
        · simp at h
        · exact ih _ _ _ _ h

theorem latexParts_sem : ∀ (fuel level : Nat) (cur v : Str) (parts : List RT) (rest : Str),
    latexParts fuel level cur v = .ok (parts, rest) →
    ∀ d, semL (List.replicate d Markup.prot) parts ++ flatLatex (d - 1) rest = chars d cur.reverse ++ flatLatex d v := by
  intro fuel
  induction fuel with
  | zero => intro level cur v parts rest h; simp [latexParts] at h
  | succ n ih =>
    intro level cur v parts rest h d
    cases v with
    | nil =>
      simp only [latexParts] at h
      split at h
      · cases h
      · simp only [Except.ok.injEq, Prod.mk.injEq] at h
        obtain ⟨rfl, rfl⟩ := h
        simp only [flatLatex, List.append_nil]
        split
        · rename_i he
          have : cur = [] := by simpa using he
          subst this; rfl
        · simp only [semL, List.append_nil]; rfl
    | cons c r =>
      simp only [latexParts] at h
      split at h
      · rename_i hc
        split at h
        · cases h
        · rename_i inner rest1 h1
          split at h
          · cases h
          · rename_i more rest' h2
            simp only [Except.ok.injEq, Prod.mk.injEq] at h
            obtain ⟨rfl, rfl⟩ := h
            have e1 := ih _ _ _ _ _ h1 (d + 1)
            have e2 := ih _ _ _ _ _ h2 d
            simp only [List.reverse_nil, chars, List.map_nil, List.nil_append, Nat.add_sub_cancel] at e1 e2
            simp only [semL, sem_mk, sem, Kind.markup, flatLatex, hc, if_true]
            have hrep : List.replicate d Markup.prot ++ [Markup.prot] = List.replicate (d + 1) Markup.prot := by
              rw [List.replicate_succ']
            rw [hrep, List.append_assoc, List.append_assoc, e2, ← e1]
            simp [chars]
      · rename_i hc
        split at h
        · rename_i hc2
          split at h
          · cases h
          · simp only [Except.ok.injEq, Prod.mk.injEq] at h
            obtain ⟨rfl, rfl⟩ := h
            simp only [semL, List.append_nil, flatLatex, hc2, if_true]
            rfl
        · rename_i hc2
          have e := ih _ _ _ _ _ h d
          rw [e]
          simp only [List.reverse_cons, chars_append, flatLatex, hc, hc2, if_false, List.append_assoc]
          rfl

/-- what `Text.from_latex` denotes -/
theorem sem_fromLatex {v : Str} {r : RT} (h : fromLatex v = .ok r) : sem [] r = flatLatex 0 v := by
  unfold fromLatex at h
  split at h
  · cases h
  · rename_i parts rest hp
    simp only [Except.ok.injEq] at h; subst h
    have hr := latexParts_rest_nil _ _ _ _ _ hp
    subst hr
    have := latexParts_sem _ _ _ _ _ _ hp 0
    simpa [sem_mk, sem, Kind.markup, chars, flatLatex] using this

theorem toStr_flatLatex (d : Nat) (v : Str) : Flat.toStr (flatLatex d v) = stripBraces v := by
  induction v generalizing d with
  | nil => rfl
  | cons c r ih =>
    simp only [flatLatex, stripBraces, List.filter_cons]
    by_cases h1 : c = '{'
    · simp only [h1, if_true]; rw [ih]; simp [stripBraces]
    · by_cases h2 : c = '}'
      · simp only [h2, if_true]; rw [if_neg (by decide), ih]; simp [stripBraces]
      · simp only [h1, h2, if_false]
        have : (c != '{' && c != '}') = true := by simp [h1, h2]
        rw [this, if_pos rfl]
        simp only [Flat.toStr, List.flatMap_cons] at ih ⊢
        rw [ih]; simp [stripBraces]

theorem toStr_fromLatex {v : Str} {r : RT} (h : fromLatex v = .ok r) : toStr r = stripBraces v := by
  rw [← toStr_sem r [], sem_fromLatex h, toStr_flatLatex]

/-! ### `dashify`: splitting never loses anything but (unprotected) separators -/

section splitF
variable (f : Str → List Str) (q : Atom × List Markup → Bool)

theorem splitFL_filter (k : Kind) (ctx : List Markup) (ps : List RT)
    (ih : ∀ p ∈ ps, (((splitF f p).map (sem (ctx ++ k.markup))).flatten).filter q
        = (sem (ctx ++ k.markup) p).filter q) :
    ∀ tail, (((splitFL f k ps tail).map (sem ctx)).flatten).filter q
      = (semL (ctx ++ k.markup) tail).filter q ++ (semL (ctx ++ k.markup) ps).filter q := by
  induction ps with
  | nil =>
    intro tail
    simp only [splitFL]
    split
    · simp [sem_mk, sem, semL]
    · rename_i ht
      have : tail = [] := by simpa using ht
      subst this; simp [semL]
  | cons part ps ih2 =>
    intro tail
    have ihp := ih part (by simp)
    have ih2' := ih2 (fun p hp => ih p (List.mem_cons_of_mem _ hp))
    simp only [splitFL]
    cases hrev : (splitF f part).reverse with
    | nil =>
      have hnil : splitF f part = [] := by simpa using hrev
      rw [hnil] at ihp
      simp only [List.map_nil, List.flatten_nil, List.filter_nil] at ihp
      simp only [ih2' tail, semL, List.filter_append, ← ihp, List.nil_append]
    | cons last revInit =>
      have hsplit : splitF f part = revInit.reverse ++ [last] := by
        have := congrArg List.reverse hrev; simpa using this
      rw [hsplit] at ihp
      obtain ⟨h1, h2⟩ := splitItems_sem ctx k true revInit.reverse tail
      simp only [List.map_append, List.flatten_append, List.filter_append, h1, keepF_true, ih2' _, h2]
      simp only [List.map_append, List.flatten_append, List.filter_append, List.map_cons, List.map_nil,
        List.flatten_cons, List.flatten_nil, List.append_nil] at ihp
      cases hitems : revInit.reverse with
      | nil =>
        rw [hitems] at ihp
        simp only [List.map_nil, List.flatten_nil, List.filter_nil, List.nil_append] at ihp
        simp only [if_true, semL_append, semL, List.filter_append, List.append_nil, List.flatten_nil,
          List.filter_nil, List.nil_append, ← ihp, List.append_assoc]
      | cons i is =>
        rw [hitems] at ihp
        simp only [List.map_cons, List.flatten_cons, List.filter_append] at ihp
        simp only [reduceCtorEq, if_false, semL, List.filter_append, List.append_nil, List.flatten_cons,
          List.nil_append, ← ihp, List.append_assoc]

theorem markup_not_prot {k : Kind} (hk : k ≠ .prot) : Flat.isProt k.markup = false := by
  cases k <;> simp_all [Kind.markup, Flat.isProt]

theorem splitF_filter
    (hleaf : ∀ ctx, Flat.isProt ctx = false → ∀ s,
      (((f s).map fun x => sem ctx (.str x)).flatten).filter q = (sem ctx (.str s)).filter q) (t : RT) :
    ∀ ctx, Flat.isProt ctx = false → (((splitF f t).map (sem ctx)).flatten).filter q = (sem ctx t).filter q := by
  induction t using RT.induct with
  | hstr s =>
    intro ctx hc
    have := hleaf ctx hc s
    simpa [splitF, List.map_map, Function.comp_def] using this
  | hsym n => intro ctx _; simp [splitF]
  | hnode k ps ih =>
    intro ctx hc
    by_cases hk : k = .prot
    · subst hk; simp [splitF]
    · have hc' : Flat.isProt (ctx ++ k.markup) = false := by rw [isProt_append, hc, markup_not_prot hk]; rfl
      have hsf : splitF f (.node k ps) = splitFL f k ps [.str []] := by
        cases k <;> first | rfl | exact absurd rfl hk
      rw [hsf, splitFL_filter f q k ctx ps (fun p hp => ih p hp _ hc')]
      simp [sem, semL]

end splitF

theorem filter_joinWith {α : Type} (q : α → Bool) (sep : List α) (hsep : sep.filter q = []) :
    ∀ L : List (List α), (joinWith sep L).filter q = L.flatten.filter q := by
  intro L
  induction L with
  | nil => rfl
  | cons x L ih =>
    cases L with
    | nil => simp [joinWith]
    | cons y r =>
      simp only [joinWith, List.filter_append, hsep, ih, List.flatten_cons, List.append_nil]

theorem flatten_splitDashes : ∀ (s cur : Str) (b : Bool),
    (splitDashes s cur b).flatten = cur.reverse ++ s.filter (fun c => c != '-') := by
  intro s
  induction s with
  | nil => intro cur b; simp [splitDashes]
  | cons c r ih =>
    intro cur b
    simp only [splitDashes]
    split
    · rename_i hc
      subst hc
      split
      · rw [ih]; simp
      · simp [ih]
    · rename_i hc
      rw [ih]
      simp [hc]

theorem dashify_filter (q : Atom × List Markup → Bool)
    (hndash : q (.sym "ndash".toList, []) = false)
    (hleaf : ∀ ctx, Flat.isProt ctx = false → ∀ s,
      (((splitDashes s [] false).map fun x => sem ctx (.str x)).flatten).filter q = (sem ctx (.str s)).filter q)
    (t : RT) : (sem [] (dashify t)).filter q = (sem [] t).filter q := by
  unfold dashify
  rw [sem_join, filter_joinWith q _ (by simp [sem_mk, sem, semL, Kind.markup]; simpa using hndash)]
  exact splitF_filter _ q hleaf t [] rfl

theorem protAtoms_dashify (t : RT) : protAtoms (sem [] (dashify t)) = protAtoms (sem [] t) := by
  apply dashify_filter _ (by rfl)
  intro ctx hc s
  have h1 : ∀ l : Str, (sem ctx (.str l)).filter (fun x => Flat.isProt x.2) = [] := by
    intro l; simp [sem, List.filter_eq_nil_iff, hc]
  rw [h1, List.filter_eq_nil_iff]
  intro x hx
  simp only [List.mem_flatten, List.mem_map] at hx
  obtain ⟨l, ⟨y, -, rfl⟩, hxl⟩ := hx
  have := List.filter_eq_nil_iff.1 (h1 y) x hxl
  exact this

/-- `dashify` changes nothing but dashes -/
theorem nonDash_dashify (t : RT) : nonDash (sem [] (dashify t)) = nonDash (sem [] t) := by
  apply dashify_filter _ (by decide)
  intro ctx hc s
  have hmap : ∀ l : Str, (sem ctx (.str l)).filter (fun x => x.1 != .ch '-' && x.1 != .sym "ndash".toList)
      = sem ctx (.str (l.filter fun c => c != '-')) := by
    intro l
    induction l with
    | nil => rfl
    | cons c l ih =>
      simp only [sem, List.map_cons, List.filter_cons] at ih ⊢
      by_cases hc : c = '-'
      · subst hc; simpa using ih
      · have h1 : (Atom.ch c != Atom.ch '-' && Atom.ch c != Atom.sym "ndash".toList) = true := by simp [hc]
        have h2 : (c != '-') = true := by simp [hc]
        rw [h1, h2]; simp only [if_true, List.map_cons]; rw [ih]
  have hflat : ((splitDashes s [] false).map fun x => sem ctx (.str x)).flatten
      = sem ctx (.str (splitDashes s [] false).flatten) := by
    generalize splitDashes s [] false = L
    induction L with
    | nil => rfl
    | cons x L ih => rw [List.map_cons, List.flatten_cons, ih]; simp [sem]
  rw [hflat, hmap, hmap, flatten_splitDashes]
  simp

/-! ### field coverage -/

theorem toStrL_eq_flatten (ps : List RT) : toStrL ps = (ps.map toStr).flatten := by
  induction ps with
  | nil => rfl
  | cons p ps ih => simp [toStrL, ih]

theorem toStr_mk (k : Kind) (ps : List RT) : toStr (mk k ps) = toStrL ps := by
  rw [← toStr_sem (mk k ps) [], sem_mk, toStr_sem]; rfl

theorem toStr_infix_toStrL {p : RT} {ps : List RT} (h : p ∈ ps) : toStr p <:+: toStrL ps := by
  rw [toStrL_eq_flatten]
  exact List.infix_of_mem_flatten (List.mem_map.2 ⟨p, h, rfl⟩)

theorem toStr_infix_mk (k : Kind) {p : RT} {ps : List RT} (h : p ∈ ps) : toStr p <:+: toStr (mk k ps) := by
  rw [toStr_mk]; exact toStr_infix_toStrL h

theorem mem_joinedList_of_mem (sep : RT) {p : RT} : ∀ {l : List RT}, p ∈ l → p ∈ joinedList sep l := by
  intro l
  induction l with
  | nil => intro h; cases h
  | cons x l ih =>
    intro h
    cases l with
    | nil => simpa [joinedList] using h
    | cons y r =>
      simp only [joinedList]
      rcases List.mem_cons.1 h with rfl | h
      · simp
      · exact List.mem_cons_of_mem _ (List.mem_cons_of_mem _ (ih h))

theorem toStr_infix_join (sep : RT) {p : RT} {ps : List RT} (h : p ∈ ps) : toStr p <:+: toStr (RT.join sep ps) :=
  toStr_infix_mk _ (mem_joinedList_of_mem sep h)

theorem toStr_nil_of_falsy {p : RT} (h : truthy p = false) : toStr p = [] := by
  have hl : len p = 0 := by simpa [truthy] using h
  rw [← toStr_sem p [], sem_nil_of_len _ _ hl]; rfl

theorem dropLast_append_getLast! {α : Type} [Inhabited α] {l : List α} (h : l ≠ []) :
    l.dropLast ++ [l.getLast!] = l := by
  have h1 : l.getLast! = l.getLast h := by
    rw [List.getLast!_eq_getLast?_getD, List.getLast?_eq_some_getLast h]; rfl
  rw [h1]; exact List.dropLast_concat_getLast h

theorem mem_dropLast_or_getLast! {α : Type} [Inhabited α] {l : List α} {x : α} (h : x ∈ l) :
    x ∈ l.dropLast ∨ x = l.getLast! := by
  have hne : l ≠ [] := by intro h0; subst h0; cases h
  rw [← dropLast_append_getLast! hne] at h
  simpa using h

theorem toStr_infix_joinParts (sep sep2 lastSep : RT) {p : RT} {parts : List RT} (h : p ∈ parts) :
    toStr p <:+: toStr (joinParts sep sep2 lastSep parts) := by
  by_cases ht : truthy p = true
  · have hp : p ∈ parts.filter truthy := List.mem_filter.2 ⟨h, ht⟩
    unfold joinParts
    generalize parts.filter truthy = ps at hp
    simp only
    split
    · exact toStr_infix_mk _ hp
    · split
      · exact toStr_infix_join _ hp
      · rcases mem_dropLast_or_getLast! hp with h1 | h1
        · exact (toStr_infix_join (mk .text [sep]) h1).trans
            (toStr_infix_join (mk .text [lastSep]) (p := RT.join (mk .text [sep]) ps.dropLast) (by simp))
        · rw [h1]; exact toStr_infix_join _ (by simp)
  · rw [toStr_nil_of_falsy (by simpa using ht)]; exact List.nil_infix

theorem toStr_infix_togetherParts (lt : Bool) {p : RT} {parts : List RT} (h : p ∈ parts) :
    toStr p <:+: toStr (togetherParts lt parts) := by
  by_cases ht : truthy p = true
  · have hp : p ∈ parts.filter truthy := List.mem_filter.2 ⟨h, ht⟩
    unfold togetherParts
    generalize parts.filter truthy = ps at hp
    simp only
    split
    · cases hp
    · rename_i p0 rest
      split
      · exact toStr_infix_join _ hp
      · rename_i hlen
        rcases mem_dropLast_or_getLast! hp with h1 | h1
        · have hrest : rest ≠ [] := by intro h0; subst h0; simp at hlen
          have hd : (p0 :: rest).dropLast = p0 :: rest.dropLast := by
            cases rest with
            | nil => exact absurd rfl hrest
            | cons y r => rfl
          rw [hd] at h1
          rcases List.mem_cons.1 h1 with rfl | h1
          · exact toStr_infix_mk _ (by simp)
          · exact (toStr_infix_join space h1).trans (toStr_infix_mk _ (by simp))
        · rw [h1]; exact toStr_infix_mk _ (by simp)
  · rw [toStr_nil_of_falsy (by simpa using ht)]; exact List.nil_infix

theorem toStr_flat_append (a b : Flat) : Flat.toStr (a ++ b) = Flat.toStr a ++ Flat.toStr b := by
  simp [Flat.toStr]

theorem lowerC_upperC' (c : Char) : lowerC (upperC c) = lowerC c := Char.toLower_toUpper_eq_toLower c

theorem lower_toStr_mapCase (f : Char → Char) (hf : ∀ c, lowerC (f c) = lowerC c) (s : Flat) :
    lower (Flat.toStr (Flat.mapCase f s)) = lower (Flat.toStr s) := by
  induction s with
  | nil => rfl
  | cons x s ih =>
    obtain ⟨a, st⟩ := x
    have hc : Flat.mapCase f ((a, st) :: s) = Flat.mapCase f [(a, st)] ++ Flat.mapCase f s := by
      simp [Flat.mapCase]
    have hc2 : ((a, st) :: s : Flat) = [(a, st)] ++ s := rfl
    rw [hc, hc2, toStr_flat_append, toStr_flat_append, lower_append, lower_append, ih]
    congr 1
    cases a with
    | sym n => rfl
    | ch c =>
      simp only [Flat.mapCase, List.map_cons, List.map_nil]
      split
      · rfl
      · simp [Flat.toStr, hf]

theorem lower_toStr_lowerT (t : RT) : lower (toStr (lowerT t)) = lower (toStr t) := by
  rw [← toStr_sem (lowerT t) [], sem_lowerT, lower_toStr_mapCase _ lowerC_idem, toStr_sem]

theorem lower_toStr_capitalize (t : RT) : lower (toStr (capitalize t)) = lower (toStr t) := by
  rw [← toStr_sem (capitalize t) [], ← toStr_sem t []]
  rcases sem_capitalize t with h | h
  · rw [h]
  · rw [h, toStr_flat_append, lower_append, lower_toStr_mapCase _ lowerC_upperC',
      lower_toStr_mapCase _ lowerC_idem, ← lower_append, ← toStr_flat_append, take_one_append_drop_one]

theorem lower_toStr_capfirst (t : RT) : lower (toStr (capfirst t)) = lower (toStr t) := by
  rw [← toStr_sem (capfirst t) [], ← toStr_sem t []]
  rcases sem_capfirst t with h | h
  · rw [h]
  · rw [h, toStr_flat_append, lower_append, lower_toStr_mapCase _ lowerC_upperC',
      ← lower_append, ← toStr_flat_append, take_one_append_drop_one]

theorem toStr_prefix_addPeriodT (t : RT) : toStr t <+: toStr (addPeriodT t) := by
  unfold addPeriodT RT.addPeriod
  split
  · rw [← toStr_sem t [], ← toStr_sem (append t periodStr) []]
    cases t with
    | str s => simp only [append, sem_add, toStr_flat_append]; exact List.prefix_append _ _
    | sym n => simp only [append, sem_add, toStr_flat_append]; exact List.prefix_append _ _
    | node k ps => rw [sem_append_node, toStr_flat_append]; exact List.prefix_append _ _
  · exact List.prefix_rfl

theorem Spec.Covers.of_infix {cc : Bool} {a b c : Str} (h : Covers cc a b) (hbc : b <:+: c) : Covers cc a c := by
  unfold Covers at *
  split
  · rename_i hcc; rw [if_pos hcc] at h; exact h.trans (hbc.map _)
  · rename_i hcc; rw [if_neg hcc] at h; exact h.trans hbc

theorem Spec.Covers.to_lower {cc : Bool} {a b : Str} (h : Covers cc a b) : Covers true a b := by
  unfold Covers at *
  rw [if_pos rfl]
  split at h
  · exact h
  · exact h.map _

theorem Spec.Covers.lower_congr {a b c : Str} (h : Covers true a b) (hbc : lower b = lower c) : Covers true a c := by
  unfold Covers at *
  rw [if_pos rfl] at *
  rw [← hbc]; exact h

theorem Spec.Covers.refl (a : Str) : Covers false a a := by simp [Covers]

theorem sentenceText_covers {cc : Bool} {a : Str} (cf cap ap : Bool) (sep : RT) (parts : List RT)
    (h : Covers cc a (toStr (joinParts sep sep sep parts))) :
    Covers (cc || cf || cap) a (toStr (sentenceText cf cap ap sep parts)) := by
  simp only [sentenceText]
  generalize joinParts sep sep sep parts = x at h
  have hap : ∀ (c : Bool) (y : RT), Covers c a (toStr y) → Covers c a (toStr (if ap = true then addPeriodT y else y)) := by
    intro c y hy
    split
    · exact hy.of_infix (toStr_prefix_addPeriodT y).isInfix
    · exact hy
  cases cf with
  | false =>
    cases cap with
    | false => simpa using hap cc x h
    | true =>
      simp only [Bool.or_true, if_true, Bool.false_eq_true, if_false]
      exact hap true _ (h.to_lower.lower_congr (lower_toStr_capitalize x).symm)
  | true =>
    simp only [Bool.or_true, Bool.true_or, if_true]
    apply hap true
    have h1 : Covers true a (toStr (capfirst x)) := h.to_lower.lower_congr (lower_toStr_capfirst x).symm
    split
    · exact h1.lower_congr (lower_toStr_capitalize _).symm
    · exact h1

/-- the value of the field occurrence `o` is defined and occurs in `r` -/
def CovOK (ctx : Ctx) (o : Occ) (r : RT) : Prop :=
  ∃ val, fieldValue ctx o = some val ∧ Covers o.caseChanged (toStr val) (toStr r)

theorem CovOK.of_infix {ctx : Ctx} {o : Occ} {p r : RT} (h : CovOK ctx o p) (hpr : toStr p <:+: toStr r) :
    CovOK ctx o r := by
  obtain ⟨val, h1, h2⟩ := h
  exact ⟨val, h1, h2.of_infix hpr⟩

theorem eval_coverage (ctx : Ctx) : ∀ fuel,
    (∀ t r, eval fuel ctx t = .ok r → ∀ o ∈ printed fuel ctx t, CovOK ctx o r) ∧
    (∀ ts rs, evalList fuel ctx ts = .ok rs → ∀ o ∈ printedL fuel ctx ts, ∃ r ∈ rs, CovOK ctx o r) ∧
    (∀ ts r, evalFirst fuel ctx ts = .ok r → ∀ o ∈ printedF fuel ctx ts, CovOK ctx o r) := by
  intro fuel
  induction fuel with
  | zero => refine ⟨?_, ?_, ?_⟩ <;> intro t r h <;> simp [eval, evalList, evalFirst] at h
  | succ n ih =>
    obtain ⟨ih1, ih2, ih3⟩ := ih
    refine ⟨?_, ?_, ?_⟩
    · intro t r h o ho
      cases t with
      | lit x => simp [printed] at ho
      | raw s => simp [printed] at ho
      | join s s2 ls cs =>
        simp only [eval] at h
        split at h
        · cases h
        · rename_i parts hp
          simp only [Except.ok.injEq] at h; subst h
          obtain ⟨p, hpm, hc⟩ := ih2 cs parts hp o (by simpa [printed] using ho)
          exact hc.of_infix (toStr_infix_joinParts _ _ _ hpm)
      | together lt cs =>
        simp only [eval] at h
        split at h
        · cases h
        · rename_i parts hp
          simp only [Except.ok.injEq] at h; subst h
          obtain ⟨p, hpm, hc⟩ := ih2 cs parts hp o (by simpa [printed] using ho)
          exact hc.of_infix (toStr_infix_togetherParts _ hpm)
      | sentence cf cap ap sep cs =>
        rw [eval_sentence] at h
        split at h
        · cases h
        · rename_i parts hp
          simp only [Except.ok.injEq] at h; subst h
          simp only [printed, List.mem_map] at ho
          obtain ⟨o', ho', rfl⟩ := ho
          obtain ⟨p, hpm, val, hv, hc⟩ := ih2 cs parts hp o' ho'
          refine ⟨val, by simpa [fieldValue] using hv, ?_⟩
          exact sentenceText_covers cf cap ap sep parts (hc.of_infix (toStr_infix_joinParts _ _ _ hpm))
      | field name fn raw =>
        simp only [printed, List.mem_singleton] at ho; subst ho
        simp only [eval] at h
        split at h
        · cases h
        · rename_i v hv
          split at h
          · rename_i hraw
            simp only [Except.ok.injEq] at h; subst h
            exact ⟨_, by simp [fieldValue, hv, hraw], Covers.refl _⟩
          · rename_i hraw
            split at h
            · cases h
            · rename_i x hx
              simp only [Except.ok.injEq] at h; subst h
              exact ⟨_, by simp [fieldValue, hv, hraw, hx], Covers.refl _⟩
      | names role s s2 ls =>
        simp only [eval] at h
        split at h
        · cases h
        · rename_i r' ts hf
          split at h
          · cases h
          · rename_i parts hp
            simp only [Except.ok.injEq] at h; subst h
            simp only [printed, hf] at ho
            obtain ⟨p, hpm, hc⟩ := ih2 ts parts hp o ho
            exact hc.of_infix (toStr_infix_joinParts _ _ _ hpm)
      | optional cs =>
        simp only [eval] at h
        split at h
        · rename_i f hf; simp [printed, hf] at ho
        · rename_i e hne hf; simp [printed, hf] at ho
        · rename_i parts hp
          simp only [Except.ok.injEq] at h; subst h
          simp only [printed, hp] at ho
          obtain ⟨p, hpm, hc⟩ := ih2 cs parts hp o ho
          exact hc.of_infix (toStr_infix_mk _ hpm)
      | firstOf cs =>
        simp only [eval] at h
        exact ih3 cs r h o (by simpa [printed] using ho)
      | tag name cs =>
        simp only [eval] at h
        split at h
        · cases h
        · rename_i parts hp
          simp only [Except.ok.injEq] at h; subst h
          obtain ⟨p, hpm, hc⟩ := ih2 cs parts hp o (by simpa [printed] using ho)
          exact hc.of_infix (toStr_infix_mk _ hpm)
      | href url ext cs =>
        rw [eval_href] at h
        split at h
        · cases h
        · split at h
          · cases h
          · rename_i parts hp
            simp only [Except.ok.injEq] at h; subst h
            obtain ⟨p, hpm, hc⟩ := ih2 cs parts hp o (by simpa [printed] using ho)
            exact hc.of_infix (toStr_infix_mk _ hpm)
      | namePart before tie abbr cs =>
        rw [eval_namePart] at h
        split at h
        · cases h
        · rename_i children hp
          simp only [Except.ok.injEq] at h; subst h
          cases abbr with
          | true => simp [printed] at ho
          | false =>
            simp only [printed, Bool.false_eq_true, if_false] at ho
            obtain ⟨p, hpm, hc⟩ := ih2 cs children hp o ho
            have hin := toStr_infix_togetherParts true hpm
            refine hc.of_infix (hin.trans ?_)
            simp only [namePartText, Bool.false_eq_true, if_false]
            split
            · rename_i hfalsy
              rw [toStr_nil_of_falsy (by simpa using hfalsy)]; exact List.nil_infix
            · split
              · exact toStr_infix_mk _ (by simp)
              · exact toStr_infix_mk _ (by simp)
    · intro ts rs h o ho
      cases ts with
      | nil => simp [printedL] at ho
      | cons t ts =>
        simp only [evalList] at h
        split at h
        · cases h
        · rename_i r hr
          split at h
          · cases h
          · rename_i rs' hrs
            simp only [Except.ok.injEq] at h; subst h
            simp only [printedL, List.mem_append] at ho
            rcases ho with ho | ho
            · exact ⟨r, by simp, ih1 t r hr o ho⟩
            · obtain ⟨p, hpm, hc⟩ := ih2 ts rs' hrs o ho
              exact ⟨p, List.mem_cons_of_mem _ hpm, hc⟩
    · intro ts r h o ho
      cases ts with
      | nil => simp [printedF] at ho
      | cons t ts =>
        simp only [evalFirst] at h
        split at h
        · cases h
        · rename_i r' hr
          simp only [printedF, hr] at ho
          split at h
          · rename_i htr
            simp only [Except.ok.injEq] at h; subst h
            rw [if_pos htr] at ho
            exact ih1 t _ hr o ho
          · rename_i htr
            rw [if_neg htr] at ho
            exact ih3 ts r h o ho

theorem fieldValue_text {ctx : Ctx} {o : Occ} {val : RT} (h : fieldValue ctx o = some val) :
    ∃ v, ctx.entry.findField o.name ctx.db = some v ∧
      (o.raw = true → o.fn = .none → toStr val = v) ∧
      (o.raw = false → o.fn = .none → toStr val = stripBraces (decodeOf ctx.decode v)) ∧
      (o.raw = false → (o.fn = .lower ∨ o.fn = .capitalize) →
        lower (toStr val) = lower (stripBraces (decodeOf ctx.decode v))) ∧
      (o.raw = false → o.fn = .dashify → nonDash (sem [] val) = nonDash (flatLatex 0 (decodeOf ctx.decode v))) := by
  unfold fieldValue at h
  split at h
  · cases h
  · rename_i v hv
    refine ⟨v, hv, ?_, ?_, ?_, ?_⟩
    · intro hr hf
      rw [if_pos hr] at h
      simp only [Option.some.injEq] at h; subst h
      rw [hf]; rfl
    · intro hr hf
      rw [if_neg (by simp [hr])] at h
      split at h
      · cases h
      · rename_i x hx
        simp only [Option.some.injEq] at h; subst h
        rw [hf]; exact toStr_fromLatex hx
    · intro hr hf
      rw [if_neg (by simp [hr])] at h
      split at h
      · cases h
      · rename_i x hx
        simp only [Option.some.injEq] at h; subst h
        rcases hf with hf | hf
        · rw [hf]; simp only [applyFn]; rw [lower_toStr_lowerT, toStr_fromLatex hx]
        · rw [hf]; simp only [applyFn]; rw [lower_toStr_capitalize, toStr_fromLatex hx]
    · intro hr hf
      rw [if_neg (by simp [hr])] at h
      split at h
      · cases h
      · rename_i x hx
        simp only [Option.some.injEq] at h; subst h
        rw [hf]; simp only [applyFn]; rw [nonDash_dashify, sem_fromLatex hx]

/-- the last character of the plain text of a terminated, non-empty rich text -/
theorem toStr_of_terminated {r : RT} (h : Flat.terminated Gen.terminators (sem [] r) = true) :
    ∃ pre c, toStr r = pre ++ [c] ∧ [c] ∈ Gen.terminators := by
  rw [← toStr_sem r []]
  generalize sem [] r = s at h
  unfold Flat.terminated at h
  split at h
  · rename_i c st hl
    obtain ⟨ys, rfl⟩ := List.getLast?_eq_some_iff.1 hl
    exact ⟨Flat.toStr ys, c, by rw [toStr_flat_append]; rfl, by simpa using h⟩
  · cases h

/-- every formatted entry is the value of its entry's template -/
theorem formatEntries_ok_mem (db : BibData) (items : Str → Option Item) :
    ∀ (l : List (Str × PEntry)) (fs : List Formatted), formatEntries db items l = .ok fs →
      ∀ f ∈ fs, ∃ label e it, (label, e) ∈ l ∧ items e.key = some it ∧ f.key = e.key ∧ f.label = label ∧
        eval evalFuel { entry := e.toEntry, db := some db, personTemplates := it.personTemplates, decode := it.decode } it.template
          = .ok f.text := by
  intro l
  induction l with
  | nil => intro fs h; simp only [formatEntries, Except.ok.injEq] at h; subst h; simp
  | cons p l ih =>
    intro fs h
    obtain ⟨label, e⟩ := p
    simp only [formatEntries] at h
    split at h
    · cases h
    · rename_i it hit
      split at h
      · cases h
      · cases h
      · cases h
      · rename_i text htext
        split at h
        · cases h
        · rename_i l' hl'
          simp only [Except.ok.injEq] at h
          subst h
          intro f hf
          rcases List.mem_cons.1 hf with rfl | hf
          · exact ⟨label, e, it, by simp, hit, rfl, rfl, htext⟩
          · obtain ⟨label', e', it', hm, h1, h2, h3, h4⟩ := ih l' hl' f hf
            exact ⟨label', e', it', List.mem_cons_of_mem _ hm, h1, h2, h3, h4⟩

theorem formatBibliography_ok_mem {es : List PEntry} {items : Str → Option Item} {cites : List Str} {mc : Int}
    {sorting : Sorting} {lab : Labels} {rep : List Report} {fs : List Formatted}
    (h : formatBibliography es items cites mc sorting lab = (rep, .ok fs)) :
    ∀ f ∈ fs, ∃ e ∈ resolvedEntries es cites mc, ∃ it, items e.key = some it ∧ f.key = e.key ∧
      eval evalFuel (ctxOf es e it) it.template = .ok f.text := by
  rw [formatBibliography_eq] at h
  split at h
  · simp only [Prod.mk.injEq] at h; cases h.2
  · rename_i ls hls
    simp only [Prod.mk.injEq] at h
    intro f hf
    obtain ⟨label, e, it, hm, h1, h2, -, h4⟩ := formatEntries_ok_mem _ _ _ _ h.2 f hf
    have hin : e ∈ sortEntries sorting (resolvedEntries es cites mc) := (List.of_mem_zip hm).2
    have hmem : e ∈ resolvedEntries es cites mc := by
      cases sorting with
      | none => exact hin
      | authorYearTitle => exact (sortBy_perm _ _).mem_iff.1 hin
    exact ⟨e, hmem, it, h1, h2, h4⟩

/-! ### name coverage -/

/-- the value shown of the name-word occurrence `o` occurs in `r` -/
def NCovOK (o : NOcc) (r : RT) : Prop := Covers o.caseChanged (toStr o.shown) (toStr r)

theorem NCovOK.of_infix {o : NOcc} {p r : RT} (h : NCovOK o p) (hpr : toStr p <:+: toStr r) : NCovOK o r :=
  Covers.of_infix h hpr

theorem mem_evalList_of_lit {ctx : Ctx} : ∀ (fuel : Nat) (cs : List T) (rs : List RT),
    evalList fuel ctx cs = .ok rs → ∀ r ∈ litsOf cs, r ∈ rs := by
  intro fuel
  induction fuel with
  | zero => intro cs rs h; simp [evalList] at h
  | succ n ih =>
    intro cs rs h r hr
    cases cs with
    | nil => simp [litsOf] at hr
    | cons t ts =>
      simp only [evalList] at h
      split at h
      · cases h
      · rename_i x hx
        split at h
        · cases h
        · rename_i rs' hrs
          simp only [Except.ok.injEq] at h; subst h
          cases t with
          | lit y =>
            simp only [litsOf, List.mem_cons] at hr
            rcases hr with rfl | hr
            · cases n with
              | zero => simp [eval] at hx
              | succ m => simp only [eval, Except.ok.injEq] at hx; subst hx; simp
            · exact List.mem_cons_of_mem _ (ih ts rs' hrs r hr)
          | _ => exact List.mem_cons_of_mem _ (ih ts rs' hrs r (by simpa [litsOf] using hr))

theorem toStr_infix_namePartText (before : RT) (tie abbr : Bool) {p : RT} {children : List RT}
    (h : p ∈ (if abbr then children.map abbreviate else children)) :
    toStr p <:+: toStr (namePartText before tie abbr children) := by
  simp only [namePartText]
  generalize (if abbr = true then List.map abbreviate children else children) = ch at h ⊢
  have hin := toStr_infix_togetherParts true h
  refine hin.trans ?_
  split
  · rename_i hfalsy
    rw [toStr_nil_of_falsy (by simpa using hfalsy)]; exact List.nil_infix
  · split
    · exact toStr_infix_mk _ (by simp)
    · exact toStr_infix_mk _ (by simp)

theorem eval_nameCoverage (ctx : Ctx) : ∀ fuel,
    (∀ t r, eval fuel ctx t = .ok r → ∀ o ∈ printedN fuel ctx t, NCovOK o r) ∧
    (∀ ts rs, evalList fuel ctx ts = .ok rs → ∀ o ∈ printedNL fuel ctx ts, ∃ r ∈ rs, NCovOK o r) ∧
    (∀ ts r, evalFirst fuel ctx ts = .ok r → ∀ o ∈ printedNF fuel ctx ts, NCovOK o r) := by
  intro fuel
  induction fuel with
  | zero => refine ⟨?_, ?_, ?_⟩ <;> intro t r h <;> simp [eval, evalList, evalFirst] at h
  | succ n ih =>
    obtain ⟨ih1, ih2, ih3⟩ := ih
    refine ⟨?_, ?_, ?_⟩
    · intro t r h o ho
      cases t with
      | lit x => simp [printedN] at ho
      | raw s => simp [printedN] at ho
      | field name fn raw => simp [printedN] at ho
      | join s s2 ls cs =>
        simp only [eval] at h
        split at h
        · cases h
        · rename_i parts hp
          simp only [Except.ok.injEq] at h; subst h
          obtain ⟨p, hpm, hc⟩ := ih2 cs parts hp o (by simpa [printedN] using ho)
          exact hc.of_infix (toStr_infix_joinParts _ _ _ hpm)
      | together lt cs =>
        simp only [eval] at h
        split at h
        · cases h
        · rename_i parts hp
          simp only [Except.ok.injEq] at h; subst h
          obtain ⟨p, hpm, hc⟩ := ih2 cs parts hp o (by simpa [printedN] using ho)
          exact hc.of_infix (toStr_infix_togetherParts _ hpm)
      | sentence cf cap ap sep cs =>
        rw [eval_sentence] at h
        split at h
        · cases h
        · rename_i parts hp
          simp only [Except.ok.injEq] at h; subst h
          simp only [printedN, List.mem_map] at ho
          obtain ⟨o', ho', rfl⟩ := ho
          obtain ⟨p, hpm, hc⟩ := ih2 cs parts hp o' ho'
          exact sentenceText_covers cf cap ap sep parts (Covers.of_infix hc (toStr_infix_joinParts _ _ _ hpm))
      | names role s s2 ls =>
        simp only [eval] at h
        split at h
        · cases h
        · rename_i r' ts hf
          split at h
          · cases h
          · rename_i parts hp
            simp only [Except.ok.injEq] at h; subst h
            simp only [printedN, hf] at ho
            obtain ⟨p, hpm, hc⟩ := ih2 ts parts hp o ho
            exact hc.of_infix (toStr_infix_joinParts _ _ _ hpm)
      | optional cs =>
        simp only [eval] at h
        split at h
        · rename_i f hf; simp [printedN, hf] at ho
        · rename_i e hne hf; simp [printedN, hf] at ho
        · rename_i parts hp
          simp only [Except.ok.injEq] at h; subst h
          simp only [printedN, hp] at ho
          obtain ⟨p, hpm, hc⟩ := ih2 cs parts hp o ho
          exact hc.of_infix (toStr_infix_mk _ hpm)
      | firstOf cs =>
        simp only [eval] at h
        exact ih3 cs r h o (by simpa [printedN] using ho)
      | tag name cs =>
        simp only [eval] at h
        split at h
        · cases h
        · rename_i parts hp
          simp only [Except.ok.injEq] at h; subst h
          obtain ⟨p, hpm, hc⟩ := ih2 cs parts hp o (by simpa [printedN] using ho)
          exact hc.of_infix (toStr_infix_mk _ hpm)
      | href url ext cs =>
        rw [eval_href] at h
        split at h
        · cases h
        · split at h
          · cases h
          · rename_i parts hp
            simp only [Except.ok.injEq] at h; subst h
            obtain ⟨p, hpm, hc⟩ := ih2 cs parts hp o (by simpa [printedN] using ho)
            exact hc.of_infix (toStr_infix_mk _ hpm)
      | namePart before tie abbr cs =>
        rw [eval_namePart] at h
        split at h
        · cases h
        · rename_i children hp
          simp only [Except.ok.injEq] at h; subst h
          simp only [printedN, List.mem_append, List.mem_map] at ho
          rcases ho with ⟨x, hx, rfl⟩ | ho
          · have hmem := mem_evalList_of_lit n cs children hp x hx
            have hsh : (NOcc.mk x abbr false).shown ∈ (if abbr then children.map abbreviate else children) := by
              cases abbr with
              | true => simpa [NOcc.shown] using List.mem_map.2 ⟨x, hmem, rfl⟩
              | false => simpa [NOcc.shown] using hmem
            exact Covers.of_infix (Covers.refl _) (toStr_infix_namePartText before tie abbr hsh)
          · cases abbr with
            | true => simp at ho
            | false =>
              simp only [Bool.false_eq_true, if_false] at ho
              obtain ⟨p, hpm, hc⟩ := ih2 cs children hp o ho
              exact hc.of_infix (toStr_infix_namePartText before tie false (by simpa using hpm))
    · intro ts rs h o ho
      cases ts with
      | nil => simp [printedNL] at ho
      | cons t ts =>
        simp only [evalList] at h
        split at h
        · cases h
        · rename_i r hr
          split at h
          · cases h
          · rename_i rs' hrs
            simp only [Except.ok.injEq] at h; subst h
            simp only [printedNL, List.mem_append] at ho
            rcases ho with ho | ho
            · exact ⟨r, by simp, ih1 t r hr o ho⟩
            · obtain ⟨p, hpm, hc⟩ := ih2 ts rs' hrs o ho
              exact ⟨p, List.mem_cons_of_mem _ hpm, hc⟩
    · intro ts r h o ho
      cases ts with
      | nil => simp [printedNF] at ho
      | cons t ts =>
        simp only [evalFirst] at h
        split at h
        · cases h
        · rename_i r' hr
          simp only [printedNF, hr] at ho
          split at h
          · rename_i htr
            simp only [Except.ok.injEq] at h; subst h
            rw [if_pos htr] at ho
            exact ih1 t _ hr o ho
          · rename_i htr
            rw [if_neg htr] at ho
            exact ih3 ts r h o ho

/-! ### `abbreviate` -/

theorem flatten_splitDelim : ∀ (s cur : Str), (splitDelim s cur).flatten = cur.reverse ++ s := by
  intro s
  induction s with
  | nil => intro cur; simp [splitDelim]
  | cons c r ih =>
    intro cur
    simp only [splitDelim]
    split
    · simp [ih]
    · rw [ih]; simp

theorem toStr_flatten_sem (ctx : List Markup) (l : List RT) :
    Flat.toStr ((l.map (sem ctx)).flatten) = (l.map toStr).flatten := by
  induction l with
  | nil => rfl
  | cons x l ih => simp only [List.map_cons, List.flatten_cons, toStr_flat_append, ih, toStr_sem]

/-- every atom is an alphabetic character -/
def AlphaAtoms (s : Flat) : Prop := ∀ x ∈ s, ∃ c, x.1 = .ch c ∧ isAlphaN c = true

theorem filter_const_true {α : Type} (l : List α) : l.filter (fun _ => true) = l := by
  induction l with
  | nil => rfl
  | cons x l ih => simp [ih]

theorem alphaAtoms_push (m : List Markup) (s : Flat) : AlphaAtoms (Flat.push m s) ↔ AlphaAtoms s := by
  unfold AlphaAtoms Flat.push
  constructor
  · intro h x hx
    exact h (x.1, m ++ x.2) (List.mem_map.2 ⟨x, hx, rfl⟩)
  · intro h x hx
    obtain ⟨y, hy, rfl⟩ := List.mem_map.1 hx
    exact h y hy

/-- splitting at the delimiters (which are kept as pieces) loses nothing -/
theorem abbrPieces_flatten (t : RT) : ((abbrPieces t).map toStr).flatten = toStr t := by
  have h := splitF_filter (fun s => splitDelim s []) (fun _ => true) (by
    intro ctx _ s
    simp only [filter_const_true]
    have : ∀ L : List Str, (L.map fun x => sem ctx (.str x)).flatten = sem ctx (.str L.flatten) := by
      intro L
      induction L with
      | nil => rfl
      | cons x L ih => rw [List.map_cons, List.flatten_cons, ih]; simp [sem]
    rw [this, flatten_splitDelim]; rfl) t [] rfl
  simp only [filter_const_true] at h
  rw [← toStr_flatten_sem [], abbrPieces, h, toStr_sem]

theorem joinWith_nil_sep {α : Type} : ∀ L : List (List α), joinWith [] L = L.flatten := by
  intro L
  induction L with
  | nil => rfl
  | cons x L ih =>
    cases L with
    | nil => simp [joinWith]
    | cons y r => simp only [joinWith, List.append_nil, ih, List.flatten_cons]

theorem toStr_abbreviate (t : RT) :
    toStr (abbreviate t) = ((abbrPieces t).map fun w => toStr (abbreviateWord w)).flatten := by
  rw [← toStr_sem (abbreviate t) [], abbreviate, sem_join]
  have : sem [] (.str []) = [] := rfl
  rw [this, joinWith_nil_sep, List.map_map, ← List.map_map, toStr_flatten_sem, List.map_map]
  rfl

theorem alphaAtoms_of_isAlphaTU (t : RT) : isAlphaTU t = true → len t ≠ 0 ∧ ∀ ctx, AlphaAtoms (sem ctx t) := by
  induction t using RT.induct with
  | hstr s =>
    intro h
    simp only [isAlphaTU, Bool.and_eq_true, Bool.not_eq_true', List.all_eq_true] at h
    refine ⟨by simpa [len] using h.1, fun ctx x hx => ?_⟩
    simp only [sem, List.mem_map] at hx
    obtain ⟨c, hc, rfl⟩ := hx
    exact ⟨c, rfl, h.2 c hc⟩
  | hsym n => intro h; simp [isAlphaTU] at h
  | hnode k ps ih =>
    intro h
    simp only [isAlphaTU, Bool.and_eq_true, bne_iff_ne, ne_eq] at h
    refine ⟨by simpa [len] using h.1, fun ctx => ?_⟩
    simp only [sem]
    generalize ctx ++ k.markup = c
    have hall := h.2
    clear h
    induction ps with
    | nil => intro x hx; simp [semL] at hx
    | cons p ps ih2 =>
      simp only [isAlphaLU, Bool.and_eq_true] at hall
      intro x hx
      simp only [semL, List.mem_append] at hx
      rcases hx with hx | hx
      · exact (ih p (by simp) hall.1).2 c x hx
      · exact ih2 (fun q hq => ih q (List.mem_cons_of_mem _ hq)) hall.2 x hx

theorem terminators_not_alpha :
    (Gen.terminators.all fun x => match x with | [c] => !isAlphaN c | _ => true) = true := by decide +kernel

theorem not_terminator_of_alpha {c : Char} (h : isAlphaN c = true) : Gen.terminators.contains [c] = false := by
  rw [Bool.eq_false_iff]
  intro hc
  have hmem : [c] ∈ Gen.terminators := by simpa using hc
  have := List.all_eq_true.1 terminators_not_alpha [c] hmem
  simp [h] at this

theorem endsWith_false_of_alpha (t : RT) : (∀ ctx, AlphaAtoms (sem ctx t)) → endsWith Gen.terminators t = false := by
  induction t using RT.induct with
  | hstr s =>
    intro h
    rw [endsWith, any_suffix_single _ terminators_single]
    cases hl : s.getLast? with
    | none => rfl
    | some c =>
      have hc : c ∈ s := List.mem_of_getLast? hl
      obtain ⟨c', h1, h2⟩ := h [] (.ch c, []) (by simp only [sem, List.mem_map]; exact ⟨c, hc, rfl⟩)
      simp only [Atom.ch.injEq] at h1; subst h1
      exact not_terminator_of_alpha h2
  | hsym n => intro _; rfl
  | hnode k ps ih =>
    intro h
    simp only [endsWith]
    have h' : ∀ ctx, AlphaAtoms (semL ctx ps) := by
      intro ctx
      have h0 := h []
      simp only [sem] at h0
      rw [semL_ctx, alphaAtoms_push] at h0
      rw [semL_ctx, alphaAtoms_push]
      exact h0
    clear h
    induction ps with
    | nil => rfl
    | cons p ps ih2 =>
      cases ps with
      | nil =>
        simp only [endsWithL]
        exact ih p (by simp) (fun ctx x hx => h' ctx x (by simp [semL, hx]))
      | cons q r =>
        simp only [endsWithL]
        exact ih2 (fun x hx => ih x (List.mem_cons_of_mem _ hx))
          (fun ctx x hx => h' ctx x (by rw [semL]; exact List.mem_append_right _ hx))

theorem toStr_append (t x : RT) : toStr (append t x) = toStr t ++ toStr x := by
  rw [← toStr_sem (append t x) [], ← toStr_sem t [], ← toStr_sem x []]
  cases t with
  | str s => simp only [append, sem_add, toStr_flat_append]
  | sym n => simp only [append, sem_add, toStr_flat_append]
  | node k ps => rw [sem_append_node, toStr_flat_append, toStr_sem x, toStr_sem x]

/-- `abbreviate_word`: an alphabetic word becomes its first character and a period, any other piece is kept -/
theorem toStr_abbreviateWord (w : RT) : toStr (abbreviateWord w) = abbrPiece w := by
  unfold abbreviateWord abbrPiece
  split
  · rename_i ha
    obtain ⟨hlen, halpha⟩ := alphaAtoms_of_isAlphaTU w ha
    have hrange : -(len w : Int) ≤ 0 ∧ (0 : Int) < (len w : Int) := by omega
    obtain ⟨r, hr, hsem, -⟩ := sem_getIndex_ok [] w 0 hrange
    rw [hr]
    show toStr (addPeriodT r) = _
    simp only [Int.lt_irrefl, if_false, Int.toNat_zero, List.drop_zero] at hsem
    have hsemAll : ∀ ctx, sem ctx r = (sem ctx w).take 1 := by
      intro ctx
      obtain ⟨r', hr', hsem', -⟩ := sem_getIndex_ok ctx w 0 hrange
      rw [hr] at hr'
      simp only [Except.ok.injEq] at hr'; subst hr'
      simpa using hsem'
    have hra : ∀ ctx, AlphaAtoms (sem ctx r) := by
      intro ctx x hx
      rw [hsemAll] at hx
      exact halpha ctx x (List.mem_of_mem_take hx)
    have hlenr : len r ≠ 0 := by
      rw [← sem_length r [], hsem, List.length_take, sem_length]; omega
    have hap : addPeriodT r = append r periodStr := by
      unfold addPeriodT RT.addPeriod
      rw [endsWith_false_of_alpha r hra]
      simp [hlenr]
    rw [hap, toStr_append, ← toStr_sem r [], hsem, ← toStr_sem w []]
    congr 1
    have hne : sem [] w ≠ [] := by
      intro h0
      have := congrArg List.length h0
      rw [sem_length] at this
      exact hlen (by simpa using this)
    cases hw : sem [] w with
    | nil => exact absurd hw hne
    | cons x rest =>
      obtain ⟨c, hc, -⟩ := halpha [] x (by rw [hw]; simp)
      obtain ⟨a, m⟩ := x
      simp only at hc; subst hc
      simp [Flat.toStr]
  · rfl

theorem toStr_abbreviate_pieces (t : RT) : toStr (abbreviate t) = ((abbrPieces t).map abbrPiece).flatten := by
  rw [toStr_abbreviate]
  congr 1
  exact List.map_congr_left fun w _ => toStr_abbreviateWord w

theorem abbrPiece_alpha {w : RT} (h : isAlphaTU w = true) :
    ∃ c rest, toStr w = c :: rest ∧ isAlphaN c = true ∧ abbrPiece w = [c, '.'] := by
  obtain ⟨hlen, halpha⟩ := alphaAtoms_of_isAlphaTU w h
  cases hw : sem [] w with
  | nil =>
    have := congrArg List.length hw
    rw [sem_length] at this
    exact absurd (by simpa using this) hlen
  | cons x rest =>
    obtain ⟨c, hc, hca⟩ := halpha [] x (by rw [hw]; simp)
    obtain ⟨a, m⟩ := x
    simp only at hc; subst hc
    have hts : toStr w = c :: Flat.toStr rest := by
      rw [← toStr_sem w [], hw]; simp [Flat.toStr]
    exact ⟨c, Flat.toStr rest, hts, hca, by simp [abbrPiece, h, hts]⟩

/-! ### alpha base labels -/

theorem stripChar_alnum (d c : Char) (hc : c ∈ stripChar d) : isAlnum c = true := by
  unfold stripChar at hc
  split at hc
  · split at hc
    · rename_i h2
      simp only [List.mem_singleton] at hc; subst hc; exact h2
    · cases hc
  · split at hc
    · rename_i l hl
      have htab : (Gen.stripAccents.all fun p => p.2.all fun n => isAlnum (Char.ofNat n)) = true := by
        decide +kernel
      have hmem : (d.toNat, l) ∈ Gen.stripAccents := by
        have := List.lookup_eq_some_iff.1 hl
        obtain ⟨l1, l2, h1, -⟩ := this
        rw [h1]; simp
      have hall := List.all_eq_true.1 htab _ hmem
      obtain ⟨n, hn, rfl⟩ := List.mem_map.1 hc
      exact List.all_eq_true.1 hall n hn
    · cases hc

theorem stripNonalnum_alnum (parts : List Str) : ∀ c ∈ stripNonalnum parts, isAlnum c = true := by
  intro c hc
  simp only [stripNonalnum, List.mem_flatMap] at hc
  obtain ⟨d, -, hd⟩ := hc
  exact stripChar_alnum d c hd

theorem labNamesLoop_chars (persons : List Person) (n : Nat) :
    ∀ left ptr, ∀ c ∈ labNamesLoop persons n left ptr, isAlnum c = true ∨ c = '+' := by
  intro left
  induction left with
  | zero => intro ptr c hc; simp [labNamesLoop] at hc
  | succ k ih =>
    intro ptr c hc
    simp only [labNamesLoop] at hc
    split at hc
    · cases hc
    · rename_i p hp
      simp only [List.mem_append] at hc
      rcases hc with hc | hc
      · split at hc
        · simp only [List.mem_singleton] at hc; exact Or.inr hc
        · exact Or.inl (stripNonalnum_alnum _ c hc)
      · exact ih _ c hc

theorem formatLabNames_chars (ps : List Person) (l : Str) (h : formatLabNames ps = some l) :
    ∀ c ∈ l, isAlnum c = true ∨ c = '+' := by
  unfold formatLabNames at h
  split at h
  · cases h
  · rename_i p
    simp only [Option.some.injEq] at h; subst h
    intro c hc
    split at hc
    · exact Or.inl (stripNonalnum_alnum _ c (List.mem_of_mem_take hc))
    · exact Or.inl (stripNonalnum_alnum _ c hc)
  · simp only [Option.some.injEq] at h; subst h
    intro c hc
    simp only [List.mem_append] at hc
    rcases hc with hc | hc
    · exact labNamesLoop_chars _ _ _ _ c hc
    · split at hc
      · simp only [List.mem_singleton] at hc; exact Or.inr hc
      · cases hc

theorem formatLabel_year (e : PEntry) (l : Str) (h : formatLabel e = some l) : ∃ b, l = b ++ year2 e := by
  unfold formatLabel at h
  simp only [Option.map_eq_some_iff] at h
  obtain ⟨b, -, rfl⟩ := h
  refine ⟨b, ?_⟩
  unfold year2
  split <;> simp

theorem formatLabel_author (e : PEntry) (ps : List Person)
    (ht : ¬(e.type = "book".toList ∨ e.type = "inbook".toList)) (hp : e.type ≠ "proceedings".toList)
    (hm : e.type ≠ "manual".toList) (ha : getPersons e "author" = some ps) :
    formatLabel e = (formatLabNames ps).map (· ++ year2 e) := by
  unfold formatLabel
  simp only [if_neg ht, if_neg hp, if_neg hm, ha, Option.map_some]
  cases formatLabNames ps with
  | none => rfl
  | some b =>
    simp only [Option.map_some, Option.some.injEq]
    unfold year2
    split <;> simp

end Pybtex.Tmpl
