/-
C02 helper lemmas, part 4: the BibTeX writer's text is a rendering (`Spec/Bib.lean`) of the
document `docOf d` under the writer's layout, and the `.bib` reader reads it back as `d`
(over the printer/parser lemmas of C01, `Lemmas/BibRoundTrip.lean`).
-/
import PybtexModel.Lemmas.BibWritePieces
import PybtexModel.Lemmas.BibRoundTrip

namespace Pybtex.C02
open Pybtex Pybtex.Spec Pybtex.Bib Pybtex.BibWrite Pybtex.BibSpec Pybtex.Names Pybtex.BibRT

/-! ### values: `check_braces`, `quote` -/

theorem checkBraces_ok {s : Str} (h : litScan false 0 s = some 0) : checkBraces s = .ok () := by
  have hbal := litScan_depthAfter s 0 0 h
  have hsome := litScan_scan h
  unfold checkBraces
  cases hsc : scan s with
  | none => rw [hsc] at hsome; cases hsome
  | some toks =>
    simp only []
    cases hl : toks.getLast? with
    | none => rfl
    | some t =>
      simp only []
      have hclosed : endsInSpecial false 0 s = false := by
        have := specialsClosed_of_balanced s (by simp [balanced, hbal])
        simpa [specialsClosed] using this
      have hchain : LevelChain 0 toks := scanM_levels (.norm 0) s toks hsc 0 hbal hclosed
      have htext : tokText toks = s := by
        have := scanM_text (.norm 0) s toks hsc
        simpa [ScanMode.acc, ScanMode.sp, ScanMode.depth, hclosed, closeIf] using this
      obtain ⟨pre, hpre⟩ : ∃ pre, toks = pre ++ [t] := by
        have hne : toks ≠ [] := by intro h0; rw [h0] at hl; simp at hl
        refine ⟨toks.dropLast, ?_⟩
        have h2 := List.getLast?_eq_some_getLast hne
        rw [hl] at h2
        have h3 : toks.getLast hne = t := (Option.some.inj h2).symm
        rw [← h3]
        exact (List.dropLast_concat_getLast hne).symm
      have := hchain.prefix pre t [] (by rw [hpre])
      rw [← hpre, htext, hbal] at this
      have ht : t.2 = 0 := (Option.some.inj this).symm
      simp [ht]

theorem litScan_quoted : ∀ (s : Str) (d e : Nat), (∀ c ∈ s, c ≠ '"') → litScan false d s = some e →
    litScan true d s = some e := by
  intro s
  induction s with
  | nil => intro d e _ h; simpa [litScan] using h
  | cons c r ih =>
    intro d e hq h
    have hc : c ≠ '"' := hq c (by simp)
    have hr : ∀ x ∈ r, x ≠ '"' := fun x hx => hq x (by simp [hx])
    simp only [litScan] at h ⊢
    by_cases h1 : c = '{'
    · simp only [h1, if_true] at h ⊢
      split at h
      · cases h
      · rename_i hlt; rw [if_neg hlt]; exact ih _ _ hr h
    · by_cases h2 : c = '}'
      · simp only [h2, show ¬ ('}' = '{') by decide, if_false, if_true] at h ⊢
        split at h
        · cases h
        · rename_i hd; rw [if_neg hd]; exact ih _ _ hr h
      · simp only [if_neg h1, if_neg h2, Bool.false_eq_true, false_and, and_false, if_false] at h
        simp only [if_neg h1, if_neg h2, hc, false_and, if_false]
        exact ih _ _ hr h

/-- how the writer spells a value -/
def spellOf (v : Str) : Spelling := if v.contains '"' then .braced else .quoted

theorem quote_ok {v : Str} (h : litScan false 0 v = some 0) :
    quote v = .ok (renderPiece (.lit v) { spelling := spellOf v }) := by
  unfold quote
  rw [checkBraces_ok h]
  simp only [spellOf, renderPiece]
  split <;> simp

theorem pieceOk_spell (m : Macros) {v : Str} (h : litScan false 0 v = some 0) :
    pieceOk m (.lit v) { spelling := spellOf v } = true := by
  unfold pieceOk spellOf
  by_cases hq : v.contains '"' = true
  · simp only [hq, if_true]; simp [h]
  · simp only [hq, Bool.false_eq_true, if_false]
    have : ∀ c ∈ v, c ≠ '"' := by
      intro c hc hcq
      subst hcq
      exact hq (by simpa using hc)
    simp [litScan_quoted v 0 0 this h]


/-! ### the writer's text of the fields of an entry -/

/-- the fields in the order the writer writes them: the roles (value = the name list), then the fields -/
def rolesRaw (rs : List (Str × List Person)) : List (Str × Str) := rs.map fun r => (r.1, formatNames r.2)
def rawFields (e : Entry) : List (Str × Str) := rolesRaw e.persons ++ e.fields

def docOfRaw (raw : List (Str × Str)) : List (Str × Value) := raw.map fun f => (f.1, [Piece.lit f.2])

/-- the white space in front of a field name -/
def wsIndent : Str := ['\n', ' ', ' ', ' ', ' ']

def fieldLayoutOf (v : Str) (last : Bool) : FieldLayout :=
  { beforeName := wsIndent, beforeEq := [' '], afterEq := [' '], pieces := [{ spelling := spellOf v }],
    afterValue := if last then ['\n'] else [] }

def layoutsOf : List (Str × Str) → List FieldLayout
  | [] => []
  | [f] => [fieldLayoutOf f.2 true]
  | f :: g :: r => fieldLayoutOf f.2 false :: layoutsOf (g :: r)

/-- `',\n    name = "value"'` -/
def fieldText (f : Str × Str) : Str :=
  ',' :: (wsIndent ++ (f.1 ++ ' ' :: '=' :: ' ' :: renderPiece (.lit f.2) { spelling := spellOf f.2 }))

def fieldsText (raw : List (Str × Str)) : Str := (raw.map fieldText).flatten

theorem fieldsText_append (a b : List (Str × Str)) : fieldsText (a ++ b) = fieldsText a ++ fieldsText b := by
  simp [fieldsText]

/-- a value the writer writes unchanged: balanced and left alone by the encoder -/
def ValW (encode : Str → Str) (v : Str) : Prop := litScan false 0 v = some 0 ∧ encode v = v

theorem writeField_ok {encode : Str → Str} {n v : Str} (h : ValW encode v) :
    writeField encode n v = .ok (fieldText (n, v)) := by
  unfold writeField
  rw [h.2, quote_ok h.1]
  have h1 : ",\n    ".toList = ',' :: wsIndent := by decide
  have h2 : " = ".toList = [' ', '=', ' '] := by decide
  rw [h1, h2]
  simp only [fieldText, List.cons_append, List.append_assoc, List.nil_append]

theorem writeFields_ok {encode : Str → Str} : ∀ (fs : List (Str × Str)), (∀ f ∈ fs, ValW encode f.2) →
    writeFields encode fs = .ok (fieldsText fs) := by
  intro fs
  induction fs with
  | nil => intro _; rfl
  | cons f fs ih =>
    intro h
    obtain ⟨n, v⟩ := f
    simp only [writeFields, writeField_ok (h (n, v) (by simp)), ih (fun g hg => h g (by simp [hg]))]
    simp [fieldsText]

theorem writeRoles_ok {encode : Str → Str} : ∀ (rs : List (Str × List Person)),
    (∀ r ∈ rs, r.2 ≠ [] ∧ ValW encode (formatNames r.2)) →
    writeRoles encode rs = .ok (fieldsText (rolesRaw rs)) := by
  intro rs
  induction rs with
  | nil => intro _; rfl
  | cons r rs ih =>
    intro h
    obtain ⟨role, ps⟩ := r
    have hr := h (role, ps) (by simp)
    simp only [writeRoles, writePersons, hr.1, if_false, writeField_ok hr.2,
      ih (fun g hg => h g (by simp [hg]))]
    simp [fieldsText, rolesRaw]

theorem renderField_raw (f : Str × Str) (last : Bool) :
    ',' :: renderField (f.1, [Piece.lit f.2]) (fieldLayoutOf f.2 last) =
      fieldText f ++ (if last then ['\n'] else []) := by
  simp only [renderField, fieldLayoutOf, BibRT.applyMask_nil, renderValue, renderMore, List.headD_cons,
    List.append_nil, fieldText, List.cons_append, List.append_assoc, List.nil_append]

theorem renderFields_cons (x : Str × Value) (xs : List (Str × Value)) (l : FieldLayout) (ls : List FieldLayout) :
    renderFields (x :: xs) (l :: ls) = ',' :: renderField x l ++ renderFields xs ls := rfl

theorem renderFields_raw : ∀ (raw : List (Str × Str)), raw ≠ [] →
    renderFields (docOfRaw raw) (layoutsOf raw) = fieldsText raw ++ ['\n'] := by
  intro raw
  induction raw with
  | nil => intro h; exact absurd rfl h
  | cons f raw ih =>
    intro _
    cases raw with
    | nil =>
      show renderFields [(f.1, [Piece.lit f.2])] [fieldLayoutOf f.2 true] = _
      rw [renderFields_cons, renderField_raw f true]
      simp [renderFields, fieldsText]
    | cons g r =>
      have := ih (by simp)
      show renderFields ((f.1, [Piece.lit f.2]) :: docOfRaw (g :: r)) (fieldLayoutOf f.2 false :: layoutsOf (g :: r)) = _
      rw [renderFields_cons, renderField_raw f false, this]
      simp [fieldsText]


/-! ### the name list of a role is read back -/

theorem chunks_good {p : Person} (hg : PersonGood p) : ∀ x ∈ chunksOf p, Chunk x := by
  intro x hx
  simp only [chunksOf, List.mem_append, List.mem_singleton] at hx
  rcases hx with (rfl | hx) | hx
  · exact chunk_join hg.vl
  · split at hx
    · simp only [List.mem_singleton] at hx; subst hx; exact chunk_space_join hg.mem.2.2.2.2
    · simp at hx
  · split at hx
    · simp only [List.mem_singleton] at hx; subst hx; exact chunk_space_join hg.fm
    · split at hx
      · simp only [List.mem_singleton] at hx; subst hx; exact ⟨rfl, rfl⟩
      · simp at hx

theorem format_balanced {p : Person} (hg : PersonGood p) : depthAfter 0 (formatName p) = some 0 := by
  rw [formatName_chunks hg]
  exact depthAfter_join (by simp) _ (fun x hx => (chunks_good hg x hx).2)

theorem personOf_format {p : Person} (hg : PersonGood p) : personOf (formatName p) = some p := by
  unfold personOf; rw [mkPerson_format hg]

theorem personOk_format {p : Person} (hg : PersonGood p) : personOk (formatName p) = true := by
  unfold personOk; rw [mkPerson_format hg]; rfl

theorem names_read_back (ps : List Person) (hne : ps ≠ []) (h : ∀ p ∈ ps, personOkW p = true) :
    personsOf (formatNames ps) = ps ∧ (splitNameList (formatNames ps)).all personOk = true := by
  have hg : ∀ p ∈ ps, PersonGood p ∧ andFree (formatName p) = true := by
    intro p hp
    have := h p hp
    simp only [personOkW, Bool.and_eq_true] at this
    exact ⟨personGood_of_wf this.1, this.2⟩
  have hsplit : splitNameList (formatNames ps) = ps.map formatName := by
    unfold formatNames
    apply splitNameList_join
    · simpa using hne
    · intro x hx
      obtain ⟨p, hp, rfl⟩ := List.mem_map.1 hx
      exact ⟨⟨(hg p hp).2, format_balanced (hg p hp).1⟩, strip_format (hg p hp).1⟩
    · cases ps with
      | nil => exact absurd rfl hne
      | cons p ps => exact joinWith_ne_nil (format_ne_nil (hg p (by simp)).1)
  constructor
  · unfold personsOf
    rw [hsplit]
    clear hsplit hne h
    induction ps with
    | nil => rfl
    | cons p ps ih =>
      simp only [List.map_cons, List.filterMap_cons, personOf_format (hg p (by simp)).1]
      rw [ih (fun q hq => hg q (by simp [hq]))]
  · rw [hsplit]
    simp only [List.all_map, List.all_eq_true, Function.comp]
    intro p hp
    exact personOk_format (hg p hp).1

/-! ### well-formedness of the written fields (`fieldsOk` of C01) and their denotation -/

theorem expand_lit (m : Macros) (v : Str) : expand m [Piece.lit v] = v := by
  simp [expand, expandPieces, expandPiece]

structure RawGood (f : Str × Str) : Prop where
  name : isName f.1 = true
  lit : litScan false 0 f.2 = some 0
  norm : normalizeWs f.2 = f.2
  pers : isPersonField f.1 = true → (splitNameList f.2).all personOk = true

def distinctFrom : List Str → List (Str × Str) → Prop
  | _, [] => True
  | seen, f :: fs => seen.contains (lower f.1) = false ∧ distinctFrom (lower f.1 :: seen) fs

theorem wsOk_indent : wsOk wsIndent = true := by decide

theorem fieldsOk_raw (m : Macros) : ∀ (raw : List (Str × Str)) (seen : List Str),
    (∀ f ∈ raw, RawGood f) → distinctFrom seen raw →
    fieldsOk m seen (docOfRaw raw) (layoutsOf raw) = true := by
  intro raw
  induction raw with
  | nil => intro _ _ _; rfl
  | cons f raw ih =>
    intro seen hg hd
    have hf := hg f (by simp)
    obtain ⟨hd1, hd2⟩ := hd
    have hrest := fun s' => ih s' (fun g hg' => hg g (by simp [hg']))
    have hpers : (!isPersonField f.1 || (splitNameList (normalizeWs (expand m [Piece.lit f.2]))).all personOk) = true := by
      rw [expand_lit, hf.norm]
      cases hp : isPersonField f.1 with
      | false => rfl
      | true => simpa using hf.pers hp
    cases raw with
    | nil =>
      show fieldsOk m seen [(f.1, [Piece.lit f.2])] [fieldLayoutOf f.2 true] = true
      simp only [fieldsOk, List.headD_cons, fieldLayoutOf, hf.name, hd1, valueOk, moreOk,
        pieceOk_spell m hf.lit, wsOk_indent, hpers, Bool.not_false, Bool.and_true, if_true]
      decide
    | cons g r =>
      show fieldsOk m seen ((f.1, [Piece.lit f.2]) :: docOfRaw (g :: r)) (fieldLayoutOf f.2 false :: layoutsOf (g :: r)) = true
      rw [fieldsOk]
      simp only [List.headD_cons, List.tail_cons, fieldLayoutOf, hf.name, hd1, valueOk, moreOk,
        pieceOk_spell m hf.lit, wsOk_indent, hpers, Bool.not_false, Bool.and_true, Bool.false_eq_true, if_false,
        hrest _ hd2]
      decide


/-! ### the denotation of the written fields is the entry -/

theorem denote_roles (m : Macros) : ∀ (rs : List (Str × List Person)) (e0 : Entry),
    (∀ r ∈ rs, isPersonField r.1 = true ∧ normalizeWs (formatNames r.2) = formatNames r.2 ∧
      personsOf (formatNames r.2) = r.2 ∧ r.2 ≠ []) →
    (docOfRaw (rolesRaw rs)).foldl (denoteField m) e0 = { e0 with persons := e0.persons ++ rs } := by
  intro rs
  induction rs with
  | nil => intro e0 _; simp [docOfRaw, rolesRaw]
  | cons r rs ih =>
    intro e0 h
    obtain ⟨h1, h2, h3, h4⟩ := h r (by simp)
    simp only [docOfRaw, rolesRaw, List.map_cons, List.foldl_cons]
    have hstep : denoteField m e0 (r.1, [Piece.lit (formatNames r.2)]) =
        { e0 with persons := e0.persons ++ [r] } := by
      unfold denoteField
      simp only [expand_lit, h2, h1, if_true, h3, h4, if_false]
    rw [hstep]
    have := ih { e0 with persons := e0.persons ++ [r] } (fun x hx => h x (by simp [hx]))
    simp only [docOfRaw, rolesRaw] at this
    rw [this]
    simp

theorem denote_fields (m : Macros) : ∀ (fs : List (Str × Str)) (e0 : Entry),
    (∀ f ∈ fs, isPersonField f.1 = false ∧ normalizeWs f.2 = f.2) →
    (docOfRaw fs).foldl (denoteField m) e0 = { e0 with fields := e0.fields ++ fs } := by
  intro fs
  induction fs with
  | nil => intro e0 _; simp [docOfRaw]
  | cons f fs ih =>
    intro e0 h
    obtain ⟨h1, h2⟩ := h f (by simp)
    simp only [docOfRaw, List.map_cons, List.foldl_cons]
    have hstep : denoteField m e0 (f.1, [Piece.lit f.2]) = { e0 with fields := e0.fields ++ [f] } := by
      unfold denoteField
      simp only [expand_lit, h2, h1, Bool.false_eq_true, if_false]
    rw [hstep]
    have := ih { e0 with fields := e0.fields ++ [f] } (fun x hx => h x (by simp [hx]))
    simp only [docOfRaw] at this
    rw [this]
    simp

/-! ### `entryOkW` unpacked -/

theorem valueOkW_iff {v : Str} : valueOkW v = true ↔
    litScan false 0 v = some 0 ∧ normalizeWs v = v ∧ Safe v = true := by
  simp [valueOkW, and_assoc]

structure RoleGood (r : Str × List Person) : Prop where
  name : isName r.1 = true
  role : isPersonField r.1 = true
  ne : r.2 ≠ []
  persons : ∀ p ∈ r.2, personOkW p = true
  value : valueOkW (formatNames r.2) = true

structure FieldGood (f : Str × Str) : Prop where
  name : isName f.1 = true
  plain : isPersonField f.1 = false
  value : valueOkW f.2 = true

theorem rolesOkW_unpack : ∀ (rs : List (Str × List Person)) (seen : List Str), rolesOkW seen rs = true →
    (∀ r ∈ rs, RoleGood r) ∧ distinctFrom seen (rolesRaw rs) := by
  intro rs
  induction rs with
  | nil => intro _ _; exact ⟨by simp, trivial⟩
  | cons r rs ih =>
    intro seen h
    simp only [rolesOkW, Bool.and_eq_true, Bool.not_eq_true', List.all_eq_true, decide_eq_true_eq] at h
    obtain ⟨⟨⟨⟨⟨⟨h1, h2⟩, h3⟩, h4⟩, h5⟩, h6⟩, h7⟩ := h
    obtain ⟨i1, i2⟩ := ih _ h7
    refine ⟨?_, ?_⟩
    · intro x hx
      rcases List.mem_cons.1 hx with rfl | hx
      · exact ⟨h1, h2, h4, h5, h6⟩
      · exact i1 x hx
    · exact ⟨h3, i2⟩

theorem fieldsOkW_unpack : ∀ (fs : List (Str × Str)) (seen : List Str), fieldsOkW seen fs = true →
    (∀ f ∈ fs, FieldGood f) ∧ distinctFrom seen fs := by
  intro fs
  induction fs with
  | nil => intro _ _; exact ⟨by simp, trivial⟩
  | cons f fs ih =>
    intro seen h
    simp only [fieldsOkW, Bool.and_eq_true, Bool.not_eq_true'] at h
    obtain ⟨⟨⟨⟨h1, h2⟩, h3⟩, h4⟩, h5⟩ := h
    obtain ⟨i1, i2⟩ := ih _ h5
    refine ⟨?_, h3, i2⟩
    intro x hx
    rcases List.mem_cons.1 hx with rfl | hx
    · exact ⟨h1, h2, h4⟩
    · exact i1 x hx

theorem isPersonField_lower {a b : Str} (h : lower a = lower b) : isPersonField a = isPersonField b := by
  unfold isPersonField isPersonFieldOf; rw [h]

/-- more names in `seen` do no harm when they are all (lower-cased) role names and the list holds
no role name -/
theorem distinctFrom_extra : ∀ (fs : List (Str × Str)) (seen extra : List Str),
    distinctFrom seen fs → (∀ f ∈ fs, isPersonField f.1 = false) →
    (∀ x ∈ extra, ∃ n, lower n = x ∧ isPersonField n = true) →
    distinctFrom (seen ++ extra) fs := by
  intro fs
  induction fs with
  | nil => intro _ _ _ _ _; trivial
  | cons f fs ih =>
    intro seen extra hd hp he
    obtain ⟨h1, h2⟩ := hd
    refine ⟨?_, ?_⟩
    · simp only [List.contains_eq_mem, List.mem_append, decide_eq_false_iff_not, not_or]
      refine ⟨by simpa using h1, ?_⟩
      intro hx
      obtain ⟨n, hn, hpn⟩ := he _ hx
      have := isPersonField_lower hn
      rw [hpn, hp f (by simp)] at this
      cases this
    · have := ih (lower f.1 :: seen) extra h2 (fun g hg => hp g (by simp [hg])) he
      simpa using this

theorem distinctFrom_append : ∀ (a b : List (Str × Str)) (seen : List Str),
    distinctFrom seen a → distinctFrom ((a.map fun f => lower f.1).reverse ++ seen) b →
    distinctFrom seen (a ++ b) := by
  intro a
  induction a with
  | nil => intro b seen _ h; simpa using h
  | cons f a ih =>
    intro b seen ha hb
    obtain ⟨h1, h2⟩ := ha
    refine ⟨h1, ih b _ h2 ?_⟩
    simpa [List.append_assoc] using hb

structure EntryGood (keys : List Str) (e : Entry) : Prop where
  ty : isName e.origType = true
  notReserved : reserved.contains (lower e.origType) = false
  lowType : e.type = lower e.origType
  key : keyOk false e.key = true
  fresh : keys.contains (lower e.key) = false
  roles : ∀ r ∈ e.persons, RoleGood r
  fields : ∀ f ∈ e.fields, FieldGood f
  distinct : distinctFrom [] (rawFields e)

theorem entryGood_of_ok {keys : List Str} {e : Entry} (h : entryOkW keys e = true) : EntryGood keys e := by
  simp only [entryOkW, Bool.and_eq_true, Bool.not_eq_true', beq_iff_eq] at h
  obtain ⟨⟨⟨⟨⟨⟨h1, h2⟩, h3⟩, h4⟩, h5⟩, h6⟩, h7⟩ := h
  obtain ⟨r1, r2⟩ := rolesOkW_unpack _ _ h6
  obtain ⟨f1, f2⟩ := fieldsOkW_unpack _ _ h7
  refine ⟨h1, h2, h3, h4, h5, r1, f1, ?_⟩
  unfold rawFields
  apply distinctFrom_append _ _ _ r2
  have := distinctFrom_extra e.fields [] ((rolesRaw e.persons).map fun f => lower f.1).reverse f2
    (fun f hf => (f1 f hf).plain) ?_
  · simpa using this
  · intro x hx
    simp only [List.mem_reverse, List.mem_map, rolesRaw] at hx
    obtain ⟨_, ⟨r, hr, rfl⟩, rfl⟩ := hx
    exact ⟨r.1, rfl, (r1 r hr).role⟩


/-! ### an entry without fields: `@type{key` newline `}` (no comma: not a rendering of `Spec/Bib.lean`) -/

theorem parseCommand_nofields (ty key : Str) (s : St) (r : Str)
    (h : s.rest = ty ++ ('{' :: (key ++ ('\n' :: '}' :: r))))
    (hty : isName ty = true) (hres : reserved.contains (lower ty) = false)
    (hkey : keyOk false key = true) (hwant : s.db.wanted = none) :
    ∃ ln' fn cv, parseCommand s =
      .ok (Cmd.entry ty (some key) [])
        { s with rest := r, ln := ln', curKey := some key, curFields := [], curFieldName := fn, curValue := cv } := by
  simp only [reserved, List.contains_cons, List.contains_nil, Bool.or_false,
    Bool.or_eq_false_iff, beq_eq_false_iff_ne, ne_eq] at hres
  obtain ⟨ln2, h1, h2⟩ := command_head s [] ty [] false (key ++ ('\n' :: '}' :: r)) (by simpa [opener] using h)
    AllWs.nil hty AllWs.nil
  -- the key
  have hkne : key ≠ [] := by
    simp only [keyOk, Bool.and_eq_true, decide_eq_true_eq] at hkey; exact hkey.1
  obtain ⟨k0, kt, rfl⟩ : ∃ k0 kt, key = k0 :: kt := by
    cases key with
    | nil => exact absurd rfl hkne
    | cons a b => exact ⟨a, b, rfl⟩
  have hk0 : isWs k0 = false := by
    simp only [keyOk, Bool.and_eq_true, List.all_cons] at hkey
    simpa using hkey.2.1.1.1
  have hstop : Stops (keyChar false) ('\n' :: '}' :: r) := stops_cons.2 (keyChar_ws (by decide))
  let s2 : St := { St.fresh s with rest := k0 :: kt ++ ('\n' :: '}' :: r), ln := ln2 }
  have h3 := required_some [keyPat false] "entry key" s2 (w := []) (r := k0 :: kt ++ ('\n' :: '}' :: r)) rfl
    AllWs.nil (stops_cons.2 hk0) (by simp)
    (p := keyPat false) (v := k0 :: kt) (r' := '\n' :: '}' :: r)
    (by simp only [firstMatch]; rw [matchAt_key hkey hstop])
  obtain ⟨ln3, h4⟩ := parseEntryFields_end (('\n' :: '}' :: r).length + 1)
    { s2 with rest := '\n' :: '}' :: r, ln := s2.ln + countNl [], curKey := some (k0 :: kt) } ['\n'] '}' r rfl
    (by intro c hc; simp at hc; subst hc; decide) (ClChar.closer false)
  have hbody : parseEntryBody false s2 = .ok ()
      { s2 with rest := '}' :: r, ln := ln3, curKey := some (k0 :: kt), curFieldName := none, curValue := [] } := by
    unfold parseEntryBody
    rw [show (if false = true then Pat.keyParen else Pat.keyBrace) = keyPat false from rfl, h3]
    simp only [h4, wantCurrent, wantEntry]
    have : s2.db.wanted = none := hwant
    simp [this]
  have h5 := required_lit
    { s2 with rest := '}' :: r, ln := ln3, curKey := some (k0 :: kt), curFieldName := none, curValue := [] }
    '}' (descOf [.lit '}']) (w := []) rfl AllWs.nil (by decide)
  refine ⟨ln3 + countNl [], none, [], ?_⟩
  have hop : opener false = '{' := rfl
  have hcl : closer false = '}' := rfl
  rw [parseCommand_entry_of s _ _ _ _ ty _ false _ h1 (by rw [hop] at h2 ⊢; exact h2) hres.2.2 hres.1 hres.2.1
    (by exact hbody) (by rw [hcl]; exact h5)]
  simp [St.fresh, s2]


end Pybtex.C02
