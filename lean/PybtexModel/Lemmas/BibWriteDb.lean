/-
C02 helper lemmas, part 4: the BibTeX writer's text is a rendering (`Spec/Bib.lean`) of the
document `docOf d` under the writer's layout, and the `.bib` reader reads it back as `d`
(over the printer/parser lemmas of C01, `Lemmas/BibRoundTrip.lean`).
-/
import PybtexModel.Lemmas.BibWritePieces
import PybtexModel.Lemmas.BibRoundTrip

namespace Pybtex.C02
open Pybtex Pybtex.Spec Pybtex.Bib Pybtex.BibWrite Pybtex.BibSpec Pybtex.Names Pybtex.BibRT

/-! ### values: `check_braces`, `quote` -/

theorem checkBraces_ok {s : Str} (h : litScan false 0 s = some 0) : checkBraces s = .ok () := by
  have hbal := litScan_depthAfter s 0 0 h
  have hsome := litScan_scan h
  unfold checkBraces
  cases hsc : scan s with
  | none => rw [hsc] at hsome; cases hsome
  | some toks =>
    simp only []
    cases hl : toks.getLast? with
    | none => rfl
    | some t =>
      simp only []
      have hclosed : endsInSpecial false 0 s = false := by
        have := specialsClosed_of_balanced s (by simp [balanced, hbal])
        simpa [specialsClosed] using this
      have hchain : LevelChain 0 toks := scanM_levels (.norm 0) s toks hsc 0 hbal hclosed
      have htext : tokText toks = s := by
        have := scanM_text (.norm 0) s toks hsc
        simpa [ScanMode.acc, ScanMode.sp, ScanMode.depth, hclosed, closeIf] using this
      obtain ⟨pre, hpre⟩ : ∃ pre, toks = pre ++ [t] := by
        have hne : toks ≠ [] := by intro h0; rw [h0] at hl; simp at hl
        refine ⟨toks.dropLast, ?_⟩
        have h2 := List.getLast?_eq_some_getLast hne
        rw [hl] at h2
        have h3 : toks.getLast hne = t := (Option.some.inj h2).symm
        rw [← h3]
        exact (List.dropLast_concat_getLast hne).symm
      have := hchain.prefix pre t [] (by rw [hpre])
      rw [← hpre, htext, hbal] at this
      have ht : t.2 = 0 := (Option.some.inj this).symm
      simp [ht]

theorem litScan_quoted : ∀ (s : Str) (d e : Nat), (∀ c ∈ s, c ≠ '"') → litScan false d s = some e →
    litScan true d s = some e := by
  intro s
  induction s with
  | nil => intro d e _ h; simpa [litScan] using h
  | cons c r ih =>
    intro d e hq h
    have hc : c ≠ '"' := hq c (by simp)
    have hr : ∀ x ∈ r, x ≠ '"' := fun x hx => hq x (by simp [hx])
    simp only [litScan] at h ⊢
    by_cases h1 : c = '{'
    · simp only [h1, if_true] at h ⊢
      split at h
      · cases h
      · rename_i hlt; rw [if_neg hlt]; exact ih _ _ hr h
    · by_cases h2 : c = '}'
      · simp only [h2, show ¬ ('}' = '{') by decide, if_false, if_true] at h ⊢
        split at h
        · cases h
        · rename_i hd; rw [if_neg hd]; exact ih _ _ hr h
      · simp only [if_neg h1, if_neg h2, Bool.false_eq_true, false_and, and_false, if_false] at h
        simp only [if_neg h1, if_neg h2, hc, false_and, if_false]
        exact ih _ _ hr h

/-- how the writer spells a value -/
def spellOf (v : Str) : Spelling := if v.contains '"' then .braced else .quoted

theorem quote_ok {v : Str} (h : litScan false 0 v = some 0) :
    quote v = .ok (renderPiece (.lit v) { spelling := spellOf v }) := by
  unfold quote
  rw [checkBraces_ok h]
  simp only [spellOf, renderPiece]
  split <;> simp

theorem pieceOk_spell (m : Macros) {v : Str} (h : litScan false 0 v = some 0) :
    pieceOk m (.lit v) { spelling := spellOf v } = true := by
  unfold pieceOk spellOf
  by_cases hq : v.contains '"' = true
  · simp only [hq, if_true]; simp [h]
  · simp only [hq, Bool.false_eq_true, if_false]
    have : ∀ c ∈ v, c ≠ '"' := by
      intro c hc hcq
      subst hcq
      exact hq (by simpa using hc)
    simp [litScan_quoted v 0 0 this h]


/-! ### the writer's text of the fields of an entry -/

/-- the fields in the order the writer writes them: the roles (value = the name list), then the fields -/
def rolesRaw (rs : List (Str × List Person)) : List (Str × Str) := rs.map fun r => (r.1, formatNames r.2)
def rawFields (e : Entry) : List (Str × Str) := rolesRaw e.persons ++ e.fields

def docOfRaw (raw : List (Str × Str)) : List (Str × Value) := raw.map fun f => (f.1, [Piece.lit f.2])

/-- the white space in front of a field name -/
def wsIndent : Str := ['\n', ' ', ' ', ' ', ' ']

def fieldLayoutOf (v : Str) (last : Bool) : FieldLayout :=
  { beforeName := wsIndent, beforeEq := [' '], afterEq := [' '], pieces := [{ spelling := spellOf v }],
    afterValue := if last then ['\n'] else [] }

def layoutsOf : List (Str × Str) → List FieldLayout
  | [] => []
  | [f] => [fieldLayoutOf f.2 true]
  | f :: g :: r => fieldLayoutOf f.2 false :: layoutsOf (g :: r)

/-- `',\n    name = "value"'` -/
def fieldText (f : Str × Str) : Str :=
  ',' :: (wsIndent ++ (f.1 ++ ' ' :: '=' :: ' ' :: renderPiece (.lit f.2) { spelling := spellOf f.2 }))

def fieldsText (raw : List (Str × Str)) : Str := (raw.map fieldText).flatten

theorem fieldsText_append (a b : List (Str × Str)) : fieldsText (a ++ b) = fieldsText a ++ fieldsText b := by
  simp [fieldsText]

/-- a value the writer writes unchanged: balanced and left alone by the encoder -/
def ValW (encode : Str → Str) (v : Str) : Prop := litScan false 0 v = some 0 ∧ encode v = v

theorem writeField_ok {encode : Str → Str} {n v : Str} (h : ValW encode v) :
    writeField encode n v = .ok (fieldText (n, v)) := by
  unfold writeField
  rw [h.2, quote_ok h.1]
  have h1 : ",\n    ".toList = ',' :: wsIndent := by decide
  have h2 : " = ".toList = [' ', '=', ' '] := by decide
  rw [h1, h2]
  simp only [fieldText, List.cons_append, List.append_assoc, List.nil_append]

theorem writeFields_ok {encode : Str → Str} : ∀ (fs : List (Str × Str)), (∀ f ∈ fs, ValW encode f.2) →
    writeFields encode fs = .ok (fieldsText fs) := by
  intro fs
  induction fs with
  | nil => intro _; rfl
  | cons f fs ih =>
    intro h
    obtain ⟨n, v⟩ := f
    simp only [writeFields, writeField_ok (h (n, v) (by simp)), ih (fun g hg => h g (by simp [hg]))]
    simp [fieldsText]

theorem writeRoles_ok {encode : Str → Str} : ∀ (rs : List (Str × List Person)),
    (∀ r ∈ rs, r.2 ≠ [] ∧ ValW encode (formatNames r.2)) →
    writeRoles encode rs = .ok (fieldsText (rolesRaw rs)) := by
  intro rs
  induction rs with
  | nil => intro _; rfl
  | cons r rs ih =>
    intro h
    obtain ⟨role, ps⟩ := r
    have hr := h (role, ps) (by simp)
    simp only [writeRoles, writePersons, hr.1, if_false, writeField_ok hr.2,
      ih (fun g hg => h g (by simp [hg]))]
    simp [fieldsText, rolesRaw]

theorem renderField_raw (f : Str × Str) (last : Bool) :
    ',' :: renderField (f.1, [Piece.lit f.2]) (fieldLayoutOf f.2 last) =
      fieldText f ++ (if last then ['\n'] else []) := by
  simp only [renderField, fieldLayoutOf, BibRT.applyMask_nil, renderValue, renderMore, List.headD_cons,
    List.append_nil, fieldText, List.cons_append, List.append_assoc, List.nil_append]

theorem renderFields_cons (x : Str × Value) (xs : List (Str × Value)) (l : FieldLayout) (ls : List FieldLayout) :
    renderFields (x :: xs) (l :: ls) = ',' :: renderField x l ++ renderFields xs ls := rfl

theorem renderFields_raw : ∀ (raw : List (Str × Str)), raw ≠ [] →
    renderFields (docOfRaw raw) (layoutsOf raw) = fieldsText raw ++ ['\n'] := by
  intro raw
  induction raw with
  | nil => intro h; exact absurd rfl h
  | cons f raw ih =>
    intro _
    cases raw with
    | nil =>
      show renderFields [(f.1, [Piece.lit f.2])] [fieldLayoutOf f.2 true] = _
      rw [renderFields_cons, renderField_raw f true]
      simp [renderFields, fieldsText]
    | cons g r =>
      have := ih (by simp)
      show renderFields ((f.1, [Piece.lit f.2]) :: docOfRaw (g :: r)) (fieldLayoutOf f.2 false :: layoutsOf (g :: r)) = _
      rw [renderFields_cons, renderField_raw f false, this]
      simp [fieldsText]


/-! ### the name list of a role is read back -/

theorem chunks_good {p : Person} (hg : PersonGood p) : ∀ x ∈ chunksOf p, Chunk x := by
  intro x hx
  simp only [chunksOf, List.mem_append, List.mem_singleton] at hx
  rcases hx with (rfl | hx) | hx
  · exact chunk_join hg.vl
  · split at hx
    · simp only [List.mem_singleton] at hx; subst hx; exact chunk_space_join hg.mem.2.2.2.2
    · simp at hx
  · split at hx
    · simp only [List.mem_singleton] at hx; subst hx; exact chunk_space_join hg.fm
    · split at hx
      · simp only [List.mem_singleton] at hx; subst hx; exact ⟨rfl, rfl⟩
      · simp at hx

theorem format_balanced {p : Person} (hg : PersonGood p) : depthAfter 0 (formatName p) = some 0 := by
  rw [formatName_chunks hg]
  exact depthAfter_join (by simp) _ (fun x hx => (chunks_good hg x hx).2)

theorem personOf_format {p : Person} (hg : PersonGood p) : personOf (formatName p) = some p := by
  unfold personOf; rw [mkPerson_format hg]

theorem personOk_format {p : Person} (hg : PersonGood p) : personOk (formatName p) = true := by
  unfold personOk; rw [mkPerson_format hg]; rfl

theorem names_read_back (ps : List Person) (hne : ps ≠ []) (h : ∀ p ∈ ps, personOkW p = true) :
    personsOf (formatNames ps) = ps ∧ (splitNameList (formatNames ps)).all personOk = true := by
  have hg : ∀ p ∈ ps, PersonGood p ∧ andFree (formatName p) = true := by
    intro p hp
    have := h p hp
    simp only [personOkW, Bool.and_eq_true] at this
    exact ⟨personGood_of_wf this.1, this.2⟩
  have hsplit : splitNameList (formatNames ps) = ps.map formatName := by
    unfold formatNames
    apply splitNameList_join
    · simpa using hne
    · intro x hx
      obtain ⟨p, hp, rfl⟩ := List.mem_map.1 hx
      exact ⟨⟨(hg p hp).2, format_balanced (hg p hp).1⟩, strip_format (hg p hp).1⟩
    · cases ps with
      | nil => exact absurd rfl hne
      | cons p ps => exact joinWith_ne_nil (format_ne_nil (hg p (by simp)).1)
  constructor
  · unfold personsOf
    rw [hsplit]
    clear hsplit hne h
    induction ps with
    | nil => rfl
    | cons p ps ih =>
      simp only [List.map_cons, List.filterMap_cons, personOf_format (hg p (by simp)).1]
      rw [ih (fun q hq => hg q (by simp [hq]))]
  · rw [hsplit]
    simp only [List.all_map, List.all_eq_true, Function.comp]
    intro p hp
    exact personOk_format (hg p hp).1

/-! ### well-formedness of the written fields (`fieldsOk` of C01) and their denotation -/

theorem expand_lit (m : Macros) (v : Str) : expand m [Piece.lit v] = v := by
  simp [expand, expandPieces, expandPiece]

structure RawGood (f : Str × Str) : Prop where
  name : isName f.1 = true
  lit : litScan false 0 f.2 = some 0
  norm : normalizeWs f.2 = f.2
  pers : isPersonField f.1 = true → (splitNameList f.2).all personOk = true

def distinctFrom : List Str → List (Str × Str) → Prop
  | _, [] => True
  | seen, f :: fs => seen.contains (lower f.1) = false ∧ distinctFrom (lower f.1 :: seen) fs

theorem wsOk_indent : wsOk wsIndent = true := by decide

theorem fieldsOk_raw (m : Macros) : ∀ (raw : List (Str × Str)) (seen : List Str),
    (∀ f ∈ raw, RawGood f) → distinctFrom seen raw →
    fieldsOk m seen (docOfRaw raw) (layoutsOf raw) = true := by
  intro raw
  induction raw with
  | nil => intro _ _ _; rfl
  | cons f raw ih =>
    intro seen hg hd
    have hf := hg f (by simp)
    obtain ⟨hd1, hd2⟩ := hd
    have hrest := fun s' => ih s' (fun g hg' => hg g (by simp [hg']))
    have hpers : (!isPersonField f.1 || (splitNameList (normalizeWs (expand m [Piece.lit f.2]))).all personOk) = true := by
      rw [expand_lit, hf.norm]
      cases hp : isPersonField f.1 with
      | false => rfl
      | true => simpa using hf.pers hp
    cases raw with
    | nil =>
      show fieldsOk m seen [(f.1, [Piece.lit f.2])] [fieldLayoutOf f.2 true] = true
      simp only [fieldsOk, List.headD_cons, fieldLayoutOf, hf.name, hd1, valueOk, moreOk,
        pieceOk_spell m hf.lit, wsOk_indent, hpers, Bool.not_false, Bool.and_true, if_true]
      decide
    | cons g r =>
      show fieldsOk m seen ((f.1, [Piece.lit f.2]) :: docOfRaw (g :: r)) (fieldLayoutOf f.2 false :: layoutsOf (g :: r)) = true
      rw [fieldsOk]
      simp only [List.headD_cons, List.tail_cons, fieldLayoutOf, hf.name, hd1, valueOk, moreOk,
        pieceOk_spell m hf.lit, wsOk_indent, hpers, Bool.not_false, Bool.and_true, Bool.false_eq_true, if_false,
        hrest _ hd2]
      decide


end Pybtex.C02
