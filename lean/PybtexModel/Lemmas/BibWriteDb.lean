/-
C02 helper lemmas, part 4: the BibTeX writer's text is a rendering (`Spec/Bib.lean`) of the
document `docOf d` under the writer's layout, and the `.bib` reader reads it back as `d`
(over the printer/parser lemmas of C01, `Lemmas/BibRoundTrip.lean`).
-/
import PybtexModel.Lemmas.BibWritePieces
import PybtexModel.Lemmas.BibRoundTrip
import PybtexModel.Lemmas.BibWriteCase

namespace Pybtex.C02
open Pybtex Pybtex.Spec Pybtex.Bib Pybtex.BibWrite Pybtex.BibSpec Pybtex.Names Pybtex.BibRT

/-! ### values: `check_braces`, `quote` -/

theorem checkBraces_ok {s : Str} (h : litScan false 0 s = some 0) : checkBraces s = .ok () := by
  have hbal := litScan_depthAfter s 0 0 h
  have hsome := litScan_scan h
  unfold checkBraces
  cases hsc : scan s with
  | none => rw [hsc] at hsome; cases hsome
  | some toks =>
    simp only []
    cases hl : toks.getLast? with
    | none => rfl
    | some t =>
      simp only []
      have hclosed : endsInSpecial false 0 s = false := by
        have := specialsClosed_of_balanced s (by simp [balanced, hbal])
        simpa [specialsClosed] using this
      have hchain : LevelChain 0 toks := scanM_levels (.norm 0) s toks hsc 0 hbal hclosed
      have htext : tokText toks = s := by
        have := scanM_text (.norm 0) s toks hsc
        simpa [ScanMode.acc, ScanMode.sp, ScanMode.depth, hclosed, closeIf] using this
      obtain ⟨pre, hpre⟩ : ∃ pre, toks = pre ++ [t] := by
        have hne : toks ≠ [] := by intro h0; rw [h0] at hl; simp at hl
        refine ⟨toks.dropLast, ?_⟩
        have h2 := List.getLast?_eq_some_getLast hne
        rw [hl] at h2
        have h3 : toks.getLast hne = t := (Option.some.inj h2).symm
        rw [← h3]
        exact (List.dropLast_concat_getLast hne).symm
      have := hchain.prefix pre t [] (by rw [hpre])
      rw [← hpre, htext, hbal] at this
      have ht : t.2 = 0 := (Option.some.inj this).symm
      simp [ht]

theorem litScan_quoted : ∀ (s : Str) (d e : Nat), (∀ c ∈ s, c ≠ '"') → litScan false d s = some e →
    litScan true d s = some e := by
  intro s
  induction s with
  | nil => intro d e _ h; simpa [litScan] using h
  | cons c r ih =>
    intro d e hq h
    have hc : c ≠ '"' := hq c (by simp)
    have hr : ∀ x ∈ r, x ≠ '"' := fun x hx => hq x (by simp [hx])
    simp only [litScan] at h ⊢
    by_cases h1 : c = '{'
    · simp only [h1, if_true] at h ⊢
      split at h
      · cases h
      · rename_i hlt; rw [if_neg hlt]; exact ih _ _ hr h
    · by_cases h2 : c = '}'
      · simp only [h2, show ¬ ('}' = '{') by decide, if_false, if_true] at h ⊢
        split at h
        · cases h
        · rename_i hd; rw [if_neg hd]; exact ih _ _ hr h
      · simp only [if_neg h1, if_neg h2, Bool.false_eq_true, false_and, and_false, if_false] at h
        simp only [if_neg h1, if_neg h2, hc, false_and, if_false]
        exact ih _ _ hr h

/-- how the writer spells a value -/
def spellOf (v : Str) : Spelling := if v.contains '"' then .braced else .quoted

theorem quote_ok {v : Str} (h : litScan false 0 v = some 0) :
    quote v = .ok (renderPiece (.lit v) { spelling := spellOf v }) := by
  unfold quote
  rw [checkBraces_ok h]
  simp only [spellOf, renderPiece]
  split <;> simp

theorem pieceOk_spell (m : Macros) {v : Str} (h : litScan false 0 v = some 0) :
    pieceOk m (.lit v) { spelling := spellOf v } = true := by
  unfold pieceOk spellOf
  by_cases hq : v.contains '"' = true
  · simp only [hq, if_true]; simp [h]
  · simp only [hq, Bool.false_eq_true, if_false]
    have : ∀ c ∈ v, c ≠ '"' := by
      intro c hc hcq
      subst hcq
      exact hq (by simpa using hc)
    simp [litScan_quoted v 0 0 this h]


/-! ### the writer's text of the fields of an entry -/

/-- the fields in the order the writer writes them: the roles (value = the name list), then the fields -/
def rolesRaw (rs : List (Str × List Person)) : List (Str × Str) := rs.map fun r => (r.1, formatNames r.2)
def rawFields (e : Entry) : List (Str × Str) := rolesRaw e.persons ++ e.fields

def docOfRaw (raw : List (Str × Str)) : List (Str × Value) := raw.map fun f => (f.1, [Piece.lit f.2])

/-- the white space in front of a field name -/
def wsIndent : Str := ['\n', ' ', ' ', ' ', ' ']

def fieldLayoutOf (v : Str) (last : Bool) : FieldLayout :=
  { beforeName := wsIndent, beforeEq := [' '], afterEq := [' '], pieces := [{ spelling := spellOf v }],
    afterValue := if last then ['\n'] else [] }

def layoutsOf : List (Str × Str) → List FieldLayout
  | [] => []
  | [f] => [fieldLayoutOf f.2 true]
  | f :: g :: r => fieldLayoutOf f.2 false :: layoutsOf (g :: r)

/-- `',\n    name = "value"'` -/
def fieldText (f : Str × Str) : Str :=
  ',' :: (wsIndent ++ (f.1 ++ ' ' :: '=' :: ' ' :: renderPiece (.lit f.2) { spelling := spellOf f.2 }))

def fieldsText (raw : List (Str × Str)) : Str := (raw.map fieldText).flatten

theorem fieldsText_append (a b : List (Str × Str)) : fieldsText (a ++ b) = fieldsText a ++ fieldsText b := by
  simp [fieldsText]

/-- a value the writer writes unchanged: balanced and left alone by the encoder -/
def ValW (encode : Str → Str) (v : Str) : Prop := litScan false 0 v = some 0 ∧ encode v = v

theorem writeField_ok {encode : Str → Str} {n v : Str} (h : ValW encode v) :
    writeField encode n v = .ok (fieldText (n, v)) := by
  unfold writeField
  rw [h.2, quote_ok h.1]
  have h1 : ",\n    ".toList = ',' :: wsIndent := by decide
  have h2 : " = ".toList = [' ', '=', ' '] := by decide
  rw [h1, h2]
  simp only [fieldText, List.cons_append, List.append_assoc, List.nil_append]

theorem writeFields_ok {encode : Str → Str} : ∀ (fs : List (Str × Str)), (∀ f ∈ fs, ValW encode f.2) →
    writeFields encode fs = .ok (fieldsText fs) := by
  intro fs
  induction fs with
  | nil => intro _; rfl
  | cons f fs ih =>
    intro h
    obtain ⟨n, v⟩ := f
    simp only [writeFields, writeField_ok (h (n, v) (by simp)), ih (fun g hg => h g (by simp [hg]))]
    simp [fieldsText]

theorem writeRoles_ok {encode : Str → Str} : ∀ (rs : List (Str × List Person)),
    (∀ r ∈ rs, r.2 ≠ [] ∧ ValW encode (formatNames r.2)) →
    writeRoles encode rs = .ok (fieldsText (rolesRaw rs)) := by
  intro rs
  induction rs with
  | nil => intro _; rfl
  | cons r rs ih =>
    intro h
    obtain ⟨role, ps⟩ := r
    have hr := h (role, ps) (by simp)
    simp only [writeRoles, writePersons, hr.1, if_false, writeField_ok hr.2,
      ih (fun g hg => h g (by simp [hg]))]
    simp [fieldsText, rolesRaw]

theorem renderField_raw (f : Str × Str) (last : Bool) :
    ',' :: renderField (f.1, [Piece.lit f.2]) (fieldLayoutOf f.2 last) =
      fieldText f ++ (if last then ['\n'] else []) := by
  simp only [renderField, fieldLayoutOf, BibRT.applyMask_nil, renderValue, renderMore, List.headD_cons,
    List.append_nil, fieldText, List.cons_append, List.append_assoc, List.nil_append]

theorem renderFields_cons (x : Str × Value) (xs : List (Str × Value)) (l : FieldLayout) (ls : List FieldLayout) :
    renderFields (x :: xs) (l :: ls) = ',' :: renderField x l ++ renderFields xs ls := rfl

theorem renderFields_raw : ∀ (raw : List (Str × Str)), raw ≠ [] →
    renderFields (docOfRaw raw) (layoutsOf raw) = fieldsText raw ++ ['\n'] := by
  intro raw
  induction raw with
  | nil => intro h; exact absurd rfl h
  | cons f raw ih =>
    intro _
    cases raw with
    | nil =>
      show renderFields [(f.1, [Piece.lit f.2])] [fieldLayoutOf f.2 true] = _
      rw [renderFields_cons, renderField_raw f true]
      simp [renderFields, fieldsText]
    | cons g r =>
      have := ih (by simp)
      show renderFields ((f.1, [Piece.lit f.2]) :: docOfRaw (g :: r)) (fieldLayoutOf f.2 false :: layoutsOf (g :: r)) = _
      rw [renderFields_cons, renderField_raw f false, this]
      simp [fieldsText]


/-! ### the name list of a role is read back -/

theorem chunks_good {p : Person} (hg : PersonGood p) : ∀ x ∈ chunksOf p, Chunk x := by
  intro x hx
  simp only [chunksOf, List.mem_append, List.mem_singleton] at hx
  rcases hx with (rfl | hx) | hx
  · exact chunk_join hg.vl
  · split at hx
    · simp only [List.mem_singleton] at hx; subst hx; exact chunk_space_join hg.mem.2.2.2.2
    · simp at hx
  · split at hx
    · simp only [List.mem_singleton] at hx; subst hx; exact chunk_space_join hg.fm
    · split at hx
      · simp only [List.mem_singleton] at hx; subst hx; exact ⟨rfl, rfl⟩
      · simp at hx

theorem format_balanced {p : Person} (hg : PersonGood p) : depthAfter 0 (formatName p) = some 0 := by
  rw [formatName_chunks hg]
  exact depthAfter_join (by simp) _ (fun x hx => (chunks_good hg x hx).2)

theorem personOf_format {p : Person} (hg : PersonGood p) : personOf (formatName p) = some p := by
  unfold personOf; rw [mkPerson_format hg]

theorem personOk_format {p : Person} (hg : PersonGood p) : personOk (formatName p) = true := by
  unfold personOk; rw [mkPerson_format hg]; rfl

theorem names_read_back (ps : List Person) (hne : ps ≠ []) (h : ∀ p ∈ ps, personOkW p = true) :
    personsOf (formatNames ps) = ps ∧ (splitNameList (formatNames ps)).all personOk = true := by
  have hg : ∀ p ∈ ps, PersonGood p ∧ andFree (formatName p) = true := by
    intro p hp
    have := h p hp
    simp only [personOkW, Bool.and_eq_true] at this
    exact ⟨personGood_of_wf this.1, this.2⟩
  have hsplit : splitNameList (formatNames ps) = ps.map formatName := by
    unfold formatNames
    apply splitNameList_join
    · simpa using hne
    · intro x hx
      obtain ⟨p, hp, rfl⟩ := List.mem_map.1 hx
      exact ⟨⟨(hg p hp).2, format_balanced (hg p hp).1⟩, strip_format (hg p hp).1⟩
    · cases ps with
      | nil => exact absurd rfl hne
      | cons p ps => exact joinWith_ne_nil (format_ne_nil (hg p (by simp)).1)
  constructor
  · unfold personsOf
    rw [hsplit]
    clear hsplit hne h
    induction ps with
    | nil => rfl
    | cons p ps ih =>
      simp only [List.map_cons, List.filterMap_cons, personOf_format (hg p (by simp)).1]
      rw [ih (fun q hq => hg q (by simp [hq]))]
  · rw [hsplit]
    simp only [List.all_map, List.all_eq_true, Function.comp]
    intro p hp
    exact personOk_format (hg p hp).1

/-! ### well-formedness of the written fields (`fieldsOk` of C01) and their denotation -/

theorem expand_lit (m : Macros) (v : Str) : expand m [Piece.lit v] = v := by
  simp [expand, expandPieces, expandPiece]

structure RawGood (f : Str × Str) : Prop where
  name : isName f.1 = true
  lit : litScan false 0 f.2 = some 0
  norm : normalizeWs f.2 = f.2
  pers : isPersonField f.1 = true → (splitNameList f.2).all personOk = true

def distinctFrom : List Str → List (Str × Str) → Prop
  | _, [] => True
  | seen, f :: fs => seen.contains (lower f.1) = false ∧ distinctFrom (lower f.1 :: seen) fs

theorem wsOk_indent : wsOk wsIndent = true := by decide

theorem fieldsOk_raw (m : Macros) : ∀ (raw : List (Str × Str)) (seen : List Str),
    (∀ f ∈ raw, RawGood f) → distinctFrom seen raw →
    fieldsOk m seen (docOfRaw raw) (layoutsOf raw) = true := by
  intro raw
  induction raw with
  | nil => intro _ _ _; rfl
  | cons f raw ih =>
    intro seen hg hd
    have hf := hg f (by simp)
    obtain ⟨hd1, hd2⟩ := hd
    have hrest := fun s' => ih s' (fun g hg' => hg g (by simp [hg']))
    have hpers : (!isPersonField f.1 || (splitNameList (normalizeWs (expand m [Piece.lit f.2]))).all personOk) = true := by
      rw [expand_lit, hf.norm]
      cases hp : isPersonField f.1 with
      | false => rfl
      | true => simpa using hf.pers hp
    cases raw with
    | nil =>
      show fieldsOk m seen [(f.1, [Piece.lit f.2])] [fieldLayoutOf f.2 true] = true
      simp only [fieldsOk, List.headD_cons, fieldLayoutOf, hf.name, hd1, valueOk, moreOk,
        pieceOk_spell m hf.lit, wsOk_indent, hpers, Bool.not_false, Bool.and_true, if_true]
      decide
    | cons g r =>
      show fieldsOk m seen ((f.1, [Piece.lit f.2]) :: docOfRaw (g :: r)) (fieldLayoutOf f.2 false :: layoutsOf (g :: r)) = true
      rw [fieldsOk]
      simp only [List.headD_cons, List.tail_cons, fieldLayoutOf, hf.name, hd1, valueOk, moreOk,
        pieceOk_spell m hf.lit, wsOk_indent, hpers, Bool.not_false, Bool.and_true, Bool.false_eq_true, if_false,
        hrest _ hd2]
      decide


/-! ### the denotation of the written fields is the entry -/

theorem denote_roles (m : Macros) : ∀ (rs : List (Str × List Person)) (e0 : Entry),
    (∀ r ∈ rs, isPersonField r.1 = true ∧ normalizeWs (formatNames r.2) = formatNames r.2 ∧
      personsOf (formatNames r.2) = r.2 ∧ r.2 ≠ []) →
    (docOfRaw (rolesRaw rs)).foldl (denoteField m) e0 = { e0 with persons := e0.persons ++ rs } := by
  intro rs
  induction rs with
  | nil => intro e0 _; simp [docOfRaw, rolesRaw]
  | cons r rs ih =>
    intro e0 h
    obtain ⟨h1, h2, h3, h4⟩ := h r (by simp)
    simp only [docOfRaw, rolesRaw, List.map_cons, List.foldl_cons]
    have hstep : denoteField m e0 (r.1, [Piece.lit (formatNames r.2)]) =
        { e0 with persons := e0.persons ++ [r] } := by
      unfold denoteField
      simp only [expand_lit, h2, h1, if_true, h3, h4, if_false]
    rw [hstep]
    have := ih { e0 with persons := e0.persons ++ [r] } (fun x hx => h x (by simp [hx]))
    simp only [docOfRaw, rolesRaw] at this
    rw [this]
    simp

theorem denote_fields (m : Macros) : ∀ (fs : List (Str × Str)) (e0 : Entry),
    (∀ f ∈ fs, isPersonField f.1 = false ∧ normalizeWs f.2 = f.2) →
    (docOfRaw fs).foldl (denoteField m) e0 = { e0 with fields := e0.fields ++ fs } := by
  intro fs
  induction fs with
  | nil => intro e0 _; simp [docOfRaw]
  | cons f fs ih =>
    intro e0 h
    obtain ⟨h1, h2⟩ := h f (by simp)
    simp only [docOfRaw, List.map_cons, List.foldl_cons]
    have hstep : denoteField m e0 (f.1, [Piece.lit f.2]) = { e0 with fields := e0.fields ++ [f] } := by
      unfold denoteField
      simp only [expand_lit, h2, h1, Bool.false_eq_true, if_false]
    rw [hstep]
    have := ih { e0 with fields := e0.fields ++ [f] } (fun x hx => h x (by simp [hx]))
    simp only [docOfRaw] at this
    rw [this]
    simp

/-! ### `entryOkW` unpacked -/

theorem valueOkW_iff {v : Str} : valueOkW v = true ↔
    litScan false 0 v = some 0 ∧ normalizeWs v = v ∧ Safe v = true := by
  simp [valueOkW, and_assoc]

structure RoleGood (r : Str × List Person) : Prop where
  name : isName r.1 = true
  role : isPersonField r.1 = true
  ne : r.2 ≠ []
  persons : ∀ p ∈ r.2, personOkW p = true
  value : valueOkW (formatNames r.2) = true

structure FieldGood (f : Str × Str) : Prop where
  name : isName f.1 = true
  plain : isPersonField f.1 = false
  value : valueOkW f.2 = true

theorem rolesOkW_unpack : ∀ (rs : List (Str × List Person)) (seen : List Str), rolesOkW seen rs = true →
    (∀ r ∈ rs, RoleGood r) ∧ distinctFrom seen (rolesRaw rs) := by
  intro rs
  induction rs with
  | nil => intro _ _; exact ⟨by simp, trivial⟩
  | cons r rs ih =>
    intro seen h
    simp only [rolesOkW, Bool.and_eq_true, Bool.not_eq_true', List.all_eq_true, decide_eq_true_eq] at h
    obtain ⟨⟨⟨⟨⟨⟨h1, h2⟩, h3⟩, h4⟩, h5⟩, h6⟩, h7⟩ := h
    obtain ⟨i1, i2⟩ := ih _ h7
    refine ⟨?_, ?_⟩
    · intro x hx
      rcases List.mem_cons.1 hx with rfl | hx
      · exact ⟨h1, h2, h4, h5, h6⟩
      · exact i1 x hx
    · exact ⟨h3, i2⟩

theorem fieldsOkW_unpack : ∀ (fs : List (Str × Str)) (seen : List Str), fieldsOkW seen fs = true →
    (∀ f ∈ fs, FieldGood f) ∧ distinctFrom seen fs := by
  intro fs
  induction fs with
  | nil => intro _ _; exact ⟨by simp, trivial⟩
  | cons f fs ih =>
    intro seen h
    simp only [fieldsOkW, Bool.and_eq_true, Bool.not_eq_true'] at h
    obtain ⟨⟨⟨⟨h1, h2⟩, h3⟩, h4⟩, h5⟩ := h
    obtain ⟨i1, i2⟩ := ih _ h5
    refine ⟨?_, h3, i2⟩
    intro x hx
    rcases List.mem_cons.1 hx with rfl | hx
    · exact ⟨h1, h2, h4⟩
    · exact i1 x hx

theorem isPersonField_lower {a b : Str} (h : lower a = lower b) : isPersonField a = isPersonField b := by
  unfold isPersonField isPersonFieldOf; rw [h]

/-- more names in `seen` do no harm when they are all (lower-cased) role names and the list holds
no role name -/
theorem distinctFrom_extra : ∀ (fs : List (Str × Str)) (seen extra : List Str),
    distinctFrom seen fs → (∀ f ∈ fs, isPersonField f.1 = false) →
    (∀ x ∈ extra, ∃ n, lower n = x ∧ isPersonField n = true) →
    distinctFrom (seen ++ extra) fs := by
  intro fs
  induction fs with
  | nil => intro _ _ _ _ _; trivial
  | cons f fs ih =>
    intro seen extra hd hp he
    obtain ⟨h1, h2⟩ := hd
    refine ⟨?_, ?_⟩
    · simp only [List.contains_eq_mem, List.mem_append, decide_eq_false_iff_not, not_or]
      refine ⟨by simpa using h1, ?_⟩
      intro hx
      obtain ⟨n, hn, hpn⟩ := he _ hx
      have := isPersonField_lower hn
      rw [hpn, hp f (by simp)] at this
      cases this
    · have := ih (lower f.1 :: seen) extra h2 (fun g hg => hp g (by simp [hg])) he
      simpa using this

theorem distinctFrom_append : ∀ (a b : List (Str × Str)) (seen : List Str),
    distinctFrom seen a → distinctFrom ((a.map fun f => lower f.1).reverse ++ seen) b →
    distinctFrom seen (a ++ b) := by
  intro a
  induction a with
  | nil => intro b seen _ h; simpa using h
  | cons f a ih =>
    intro b seen ha hb
    obtain ⟨h1, h2⟩ := ha
    refine ⟨h1, ih b _ h2 ?_⟩
    simpa [List.append_assoc] using hb

/-- on ASCII keys the reader's key folding (`Bib.keyFold` = `str.lower()`, the Unicode mapping) is the
ASCII lower-casing of the BibTeX domain `WFDb` -/
theorem keyFold_ascii {k : Str} (h : isAsciiStr k = true) : keyFold k = lower k := lowerU_ascii h

structure EntryGood (keys : List Str) (e : Entry) : Prop where
  ty : isName e.origType = true
  notReserved : reserved.contains (lower e.origType) = false
  lowType : e.type = lower e.origType
  key : keyOk false e.key = true
  asciiKey : isAsciiStr e.key = true
  fresh : keys.contains (lower e.key) = false
  roles : ∀ r ∈ e.persons, RoleGood r
  fields : ∀ f ∈ e.fields, FieldGood f
  distinct : distinctFrom [] (rawFields e)

theorem entryGood_of_ok {keys : List Str} {e : Entry} (h : entryOkW keys e = true) : EntryGood keys e := by
  simp only [entryOkW, Bool.and_eq_true, Bool.not_eq_true', beq_iff_eq] at h
  obtain ⟨⟨⟨⟨⟨⟨⟨h1, h2⟩, h3⟩, h4⟩, hk⟩, h5⟩, h6⟩, h7⟩ := h
  obtain ⟨r1, r2⟩ := rolesOkW_unpack _ _ h6
  obtain ⟨f1, f2⟩ := fieldsOkW_unpack _ _ h7
  refine ⟨h1, h2, h3, h4, hk, h5, r1, f1, ?_⟩
  unfold rawFields
  apply distinctFrom_append _ _ _ r2
  have := distinctFrom_extra e.fields [] ((rolesRaw e.persons).map fun f => lower f.1).reverse f2
    (fun f hf => (f1 f hf).plain) ?_
  · simpa using this
  · intro x hx
    simp only [List.mem_reverse, List.mem_map, rolesRaw] at hx
    obtain ⟨_, ⟨r, hr, rfl⟩, rfl⟩ := hx
    exact ⟨r.1, rfl, (r1 r hr).role⟩


/-! ### an entry without fields: `@type{key` newline `}` (no comma: not a rendering of `Spec/Bib.lean`) -/

theorem parseCommand_nofields (ty key : Str) (s : St) (r : Str)
    (h : s.rest = ty ++ ('{' :: (key ++ ('\n' :: '}' :: r))))
    (hty : isName ty = true) (hres : reserved.contains (lower ty) = false)
    (hkey : keyOk false key = true) (hwant : s.db.wanted = none) :
    ∃ ln' fn cv, parseCommand s =
      .ok (Cmd.entry ty (some key) [])
        { s with rest := r, ln := ln', curKey := some key, curFields := [], curFieldName := fn, curValue := cv } := by
  simp only [reserved, List.contains_cons, List.contains_nil, Bool.or_false,
    Bool.or_eq_false_iff, beq_eq_false_iff_ne, ne_eq] at hres
  obtain ⟨ln2, h1, h2⟩ := command_head s [] ty [] false (key ++ ('\n' :: '}' :: r)) (by simpa [opener] using h)
    AllWs.nil hty AllWs.nil
  -- the key
  have hkne : key ≠ [] := by
    simp only [keyOk, Bool.and_eq_true, decide_eq_true_eq] at hkey; exact hkey.1
  obtain ⟨k0, kt, rfl⟩ : ∃ k0 kt, key = k0 :: kt := by
    cases key with
    | nil => exact absurd rfl hkne
    | cons a b => exact ⟨a, b, rfl⟩
  have hk0 : isWs k0 = false := by
    simp only [keyOk, Bool.and_eq_true, List.all_cons] at hkey
    simpa using hkey.2.1.1.1
  have hstop : Stops (keyChar false) ('\n' :: '}' :: r) := stops_cons.2 (keyChar_ws (by decide))
  let s2 : St := { St.fresh s with rest := k0 :: kt ++ ('\n' :: '}' :: r), ln := ln2 }
  have h3 := required_some [keyPat false] "entry key" s2 (w := []) (r := k0 :: kt ++ ('\n' :: '}' :: r)) rfl
    AllWs.nil (stops_cons.2 hk0) (by simp)
    (p := keyPat false) (v := k0 :: kt) (r' := '\n' :: '}' :: r)
    (by simp only [firstMatch]; rw [matchAt_key hkey hstop])
  obtain ⟨ln3, h4⟩ := parseEntryFields_end (('\n' :: '}' :: r).length + 1)
    { s2 with rest := '\n' :: '}' :: r, ln := s2.ln + countNl [], curKey := some (k0 :: kt) } ['\n'] '}' r rfl
    (by intro c hc; simp at hc; subst hc; decide) (ClChar.closer false)
  have hbody : parseEntryBody false s2 = .ok ()
      { s2 with rest := '}' :: r, ln := ln3, curKey := some (k0 :: kt), curFieldName := none, curValue := [] } := by
    unfold parseEntryBody
    rw [show (if false = true then Pat.keyParen else Pat.keyBrace) = keyPat false from rfl, h3]
    simp only [h4, wantCurrent, wantEntry]
    have : s2.db.wanted = none := hwant
    simp [this]
  have h5 := required_lit
    { s2 with rest := '}' :: r, ln := ln3, curKey := some (k0 :: kt), curFieldName := none, curValue := [] }
    '}' (descOf [.lit '}']) (w := []) rfl AllWs.nil (by decide)
  refine ⟨ln3 + countNl [], none, [], ?_⟩
  have hop : opener false = '{' := rfl
  have hcl : closer false = '}' := rfl
  rw [parseCommand_entry_of s _ _ _ _ ty _ false _ h1 (by rw [hop] at h2 ⊢; exact h2) hres.2.2 hres.1 hres.2.1
    (by exact hbody) (by rw [hcl]; exact h5)]
  simp [St.fresh, s2]


/-! ### the writer's text of entries -/

/-- the encoder leaves safe strings alone (latexcodec: only `# % & _ ~` are re-escaped) -/
def EncId (encode : Str → Str) : Prop := ∀ s, Safe s = true → encode s = s

theorem valW_of_ok {encode : Str → Str} (henc : EncId encode) {v : Str} (h : valueOkW v = true) :
    ValW encode v := by
  obtain ⟨h1, _, h3⟩ := valueOkW_iff.1 h
  exact ⟨h1, henc v h3⟩

def entryText (e : Entry) : Str :=
  '@' :: (e.origType ++ ('{' :: (e.key ++ (fieldsText (rawFields e) ++ ['\n', '}', '\n']))))

theorem writeEntry_ok {encode : Str → Str} (henc : EncId encode) {keys : List Str} {e : Entry}
    (hg : EntryGood keys e) : writeEntry encode e = .ok (entryText e) := by
  unfold writeEntry
  rw [writeRoles_ok e.persons (fun r hr => ⟨(hg.roles r hr).ne, valW_of_ok henc (hg.roles r hr).value⟩),
    writeFields_ok e.fields (fun f hf => valW_of_ok henc (hg.fields f hf).value)]
  simp only [entryText, rawFields, fieldsText_append]
  have : "\n}\n".toList = ['\n', '}', '\n'] := by decide
  rw [this]
  simp only [List.cons_append, List.append_assoc]

def entriesText : Bool → List Entry → Str
  | _, [] => []
  | first, e :: es => (if first then [] else ['\n']) ++ (entryText e ++ entriesText false es)

theorem writeEntries_ok {encode : Str → Str} (henc : EncId encode) : ∀ (es : List Entry) (first : Bool) (keys : List Str),
    entriesOkW keys es = true → writeEntries encode first es = .ok (entriesText first es) := by
  intro es
  induction es with
  | nil => intro _ _ _; rfl
  | cons e es ih =>
    intro first keys h
    simp only [entriesOkW, Bool.and_eq_true] at h
    simp only [writeEntries, writeEntry_ok henc (entryGood_of_ok h.1), ih false _ h.2, entriesText,
      List.append_assoc]

/-! ### what one entry denotes -/

theorem entry_denote {keys : List Str} {e : Entry} (hg : EntryGood keys e) (m : Macros) :
    denoteEntry m e.origType e.key (docOfRaw (rawFields e)) = e := by
  unfold denoteEntry rawFields
  have hr : ∀ r ∈ e.persons, isPersonField r.1 = true ∧ normalizeWs (formatNames r.2) = formatNames r.2 ∧
      personsOf (formatNames r.2) = r.2 ∧ r.2 ≠ [] := by
    intro r hr
    have g := hg.roles r hr
    exact ⟨g.role, (valueOkW_iff.1 g.value).2.1, (names_read_back r.2 g.ne g.persons).1, g.ne⟩
  have hf : ∀ f ∈ e.fields, isPersonField f.1 = false ∧ normalizeWs f.2 = f.2 := by
    intro f hf
    have g := hg.fields f hf
    exact ⟨g.plain, (valueOkW_iff.1 g.value).2.1⟩
  have hdoc : docOfRaw (rolesRaw e.persons ++ e.fields) = docOfRaw (rolesRaw e.persons) ++ docOfRaw e.fields := by
    simp [docOfRaw]
  rw [hdoc, List.foldl_append, denote_roles m e.persons _ hr, denote_fields m e.fields _ hf]
  obtain ⟨k, t, ot, fs, ps⟩ := e
  have := hg.lowType
  simp only at this
  subst this
  simp

theorem rawGood_of_entry {keys : List Str} {e : Entry} (hg : EntryGood keys e) : ∀ f ∈ rawFields e, RawGood f := by
  intro f hf
  simp only [rawFields, List.mem_append, rolesRaw, List.mem_map] at hf
  rcases hf with ⟨r, hr, rfl⟩ | hf
  · have g := hg.roles r hr
    obtain ⟨h1, h2, _⟩ := valueOkW_iff.1 g.value
    exact ⟨g.name, h1, h2, fun _ => (names_read_back r.2 g.ne g.persons).2⟩
  · have g := hg.fields f hf
    obtain ⟨h1, h2, _⟩ := valueOkW_iff.1 g.value
    exact ⟨g.name, h1, h2, fun hp => by rw [g.plain] at hp; cases hp⟩

/-- the layout the writer uses for an entry that has fields -/
def entryLayout (e : Entry) : CmdLayout := { fields := layoutsOf (rawFields e), afterClose := ['\n'] }

theorem entryText_render {e : Entry} (hne : rawFields e ≠ []) :
    entryText e = renderCmd (.entry e.origType e.key (docOfRaw (rawFields e))) (entryLayout e) := by
  have hdne : docOfRaw (rawFields e) ≠ [] := by simpa [docOfRaw] using hne
  have hemp : (docOfRaw (rawFields e)).isEmpty = false := by
    cases h : docOfRaw (rawFields e) with
    | nil => exact absurd h hdne
    | cons a b => rfl
  simp only [renderCmd, entryLayout, applyMask_nil, List.nil_append, opener, closer, Bool.false_eq_true,
    if_false, renderFields_raw _ hne, entryText, List.append_nil, List.append_assoc,
    List.cons_append]

theorem cmdOk_entry {keys : List Str} {e : Entry} (hg : EntryGood keys e) (m : Macros) :
    cmdOk m keys (.entry e.origType e.key (docOfRaw (rawFields e))) (entryLayout e) = true := by
  have hf := fieldsOk_raw m (rawFields e) [] (rawGood_of_entry hg) hg.distinct
  simp only [cmdOk, bareKeyOk, entryLayout, hg.ty, hg.notReserved, hg.key, keyFold_ascii hg.asciiKey, hg.fresh, hf,
    Bool.not_false, Bool.and_true, Bool.true_or]
  decide


/-! ### the reader on the writer's entries -/

theorem entryText_length_pos (e : Entry) : 0 < (entryText e).length := by simp [entryText]

theorem plain_layouts : ∀ (raw : List (Str × Str)), plainFieldIds (docOfRaw raw) (layoutsOf raw) = true := by
  intro raw
  induction raw with
  | nil => rfl
  | cons f raw ih =>
    cases raw with
    | nil => simp [docOfRaw, layoutsOf, plainFieldIds, fieldLayoutOf]
    | cons g r =>
      show plainFieldIds ((f.1, [Piece.lit f.2]) :: docOfRaw (g :: r)) (fieldLayoutOf f.2 false :: layoutsOf (g :: r)) = true
      rw [plainFieldIds]
      simp only [List.headD_cons, List.tail_cons, fieldLayoutOf, ih, Bool.and_true, decide_true]

theorem parseLoop_entries : ∀ (es : List Entry) (first : Bool) (fuel : Nat) (s : St) (pre : Str) (D : Denot)
    (keys : List Str),
    s.rest = pre ++ entriesText first es → (∀ c ∈ pre, c ≠ '@') → entriesOkW keys es = true →
    LoopInv s initMacros D keys → (entriesText first es).length < fuel →
    ∃ s' keys', parseLoop fuel s = (s', none) ∧
      LoopInv s' initMacros { D with entries := D.entries ++ es } keys' := by
  intro es
  induction es with
  | nil =>
    intro first fuel s pre D keys h hpre _ hinv hfuel
    obtain ⟨fuel, rfl⟩ : ∃ k, fuel = k + 1 := ⟨fuel - 1, by omega⟩
    simp only [entriesText, List.append_nil] at h
    refine ⟨s, keys, ?_, ?_⟩
    · rw [parseLoop_unfold, h, skipToChar_none (AtFree.skip hpre)]
    · simpa using hinv
  | cons e es ih =>
    intro first fuel s pre D keys h hpre hok hinv hfuel
    simp only [entriesOkW, Bool.and_eq_true] at hok
    obtain ⟨hok1, hok2⟩ := hok
    have hg := entryGood_of_ok hok1
    obtain ⟨fuel, rfl⟩ : ∃ k, fuel = k + 1 := ⟨fuel - 1, by omega⟩
    -- the text in front of the `@`
    let pre' : Str := pre ++ (if first then [] else ['\n'])
    have hpre' : ∀ c ∈ pre', c ≠ '@' := by
      intro c hc
      simp only [pre', List.mem_append] at hc
      rcases hc with hc | hc
      · exact hpre c hc
      · split at hc
        · simp at hc
        · simp at hc; subst hc; decide
    obtain ⟨T, hT⟩ : ∃ T, entryText e = '@' :: T := ⟨_, rfl⟩
    have hrest : s.rest = pre' ++ '@' :: (T ++ entriesText false es) := by
      rw [h]; simp only [entriesText, pre', hT, List.append_assoc, List.cons_append]
    rw [parseLoop_at fuel s pre' _ hrest hpre']
    have hkl : keyFold e.key = lower e.key := keyFold_ascii hg.asciiKey
    have hany : D.entries.any (fun x => keyFold x.key = keyFold e.key) = false := by
      rw [List.any_eq_false]
      intro x hx hek
      have := hinv.keys x hx
      simp only [decide_eq_true_eq] at hek
      rw [hek, hkl] at this
      have hf := hg.fresh
      simp only [List.contains_eq_mem, decide_eq_false_iff_not] at hf
      exact hf this
    have hlen : (entriesText false es).length < fuel := by
      have h1 := entryText_length_pos e
      simp only [entriesText, List.length_append] at hfuel
      omega
    have hkeys' : ∀ x ∈ D.entries ++ [e], keyFold x.key ∈ lower e.key :: keys := by
      rw [← hkl]
      intro x hx
      rcases List.mem_append.1 hx with hx | hx
      · exact List.mem_cons_of_mem _ (hinv.keys x hx)
      · simp only [List.mem_singleton] at hx; rw [hx]; exact List.mem_cons_self
    by_cases hraw : rawFields e = []
    · -- no field, no person
      have hT' : T = e.origType ++ ('{' :: (e.key ++ ('\n' :: '}' :: ['\n']))) := by
        have := hT
        simp only [entryText, hraw, fieldsText, List.map_nil, List.flatten_nil, List.nil_append, List.cons.injEq, true_and] at this
        exact this.symm
      obtain ⟨ln1, fn, cv, h1⟩ := parseCommand_nofields e.origType e.key
        { s with rest := T ++ entriesText false es, ln := s.ln + countNl (pre' ++ ['@']) }
        ('\n' :: entriesText false es) (by simp [hT']) hg.ty hg.notReserved hg.key hinv.proc.wanted
      rw [h1]
      let s0 : St :=
        { s with rest := '\n' :: entriesText false es, ln := ln1, curKey := some e.key, curFields := [],
                 curFieldName := fn, curValue := cv }
      have hproc := processCmd_entry initMacros e.origType e.key [] s0
        ⟨hinv.proc.wanted, hinv.proc.cit, hinv.proc.roles⟩ (by rw [← hany, ← hinv.entries]) rfl
      have hproc' : processCmd (Cmd.entry e.origType (some e.key) []) s0 = _ := hproc
      have hden : denoteEntry initMacros e.origType e.key [] = e := by
        have := entry_denote hg initMacros
        rw [hraw] at this
        exact this
      rw [hden] at hproc'
      obtain ⟨s', keys', h2, h3⟩ := ih false fuel { s0 with db := { s0.db with entries := s0.db.entries ++ [e] } }
        ['\n'] { D with entries := D.entries ++ [e] } (lower e.key :: keys) rfl
        (by intro c hc; simp at hc; subst hc; decide) hok2
        ⟨hinv.mac, ⟨hinv.proc.wanted, hinv.proc.cit, hinv.proc.roles⟩, by simp [s0, hinv.entries], hinv.preamble, hinv.errs, hkeys'⟩
        hlen
      refine ⟨s', keys', ?_, by simpa using h3⟩
      show (match processCmd (Cmd.entry e.origType (some e.key) []) s0 with
        | .ok _ s => parseLoop fuel s
        | .fail (.raised e) s => (s, some e)
        | .fail (.syn e) s => (s, some e)
        | .fail .skip s => parseLoop fuel s) = _
      rw [hproc']
      exact h2
    · -- a rendered entry of C01
      have hrender := entryText_render hraw
      obtain ⟨ln1, fn, cv, h1⟩ := parseCommand_entry initMacros keys e.origType e.key (docOfRaw (rawFields e))
        (entryLayout e)
        { s with rest := T ++ entriesText false es, ln := s.ln + countNl (pre' ++ ['@']) } (entriesText false es)
        (by rw [← hrender, hT]; rfl) (cmdOk_entry hg initMacros) hinv.mac hinv.proc.wanted
      rw [h1]
      have hwf : writtenFields (docOfRaw (rawFields e)) (entryLayout e).fields = docOfRaw (rawFields e) :=
        writtenFields_plain _ _ (plain_layouts (rawFields e))
      have hfok := fieldsOk_raw initMacros (rawFields e) [] (rawGood_of_entry hg) hg.distinct
      let s0 : St :=
        { s with rest := (entryLayout e).afterClose ++ entriesText false es, ln := ln1, curKey := some e.key,
                 curFields := parsedFields initMacros (docOfRaw (rawFields e)) (entryLayout e).fields,
                 curFieldName := fn, curValue := cv }
      have hproc := processCmd_entry initMacros (applyMask e.origType (entryLayout e).mask) e.key
        (writtenFields (docOfRaw (rawFields e)) (entryLayout e).fields) s0
        ⟨hinv.proc.wanted, hinv.proc.cit, hinv.proc.roles⟩ (by rw [← hany, ← hinv.entries])
        (procOk_of_fieldsOk initMacros _ _ _ hfok)
      have hproc' : processCmd (Cmd.entry (applyMask e.origType (entryLayout e).mask) (some e.key)
          (parsedFields initMacros (docOfRaw (rawFields e)) (entryLayout e).fields)) s0 = _ := hproc
      have hden : denoteEntry initMacros (applyMask e.origType (entryLayout e).mask) e.key
          (writtenFields (docOfRaw (rawFields e)) (entryLayout e).fields) = e := by
        rw [hwf]
        simp only [entryLayout, applyMask_nil]
        exact entry_denote hg initMacros
      rw [hden] at hproc'
      obtain ⟨s', keys', h2, h3⟩ := ih false fuel { s0 with db := { s0.db with entries := s0.db.entries ++ [e] } }
        (entryLayout e).afterClose { D with entries := D.entries ++ [e] }
        (lower e.key :: keys) rfl
        (by intro c hc; simp [entryLayout] at hc; subst hc; decide) hok2
        ⟨hinv.mac, ⟨hinv.proc.wanted, hinv.proc.cit, hinv.proc.roles⟩, by simp [s0, hinv.entries], hinv.preamble, hinv.errs, hkeys'⟩
        hlen
      refine ⟨s', keys', ?_, by simpa using h3⟩
      show (match processCmd (Cmd.entry (applyMask e.origType (entryLayout e).mask) (some e.key)
          (parsedFields initMacros (docOfRaw (rawFields e)) (entryLayout e).fields)) s0 with
        | .ok _ s => parseLoop fuel s
        | .fail (.raised e) s => (s, some e)
        | .fail (.syn e) s => (s, some e)
        | .fail .skip s => parseLoop fuel s) = _
      rw [hproc']
      exact h2


/-! ### the whole database -/

theorem splitChar_none {x : Char} : ∀ (s : Str), (∀ c ∈ s, c ≠ x) → splitChar x s = [s] := by
  intro s
  induction s with
  | nil => intro _; rfl
  | cons c r ih =>
    intro h
    have hc := h c (by simp)
    simp only [splitChar, if_neg hc, ih (fun y hy => h y (by simp [hy]))]

theorem safe_no_percent {s : Str} (h : Safe s = true) : ∀ c ∈ s, c ≠ '%' := by
  intro c hc hp
  subst hp
  simp only [Safe, List.all_eq_true] at h
  have := h '%' hc
  simp [isFive] at this

theorem encodeWithComments_safe {encode : Str → Str} (henc : EncId encode) {s : Str} (h : Safe s = true) :
    encodeWithComments encode s = s := by
  unfold encodeWithComments
  rw [splitChar_none s (safe_no_percent h)]
  simp [joinWith, henc s h]

def preambleLayout (text : Str) : CmdLayout :=
  { pieces := [{ spelling := spellOf text }], afterClose := ['\n', '\n'] }

/-- the text of `_write_preamble` -/
def preambleOut (d : BibData) : Str :=
  if d.preambleText = [] then []
  else renderCmd (.preamble [Piece.lit d.preambleText]) (preambleLayout d.preambleText)

theorem writePreamble_ok {encode : Str → Str} (henc : EncId encode) {d : BibData}
    (h : d.preambleText = [] ∨ valueOkW d.preambleText = true) :
    writePreamble encode d.preambleText = .ok (preambleOut d) := by
  unfold writePreamble preambleOut
  by_cases hp : d.preambleText = []
  · simp [hp]
  · rcases h with h | h
    · exact absurd h hp
    · obtain ⟨h1, _, h3⟩ := valueOkW_iff.1 h
      rw [if_neg hp, if_neg hp, encodeWithComments_safe henc h3, quote_ok h1]
      have e1 : "@preamble{".toList = '@' :: ("preamble".toList ++ ['{']) := by decide
      have e2 : "}\n\n".toList = ['}', '\n', '\n'] := by decide
      rw [e1, e2]
      simp only [renderCmd, preambleLayout, kw, applyMask_nil, renderValue, renderMore, List.headD_cons,
        opener, closer, Bool.false_eq_true, if_false, List.nil_append, List.append_nil, List.cons_append,
        List.append_assoc]

theorem writeStream_ok {encode : Str → Str} (henc : EncId encode) {d : BibData} (h : WFDb d = true) :
    writeStream encode d = .ok (preambleOut d ++ entriesText true d.entries) := by
  simp only [WFDb, Bool.and_eq_true, Bool.or_eq_true, decide_eq_true_eq] at h
  unfold writeStream
  rw [writePreamble_ok henc h.2, writeEntries_ok henc d.entries true [] h.1]

theorem loopInv_init (text : Str) (strict : Bool) :
    LoopInv { rest := text, macros := CIDict.ofPairs Gen.monthMacros, db := {}, strict := strict,
              roles := Gen.personRoles } initMacros {} [] :=
  ⟨macRef_init, ⟨rfl, rfl, rfl⟩, rfl, rfl, rfl, by simp⟩

theorem parseBib_written {encode : Str → Str} (henc : EncId encode) (d : BibData) (h : WFDb d = true)
    (strict : Bool) :
    ∃ text s', writeStream encode d = .ok text ∧ parseBib text strict none = (s', none) ∧
      s'.errs = [] ∧ s'.db.entries = d.entries ∧ s'.db.preamble = canonPreamble d := by
  refine ⟨preambleOut d ++ entriesText true d.entries, ?_⟩
  have hw := writeStream_ok henc h
  simp only [WFDb, Bool.and_eq_true, Bool.or_eq_true, decide_eq_true_eq] at h
  obtain ⟨hes, hpre⟩ := h
  by_cases hp : d.preambleText = []
  · -- no preamble
    have hout : preambleOut d = [] := by simp [preambleOut, hp]
    obtain ⟨s', keys', h1, h2⟩ := parseLoop_entries d.entries true ((entriesText true d.entries).length + 1)
      { rest := entriesText true d.entries, macros := CIDict.ofPairs Gen.monthMacros, db := {}, strict := strict,
        roles := Gen.personRoles } [] {} [] rfl (by simp) hes (loopInv_init _ strict) (by omega)
    refine ⟨s', hw, ?_, h2.errs, ?_, ?_⟩
    · rw [hout]; exact h1
    · rw [h2.entries]; simp
    · rw [h2.preamble]; simp [canonPreamble, hp]
  · -- `@preamble{…}` first
    have hv : valueOkW d.preambleText = true := by
      rcases hpre with h0 | h0
      · exact absurd h0 hp
      · exact h0
    obtain ⟨hv1, hv2, _⟩ := valueOkW_iff.1 hv
    have hout : preambleOut d = renderCmd (.preamble [Piece.lit d.preambleText]) (preambleLayout d.preambleText) := by
      simp [preambleOut, hp]
    obtain ⟨T, hT⟩ : ∃ T, renderCmd (.preamble [Piece.lit d.preambleText]) (preambleLayout d.preambleText) = '@' :: T :=
      ⟨_, rfl⟩
    have hcmd : cmdOk initMacros [] (.preamble [Piece.lit d.preambleText]) (preambleLayout d.preambleText) = true := by
      simp only [cmdOk, preambleLayout, valueOk, moreOk, List.headD_cons, pieceOk_spell initMacros hv1,
        Bool.and_true, Bool.true_and]
      decide
    let s0 : St := { rest := T ++ entriesText true d.entries, macros := CIDict.ofPairs Gen.monthMacros, db := {},
                     strict := strict, roles := Gen.personRoles }
    have hinv0 : LoopInv s0 initMacros {} [] := loopInv_init _ strict
    obtain ⟨ln1, h1⟩ := parseCommand_preamble initMacros [] [Piece.lit d.preambleText] (preambleLayout d.preambleText)
      { s0 with ln := s0.ln + countNl ([] ++ ['@']) } (entriesText true d.entries) (by rw [hT]; rfl) hcmd hinv0.mac
    let s1 : St :=
      { s0 with rest := (preambleLayout d.preambleText).afterClose ++ entriesText true d.entries, ln := ln1,
                curKey := none, curFields := [], curFieldName := none,
                curValue := expandPieces initMacros [Piece.lit d.preambleText],
                db := { s0.db with preamble := s0.db.preamble ++ [normalizeWs (expand initMacros [Piece.lit d.preambleText])] } }
    obtain ⟨s', keys', h2, h3⟩ := parseLoop_entries d.entries true ((T ++ entriesText true d.entries).length + 1) s1
      (preambleLayout d.preambleText).afterClose { preamble := [d.preambleText] } [] rfl
      (by intro c hc; simp [preambleLayout] at hc; subst hc; decide) hes
      ⟨hinv0.mac, ⟨rfl, rfl, rfl⟩, rfl, by simp [s1, s0, expand_lit, hv2], rfl, by simp⟩
      (by simp only [List.length_append]; omega)
    refine ⟨s', hw, ?_, h3.errs, ?_, ?_⟩
    · rw [hout, hT]
      unfold parseBib
      simp only [List.cons_append, List.length_cons]
      rw [parseLoop_at _ _ [] _ (by rfl) (by simp)]
      rw [h1]
      simp only [processCmd_preamble]
      exact h2
    · rw [h3.entries]; simp
    · rw [h3.preamble]; simp [canonPreamble, hp]


end Pybtex.C02
