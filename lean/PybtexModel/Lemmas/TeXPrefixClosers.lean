/-
Closing braces appended by `bibtex_prefix`: `d` closers bring the saturating depth `d` back to 0.
-/
import PybtexModel.Lemmas.TeXString

namespace Pybtex
open Spec

theorem depthSat_closers : ∀ d, depthSat d (List.replicate d '}') = 0
  | 0 => rfl
  | d + 1 => by
    simp only [List.replicate_succ, depthSat]
    simpa using depthSat_closers d

/-- a string followed by as many closers as it leaves open ends at (saturating) depth 0 -/
theorem depthSat_closed (q : Str) : depthSat 0 (q ++ List.replicate (depthSat 0 q) '}') = 0 := by
  rw [depthSat_append]; exact depthSat_closers _

end Pybtex
