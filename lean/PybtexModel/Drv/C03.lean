import PybtexModel.Drv.Json
import PybtexModel.Drv.C01
import PybtexModel.Model.Interp
open Lean
namespace Pybtex.Drv.C03
open Pybtex.Interp

def reportJ : Interp.Report → Json
  | .warning m => arr [Json.str "BibTeXError", strToJson m]
  | .bib e =>
    match C01.errJ e with
    | Json.arr a => arr [a[0]!, a[2]!]
    | j => j
  | .data (.repeated k) => arr [Json.str "BibliographyDataError", strToJson ("repeated bibliography entry: ".toList ++ k)]
  | .data (.badCrossref k x) =>
    arr [Json.str "BibliographyDataError",
         strToJson ("bad cross-reference: entry \"".toList ++ k ++ "\" refers to entry \"".toList ++ x ++ "\" which does not exist.".toList)]
  | .data (.missingEntry k) => arr [Json.str "BibTeXError", strToJson ("missing database entry for \"".toList ++ k ++ "\"".toList)]
  | .invalidName n => arr [Json.str "InvalidNameString", strToJson n]

def ierrJ : IErr → Json
  | .bibtex m => arr [Json.str "BibTeXError", Json.str m]
  | .syntax c => arr [Json.str c, Json.str ""]
  | .internal w => arr [Json.str "INTERNAL", Json.str w]
  | .outOfFuel => arr [Json.str "OUT-OF-FUEL", Json.str ""]

def altPerson (j : Json) : Except String Person := do
  let a ← j.getArr?
  let g := fun (i : Nat) => do
    let l ← (a[i]!).getArr?
    l.toList.mapM jsonToStr
  pure { first := ← g 0, middle := ← g 1, prelast := ← g 2, last := ← g 3, lineage := ← g 4 }

/-- an entry as another reader (`bib_format=`) delivers it -/
def altEntry (j : Json) : Except String (Str × Bib.Entry) := do
  let key ← getStr j "key"
  let ty ← getStr j "type"
  let ot ← getStr j "orig_type"
  let fields ← (← getArr j "fields").mapM fun f => do
    let a ← f.getArr?
    pure ((← jsonToStr a[0]!), (← jsonToStr a[1]!))
  let persons ← (← getArr j "persons").mapM fun r => do
    let a ← r.getArr?
    let ps ← (← (a[1]!).getArr?).toList.mapM altPerson
    pure ((← jsonToStr a[0]!), ps)
  pure (key, { key := key, type := ty, origType := ot, fields := fields, persons := persons })

def bstrun (j : Json) : Except String Json := do
  let bst ← getStr j "bst"
  let bibs ← getStrList j "bibs"
  let cites ← getStrList j "citations"
  let mc ← getInt j "min_crossrefs"
  let fuel ← getNat j "fuel"
  let alt ← match j.getObjVal? "alt" with
    | .ok (Json.obj _) => do
      let a ← j.getObjVal? "alt"
      let es ← (← getArr a "entries").mapM altEntry
      let pre ← getStrList a "preamble"
      pure (some (es, pre))
    | _ => pure none
  match Bst.parseFile bst with
  | .error _ => pure (obj [("out", obj [("error", arr [Json.str "BST-SYNTAX", Json.str ""])])])
  | .ok prog =>
    match run fuel prog { bibTexts := bibs, citations := cites, minCrossrefs := mc, alt := alt } with
    | .error (e, _) => pure (obj [("out", obj [("error", ierrJ e)])])
    | .ok o =>
      pure (obj [("out", obj [("bbl", strToJson o.bbl), ("reports", arr (o.reports.map reportJ)),
                              ("printed", strs o.printed)])])

def handlers : List (String × (Json → Except String Json)) := [("bstrun", bstrun)]

end Pybtex.Drv.C03
