import PybtexModel.Drv.Json
import PybtexModel.Drv.C01
import PybtexModel.Model.Interp
import PybtexModel.Model.InterpFn
open Lean
namespace Pybtex.Drv.C03
open Pybtex.Interp

def reportJ : Interp.Report → Json
  | .warning m => arr [Json.str "BibTeXError", strToJson m]
  | .bib e =>
    match C01.errJ e with
    | Json.arr a => arr [a[0]!, a[2]!]
    | j => j
  | .data (.repeated k) => arr [Json.str "BibliographyDataError", strToJson ("repeated bibliography entry: ".toList ++ k)]
  | .data (.badCrossref k x) =>
    arr [Json.str "BibliographyDataError",
         strToJson ("bad cross-reference: entry \"".toList ++ k ++ "\" refers to entry \"".toList ++ x ++ "\" which does not exist.".toList)]
  | .data (.missingEntry k) => arr [Json.str "BibTeXError", strToJson ("missing database entry for \"".toList ++ k ++ "\"".toList)]
  | .invalidName n => arr [Json.str "InvalidNameString", strToJson n]

def ierrJ : IErr → Json
  | .bibtex m => arr [Json.str "BibTeXError", Json.str m]
  | .syntax c => arr [Json.str c, Json.str ""]
  | .internal w => arr [Json.str "INTERNAL", Json.str w]
  | .outOfFuel => arr [Json.str "OUT-OF-FUEL", Json.str ""]

def altPerson (j : Json) : Except String Person := do
  let a ← j.getArr?
  let g := fun (i : Nat) => do
    let l ← (a[i]!).getArr?
    l.toList.mapM jsonToStr
  pure { first := ← g 0, middle := ← g 1, prelast := ← g 2, last := ← g 3, lineage := ← g 4 }

/-- an entry as another reader (`bib_format=`) delivers it -/
def altEntry (j : Json) : Except String (Str × Bib.Entry) := do
  let key ← getStr j "key"
  let ty ← getStr j "type"
  let ot ← getStr j "orig_type"
  let fields ← (← getArr j "fields").mapM fun f => do
    let a ← f.getArr?
    pure ((← jsonToStr a[0]!), (← jsonToStr a[1]!))
  let persons ← (← getArr j "persons").mapM fun r => do
    let a ← r.getArr?
    let ps ← (← (a[1]!).getArr?).toList.mapM altPerson
    pure ((← jsonToStr a[0]!), ps)
  pure (key, { key := key, type := ty, origType := ot, fields := fields, persons := persons })

def bstrun (j : Json) : Except String Json := do
  let bst ← getStr j "bst"
  let bibs ← getStrList j "bibs"
  let cites ← getStrList j "citations"
  let mc ← getInt j "min_crossrefs"
  let fuel ← getNat j "fuel"
  let alt ← match j.getObjVal? "alt" with
    | .ok (Json.obj _) => do
      let a ← j.getObjVal? "alt"
      let es ← (← getArr a "entries").mapM altEntry
      let pre ← getStrList a "preamble"
      pure (some (es, pre))
    | _ => pure none
  match Bst.parseFile bst with
  | .error _ => pure (obj [("out", obj [("error", arr [Json.str "BST-SYNTAX", Json.str ""])])])
  | .ok prog =>
    match run fuel prog { bibTexts := bibs, citations := cites, minCrossrefs := mc, alt := alt } with
    | .error (e, _) => pure (obj [("out", obj [("error", ierrJ e)])])
    | .ok o =>
      pure (obj [("out", obj [("bbl", strToJson o.bbl), ("reports", arr (o.reports.map reportJ)),
                              ("printed", strs o.printed)])])


/-! ### function level: one built-in / variable object on a given stack (`bstbuiltin`), `command_sort` alone (`bstsort`) -/

mutual
def tokJ : Bst.Tok → Json
  | .int v => obj [("i", int v)]
  | .str v => obj [("s", strToJson v)]
  | .quoted n => obj [("q", strToJson n)]
  | .name n => obj [("n", strToJson n)]
  | .fn body => obj [("f", Json.arr (toksJ body).toArray)]
def toksJ : List Bst.Tok → List Json
  | [] => []
  | t :: ts => tokJ t :: toksJ ts
end

def valJ : Val → Json
  | .int n => obj [("i", int n)]
  | .str x => obj [("s", strToJson x)]
  | .missing n => obj [("m", strToJson n)]
  | .fn body => obj [("f", Json.arr (toksJ body).toArray)]
  | .ref n => obj [("q", strToJson (lower n))]

/-- a function value given by the source text of its body: parsed as `FUNCTION {x} {<src>}` by the C15 model
(`parse_string`), as the harness does with the real parser -/
def fnOfSrc (src : Str) : Except String (List Bst.Tok) :=
  match Bst.parseString ("FUNCTION {x} {".toList ++ src ++ "}".toList) with
  | .ok [⟨_, [_, body]⟩] => pure body
  | _ => throw "function body does not parse"

def jsonToVal (j : Json) : Except String Val := do
  match j.getObjVal? "i" with
  | .ok n => pure (.int (← n.getInt?))
  | .error _ =>
  match j.getObjVal? "s" with
  | .ok x => pure (.str (← jsonToStr x))
  | .error _ =>
  match j.getObjVal? "m" with
  | .ok x => pure (.missing (← jsonToStr x))
  | .error _ =>
  match j.getObjVal? "q" with
  | .ok x => pure (.ref (← jsonToStr x))
  | .error _ =>
  match j.getObjVal? "f" with
  | .ok x => pure (.fn (← fnOfSrc (← jsonToStr x)))
  | .error _ => throw "value expected"

def pairJ (p : Str × Val) : Json := arr [strToJson p.1, valJ p.2]

def globalsOf (s : St) : List Json :=
  s.vars.dict.filterMap fun p =>
    match p.2 with
    | .gint v => some (arr [strToJson p.1, valJ (.int v)])
    | .gstr v => some (arr [strToJson p.1, valJ v])
    | _ => none

def bstbuiltin (j : Json) : Except String Json := do
  let decls ← getStr j "decls"
  let name ← getStr j "name"
  let fuel ← getNat j "fuel"
  let vals ← (← getArr j "stack").mapM jsonToVal
  match Bst.parseString decls with
  | .error _ => pure (obj [("out", obj [("error", arr [Json.str "BST-SYNTAX", Json.str ""])])])
  | .ok prog =>
    match runProgram fuel noInput prog fresh with
    | .error e => pure (obj [("out", obj [("error", ierrJ e)]), ("stage", Json.str "decls")])
    | .ok s0 =>
      let s1 ← match j.getObjVal? "entry" with
        | .ok (Json.obj _) => do
          let e ← j.getObjVal? "entry"
          let fields ← (← getArr e "fields").mapM fun f => do
            let a ← f.getArr?
            pure ((← jsonToStr a[0]!), (← jsonToStr a[1]!))
          pure (withEntry s0 (← getStr e "key") (← getStr e "type") fields)
        | _ => pure s0
      let s1 := { s1 with preamble := ← (match j.getObjVal? "preamble" with | .ok p => jsonToStr p | .error _ => pure []) }
      match applyNamed fuel name (withStack s1 vals) with
      | .error e => pure (obj [("out", obj [("error", ierrJ e)])])
      | .ok s =>
        let frame := match s.cur with | some k => frameOf s k | none => []
        pure (obj [("out", obj [("stack", arr (s.stack.reverse.map valJ)), ("buffer", strs s.buffer), ("lines", strs s.lines),
                                ("reports", arr (s.reports.map reportJ)), ("printed", strs s.printed),
                                ("globals", arr (globalsOf s)), ("entryvars", arr (frame.map pairJ))])])

def bstsort (j : Json) : Except String Json := do
  let cites ← (← getArr j "cites").mapM fun c => do
    let a ← c.getArr?
    let k ← jsonToStr a[0]!
    match a[1]! with
    | Json.null => pure (k, none)
    | x => pure (k, some (← jsonToStr x))
  match sortOnly cites with
  | .error e => pure (obj [("out", obj [("error", ierrJ e)])])
  | .ok l => pure (obj [("out", obj [("citations", strs l)])])

def handlers : List (String × (Json → Except String Json)) :=
  [("bstrun", bstrun), ("bstbuiltin", bstbuiltin), ("bstsort", bstsort)]

end Pybtex.Drv.C03
