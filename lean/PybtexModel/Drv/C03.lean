import PybtexModel.Drv.Json
import PybtexModel.Drv.C01
import PybtexModel.Model.Interp
open Lean
namespace Pybtex.Drv.C03
open Pybtex.Interp

def reportJ : Interp.Report → Json
  | .warning m => arr [Json.str "BibTeXError", strToJson m]
  | .bib e =>
    match C01.errJ e with
    | Json.arr a => arr [a[0]!, a[2]!]
    | j => j
  | .data (.repeated k) => arr [Json.str "BibliographyDataError", strToJson ("repeated bibliography entry: ".toList ++ k)]
  | .data (.badCrossref k x) =>
    arr [Json.str "BibliographyDataError",
         strToJson ("bad cross-reference: entry \"".toList ++ k ++ "\" refers to entry \"".toList ++ x ++ "\" which does not exist.".toList)]
  | .data (.missingEntry k) => arr [Json.str "BibTeXError", strToJson ("missing database entry for \"".toList ++ k ++ "\"".toList)]
  | .invalidName n => arr [Json.str "InvalidNameString", strToJson n]

def ierrJ : IErr → Json
  | .bibtex m => arr [Json.str "BibTeXError", Json.str m]
  | .syntax c => arr [Json.str c, Json.str ""]
  | .internal w => arr [Json.str "INTERNAL", Json.str w]
  | .outOfFuel => arr [Json.str "OUT-OF-FUEL", Json.str ""]

def bstrun (j : Json) : Except String Json := do
  let bst ← getStr j "bst"
  let bibs ← getStrList j "bibs"
  let cites ← getStrList j "citations"
  let mc ← getInt j "min_crossrefs"
  let fuel ← getNat j "fuel"
  match Bst.parseFile bst with
  | .error _ => pure (obj [("out", obj [("error", arr [Json.str "BST-SYNTAX", Json.str ""])])])
  | .ok prog =>
    match run fuel prog { bibTexts := bibs, citations := cites, minCrossrefs := mc } with
    | .error (e, _) => pure (obj [("out", obj [("error", ierrJ e)])])
    | .ok o =>
      pure (obj [("out", obj [("bbl", strToJson o.bbl), ("reports", arr (o.reports.map reportJ)),
                              ("printed", strs o.printed)])])

def handlers : List (String × (Json → Except String Json)) := [("bstrun", bstrun)]

end Pybtex.Drv.C03
