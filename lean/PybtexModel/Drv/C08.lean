/-
Driver op `richtext` (property C08): a JSON tree of nested constructor calls + a list of
operations applied on top of one another.  For the initial object and after every operation
the reply gives, under `out`, what the *model* of the code computes (class, normal-form tree,
rendering with the tracing backend, `str`, `len`, op-specific result) and, under `spec`, the
same observables computed by plain list operations on the string of (atom, markup) pairs,
starting from the denotation of the raw tree (no normalisation, no parts).

tree  ::= "chars" | {"y": name} | {"k": "text"|"tag"|"href"|"prot", "n": name, "u": url, "e": bool, "p": [tree…]}
operand ::= tree | {"self": true}   (the current object itself)

The model runs with the interpreter's Unicode case mapping / letters (`uniCase`, `Model/RichTextU.lean`).  For `split` the
spec gives `parts` = the pieces under the part-wise reading (an occurrence of the separator counts only inside one markup:
what the code documents) and `full` = the pieces the Python string operation gives on the characters when they differ;
for `startswith` / `endswith` / `contains` it gives `part` and `full` in the same sense (`Spec/RichTextU.lean`).
-/
import PybtexModel.Drv.Json
import PybtexModel.Spec.RichText
import PybtexModel.Spec.RichTextU
import PybtexModel.Gen.RichText
import PybtexModel.Spec.RichTextApi
open Lean
namespace Pybtex.Drv.C08
open Pybtex.RT

/-- parse a raw tree (the recursion is bounded by `fuel` = maximal nesting accepted by the wire
format; this is I/O glue, not part of the model). -/
def parseTree : Nat → Json → Except String RT
  | 0, _ => throw "tree nested too deeply for the driver"
  | fuel + 1, j =>
    match j with
    | .str s => pure (.str s.toList)
    | _ => do
      match j.getObjVal? "y" with
      | .ok y => pure (.sym (← jsonToStr y))
      | .error _ =>
        let k ← (← j.getObjVal? "k").getStr?
        let ps ← (← getArr j "p").mapM (parseTree fuel)
        match k with
        | "text" => pure (.node .text ps)
        | "tag" => pure (.node (.tag (← getStr j "n")) ps)
        | "href" => pure (.node (.href (← getStr j "u") (← getBool j "e")) ps)
        | "prot" => pure (.node .prot ps)
        | _ => throw s!"unknown kind {k}"

def tree (j : Json) : Except String RT := parseTree 64 j

def kindFields : Kind → List (String × Json)
  | .text => [("k", Json.str "text")]
  | .tag n => [("k", Json.str "tag"), ("n", strToJson n)]
  | .href u e => [("k", Json.str "href"), ("u", strToJson u), ("e", Json.bool e)]
  | .prot => [("k", Json.str "prot")]

mutual
def treeJ : RT → Json
  | .str s => strToJson s
  | .sym n => obj [("y", strToJson n)]
  | .node k ps => obj (kindFields k ++ [("p", arr (treeJL ps))])
def treeJL : List RT → List Json
  | [] => []
  | p :: ps => treeJ p :: treeJL ps
end

def topJ : Top → Json
  | .string => arr [Json.str "String"]
  | .symbol => arr [Json.str "Symbol"]
  | .multi .text => arr [Json.str "Text"]
  | .multi (.tag n) => arr [Json.str "Tag", strToJson n]
  | .multi (.href u e) => arr [Json.str "HRef", strToJson u, Json.bool e]
  | .multi .prot => arr [Json.str "Protected"]

def markupJ : Markup → Json
  | .tag n => arr [Json.str "tag", strToJson n]
  | .href u e => arr [Json.str "href", strToJson u, Json.bool e]
  | .prot => arr [Json.str "prot"]

def atomJ : Atom → Json
  | .ch c => strToJson [c]
  | .sym n => obj [("y", strToJson n)]

/-- Wire format of a string of pairs: maximal runs of characters inside the same markup are
sent as one `[stack, "chars"]` entry, a symbol as `[stack, {"y": name}]` (a bijective
re-encoding of the list of pairs; the harness applies the same grouping to what the real
tracing backend returns). `cur` = pending run (stack, reversed characters). -/
def runsGo : Flat → Option (List Markup × Str) → List Json
  | [], none => []
  | [], some (st, cs) => [arr [arr (st.map markupJ), strToJson cs.reverse]]
  | (.ch c, st) :: r, none => runsGo r (some (st, [c]))
  | (.ch c, st) :: r, some (st', cs) =>
    if st = st' then runsGo r (some (st', c :: cs))
    else arr [arr (st'.map markupJ), strToJson cs.reverse] :: runsGo r (some (st, [c]))
  | (.sym n, st) :: r, none => arr [arr (st.map markupJ), atomJ (.sym n)] :: runsGo r none
  | (.sym n, st) :: r, some (st', cs) =>
    arr [arr (st'.map markupJ), strToJson cs.reverse] :: arr [arr (st.map markupJ), atomJ (.sym n)] :: runsGo r none

def flatJ (s : Flat) : Json := arr (runsGo s none)

def optFlatJ : Option Flat → Json
  | none => Json.str "KeyError"
  | some s => flatJ s

/-
Observables travel as compact JSON *texts* (one string per value) so that the harness can compare
them without building object trees: `t` = the normal-form tree (model only), `v` = class, string
of pairs, `str`, `len`.
-/
def packed (j : Json) : Json := Json.str j.compress

/-- class, rendering with the tracing backend, `str`, `len` of a model object -/
def obsModel (t : RT) : Json :=
  packed (obj [("cls", topJ (top t)), ("sem", optFlatJ (render traceBackend t)),
               ("str", strToJson (toStr t)), ("len", nat (len t))])

/-- the same observables of an abstract value -/
def obsSpec (a : Abs) : Json :=
  packed (obj [("cls", topJ a.top), ("sem", flatJ a.atoms), ("str", strToJson (Flat.toStr a.atoms)),
               ("len", nat a.atoms.length)])

def snapModel (t : RT) (res : Json) : Json :=
  obj [("t", packed (treeJ t)), ("v", obsModel t), ("r", res)]
def snapSpec (a : Abs) (res : Json) : Json := obj [("v", obsSpec a), ("r", res)]

def partModel (t : RT) : Json :=
  arr [packed (treeJ t), packed (obj [("cls", topJ (top t)), ("sem", optFlatJ (render traceBackend t))])]
def partSpec (a : Abs) : Json := packed (obj [("cls", topJ a.top), ("sem", flatJ a.atoms)])

def optInt (j : Json) (k : String) : Except String (Option Int) := do
  match j.getObjVal? k with
  | .error _ => pure none
  | .ok .null => pure none
  | .ok v => pure (some (← v.getInt?))

def optBool (j : Json) (k : String) : Except String (Option Bool) := do
  match j.getObjVal? k with
  | .error _ => pure none
  | .ok .null => pure none
  | .ok v => pure (some (← v.getBool?))

def optNat (j : Json) (k : String) : Except String (Option Nat) := do
  match j.getObjVal? k with
  | .error _ => pure none
  | .ok .null => pure none
  | .ok v => pure (some (← v.getNat?))

def parseSep (j : Json) : Except String Sep := do
  match j.getObjVal? "sep" with
  | .error _ => pure .ws
  | .ok .null => pure .ws
  | .ok v =>
    match (← jsonToStr v) with
    | [] => throw "empty separator is outside the modelled domain (str.split raises ValueError)"
    | c :: cs => pure (.lit c cs)

/-- `"re": "delim" | "dashes"`: split at a compiled pattern -/
def parseRe (j : Json) : Except String (Option Re) := do
  match j.getObjVal? "re" with
  | .error _ => pure none
  | .ok .null => pure none
  | .ok (.str "delim") => pure (some .delim)
  | .ok (.str "dashes") => pure (some .dashes)
  | .ok _ => throw "unknown compiled pattern"

def terms : List Str := Pybtex.Gen.terminators

/-- the case mapping / letters the real code runs with: the interpreter's tables -/
def cs : CaseSys := uniCase

def errJ : Err → Json
  | .indexError => Json.str "IndexError"

/-- an operand: a tree of constructor calls (the object built from it / its denotation) or `{"self": true}` = the
current object itself -/
def operand (t : RT) (a : Abs) (j : Json) : Except String (RT × Abs) := do
  match j.getObjVal? "self" with
  | .ok _ => pure (t, a)
  | .error _ => let x ← tree j; pure (build x, abs x)

def absListJ (ps : List Abs) : Json := arr (ps.map partSpec)

/-- one step on both sides: (new model object, model res, new abstract value, spec res) -/
def stepBoth (t : RT) (a : Abs) (j : Json) : Except String (RT × Json × Abs × Json) := do
  let o ← (← j.getObjVal? "o").getStr?
  let simple (op : OpG) (aop : AbsOpG) : Except String (RT × Json × Abs × Json) :=
    let m := match RT.stepG cs terms t op with
      | .ok t' => (t', Json.null)
      | .error e => (t, errJ e)
    let s := match Abs.stepG cs terms a aop with
      | .ok a' => (a', Json.null)
      | .error e => (a, errJ e)
    pure (m.1, m.2, s.1, s.2)
  match o with
  | "add" => let x ← operand t a (← j.getObjVal? "x"); simple (.add x.1) (.add x.2)
  | "radd" => let x ← operand t a (← j.getObjVal? "x"); simple (.radd x.1) (.radd x.2)
  | "append" => let x ← operand t a (← j.getObjVal? "x"); simple (.append x.1) (.append x.2)
  | "join" =>
    let xs ← (← getArr j "xs").mapM (operand t a)
    simple (.joinWith (xs.map (·.1))) (.joinWith (xs.map (·.2)))
  | "slice" => let i ← optInt j "i"; let k ← optInt j "j"; simple (.slice i k) (.slice i k)
  | "index" => let i ← getInt j "i"; simple (.index i) (.index i)
  | "upper" => simple .upper .upper
  | "lower" => simple .lower .lower
  | "capfirst" => simple .capfirst .capfirst
  | "capitalize" => simple .capitalize .capitalize
  | "add_period" =>
    match j.getObjVal? "x" with
    | .error _ => simple (.addPeriod (.str ['.'])) (.addPeriod Abs.periodAbs)
    | .ok xj => let x ← operand t a xj; simple (.addPeriod x.1) (.addPeriod x.2)
  | "abbreviate" => simple .abbreviate .abbreviate
  | "split" =>
    let keep ← optBool j "keep"
    let pick ← optNat j "pick"
    match (← parseRe j) with
    | some re =>
      let kd := keepRe keep
      let parts := splitRe re t keep
      let partsS := Abs.splitReG true re kd a
      let partsF := Abs.splitReG false re kd a
      let resM := obj [("parts", arr (parts.map partModel)), ("rejoin", Json.null)]
      let resS := obj [("parts", absListJ partsS), ("full", if partsF = partsS then Json.null else absListJ partsF),
                       ("rejoin", Json.null)]
      match pick with
      | none => pure (t, resM, a, resS)
      | some k => pure (RT.pickOf parts k t, resM, Abs.pickOf partsS k a, resS)
    | none =>
      let sep ← parseSep j
      let kd := keepDefault sep keep
      let parts := split sep t keep
      let rejoinM : Json := match sep with
        | .ws => Json.null
        | .lit c cs => packed (optFlatJ (render traceBackend (join (.str (c :: cs)) parts)))
      let resM := obj [("parts", arr (parts.map partModel)), ("rejoin", rejoinM)]
      let partsS := Abs.splitG true sep kd a
      let partsF := Abs.splitG false sep kd a
      let rejoinS : Json := match sep with
        | .lit c cs =>
          if kd then packed (flatJ (Abs.join ⟨.string, (c :: cs).map fun d => (.ch d, [])⟩ partsS).atoms) else Json.null
        | _ => Json.null
      let resS := obj [("parts", absListJ partsS), ("full", if partsF = partsS then Json.null else absListJ partsF),
                       ("rejoin", rejoinS)]
      match pick with
      | none => pure (t, resM, a, resS)
      | some k => pure (RT.pickOf parts k t, resM, Abs.pickOf partsS k a, resS)
  | "startswith" =>
    let ps ← getStrList j "p"
    pure (t, Json.bool (startsWith ps t), a,
          obj [("part", Json.bool (Abs.startsWith ps a)), ("full", Json.bool (Abs.startsWithFull ps a))])
  | "endswith" =>
    let ps ← getStrList j "p"
    pure (t, Json.bool (endsWith ps t), a,
          obj [("part", Json.bool (Abs.endsWith ps a)), ("full", Json.bool (Abs.endsWithFull ps a))])
  | "contains" =>
    let s ← getStr j "s"
    pure (t, Json.bool (contains s t), a,
          obj [("part", Json.bool (Abs.contains s a)), ("full", Json.bool (Abs.containsFull s a))])
  | "isalpha" => pure (t, Json.bool (isAlphaG cs.alpha t), a, Json.bool (Abs.isAlphaG cs.alpha a))
  | "eq" =>
    let x ← operand t a (← j.getObjVal? "x")
    let e : Bool := decide (a = x.2)
    pure (t, arr [Json.bool (eqVal t (.text x.1)), Json.bool (eqVal x.1 (.text t))], a, arr [Json.bool e, Json.bool e])
  | "eqnt" =>
    -- `cur == v` and `v == cur` for a Python value `v` that is not a rich text: False, nothing raised
    pure (t, arr [Json.bool (eqVal t .other), Json.bool (eqVal t .other)], a, arr [Json.bool false, Json.bool false])
  | _ => throw s!"unknown richtext op {o}"

/-- first-occurrence de-duplication of a list of results: (distinct values, index of each result).
Results are compared through their compact rendering. -/
def dedupGo : List Json → List (String × Json) → List Nat → List Json × List Nat
  | [], seen, idx => (seen.reverse.map (·.2), idx.reverse)
  | j :: js, seen, idx =>
    let key := j.compress
    match seen.findIdx? (·.1 == key) with
    | some k => dedupGo js seen ((seen.length - 1 - k) :: idx)
    | none => dedupGo js ((key, j) :: seen) (seen.length :: idx)

def tableJ (results : List Json) : Json :=
  let r := dedupGo results [] []
  obj [("vals", arr r.1), ("idx", arr (r.2.map nat))]

def intRange (lo hi : Int) : List Int := (List.range (hi - lo + 1).toNat).map fun (k : Nat) => lo + (k : Int)

/-- the bounds tried by `slicetab`: `None` first, then `lo … hi` -/
def boundList (lo hi : Int) : List (Option Int) := none :: (intRange lo hi).map some

def valModel (t : RT) : Json := arr [packed (treeJ t), obsModel t]
def valSpec (a : Abs) : Json := obsSpec a
def errModel (e : Err) : Json := arr [Json.str "", errJ e]

/-- queries that produce whole tables: every slice / every index in a range -/
def tableOps (t : RT) (a : Abs) (j : Json) (o : String) : Except String (Option (Json × Json)) := do
  match o with
  | "slicetab" =>
    let lo ← getInt j "lo"; let hi ← getInt j "hi"
    let bs := boundList lo hi
    let pairs := bs.flatMap fun i => bs.map fun k => (i, k)
    pure (some (tableJ (pairs.map fun p => valModel (getSlice t p.1 p.2)),
                tableJ (pairs.map fun p => valSpec (Abs.slice a p.1 p.2))))
  | "indextab" =>
    let lo ← getInt j "lo"; let hi ← getInt j "hi"
    let is := intRange lo hi
    pure (some (tableJ (is.map fun i => match getIndex t i with
                  | .ok r => valModel r
                  | .error e => errModel e),
                tableJ (is.map fun i => match Abs.index a i with
                  | .ok r => valSpec r
                  | .error e => errJ e)))
  | _ => pure none

def stepAny (t : RT) (a : Abs) (j : Json) : Except String (RT × Json × Abs × Json) := do
  let o ← (← j.getObjVal? "o").getStr?
  match (← tableOps t a j o) with
  | some (m, s) => pure (t, m, a, s)
  | none => stepBoth t a j

/-- operations that leave the current object as it is report only their result -/
def isQuery (j : Json) : Bool :=
  match j.getObjVal? "o" with
  | .ok (.str o) =>
    if o == "split" then (match j.getObjVal? "pick" with | .ok .null => true | .error _ => true | _ => false)
    else ["eq", "eqnt", "startswith", "endswith", "contains", "isalpha", "slicetab", "indextab"].contains o
  | _ => false

def snapM (j : Json) (t : RT) (res : Json) : Json :=
  if isQuery j then obj [("r", res)] else snapModel t res
def snapS (j : Json) (a : Abs) (res : Json) : Json :=
  if isQuery j then obj [("r", res)] else snapSpec a res

def runBoth (t : RT) (a : Abs) : List Json → Except String (List Json × List Json)
  | [] => pure ([], [])
  | j :: js => do
    let r ← stepAny t a j
    let rest ← runBoth r.1 r.2.2.1 js
    pure (snapM j r.1 r.2.1 :: rest.1, snapS j r.2.2.1 r.2.2.2 :: rest.2)

/-- fan mode: every operation is applied to the initial object -/
def runFan (t : RT) (a : Abs) : List Json → Except String (List Json × List Json)
  | [] => pure ([], [])
  | j :: js => do
    let r ← stepAny t a j
    let rest ← runFan t a js
    pure (snapM j r.1 r.2.1 :: rest.1, snapS j r.2.2.1 r.2.2.2 :: rest.2)

def richtext (j : Json) : Except String Json := do
  let raw ← tree (← j.getObjVal? "tree")
  let ops ← getArr j "ops"
  let t := build raw
  let a := abs raw
  let fan ← optBool j "fan"
  let r ← if fan == some true then runFan t a ops else runBoth t a ops
  pure (obj [("out", arr (snapModel t Json.null :: r.1)), ("spec", arr (snapSpec a Json.null :: r.2))])

/-! ### function-level ops for the API surface (`Model/RichTextApi.lean`) and for the helpers of the constructor / slicing -/

/-- arg ::= "chars" | {"ty": type name} | {"c": "string"|"text"|"prot", "a": [arg…]} | {"c": "symbol", "n": "name"}
         | {"c": "tag", "n": arg, "a": [arg…]} | {"c": "href", "u": arg, "e": bool, "a": [arg…]} -/
def parseArg : Nat → Json → Except String Arg
  | 0, _ => throw "expression nested too deeply for the driver"
  | fuel + 1, j =>
    match j with
    | .str s => pure (.str s.toList)
    | _ => do
      match j.getObjVal? "ty" with
      | .ok ty => pure (.other (← jsonToStr ty))
      | .error _ =>
        let c ← (← j.getObjVal? "c").getStr?
        if c == "symbol" then pure (.symbol (← getStr j "n"))
        else
          let as ← (← getArr j "a").mapM (parseArg fuel)
          match c with
          | "string" => pure (.string as)
          | "text" => pure (.text as)
          | "prot" => pure (.prot as)
          | "tag" => pure (.tag (← parseArg fuel (← j.getObjVal? "n")) as)
          | "href" => pure (.href (← parseArg fuel (← j.getObjVal? "u")) (← getBool j "e") as)
          | _ => throw s!"unknown constructor {c}"

def kerrJ : KErr → Json
  | .indexError => Json.str "IndexError"
  | .notImplemented => Json.str "NotImplementedError"
  | .typeError => Json.str "TypeError"
  | .valueError => Json.str "ValueError"

def rtCtor (j : Json) : Except String Json := do
  let a ← parseArg 64 (← j.getObjVal? "expr")
  let out : Json := match eval a with
    | .ok (.rt t) => obj [("ok", valModel t), ("warn", nat (warnings a))]
    | .ok (.str s) => obj [("str", strToJson s)]
    | .ok (.other ty) => obj [("other", strToJson ty)]
    | .error (.valueError msg) => obj [("err", Json.str "ValueError"), ("msg", strToJson msg)]
    | .error .typeError => obj [("err", Json.str "TypeError")]
  -- the reference value: class and string of pairs the expression denotes (`Spec/RichTextApi.lean`), if it is well typed
  let spec : Json := if Arg.wellTyped a then (match Arg.absOf a with
      | some x => obj [("ok", obsSpec x)]
      | none => Json.null) else obj [("err", Json.bool true)]
  pure (obj [("out", out), ("spec", spec)])

def parseKey (j : Json) : Except String Key := do
  match j.getObjVal? "int" with
  | .ok v => pure (.int (← v.getInt?))
  | .error _ =>
    match j.getObjVal? "other" with
    | .ok _ => pure .other
    | .error _ => pure (.slice (← optInt j "i") (← optInt j "j") (← optInt j "k"))

/-- `{"op": "rt_getitem", "tree": tree, "keys": [key…]}`: `text[key]` for every key; spec = the extended slice of the string of pairs -/
def rtGetitem (j : Json) : Except String Json := do
  let raw ← tree (← j.getObjVal? "tree")
  let t := build raw
  let a := abs raw
  let keys ← (← getArr j "keys").mapM parseKey
  let outs := keys.map fun k => match getItemKey t k with
    | .ok r => valModel r
    | .error e => arr [Json.str "", kerrJ e]
  let specs := keys.map fun k => match Abs.getItemKey a k with
    | .ok r => valSpec r
    | .error e => kerrJ e
  pure (obj [("out", tableJ outs), ("spec", tableJ specs)])

/-- `{"op": "rt_contains", "tree": tree, "items": ["str" | null…]}`: `item in text`; null = a value that is not a `str` -/
def rtContains (j : Json) : Except String Json := do
  let raw ← tree (← j.getObjVal? "tree")
  let t := build raw
  let items ← (← getArr j "items").mapM fun (x : Json) => match x with
    | .null => pure Item.other
    | v => do pure (Item.str (← jsonToStr v))
  let outs := items.map fun it => match containsVal t it with
    | .ok b => Json.bool b
    | .error e => kerrJ e
  pure (obj [("out", arr outs), ("spec", Json.null)])

/-- `{"op": "rt_splitbad", "tree": tree, "sep": "empty"|"type", "keep": bool|null}` -/
def rtSplitBad (j : Json) : Except String Json := do
  let raw ← tree (← j.getObjVal? "tree")
  let t := build raw
  let sep ← (← j.getObjVal? "sep").getStr?
  let bs : BadSep := if sep == "empty" then .empty else .wrongType
  let keep ← optBool j "keep"
  let out : Json := match splitBad bs t keep with
    | .ok parts => arr (parts.map partModel)
    | .error e => kerrJ e
  -- reference: raises iff the text has a String outside Protected; otherwise nothing is split
  let spec : Json := if hasFreeStr t then kerrJ bs.err else Json.null
  pure (obj [("out", out), ("spec", spec)])

/-- `{"op": "rt_fn", "fn": "slice_beginning"|"slice_end", "tree": tree, "ns": [int…]}` (the private helpers of `__getitem__` called
directly, any integer), `{"fn": "merge_similar", "parts": [tree…]}` (`Text()._merge_similar(parts)` on built objects),
`{"fn": "typeinfo"|"unpack", "tree": tree}` -/
def rtFn (j : Json) : Except String Json := do
  let fn ← (← j.getObjVal? "fn").getStr?
  match fn with
  | "merge_similar" =>
    let ps ← (← getArr j "parts").mapM tree
    pure (obj [("out", arr ((mergeSimilar (ps.map build)).map fun p => packed (treeJ p))), ("spec", Json.null)])
  | _ =>
    let raw ← tree (← j.getObjVal? "tree")
    let t := build raw
    match fn with
    | "typeinfo" =>
      let r : Json := match typeInfo t with
        | .none => arr [Json.null]
        | .string => arr [Json.str "String"]
        | .multi k => topJ (.multi k)
      pure (obj [("out", r), ("spec", Json.null)])
    | "unpack" => pure (obj [("out", arr ((unpack t).map fun p => packed (treeJ p))), ("spec", Json.null)])
    | "slice_beginning" | "slice_end" =>
      let ns ← (← getArr j "ns").mapM fun (x : Json) => x.getInt?
      match t with
      | .node k ps =>
        let f := if fn == "slice_beginning" then sliceBeginning k ps else sliceEnd k ps
        pure (obj [("out", tableJ (ns.map fun n => valModel (f n))), ("spec", Json.null)])
      | _ => throw "slice_beginning / slice_end need a multipart text"
    | _ => throw s!"unknown fn {fn}"

/-- driver ops of this property: (op name, handler) -/
def handlers : List (String × (Json → Except String Json)) := [("richtext", richtext), ("rt_ctor", rtCtor), ("rt_getitem", rtGetitem), ("rt_contains", rtContains),
   ("rt_splitbad", rtSplitBad), ("rt_fn", rtFn)]

end Pybtex.Drv.C08
