/-
Driver op `richtext` (property C08): a JSON tree of nested constructor calls + a list of
operations applied on top of one another.  For the initial object and after every operation
the reply gives, under `out`, what the *model* of the code computes (class, normal-form tree,
rendering with the tracing backend, `str`, `len`, op-specific result) and, under `spec`, the
same observables computed by plain list operations on the string of (atom, markup) pairs,
starting from the denotation of the raw tree (no normalisation, no parts).

tree  ::= "chars" | {"y": name} | {"k": "text"|"tag"|"href"|"prot", "n": name, "u": url, "e": bool, "p": [tree…]}
-/
import PybtexModel.Drv.Json
import PybtexModel.Spec.RichText
import PybtexModel.Gen.RichText
open Lean
namespace Pybtex.Drv.C08
open Pybtex.RT

/-- parse a raw tree (the recursion is bounded by `fuel` = maximal nesting accepted by the wire
format; this is I/O glue, not part of the model). -/
def parseTree : Nat → Json → Except String RT
  | 0, _ => throw "tree nested too deeply for the driver"
  | fuel + 1, j =>
    match j with
    | .str s => pure (.str s.toList)
    | _ => do
      match j.getObjVal? "y" with
      | .ok y => pure (.sym (← jsonToStr y))
      | .error _ =>
        let k ← (← j.getObjVal? "k").getStr?
        let ps ← (← getArr j "p").mapM (parseTree fuel)
        match k with
        | "text" => pure (.node .text ps)
        | "tag" => pure (.node (.tag (← getStr j "n")) ps)
        | "href" => pure (.node (.href (← getStr j "u") (← getBool j "e")) ps)
        | "prot" => pure (.node .prot ps)
        | _ => throw s!"unknown kind {k}"

def tree (j : Json) : Except String RT := parseTree 64 j

def kindFields : Kind → List (String × Json)
  | .text => [("k", Json.str "text")]
  | .tag n => [("k", Json.str "tag"), ("n", strToJson n)]
  | .href u e => [("k", Json.str "href"), ("u", strToJson u), ("e", Json.bool e)]
  | .prot => [("k", Json.str "prot")]

mutual
def treeJ : RT → Json
  | .str s => strToJson s
  | .sym n => obj [("y", strToJson n)]
  | .node k ps => obj (kindFields k ++ [("p", arr (treeJL ps))])
def treeJL : List RT → List Json
  | [] => []
  | p :: ps => treeJ p :: treeJL ps
end

def topJ : Top → Json
  | .string => arr [Json.str "String"]
  | .symbol => arr [Json.str "Symbol"]
  | .multi .text => arr [Json.str "Text"]
  | .multi (.tag n) => arr [Json.str "Tag", strToJson n]
  | .multi (.href u e) => arr [Json.str "HRef", strToJson u, Json.bool e]
  | .multi .prot => arr [Json.str "Protected"]

def markupJ : Markup → Json
  | .tag n => arr [Json.str "tag", strToJson n]
  | .href u e => arr [Json.str "href", strToJson u, Json.bool e]
  | .prot => arr [Json.str "prot"]

def atomJ : Atom → Json
  | .ch c => strToJson [c]
  | .sym n => obj [("y", strToJson n)]

/-- Wire format of a string of pairs: maximal runs of characters inside the same markup are
sent as one `[stack, "chars"]` entry, a symbol as `[stack, {"y": name}]` (a bijective
re-encoding of the list of pairs; the harness applies the same grouping to what the real
tracing backend returns). `cur` = pending run (stack, reversed characters). -/
def runsGo : Flat → Option (List Markup × Str) → List Json
  | [], none => []
  | [], some (st, cs) => [arr [arr (st.map markupJ), strToJson cs.reverse]]
  | (.ch c, st) :: r, none => runsGo r (some (st, [c]))
  | (.ch c, st) :: r, some (st', cs) =>
    if st = st' then runsGo r (some (st', c :: cs))
    else arr [arr (st'.map markupJ), strToJson cs.reverse] :: runsGo r (some (st, [c]))
  | (.sym n, st) :: r, none => arr [arr (st.map markupJ), atomJ (.sym n)] :: runsGo r none
  | (.sym n, st) :: r, some (st', cs) =>
    arr [arr (st'.map markupJ), strToJson cs.reverse] :: arr [arr (st.map markupJ), atomJ (.sym n)] :: runsGo r none

def flatJ (s : Flat) : Json := arr (runsGo s none)

def optFlatJ : Option Flat → Json
  | none => Json.str "KeyError"
  | some s => flatJ s

/-
Observables travel as compact JSON *texts* (one string per value) so that the harness can compare
them without building object trees: `t` = the normal-form tree (model only), `v` = class, string
of pairs, `str`, `len`.
-/
def packed (j : Json) : Json := Json.str j.compress

/-- class, rendering with the tracing backend, `str`, `len` of a model object -/
def obsModel (t : RT) : Json :=
  packed (obj [("cls", topJ (top t)), ("sem", optFlatJ (render traceBackend t)),
               ("str", strToJson (toStr t)), ("len", nat (len t))])

/-- the same observables of an abstract value -/
def obsSpec (a : Abs) : Json :=
  packed (obj [("cls", topJ a.top), ("sem", flatJ a.atoms), ("str", strToJson (Flat.toStr a.atoms)),
               ("len", nat a.atoms.length)])

def snapModel (t : RT) (res : Json) : Json :=
  obj [("t", packed (treeJ t)), ("v", obsModel t), ("r", res)]
def snapSpec (a : Abs) (res : Json) : Json := obj [("v", obsSpec a), ("r", res)]

def partModel (t : RT) : Json :=
  arr [packed (treeJ t), packed (obj [("cls", topJ (top t)), ("sem", optFlatJ (render traceBackend t))])]
def partSpec (a : Abs) : Json := packed (obj [("cls", topJ a.top), ("sem", flatJ a.atoms)])

def optInt (j : Json) (k : String) : Except String (Option Int) := do
  match j.getObjVal? k with
  | .error _ => pure none
  | .ok .null => pure none
  | .ok v => pure (some (← v.getInt?))

def optBool (j : Json) (k : String) : Except String (Option Bool) := do
  match j.getObjVal? k with
  | .error _ => pure none
  | .ok .null => pure none
  | .ok v => pure (some (← v.getBool?))

def optNat (j : Json) (k : String) : Except String (Option Nat) := do
  match j.getObjVal? k with
  | .error _ => pure none
  | .ok .null => pure none
  | .ok v => pure (some (← v.getNat?))

def parseSep (j : Json) : Except String Sep := do
  match j.getObjVal? "sep" with
  | .error _ => pure .ws
  | .ok .null => pure .ws
  | .ok v =>
    match (← jsonToStr v) with
    | [] => throw "empty separator is outside the modelled domain (str.split raises ValueError)"
    | c :: cs => pure (.lit c cs)

/-- is the abstract `split` specified for this separator / `keep_empty_parts`? -/
def splitSpecified (sep : Sep) (keep : Bool) : Bool :=
  match sep with
  | .ws => !keep
  | .lit _ [] => true
  | .lit _ _ => false

def terms : List Str := Pybtex.Gen.terminators

def errJ : Err → Json
  | .indexError => Json.str "IndexError"

/-- one step on both sides: (new model object, model res, new abstract value, spec res) -/
def stepBoth (t : RT) (a : Abs) (j : Json) : Except String (RT × Json × Abs × Json) := do
  let o ← (← j.getObjVal? "o").getStr?
  let simple (op : Op) : Except String (RT × Json × Abs × Json) :=
    let m := match RT.step terms t op with
      | .ok t' => (t', Json.null)
      | .error e => (t, errJ e)
    let s := match Abs.step terms a op.abs with
      | .ok a' => (a', Json.null)
      | .error e => (a, errJ e)
    pure (m.1, m.2, s.1, s.2)
  match o with
  | "add" => let x ← tree (← j.getObjVal? "x"); let r ← simple (.add (build x)); pure (r.1, r.2.1, Abs.add a (abs x), r.2.2.2)
  | "radd" => let x ← tree (← j.getObjVal? "x"); let r ← simple (.radd (build x)); pure (r.1, r.2.1, Abs.add (abs x) a, r.2.2.2)
  | "append" => let x ← tree (← j.getObjVal? "x"); let r ← simple (.append (build x)); pure (r.1, r.2.1, Abs.append a (abs x), r.2.2.2)
  | "join" =>
    let xs ← (← getArr j "xs").mapM tree
    let r ← simple (.joinWith (xs.map build))
    pure (r.1, r.2.1, Abs.join a (xs.map abs), r.2.2.2)
  | "slice" => simple (.slice (← optInt j "i") (← optInt j "j"))
  | "index" => simple (.index (← getInt j "i"))
  | "upper" => simple .upper
  | "lower" => simple .lower
  | "capfirst" => simple .capfirst
  | "capitalize" => simple .capitalize
  | "add_period" => simple .addPeriod
  | "split" =>
    let sep ← parseSep j
    let keep ← optBool j "keep"
    let pick ← optNat j "pick"
    let kd := keepDefault sep keep
    let parts := split sep t keep
    let rejoinM : Json := match sep with
      | .ws => Json.null
      | .lit c cs => packed (optFlatJ (render traceBackend (join (.str (c :: cs)) parts)))
    let resM := obj [("parts", arr (parts.map partModel)), ("rejoin", rejoinM)]
    let specified := splitSpecified sep kd
    let partsS := Abs.split sep kd a
    let rejoinS : Json := match sep with
      | .lit c [] =>
        if kd then packed (flatJ (Abs.join ⟨.string, [(.ch c, [])]⟩ partsS).atoms) else Json.null
      | _ => Json.null
    let resS := if specified then obj [("parts", arr (partsS.map partSpec)), ("rejoin", rejoinS)]
                else obj [("rejoin", rejoinS)]
    match pick with
    | none => pure (t, resM, a, resS)
    | some k =>
      if !specified then throw "split with pick needs a specified separator" else
      let t' := match parts[k % parts.length]? with
        | some p => p
        | none => t
      let a' := match partsS[k % partsS.length]? with
        | some p => p
        | none => a
      pure (t', resM, a', resS)
  | "startswith" =>
    let ps ← getStrList j "p"
    pure (t, Json.bool (startsWith ps t), a, Json.bool (Abs.startsWith ps a))
  | "endswith" =>
    let ps ← getStrList j "p"
    pure (t, Json.bool (endsWith ps t), a, Json.bool (Abs.endsWith ps a))
  | "contains" =>
    let s ← getStr j "s"
    pure (t, Json.bool (contains s t), a, Json.bool (Abs.contains s a))
  | "isalpha" => pure (t, Json.bool (isAlphaT t), a, Json.bool (Abs.isAlpha a))
  | "eq" =>
    let x ← tree (← j.getObjVal? "x")
    let u := build x
    let e : Bool := decide (a = abs x)
    pure (t, arr [Json.bool (eq t u), Json.bool (eq u t)], a, arr [Json.bool e, Json.bool e])
  | _ => throw s!"unknown richtext op {o}"

/-- first-occurrence de-duplication of a list of results: (distinct values, index of each result).
Results are compared through their compact rendering. -/
def dedupGo : List Json → List (String × Json) → List Nat → List Json × List Nat
  | [], seen, idx => (seen.reverse.map (·.2), idx.reverse)
  | j :: js, seen, idx =>
    let key := j.compress
    match seen.findIdx? (·.1 == key) with
    | some k => dedupGo js seen ((seen.length - 1 - k) :: idx)
    | none => dedupGo js ((key, j) :: seen) (seen.length :: idx)

def tableJ (results : List Json) : Json :=
  let r := dedupGo results [] []
  obj [("vals", arr r.1), ("idx", arr (r.2.map nat))]

def intRange (lo hi : Int) : List Int := (List.range (hi - lo + 1).toNat).map fun (k : Nat) => lo + (k : Int)

/-- the bounds tried by `slicetab`: `None` first, then `lo … hi` -/
def boundList (lo hi : Int) : List (Option Int) := none :: (intRange lo hi).map some

def valModel (t : RT) : Json := arr [packed (treeJ t), obsModel t]
def valSpec (a : Abs) : Json := obsSpec a
def errModel (e : Err) : Json := arr [Json.str "", errJ e]

/-- queries that produce whole tables: every slice / every index in a range -/
def tableOps (t : RT) (a : Abs) (j : Json) (o : String) : Except String (Option (Json × Json)) := do
  match o with
  | "slicetab" =>
    let lo ← getInt j "lo"; let hi ← getInt j "hi"
    let bs := boundList lo hi
    let pairs := bs.flatMap fun i => bs.map fun k => (i, k)
    pure (some (tableJ (pairs.map fun p => valModel (getSlice t p.1 p.2)),
                tableJ (pairs.map fun p => valSpec (Abs.slice a p.1 p.2))))
  | "indextab" =>
    let lo ← getInt j "lo"; let hi ← getInt j "hi"
    let is := intRange lo hi
    pure (some (tableJ (is.map fun i => match getIndex t i with
                  | .ok r => valModel r
                  | .error e => errModel e),
                tableJ (is.map fun i => match Abs.index a i with
                  | .ok r => valSpec r
                  | .error e => errJ e)))
  | _ => pure none

def stepAny (t : RT) (a : Abs) (j : Json) : Except String (RT × Json × Abs × Json) := do
  let o ← (← j.getObjVal? "o").getStr?
  match (← tableOps t a j o) with
  | some (m, s) => pure (t, m, a, s)
  | none => stepBoth t a j

/-- operations that leave the current object as it is report only their result -/
def isQuery (j : Json) : Bool :=
  match j.getObjVal? "o" with
  | .ok (.str o) =>
    if o == "split" then (match j.getObjVal? "pick" with | .ok .null => true | .error _ => true | _ => false)
    else ["eq", "startswith", "endswith", "contains", "isalpha", "slicetab", "indextab"].contains o
  | _ => false

def snapM (j : Json) (t : RT) (res : Json) : Json :=
  if isQuery j then obj [("r", res)] else snapModel t res
def snapS (j : Json) (a : Abs) (res : Json) : Json :=
  if isQuery j then obj [("r", res)] else snapSpec a res

def runBoth (t : RT) (a : Abs) : List Json → Except String (List Json × List Json)
  | [] => pure ([], [])
  | j :: js => do
    let r ← stepAny t a j
    let rest ← runBoth r.1 r.2.2.1 js
    pure (snapM j r.1 r.2.1 :: rest.1, snapS j r.2.2.1 r.2.2.2 :: rest.2)

/-- fan mode: every operation is applied to the initial object -/
def runFan (t : RT) (a : Abs) : List Json → Except String (List Json × List Json)
  | [] => pure ([], [])
  | j :: js => do
    let r ← stepAny t a j
    let rest ← runFan t a js
    pure (snapM j r.1 r.2.1 :: rest.1, snapS j r.2.2.1 r.2.2.2 :: rest.2)

def richtext (j : Json) : Except String Json := do
  let raw ← tree (← j.getObjVal? "tree")
  let ops ← getArr j "ops"
  let t := build raw
  let a := abs raw
  let fan ← optBool j "fan"
  let r ← if fan == some true then runFan t a ops else runBoth t a ops
  pure (obj [("out", arr (snapModel t Json.null :: r.1)), ("spec", arr (snapSpec a Json.null :: r.2))])

/-- driver ops of this property: (op name, handler) -/
def handlers : List (String × (Json → Except String Json)) := [("richtext", richtext)]

end Pybtex.Drv.C08
