import PybtexModel.Drv.Json
import PybtexModel.Drv.C03
import PybtexModel.Drv.C20
import PybtexModel.Model.Engine
import PybtexModel.Model.EngineOut
open Lean
namespace Pybtex.Drv.C06
open Pybtex.Engine Pybtex.EnginePaths

def lookupFile (l : List (Str × α)) (p : Str) : Option α := (l.find? fun x => x.1 = p).map (·.2)

def parsePerson (j : Json) : Except String Person := do
  let a ← j.getArr?
  let g := fun (i : Nat) => do
    let l ← (a[i]!).getArr?
    l.toList.mapM jsonToStr
  pure { first := ← g 0, middle := ← g 1, prelast := ← g 2, last := ← g 3, lineage := ← g 4 }

def parseEntry (j : Json) : Except String (Str × Bib.Entry) := do
  let key ← getStr j "key"
  let ty ← getStr j "type"
  let ot ← getStr j "orig_type"
  let fields ← (← getArr j "fields").mapM fun f => do
    let a ← f.getArr?
    pure ((← jsonToStr a[0]!), (← jsonToStr a[1]!))
  let persons ← (← getArr j "persons").mapM fun r => do
    let a ← r.getArr?
    let ps ← (← (a[1]!).getArr?).toList.mapM parsePerson
    pure ((← jsonToStr a[0]!), ps)
  pure (key, { key := key, type := ty, origType := ot, fields := fields, persons := persons })

def errJ : Engine.Err → Json
  | .aux a => arr [Json.str "AUX", Drv.C20.fatalJ a.fatal]
  | .cannotOpen p => arr [Json.str "PybtexError", strToJson p]
  | .bstSyntax => arr [Json.str "BST-SYNTAX", Json.null]
  | .run e => arr [Json.str "RUN", C03.ierrJ e]

def obsJ (o : SortObs) : Json :=
  arr (o.map fun p => arr [strToJson p.1, match p.2 with | some k => strToJson k | none => Json.null])

def targetJ : Except Unit Target → Json
  | .error _ => arr [Json.str "TypeError"]
  | .ok .returned => arr [Json.str "returned"]
  | .ok (.file n) => arr [Json.str "file", strToJson n]

def outJ (r : Result) (sorts : List SortObs) (auxErrors : Nat) (extra : List (String × Json) := []) : Json :=
  obj [("out", obj ([("bbl", strToJson r.bbl), ("reports", arr (r.reports.map C03.reportJ)),
                    ("printed", strs r.printed), ("aux_errors", nat auxErrors)] ++ extra)),
       ("spec", obj [("sorts", arr (sorts.map obsJ))])]

def optStr (j : Json) (k : String) : Option Str :=
  match j.getObjVal? k with
  | .ok (Json.str s) => some s.toList
  | _ => none

def optStrJ : Option Str → Json
  | none => Json.null
  | some s => strToJson s

/-- `os.path.splitext(p)`, the command line's `.aux` name, `make_bibliography`'s output name -/
def splitextOp (j : Json) : Except String Json := do
  let p ← getStr j "p"
  let r := splitext p
  pure (obj [("out", obj [("root", strToJson r.1), ("ext", strToJson r.2), ("cli_aux", strToJson (cliAuxName p)),
    ("bbl", targetJ (outputTarget (some r.1) true)), ("bst", strToJson (bstName p)),
    ("has_non_dot", Json.bool (metNonDot Gen.osExtsep (p.drop (rfind Gen.osSep p + 1).toNat)))])])

/-- the output side of `format_from_files(…, output_filename, add_output_suffix)` -/
def targetOp (j : Json) : Except String Json := do
  let add ← getBool j "add_output_suffix"
  -- with a `style` the whole call is modelled on an EMPTY file system: the style file cannot be opened, and that error of the
  -- run comes before anything the output name can raise (`formatFromFilesTo`)
  if let some style := optStr j "style" then
    match formatFromFilesTo ⟨fun _ => none, fun _ => none⟩ [] style [] 2 none (optStr j "output_filename") add with
    | .error (.engine e) => return obj [("out", obj [("target", arr [Json.str "error", arr [(errJ e).getArrVal? 0 |>.toOption.getD Json.null], Json.null])])]
    | .error _ => return obj [("out", obj [("target", arr [Json.str "TypeError"])])]
    | .ok (o, _) => return obj [("out", obj [("target", match o.written with | some (n, _) => arr [Json.str "file", strToJson n] | none => arr [Json.str "returned"])])]
  pure (obj [("out", obj [("target", targetJ (outputTarget (optStr j "output_filename") add))])])

/-- `PybtexCommandLine.run` up to the call of `engine.make_bibliography` -/
def cliRunOp (j : Json) : Except String Json := do
  let filename ← getStr j "filename"
  let lang ← getStr j "style_language"
  let py ← (← getArr j "pythonic").mapM fun b => match b with
    | Json.bool x => pure x
    | _ => throw "bool expected"
  let o : CliOptions := ⟨lang, optStr j "encoding", optStr j "bib_encoding", optStr j "bst_encoding", optStr j "output_encoding", py⟩
  match cliRun filename o with
  | .error (.unknownLanguage l) => pure (obj [("out", obj [("usage", arr [Json.str "unknown-language", strToJson l])])])
  | .error (.notSupported w) => pure (obj [("out", obj [("usage", arr [Json.str "not-supported", strToJson w])])])
  | .ok c => pure (obj [("out", obj [("call", arr [Json.str (if c.python then "pybtex" else "pybtex.bibtex"), strToJson c.filename,
      optStrJ c.bibEncoding, optStrJ c.bstEncoding, optStrJ c.outputEncoding])])])

def parseSrc (j : Json) : Except String Src := do
  let a ← j.getArr?
  let tag ← (a[0]!).getStr?
  let v ← jsonToStr a[1]!
  if tag = "file" then pure (.file v) else pure (.text v)

/-- `Interpreter.run` on the script of the style with one extra command put in front of position `pos` -/
def injectAt (prog : Bst.Program) (pos : Nat) (name : Str) : Bst.Program :=
  prog.take pos ++ ⟨name, []⟩ :: prog.drop pos

def makebib (j : Json) : Except String Json := do
  let auxFiles ← (← getArr j "aux_files").mapM fun f => do
    let a ← f.getArr?
    let ls ← (← (a[1]!).getArr?).toList.mapM jsonToStr
    pure ((← jsonToStr a[0]!), ls)
  let texts ← (← getArr j "texts").mapM fun f => do
    let a ← f.getArr?
    pure ((← jsonToStr a[0]!), (← jsonToStr a[1]!))
  let files : Files := { aux := lookupFile auxFiles, text := lookupFile texts }
  let mc ← getInt j "min_crossrefs"
  let alt ← match j.getObjVal? "alt" with
    | .ok (Json.obj _) => do
      let a ← j.getObjVal? "alt"
      let es ← (← getArr a "entries").mapM parseEntry
      let pre ← getStrList a "preamble"
      pure (some (es, pre))
    | _ => pure none
  let mode ← (← j.getObjVal? "mode").getStr?
  if mode = "aux" then
    let top ← getStr j "top"
    let so ← match j.getObjVal? "style_override" with
      | .ok (Json.str s) => pure (some s.toList)
      | _ => pure none
    -- `bib_format`: absent = the default (BibTeX) reader; otherwise the reader's suffix and database
    let fmt ← match j.getObjVal? "bib_format" with
      | .ok (Json.obj _) => do
        let f ← j.getObjVal? "bib_format"
        pure (some (⟨← getStr f "suffix", alt⟩ : Engine.Format))
      | _ => pure none
    -- where the `.bbl` goes (`makeBibliographyTo`), and what the command line called with `cli_name` would open and write
    let cliJ := match optStr j "cli_name" with
      | none => []
      | some n => [("cli_aux", strToJson (cliAuxName n)),
                   ("cli_written", targetJ (outputTarget (some (splitext (cliAuxName n)).1) true))]
    match makeBibliographyT files top (auxFiles.length + 1) so fmt mc with
    | .error e => pure (obj [("out", obj [("error", errJ e)])])
    | .ok ((r, sorts), auxReports) =>
      pure (outJ r sorts auxReports.length ([("written", targetJ (outputTarget (some (splitext top).1) true))] ++ cliJ))
  else
    let srcs ← (← getArr j "srcs").mapM parseSrc
    let style ← getStr j "style"
    let cites ← getStrList j "citations"
    if mode = "inject" then
      -- a script with an extra command, handed to `Interpreter.run` directly
      let pos ← getNat j "inject_pos"
      let name ← getStr j "inject_name"
      match files.text (style ++ ".bst".toList) with
      | none => pure (obj [("out", obj [("error", errJ (.cannotOpen style))])])
      | some bst =>
        match (parsePrefix bst).2 with
        | some _ => pure (obj [("out", obj [("error", errJ .bstSyntax)])])
        | none =>
          match interpreterRunT runFuel ⟨files, srcs, cites, mc, alt⟩ (injectAt (parsePrefix bst).1 pos name) with
          | .error e => pure (obj [("out", obj [("error", errJ e)])])
          | .ok (r, sorts) => pure (outJ r sorts 0)
    else
      match formatFromFilesT files srcs style cites mc alt with
      | .error e => pure (obj [("out", obj [("error", errJ e)])])
      | .ok (r, sorts) => pure (outJ r sorts 0)

def handlers : List (String × (Json → Except String Json)) :=
  [("makebib", makebib), ("c06_splitext", splitextOp), ("c06_target", targetOp), ("c06_clirun", cliRunOp)]

end Pybtex.Drv.C06
