import PybtexModel.Drv.Json
import PybtexModel.Drv.C03
import PybtexModel.Drv.C20
import PybtexModel.Model.Engine
open Lean
namespace Pybtex.Drv.C06
open Pybtex.Engine

def lookupFile (l : List (Str × α)) (p : Str) : Option α := (l.find? fun x => x.1 = p).map (·.2)

def parsePerson (j : Json) : Except String Person := do
  let a ← j.getArr?
  let g := fun (i : Nat) => do
    let l ← (a[i]!).getArr?
    l.toList.mapM jsonToStr
  pure { first := ← g 0, middle := ← g 1, prelast := ← g 2, last := ← g 3, lineage := ← g 4 }

def parseEntry (j : Json) : Except String (Str × Bib.Entry) := do
  let key ← getStr j "key"
  let ty ← getStr j "type"
  let ot ← getStr j "orig_type"
  let fields ← (← getArr j "fields").mapM fun f => do
    let a ← f.getArr?
    pure ((← jsonToStr a[0]!), (← jsonToStr a[1]!))
  let persons ← (← getArr j "persons").mapM fun r => do
    let a ← r.getArr?
    let ps ← (← (a[1]!).getArr?).toList.mapM parsePerson
    pure ((← jsonToStr a[0]!), ps)
  pure (key, { key := key, type := ty, origType := ot, fields := fields, persons := persons })

def errJ : Engine.Err → Json
  | .aux a => arr [Json.str "AUX", Drv.C20.fatalJ a.fatal]
  | .cannotOpen p => arr [Json.str "PybtexError", strToJson p]
  | .bstSyntax => arr [Json.str "BST-SYNTAX", Json.null]
  | .run e => arr [Json.str "RUN", C03.ierrJ e]

def obsJ (o : SortObs) : Json :=
  arr (o.map fun p => arr [strToJson p.1, match p.2 with | some k => strToJson k | none => Json.null])

def outJ (r : Result) (sorts : List SortObs) (auxErrors : Nat) : Json :=
  obj [("out", obj [("bbl", strToJson r.bbl), ("reports", arr (r.reports.map C03.reportJ)),
                    ("printed", strs r.printed), ("aux_errors", nat auxErrors)]),
       ("spec", obj [("sorts", arr (sorts.map obsJ))])]

def parseSrc (j : Json) : Except String Src := do
  let a ← j.getArr?
  let tag ← (a[0]!).getStr?
  let v ← jsonToStr a[1]!
  if tag = "file" then pure (.file v) else pure (.text v)

/-- `Interpreter.run` on the script of the style with one extra command put in front of position `pos` -/
def injectAt (prog : Bst.Program) (pos : Nat) (name : Str) : Bst.Program :=
  prog.take pos ++ ⟨name, []⟩ :: prog.drop pos

def makebib (j : Json) : Except String Json := do
  let auxFiles ← (← getArr j "aux_files").mapM fun f => do
    let a ← f.getArr?
    let ls ← (← (a[1]!).getArr?).toList.mapM jsonToStr
    pure ((← jsonToStr a[0]!), ls)
  let texts ← (← getArr j "texts").mapM fun f => do
    let a ← f.getArr?
    pure ((← jsonToStr a[0]!), (← jsonToStr a[1]!))
  let files : Files := { aux := lookupFile auxFiles, text := lookupFile texts }
  let mc ← getInt j "min_crossrefs"
  let alt ← match j.getObjVal? "alt" with
    | .ok (Json.obj _) => do
      let a ← j.getObjVal? "alt"
      let es ← (← getArr a "entries").mapM parseEntry
      let pre ← getStrList a "preamble"
      pure (some (es, pre))
    | _ => pure none
  let mode ← (← j.getObjVal? "mode").getStr?
  if mode = "aux" then
    let top ← getStr j "top"
    let so ← match j.getObjVal? "style_override" with
      | .ok (Json.str s) => pure (some s.toList)
      | _ => pure none
    -- `bib_format`: absent = the default (BibTeX) reader; otherwise the reader's suffix and database
    let fmt ← match j.getObjVal? "bib_format" with
      | .ok (Json.obj _) => do
        let f ← j.getObjVal? "bib_format"
        pure (some (⟨← getStr f "suffix", alt⟩ : Engine.Format))
      | _ => pure none
    match makeBibliographyT files top (auxFiles.length + 1) so fmt mc with
    | .error e => pure (obj [("out", obj [("error", errJ e)])])
    | .ok ((r, sorts), auxReports) => pure (outJ r sorts auxReports.length)
  else
    let srcs ← (← getArr j "srcs").mapM parseSrc
    let style ← getStr j "style"
    let cites ← getStrList j "citations"
    if mode = "inject" then
      -- a script with an extra command, handed to `Interpreter.run` directly
      let pos ← getNat j "inject_pos"
      let name ← getStr j "inject_name"
      match files.text (style ++ ".bst".toList) with
      | none => pure (obj [("out", obj [("error", errJ (.cannotOpen style))])])
      | some bst =>
        match (parsePrefix bst).2 with
        | some _ => pure (obj [("out", obj [("error", errJ .bstSyntax)])])
        | none =>
          match interpreterRunT runFuel ⟨files, srcs, cites, mc, alt⟩ (injectAt (parsePrefix bst).1 pos name) with
          | .error e => pure (obj [("out", obj [("error", errJ e)])])
          | .ok (r, sorts) => pure (outJ r sorts 0)
    else
      match formatFromFilesT files srcs style cites mc alt with
      | .error e => pure (obj [("out", obj [("error", errJ e)])])
      | .ok (r, sorts) => pure (outJ r sorts 0)

def handlers : List (String × (Json → Except String Json)) := [("makebib", makebib)]

end Pybtex.Drv.C06
