import PybtexModel.Drv.Json
import PybtexModel.Drv.C03
import PybtexModel.Drv.C20
import PybtexModel.Model.Engine
open Lean
namespace Pybtex.Drv.C06
open Pybtex.Engine

def lookupFile (l : List (Str × α)) (p : Str) : Option α := (l.find? fun x => x.1 = p).map (·.2)

def parsePerson (j : Json) : Except String Person := do
  let a ← j.getArr?
  let g := fun (i : Nat) => do
    let l ← (a[i]!).getArr?
    l.toList.mapM jsonToStr
  pure { first := ← g 0, middle := ← g 1, prelast := ← g 2, last := ← g 3, lineage := ← g 4 }

def parseEntry (j : Json) : Except String (Str × Bib.Entry) := do
  let key ← getStr j "key"
  let ty ← getStr j "type"
  let ot ← getStr j "orig_type"
  let fields ← (← getArr j "fields").mapM fun f => do
    let a ← f.getArr?
    pure ((← jsonToStr a[0]!), (← jsonToStr a[1]!))
  let persons ← (← getArr j "persons").mapM fun r => do
    let a ← r.getArr?
    let ps ← (← (a[1]!).getArr?).toList.mapM parsePerson
    pure ((← jsonToStr a[0]!), ps)
  pure (key, { key := key, type := ty, origType := ot, fields := fields, persons := persons })

def errJ : Engine.Err → Json
  | .aux a => arr [Json.str "AUX", Drv.C20.fatalJ a.fatal]
  | .cannotOpen p => arr [Json.str "PybtexError", strToJson p]
  | .bstSyntax => arr [Json.str "BST-SYNTAX", Json.null]
  | .run e => arr [Json.str "RUN", C03.ierrJ e]

def makebib (j : Json) : Except String Json := do
  let auxFiles ← (← getArr j "aux_files").mapM fun f => do
    let a ← f.getArr?
    let ls ← (← (a[1]!).getArr?).toList.mapM jsonToStr
    pure ((← jsonToStr a[0]!), ls)
  let texts ← (← getArr j "texts").mapM fun f => do
    let a ← f.getArr?
    pure ((← jsonToStr a[0]!), (← jsonToStr a[1]!))
  let files : Files := { aux := lookupFile auxFiles, text := lookupFile texts }
  let mc ← getInt j "min_crossrefs"
  let alt ← match j.getObjVal? "alt" with
    | .ok (Json.obj _) => do
      let a ← j.getObjVal? "alt"
      let es ← (← getArr a "entries").mapM parseEntry
      let pre ← getStrList a "preamble"
      pure (some (es, pre))
    | _ => pure none
  let mode ← (← j.getObjVal? "mode").getStr?
  if mode = "aux" then
    let top ← getStr j "top"
    let so ← match j.getObjVal? "style_override" with
      | .ok (Json.str s) => pure (some s.toList)
      | _ => pure none
    let suffix ← getStr j "suffix"
    match makeBibliography files top (auxFiles.length + 1) so suffix mc alt with
    | .error e => pure (obj [("out", obj [("error", errJ e)])])
    | .ok (r, auxReports) =>
      pure (obj [("out", obj [("bbl", strToJson r.bbl), ("reports", arr (r.reports.map C03.reportJ)),
                              ("printed", strs r.printed), ("aux_errors", nat auxReports.length)])])
  else
    let names ← getStrList j "bib_names"
    let style ← getStr j "style"
    let cites ← getStrList j "citations"
    match formatFromFiles files names style cites mc alt with
    | .error e => pure (obj [("out", obj [("error", errJ e)])])
    | .ok r =>
      pure (obj [("out", obj [("bbl", strToJson r.bbl), ("reports", arr (r.reports.map C03.reportJ)),
                              ("printed", strs r.printed), ("aux_errors", nat 0)])])

def handlers : List (String × (Json → Except String Json)) := [("makebib", makebib)]

end Pybtex.Drv.C06
