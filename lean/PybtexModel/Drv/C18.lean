import PybtexModel.Drv.Json
import PybtexModel.Model.World
import PybtexModel.Model.ErrorsStack
import PybtexModel.Model.NameFormat
import PybtexModel.Gen.StyleMacros
open Lean
namespace Pybtex.Drv.C18
open Pybtex.Proc

/-! ## `memohist`: a key sequence through `memoize(f, capacity)` -/

def mresJ : MRes Unit Int → Json
  | .val v => obj [("v", int v)]
  | .raised _ => Json.str "raised"
  | .internal => Json.str "INTERNAL"

/-- per call: result, did `f` run, and the closure afterwards -/
def memoSteps (cap : Nat) (f : Int → MRes Unit Int) (c : Memo Int Int) : List Int → List Json
  | [] => []
  | k :: ks =>
    let r := Memo.call cap f c k
    let ran := (dget c.memory k).isNone && (Memo.makeRoom cap c).1
    let evicted : List Int :=
      if (dget c.memory k).isNone then c.history.filter (fun x => !(Memo.makeRoom cap c).2.history.contains x) else []
    obj [("r", mresJ r.1), ("ran", Json.bool ran), ("evicted", arr (evicted.map int)),
         ("memory", arr (r.2.memory.map fun p => arr [int p.1, int p.2])),
         ("history", arr (r.2.history.map int))] :: memoSteps cap f r.2 ks

def memohist (j : Json) : Except String Json := do
  let cap ← getNat j "cap"
  let keys ← (← getArr j "keys").mapM fun x => x.getInt?
  let raising ← (← getArr j "raise").mapM fun x => x.getInt?
  let f : Int → MRes Unit Int := fun k => if raising.contains k then .raised () else .val (10 * k + 1)
  let steps := memoSteps cap f Memo.empty keys
  -- spec: what the un-memoised function returns for every call
  pure (obj [("out", arr steps), ("spec", arr (keys.map fun k => mresJ (f k)))])

/-! ## `worldhist`: a history of abstract API calls against the world -/

def fmtErrName : FmtErr → String
  | .unbalanced => "UnbalancedBraceError"
  | .prematureEOF => "PrematureEOF"
  | .tokenRequired => "TokenRequired"
  | .illegalLetters => "PybtexSyntaxError"
  | .tooDeep => "BibTeXError"
  | .internal => "INTERNAL"

def authorOf (e : Entry) : Option Str := dget (e.fields.map fun p => (lower p.1, p.2)) "author".toList

def nameFmt : Str := "{ff~}{vv~}{ll}{, jj}".toList
def sortFmt : Str := "{vv{ } }{ll{ }}{  ff{ }}{  jj{ }}".toList

/-- the `format.name$` calls of `format.names` / `sort.format.names` for one author string -/
def keysFor (fmt : Str) (author : Str) : List FmtKey :=
  (List.range (splitNameList author).length).map fun (i : Nat) => ⟨author, Int.ofNat i + 1, fmt⟩

def progOfKeys : List FmtKey → Prog
  | [] => .done "bbl".toList
  | k :: ks => .formatName k fun _ => progOfKeys ks

/-- The concrete stand-ins the driver uses for the opaque code: the C04/C11/C12 models for names,
and for the test styles the `format.name$` calls they make for entries that have an `author`
(`plain` additionally formats every name for the sort key in `presort`; the check's own
`corpus/C18/tiny.bst` asks for name number 1 and 2 of every author field). -/
def drvFns : Fns where
  splitNames := splitNameList
  formatOne := fun name fmt =>
    match formatName name fmt with
    | .error e => .raised (.other (fmtErrName e).toList)
    | .ok (s, rep) => .val (s, if rep then [.invalidName name] else [])
  person := fun s =>
    match mkPerson s [] [] [] [] [] with
    | .ok (p, rep) => .ok (p.toStr, rep)
    | .error .tooDeep => .error (.other "BibTeXError".toList)
    | .error _ => .error (.other "INTERNAL".toList)
  entryPoint := fun g n =>
    if g = inputGroup ∧ n = bibtexName then some bibtexParserCls
    else if Gen.c18Plugins.contains (g, n) then some (g ++ ":".toList ++ n) else none
  plugin := fun cls _ => .done cls
  bstError := fun style =>
    match dget Gen.styleMacros style with
    | some _ => none
    | none => some (.other "PybtexError".toList)       -- unable to open <style>.bst
  bstMacros := fun style => match dget Gen.styleMacros style with | some t => t | none => []
  bst := fun style r =>
    let authors := r.entries.filterMap authorOf
    if style = "tiny".toList then
      -- corpus/C18/tiny.bst: name number 1 and name number 2 of every author field, entry by entry
      progOfKeys (authors.map fun a => [⟨a, 1, nameFmt⟩, ⟨a, 2, nameFmt⟩]).flatten
    else
      let sortKeys := if style = "plain".toList then (authors.map (keysFor sortFmt)).flatten else []
      progOfKeys (sortKeys ++ (authors.map (keysFor nameFmt)).flatten)
  python := fun style _ =>
    .findPlugin "pybtex.style.formatting".toList style fun o =>
      match o with
      | none => .raise (.pluginNotFound "pybtex.style.formatting".toList style)
      | some _ => .done "bbl".toList

def parsePart (j : Json) : Except String Part := do
  match j.getObjVal? "lit" with
  | .ok v => pure (.lit (← jsonToStr v))
  | .error _ => pure (.ref (← getStr j "ref"))

def parseCmd (j : Json) : Except String Cmd := do
  let k ← (← j.getObjVal? "k").getStr?
  match k with
  | "string" => pure (.string (← getStr j "name") (← (← getArr j "val").mapM parsePart))
  | "preamble" => pure (.preamble (← (← getArr j "val").mapM parsePart))
  | "entry" =>
    let fs ← (← getArr j "fields").mapM fun f => do
      let a ← f.getArr?
      let name ← jsonToStr a[0]!
      let parts ← (← a[1]!.getArr?).toList.mapM parsePart
      pure (name, parts)
    pure (.entry (← getStr j "type") (← getStr j "key") fs)
  | "keyless" =>
    let fs ← (← getArr j "fields").mapM fun f => do
      let a ← f.getArr?
      let name ← jsonToStr a[0]!
      let parts ← (← a[1]!.getArr?).toList.mapM parsePart
      pure (name, parts)
    pure (.keyless (← getStr j "type") fs)
  | _ => throw s!"unknown command kind {k}"

def parseDoc (j : Json) : Except String Doc := do (← j.getArr?).toList.mapM parseCmd

def parseTable (l : List Json) : Except String Table :=
  l.mapM fun p => do
    let a ← p.getArr?
    pure (← jsonToStr a[0]!, ← jsonToStr a[1]!)

/-- fuel only bounds the nesting of `capture` / `nonstrict` wrappers in the JSON -/
def parseCall : Nat → Json → Except String Call
  | 0, _ => throw "call nested too deeply"
  | fuel + 1, j => do
    let c ← (← j.getObjVal? "c").getStr?
    match c with
    | "parse" =>
      let files ← (← getArr j "files").mapM parseDoc
      match j.getObjVal? "cits" with
      | .ok (.arr a) => pure (.parseWanted (← a.toList.mapM jsonToStr) files)     -- `wanted_entries=cits`
      | _ => pure (.parse files)
    | "lowlevel" =>
      let a ← j.getObjVal? "arg"
      let arg ← match a with
        | .str "default" => pure MacroArg.default
        | .str "module" => pure MacroArg.moduleTable
        | _ => do pure (MacroArg.table (dofPairs (← parseTable (← getArr a "table"))))   -- `dict(pairs)`
      pure (.lowLevel arg (← parseDoc (← j.getObjVal? "doc")))
    | "fmtname" => pure (.formatName ⟨← getStr j "names", ← getInt j "n", ← getStr j "fmt"⟩)
    | "plugin" => pure (.plugin (← getStr j "group") (← getStr j "name") (.text (← getStr j "text")))
    | "bibtex" => pure (.bibtexRun (← getStr j "style") (← (← getArr j "files").mapM parseDoc))
    | "python" => pure (.pythonRun (← getStr j "style") (← (← getArr j "files").mapM parseDoc))
    | "capture" => pure (.capture (← parseCall fuel (← j.getObjVal? "call")))
    | "nonstrict" => pure (.nonstrict (← parseCall fuel (← j.getObjVal? "call")))
    | "climain" => pure (.cliMain (← getBool j "strict") (← parseCall fuel (← j.getObjVal? "call")))
    | _ => throw s!"unknown call {c}"

def errJ : Err → Json
  | .undefinedMacro n => arr [Json.str "UndefinedMacro", strToJson n]
  | .duplicateEntry k => arr [Json.str "BibliographyDataError", strToJson k]
  | .duplicateField k f => arr [Json.str "DuplicateField", strToJson (k ++ "/".toList ++ f)]
  | .invalidName n => arr [Json.str "InvalidNameString", strToJson n]
  | .pluginNotFound g n => arr [Json.str "PluginNotFound", strToJson (g ++ ".".toList ++ n)]
  | .indexError => arr [Json.str "IndexError", Json.str ""]
  | .noSuchName n names => arr [Json.str "BibTeXError", strToJson ("name ".toList ++ (toString n).toList ++ "/".toList ++ names)]
  | .other tag => arr [strToJson tag, Json.str ""]

def tableJ (t : Table) : Json := arr (t.map fun p => arr [strToJson p.1, strToJson p.2])

def entryJ (e : Entry) : Json :=
  obj [("key", strToJson e.key), ("type", strToJson e.type),
       ("fields", arr (e.fields.map fun p => arr [strToJson p.1, strToJson p.2])),
       ("persons", arr (e.persons.map fun p => arr [strToJson p.1, strToJson p.2]))]

def lowJ : LowCmd → Json
  | .string n v => arr [Json.str "string", strToJson n, strs v]
  | .preamble v => arr [Json.str "preamble", strs v]
  | .entry t k fs => arr [Json.str "entry", strToJson t, strToJson k, arr (fs.map fun p => arr [strToJson p.1, strs p.2])]
  | .keyless t fs => arr [Json.str "entry", strToJson t, Json.null, arr (fs.map fun p => arr [strToJson p.1, strs p.2])]

def resultJ : Result → Json
  | .reader r => obj [("entries", arr (r.entries.map entryJ)), ("preamble", strs r.preamble), ("macros", tableJ r.macros)]
  | .low l t => obj [("low", arr (l.map lowJ)), ("macros", tableJ t)]
  | .str s => obj [("str", strToJson s)]
  | .raised e => obj [("raised", errJ e)]
  | .internal => Json.str "INTERNAL"
  | .captured r errs => obj [("res", resultJ r), ("errors", arr (errs.map errJ))]
  | .exit code => obj [("exit", nat code)]

def keyJ (k : FmtKey) : Json := arr [strToJson k.names, int k.n, strToJson k.fmt]

/-- the observable part of the world; `brief` leaves the key lists of the caches out -/
def worldJ (brief : Bool) (w : World) : Json :=
  obj ([("months", tableJ w.months), ("strict", Json.bool w.strict), ("error_code", nat w.errorCode),
        ("captured", match w.captured with | none => Json.null | some l => arr (l.map errJ)),
        ("plugins", nat w.plugins.length),
        ("split_size", nat w.splitCache.memory.length), ("fmt_size", nat w.fmtCache.memory.length)] ++
       (if brief then [] else
         [("split_keys", strs w.splitCache.history), ("fmt_keys", arr (w.fmtCache.history.map keyJ))]))

def runCalls (w : World) : List (Call × Bool) → List Json
  | [] => []
  | (c, brief) :: cs =>
    let r := step drvFns w c
    obj [("res", resultJ r.2), ("world", worldJ brief r.1)] :: runCalls r.1 cs

/-- the spec side: every call evaluated in a FRESH world (what a fresh interpreter returns) -/
def freshResults (cs : List Call) : List Json := cs.map fun c => resultJ (step drvFns World.fresh c).2

def worldhist (j : Json) : Except String Json := do
  let calls ← (← getArr j "calls").mapM fun cj => do
    let c ← parseCall 8 cj
    let brief := match cj.getObjVal? "brief" with | .ok (.bool true) => true | _ => false
    pure (c, brief)
  pure (obj [("out", arr (runCalls World.fresh calls)), ("spec", arr (freshResults (calls.map (·.1))))])

/-! ## `capturehist`: primitive operations on `pybtex/errors.py`, `capture()` blocks nested freely -/

def parseErr (j : Json) : Except String Err := do
  let k ← (← j.getObjVal? "k").getStr?
  match k with
  | "invalid" => pure (.invalidName (← getStr j "name"))
  | "nosuch" => pure (.noSuchName (← getInt j "n") (← getStr j "names"))
  | "other" => pure (.other (← getStr j "tag"))
  | _ => throw s!"unknown error kind {k}"

def parseEOp (j : Json) : Except String EOp := do
  let o ← (← j.getObjVal? "o").getStr?
  match o with
  | "report" => pure (.report (← parseErr (← j.getObjVal? "e")))
  | "strict" => pure (.setStrict (← getBool j "b"))
  | "enter" => pure .enter
  | "exit" => pure .exit
  | _ => throw s!"unknown errors operation {o}"

def eresJ : ERes → Json
  | .none => Json.null
  | .raised e => obj [("raised", errJ e)]
  | .warned e => obj [("warned", errJ e)]
  | .collected l => obj [("collected", arr (l.map errJ))]
  | .invalid => Json.str "INVALID"

def errSteps (s : EState) : List EOp → List Json
  | [] => []
  | op :: ops =>
    let r := estep s op
    obj [("r", eresJ r.2), ("strict", Json.bool r.1.w.strict), ("error_code", nat r.1.w.errorCode),
         ("captured", match r.1.w.captured with | none => Json.null | some l => arr (l.map errJ)),
         ("depth", nat r.1.frames.length)] :: errSteps r.1 ops

/-- `out`: the stack machine of Model/ErrorsStack.lean from the state of a fresh interpreter;
`spec`: per `exit` what its block must hand out, read off the text of the sequence (`specCollected`) -/
def errhist (j : Json) : Except String Json := do
  let ops ← (← getArr j "ops").mapM parseEOp
  pure (obj [("out", arr (errSteps EState.fresh ops)),
             ("spec", arr ((specCollected [] ops).map fun o =>
                match o with | none => Json.null | some l => arr (l.map errJ)))])

/-! ## `dbhist`: `BibliographyData(wanted_entries=…)` and a sequence of `add_entry` calls (function level) -/

/-- one `add_entry(key, Entry('misc', fields))` under `capture()`: before it `want_entry(key)` and
`get_canonical_key(key)`; after it the keys held, the wanted set and what was reported -/
def dbSteps (w : World) (r : Reader) : List (Str × Option (Str × Str)) → List Json
  | [] => []
  | (key, xr) :: rest =>
    let fields : List (Str × Str) :=
      ("note".toList, "n".toList) :: (match xr with | some (name, x) => [(name, x)] | none => [])
    let e : Entry := { key := key, type := "misc".toList, fields := fields, persons := [] }
    let x := addEntry { w with captured := some [] } r e
    let (r1, raised) : Reader × Json := match x.2 with
      | .ok r1 => (r1, Json.null)
      | .error err => (r, errJ err)
    obj [("want", Json.bool (wantEntry r key)), ("canonical", strToJson (canonicalKey r key)),
         ("raised", raised),
         ("reported", match x.1.captured with | some l => arr (l.map errJ) | none => Json.null),
         ("keys", strs (r1.entries.map (·.key))),
         ("wanted", match r1.wanted with | some s => strs s | none => Json.null)] :: dbSteps w r1 rest

def dbhist (j : Json) : Except String Json := do
  let cits ← match j.getObjVal? "cits" with
    | .ok (.arr a) => pure (some (← a.toList.mapM jsonToStr))
    | _ => pure none
  let adds ← (← getArr j "adds").mapM fun a => do
    let key ← getStr a "key"
    match a.getObjVal? "xref" with
    | .ok (.arr x) => pure (key, some (← jsonToStr x[0]!, ← jsonToStr x[1]!))
    | _ => pure (key, none)
  let r0 := match cits with | some c => newReaderWanted World.fresh c | none => newReader World.fresh
  -- spec: the spelling an entry is stored under depends on the caller's citation list ONLY
  -- (`C18_reader_accumulates`: `citations` never changes), whatever was added before
  pure (obj [("out", arr (dbSteps World.fresh r0 adds)),
             ("spec", strs (adds.map fun a => canonicalKey r0 a.1))])

/-- driver ops of this property: (op name, handler) -/
def handlers : List (String × (Json → Except String Json)) :=
  [("memohist", memohist), ("worldhist", worldhist), ("capturehist", errhist), ("dbhist", dbhist)]

end Pybtex.Drv.C18
