import PybtexModel.Drv.Json
import PybtexModel.Drv.C20
import PybtexModel.Model.Errors
import PybtexModel.Model.ErrorsBytes
import PybtexModel.Model.ErrorSources
import PybtexModel.Spec.Reporting
open Lean
namespace Pybtex.Drv.C16
open Pybtex.Errors

/-! ### decoding error values -/

def optField (j : Json) (k : String) : Option Json :=
  match j.getObjVal? k with
  | .ok .null => none
  | .ok v => some v
  | .error _ => none

def getOptStr (j : Json) (k : String) : Except String (Option Str) :=
  match optField j k with
  | none => pure none
  | some v => do pure (some (← jsonToStr v))

def getOptNat (j : Json) (k : String) : Except String (Option Nat) :=
  match optField j k with
  | none => pure none
  | some v => do pure (some (← v.getNat?))

def parseInfo (j : Json) : Except String CtxInfo := do
  let kind ← (← j.getObjVal? "kind").getStr?
  let k ← match kind with
    | "scanner" => pure ParserKind.scanner
    | "lowLevel" => pure ParserKind.lowLevel
    | _ => throw s!"unknown parser kind {kind}"
  pure { kind := k, text := ← getStr j "text", start := ← getOptNat j "start",
         lineno := ← getOptNat j "lineno", pos := ← getNat j "pos" }

/-- `none` = a class the model has no rendering for (reported to the harness, which counts it as
a correspondence break) -/
def parseErr (j : Json) : Except String (Option Err) := do
  let cls ← (← j.getObjVal? "cls").getStr?
  if (optField j "unparsed").isSome then return none
  let plain (c : PlainClass) : Except String (Option Err) := do
    pure (some (.plain c (← getStr j "msg") (← getOptStr j "filename")))
  let syn (c : SyntaxClass) : Except String (Option Err) := do
    let arg ← match optField j "arg" with
      | some v => jsonToStr v
      | none => pure []
    pure (some (.syntaxErr c arg (← getOptStr j "filename") (← getOptNat j "lineno")))
  match cls with
  | "PybtexError" => plain .pybtexError
  | "BibliographyDataError" => plain .bibliographyDataError
  | "BibTeXError" => plain .bibTeXError
  | "ConvertError" => plain .convertError
  | "DuplicateField" => pure (some (.duplicateField (← getStr j "key") (← getStr j "field")))
  | "InvalidNameString" => pure (some (.invalidNameString (← getStr j "name")))
  | "PluginGroupNotFound" => pure (some (.pluginGroupNotFound (← getStr j "group")))
  | "PluginNotFound" => pure (some (.pluginNotFound (← getStr j "group") (← getStr j "name")))
  | "FieldIsMissing" =>
    let ej ← j.getObjVal? "entry"
    let kind ← (← ej.getObjVal? "kind").getStr?
    let ek ← match kind with
      | "missing" => pure EntryKey.missing
      | "none" => pure EntryKey.none
      | "key" => do pure (EntryKey.key (← getStr ej "key"))
      | _ => throw s!"unknown entry kind {kind}"
    pure (some (.fieldIsMissing (← getStr j "field") ek))
  | "PybtexSyntaxError" => syn .pybtexSyntaxError
  | "UndefinedMacro" => syn .undefinedMacro
  | "PrematureEOF" => syn .prematureEOF
  | "UnbalancedBraceError" => syn .unbalancedBrace
  | "TokenRequired" =>
    pure (some (.tokenRequired (← getStr j "description") (← getOptStr j "filename")
      (← parseInfo (← j.getObjVal? "info"))))
  | "AuxDataError" =>
    pure (some (.auxData (← getStr j "msg") (← getOptStr j "filename") (← getOptNat j "lineno")
      (← getOptStr j "line")))
  | _ => pure none

def failJ : RenderFail → Json
  | .indexError => obj [("fail", Json.str "IndexError")]

/-- `format_error(e, prefix)` as text, or the failure -/
def formatJ (e : Err) (pre : Str) : Json :=
  match formatError e pre with
  | .ok t => strToJson t
  | .error f => failJ f

def renderJ (e : Err) (pre : Str) : Json :=
  obj [("cls", Json.str e.className),
       ("str", strToJson e.str),
       ("context", match e.getContext with
          | .ok c => optJ strToJson c
          | .error f => failJ f),
       ("filename", optJ strToJson e.getFilename),
       ("format", formatJ e pre)]

/-- the shape `C16_render_total` promises, as data for the oracle -/
def shapeJ (e : Err) (pre : Str) : Json :=
  obj [("wf", Json.bool e.WF),
       ("lines", match formatErrorLines e pre with
          | .ok ls => strs ls
          | .error f => failJ f),
       ("last", strToJson (withFile e.getFilename (pre ++ e.str))),
       ("has_filename", Json.bool (match e.getFilename with
          | some f => !f.isEmpty
          | none => false))]

/-- a byte string on the wire: array of numbers below 256 -/
def getBytes (j : Json) (k : String) : Except String Bytes := do
  (← getArr j k).mapM fun x => do
    let n ← x.getNat?
    if n < 256 then pure n else throw "byte expected"

/-- `fnb` (optional): the `filename` attribute of the error object is this BYTE string; the model
decodes it (`getFilenameB` = `PybtexError.get_filename` with `pybtex.io._decode_filename`). -/
def errrender (j : Json) : Except String Json := do
  let pre ← getStr j "prefix"
  match ← parseErr (← j.getObjVal? "e") with
  | none => pure (obj [("out", obj [("unmodelled", ← j.getObjVal? "e" >>= (·.getObjVal? "cls"))]), ("spec", Json.null)])
  | some e0 =>
    let e ← match optField j "fnb" with
      | some _ => do pure (e0.withFilename (getFilenameB (.bytes (← getBytes j "fnb"))))
      | none => pure e0
    pure (obj [("out", renderJ e pre), ("spec", shapeJ e pre)])

/-! ### function level: byte file names, string primitives, the two `get_error_context` -/

/-- `PybtexError(msg, filename=…).get_filename()` / `format_error`, `_decode_filename(b, 'replace')`,
`str.encode('utf-8')`.  `fn`: `null` | `{"s": str}` | `{"b": [bytes]}`. -/
def errfilename (j : Json) : Except String Json := do
  let pre ← getStr j "prefix"
  let msg ← getStr j "msg"
  let fj := optField j "fn"
  let fn ← match fj with
    | none => pure FileName.none
    | some v =>
      match optField v "s" with
      | some _ => do pure (FileName.str (← getStr v "s"))
      | none => do pure (FileName.bytes (← getBytes v "b"))
  let e := Err.plain .pybtexError msg none
  let dec : Json := match fn with
    | .bytes b => strToJson (decodeFilename b)
    | _ => Json.null
  let enc : Json := match fn with
    | .str s => arr ((utf8Encode s).map nat)
    | _ => Json.null
  let fmt : Json := match formatErrorB e fn pre with
    | .ok t => strToJson t
    | .error f => failJ f
  -- reference: re-encoding what was decoded gives the bytes back iff the byte string is well-formed UTF-8
  let wellFormed : Json := match fn with
    | .bytes b => Json.bool (utf8Encode (decodeFilename b) == b)
    | _ => Json.null
  pure (obj [("out", obj [("filename", optJ strToJson (getFilenameB fn)), ("format", fmt),
                          ("decode", dec), ("encode", enc)]),
             ("spec", obj [("well_formed", wellFormed),
                           ("nonempty", Json.bool (match getFilenameB fn with
                              | some f => !f.isEmpty
                              | none => false))])])

/-- `PybtexError.__eq__` / `__hash__`: `a == b` (another error object) or `a == text`. -/
def erreq (j : Json) : Except String Json := do
  match ← parseErr (← j.getObjVal? "a") with
  | none => pure (obj [("out", obj [("unmodelled", Json.str "a")]), ("spec", Json.null)])
  | some a =>
    let eq ← match optField j "b" with
      | some bj => do
        match ← parseErr bj with
        | none => throw "unmodelled class in b"
        | some b => pure (a.pyEq b)
      | none => do pure (a.pyEqText (← getStr j "text"))
    pure (obj [("out", obj [("eq", Json.bool eq), ("ne", Json.bool (!eq)),
                            ("hash_is_str_hash", Json.bool (a.hashKey == a.str))]),
               ("spec", Json.null)])

def ctxJ : Except RenderFail (Option (Str × Int)) → Json
  | .ok none => Json.null
  | .ok (some (c, n)) => arr [strToJson c, int n]
  | .error f => failJ f

def errprim (j : Json) : Except String Json := do
  let f ← (← j.getObjVal? "f").getStr?
  let s ← getStr j "s"
  let out ← match f with
    | "splitlines" => do pure (strs (Errors.splitLines (← getBool j "keep") s))
    | "repr" => pure (strToJson (pyRepr s))
    | "rstrip" => pure (strToJson (rstripCRLF s))
    | "endswith_nl" => pure (Json.bool (endsWithNL s))
    | "newline" => do
      let pos ← getNat j "pos"
      pure (optJ nat (findNewlineEnd (s.drop pos) pos))
    | "scanner_ctx" => do
      pure (ctxJ (scannerErrorContext s (← getOptNat j "lineno") (← getNat j "pos")))
    | "lowlevel_ctx" => do
      pure (ctxJ ((lowLevelErrorContext s (← getOptNat j "start") (← getNat j "pos")).map some))
    | _ => throw s!"unknown primitive {f}"
  pure (obj [("out", out), ("spec", Json.null)])

def errclasses (_ : Json) : Except String Json :=
  pure (obj [("out", arr (classNames.map Json.str)), ("spec", arr (classNames.map Json.str))])

/-! ### histories -/

def parseOp (j : Json) : Except String (Errors.Op Nat) := do
  let o ← (← j.getObjVal? "o").getStr?
  match o with
  | "enter" => pure .enter
  | "exit" => pure .exit
  | "abort" => pure .abort
  | "strict" => pure (.setStrict (← getBool j "b"))
  | "report" => pure (.report (← getNat j "k"))
  | _ => throw s!"unknown history op {o}"

def idsJ (l : List Nat) : Json := arr (l.map nat)

def stateJ (s : State Nat) : Json :=
  arr [Json.bool s.strict, nat s.errorCode, optJ idsJ s.captured]

def obsJ (errs : Array Err) : Obs Nat → Except String Json
  | .unit => pure Json.null
  | .left l => pure (obj [("left", optJ idsJ l)])
  | .collected => pure (Json.str "collected")
  | .printed k =>
    match errs[k]? with
    | some e => pure (obj [("printed", formatJ e warningPrefix)])
    | none => throw s!"report index {k} out of range"
  | .raised k => pure (obj [("raised", nat k)])
  | .noContext => pure (Json.str "no-context")

/-- run the model, one record per operation: what it did and the module state after it -/
def runJ (errs : Array Err) (c : Config Nat) : List (Errors.Op Nat) → Except String (List Json × Config Nat)
  | [] => pure ([], c)
  | op :: ops => do
    let r := step c op
    let o ← obsJ errs r.2
    let rest ← runJ errs r.1 ops
    pure (obj [("obs", o), ("st", stateJ r.1.st)] :: rest.1, rest.2)

/-- driver-side bookkeeping only: the list each context yielded, in the order of the enters
(`open` = indices of the open contexts, innermost first) -/
def listsByEnter : List (Errors.Op Nat) → List (Obs Nat) → List Nat → Array Json → Array Json
  | op :: ops, o :: os, opened, acc =>
    match op, o with
    | .enter, _ => listsByEnter ops os (acc.size :: opened) (acc.push Json.null)
    | _, .left l =>
      match opened with
      | i :: rest => listsByEnter ops os rest (acc.setIfInBounds i (optJ idsJ l))
      | [] => listsByEnter ops os [] acc
    | _, _ => listsByEnter ops os opened acc
  | _, _, _, acc => acc

def specObsJ : Obs Nat → Json
  | .collected => Json.str "collected"
  | .printed k => obj [("printed", nat k)]
  | .raised k => obj [("raised", nat k)]
  | _ => Json.null

def errhist (j : Json) : Except String Json := do
  let errsJ ← getArr j "errs"
  let errsO ← errsJ.mapM parseErr
  let errs ← errsO.mapM fun o => match o with
    | some e => pure e
    | none => throw "unmodelled error class in a history"
  let ops ← (← getArr j "ops").mapM parseOp
  let strict0 ← getBool j "strict0"
  let c0 : Config Nat := { st := { strict := strict0, errorCode := 0, captured := none }, saved := [] }
  let (trace, cfin) ← runJ errs.toArray c0 ops
  let r := run c0 ops
  let lists := listsByEnter ops r.2 [] #[]
  let specReports := Spec.reportObs 0 strict0 ops
  pure (obj [
    ("out", obj [("trace", arr trace), ("final", stateJ cfin.st), ("open", nat cfin.saved.length),
                 ("lists", Json.arr lists)]),
    ("spec", obj [("reports", arr (specReports.map specObsJ)),
                  ("lists", arr ((Spec.contextLists ops).map idsJ)),
                  ("code", nat (Spec.finalCode 0 specReports)),
                  ("strict", Json.bool (finalStrict strict0 ops)),
                  ("balanced", Json.bool (balanced ops)),
                  ("depth", optJ nat (depthAfter 0 ops))])])

/-! ### the expected problems of an input, computed from the reader models -/

/-- placeholder for what the reader models do not track (file name: none; marker position):
only class and `str(error)` of the values built with it are sent to the harness -/
def noCtx : CtxInfo := { kind := .scanner, text := [], start := none, lineno := none, pos := 0 }

def clsStrJ (e : Err) : Json := arr [Json.str e.className, strToJson e.str]

def runEndJ : RunEnd → Json
  | .finished => arr [Json.str "finished"]
  | .bibtexError _ => arr [Json.str "fatal", Json.str "BibTeXError", Json.null]   -- C03 ties the class only
  | .syntaxError c => arr [Json.str "fatal", Json.str c, Json.null]
  | .bstSyntax e => arr [Json.str "fatal", Json.str e.className, strToJson e.str]
  | .foreign w => arr [Json.str "foreign", Json.str w]
  | .unknown => arr [Json.str "unknown"]

def compEndJ (c : Comp Err) (modelOnly : Bool) : Json :=
  match c.fatal with
  | some f => arr [Json.str "fatal", Json.str f.className, strToJson f.str]
  | none => if modelOnly then arr [Json.str "unknown"] else arr [Json.str "finished"]

/-- `src` of a request → what the owning reader model says the problems of the input are -/
def expectedJ (src : Json) : Except String Json := do
  let kind ← (← src.getObjVal? "kind").getStr?
  match kind with
  | "bib" =>
    let text ← getStr src "text"
    let c := bibComp none noCtx text
    let raw := Bib.parseBib text false none
    -- a model-only outcome (shown unreachable by C10_total) must not pass for "no problem"
    let lost := raw.1.errs.length != c.reports.length || (raw.2.isSome && c.fatal.isNone)
    pure (obj [("reports", arr (c.reports.map clsStrJ)), ("end", compEndJ c lost),
               ("strict", optJ clsStrJ (bibStrictRaised none noCtx text))])
  | "bst" =>
    let text ← getStr src "text"
    let entry ← match (← (← src.getObjVal? "entry").getStr?) with
      | "string" => pure BstEntry.string
      | "stream" => pure BstEntry.stream
      | "file" => pure BstEntry.file
      | e => throw s!"unknown bst entry point {e}"
    let c := bstComp none noCtx entry text
    let lost := match bstParse entry text with
      | .error e => (ofBst none noCtx e).isNone
      | .ok _ => false
    pure (obj [("reports", arr []), ("end", compEndJ c lost)])
  | "aux" =>
    let files ← C20.parseFiles (← getArr src "files")
    let top ← getStr src "top"
    let fs := Aux.fsOf files
    let fuel := files.length + 1
    let c := auxComp fs fuel top
    let lost := match Aux.parse fs fuel top with
      | .error a => (ofAuxFatal a.fatal).isNone
      | .ok _ => false
    pure (obj [("reports", arr (c.reports.map clsStrJ)), ("end", compEndJ c lost)])
  | "bstrun" =>
    let bst ← getStr src "bst"
    let bibs ← getStrList src "bibs"
    let cites ← getStrList src "citations"
    let mc ← getInt src "min_crossrefs"
    let fuel ← getNat src "fuel"
    let r := bstRun none noCtx fuel bst { bibTexts := bibs, citations := cites, minCrossrefs := mc }
    pure (obj [("reports", optJ (fun l => arr (l.map clsStrJ)) r.1), ("end", runEndJ r.2)])
  | k => throw s!"unknown source kind {k}"

/-! ### the three modes of one computation -/

def parseComp (j : Json) : Except String (Option (Comp Err)) := do
  let rsO ← (← getArr j "reports").mapM parseErr
  let fatalO ← match optField j "fatal" with
    | some f => do pure (some (← parseErr f))
    | none => pure none
  if rsO.any Option.isNone || fatalO == some none then return none
  pure (some { reports := rsO.filterMap id, fatal := fatalO.bind id })

def errmodes (j : Json) : Except String Json := do
  let expected ← match optField j "src" with
    | some src => expectedJ src
    | none => pure Json.null
  match ← parseComp j with
  | none => return obj [("out", obj [("unmodelled", Json.bool true)]), ("spec", obj [("expected", expected)])]
  | some c =>
  let rs := c.reports
  let fatal := c.fatal
  let s0 : State Err := State.init
  let cap := execCaptured s0 c
  let ns := exec { s0 with strict := false } c
  let st := exec s0 c
  let cl := commandLine s0 c
  let errJ (e : Err) : Json := formatJ e errorPrefix
  let m := Spec.modes c
  pure (obj [
    ("out", obj [
      ("capture", obj [("collected", optJ (fun l => arr (l.map fun e => renderJ e errorPrefix)) cap.2.1),
                       ("raised", optJ errJ cap.2.2),
                       ("restored", Json.bool (cap.1 == s0))]),
      ("nonstrict", obj [("stderr", arr ((printedOf ns.2.1).map fun e => formatJ e warningPrefix)),
                         ("code", nat ns.1.errorCode),
                         ("raised", optJ errJ ns.2.2)]),
      ("strict", obj [("stderr", arr ((printedOf st.2.1).map fun e => formatJ e warningPrefix)),
                      ("raised", optJ errJ st.2.2)]),
      ("cmdline", obj [("stderr", arr (cl.2.1.map fun p => formatJ p.2 (if p.1 then errorPrefix else warningPrefix))),
                       ("status", nat cl.2.2)])]),
    ("spec", obj [("collected", arr (m.collected.map errJ)),
                  ("wf", Json.bool (rs.all Err.WF && (match fatal with
                    | some f => f.WF
                    | none => true))),
                  ("printed", arr (m.printed.map fun e => formatJ e warningPrefix)),
                  ("code", nat m.errorCode),
                  ("strict_raises", optJ errJ m.strictRaises),
                  ("status", nat m.status),
                  ("expected", expected)])])

/-! ### the real command lines: `main` with options, several runs in one interpreter -/

def parseOpt (j : Json) : Except String CliOpt := do
  match ← j.getStr? with
  | "strict" => pure .strict
  | "other" => pure .other
  | "rejected" => pure .rejected
  | "info" => pure .info
  | "plugin_error" => pure .pluginError
  | o => throw s!"unknown option kind {o}"

def errcli (j : Json) : Except String Json := do
  let numArgs ← getNat j "num_args"
  let code0 ← getNat j "code0"
  let strict0 ← getBool j "strict0"
  let perr : Err ← match optField j "perr" with
    | some p => do
      match ← parseErr p with
      | some e => pure e
      | none => throw "unmodelled plug-in error"
    | none => pure (.plain .pybtexError [] none)
  let runsJ ← getArr j "runs"
  let runsO ← runsJ.mapM fun r => do
    let opts ← (← getArr r "opts").mapM parseOpt
    let nargs ← getNat r "nargs"
    let c ← parseComp r
    pure (c.map fun c => (({ opts := opts, nargs := nargs } : Argv), c))
  if runsO.any Option.isNone then
    return obj [("out", obj [("unmodelled", Json.bool true)]), ("spec", Json.null)]
  let runs := runsO.filterMap id
  let s0 : State Err := { strict := strict0, errorCode := code0, captured := none }
  let r := cliRuns numArgs perr s0 runs
  let runJ (x : List (Bool × Err) × Nat) : Json :=
    obj [("stderr", arr (x.1.map fun p => formatJ p.2 (if p.1 then errorPrefix else warningPrefix))),
         ("status", nat x.2)]
  -- reference: what the property says about each run on its own (from the problems alone)
  let specJ (ac : Argv × Comp Err) : Json :=
    let strict := ac.1.opts.contains .strict
    let problems := ac.2.reports.length + (if ac.2.fatal.isSome then 1 else 0)
    obj [("strict", Json.bool strict), ("problems", nat problems),
         ("first", optJ (fun e => formatJ e errorPrefix) (Spec.modes ac.2).strictRaises),
         ("warnings", arr (ac.2.reports.map fun e => formatJ e warningPrefix)),
         ("fatal", optJ (fun e => formatJ e errorPrefix) ac.2.fatal),
         ("runs_computation", Json.bool (ac.1.nargs == numArgs && !(ac.1.opts.contains .rejected) && !(ac.1.opts.contains .pluginError) && !(ac.1.opts.contains .info))),
         ("info", Json.bool ((ac.1.opts.takeWhile fun o => o != .rejected && o != .pluginError).contains .info))]
  pure (obj [
    ("out", obj [("runs", arr (r.2.map runJ)),
                 ("final", arr [Json.bool r.1.strict, nat r.1.errorCode, Json.bool r.1.captured.isNone])]),
    ("spec", obj [("runs", arr (runs.map specJ))])])

/-! ### context managers left in any order -/

def parseFOp (j : Json) : Except String (FOp Nat) := do
  let o ← (← j.getObjVal? "o").getStr?
  match o with
  | "enter" => pure .enter
  | "exitk" => pure (.exitNth (← getNat j "k"))
  | "strict" => pure (.setStrict (← getBool j "b"))
  | "report" => pure (.report (← getNat j "k"))
  | _ => throw s!"unknown free history op {o}"

def frunJ (errs : Array Err) (c : Config Nat) : List (FOp Nat) → Except String (List Json × Config Nat)
  | [] => pure ([], c)
  | op :: ops => do
    let r := fstep c op
    let o ← obsJ errs r.2
    let rest ← frunJ errs r.1 ops
    pure (obj [("obs", o), ("st", stateJ r.1.st)] :: rest.1, rest.2)

def errfree (j : Json) : Except String Json := do
  let errsO ← (← getArr j "errs").mapM parseErr
  let errs ← errsO.mapM fun o => match o with
    | some e => pure e
    | none => throw "unmodelled error class in a history"
  let ops ← (← getArr j "ops").mapM parseFOp
  let strict0 ← getBool j "strict0"
  let c0 : Config Nat := { st := { strict := strict0, errorCode := 0, captured := none }, saved := [] }
  let (trace, cfin) ← frunJ errs.toArray c0 ops
  pure (obj [
    ("out", obj [("trace", arr trace), ("final", stateJ cfin.st), ("open", nat cfin.saved.length)]),
    ("spec", obj [("lifo", Json.bool (lifo ops))])])

/-! ### name format letters -/

def fmtchars (j : Json) : Except String Json := do
  let v ← getStr j "value"
  let out : Json :=
    if checkFormatChars false v then
      match namePartInit v with
      | some (a, abbr) => obj [("ok", arr [strToJson [a], Json.bool abbr])]
      | none => Json.str "unreachable:BibTeXNameFormatError"
    else Json.str "PybtexSyntaxError"
  pure (obj [("out", out), ("spec", Json.bool (checkFormatChars false v))])

def handlers : List (String × (Json → Except String Json)) :=
  [("errhist", errhist), ("errrender", errrender), ("errclasses", errclasses),
   ("errmodes", errmodes), ("errcli", errcli), ("errfree", errfree), ("fmtchars", fmtchars),
   ("errfilename", errfilename), ("errprim", errprim), ("erreq", erreq)]

end Pybtex.Drv.C16
