/-
JSON ⇄ database helpers shared by the C05 and C14 driver ops.
An entry travels as {"key": s, "type": s, "fields": [[name, value], …], "persons": [[role, [name, …]], …]}.
-/
import PybtexModel.Drv.Json
import PybtexModel.Model.Citations
import PybtexModel.Model.Crossref
import PybtexModel.Spec.Citations
open Lean
namespace Pybtex.Drv.DbJson

structure Raw where
  key : Str
  type : Str
  fields : List (Str × Str)
  persons : List (Str × List Str)

def parsePair (j : Json) : Except String (Str × Str) := do
  let a ← j.getArr?
  if a.size != 2 then throw "pair expected"
  pure (← jsonToStr a[0]!, ← jsonToStr a[1]!)

def parseRole (j : Json) : Except String (Str × List Str) := do
  let a ← j.getArr?
  if a.size != 2 then throw "role pair expected"
  let names ← (← (a[1]!).getArr?).toList.mapM jsonToStr
  pure (← jsonToStr a[0]!, names)

def parseRaw (j : Json) : Except String Raw := do
  pure { key := ← getStr j "key", type := ← getStr j "type",
         fields := ← (← getArr j "fields").mapM parsePair,
         persons := ← (← getArr j "persons").mapM parseRole }

def parseFile (j : Json) : Except String (List Raw) := do
  (← getArr j "file").mapM parseRaw

/-- the `Entry` object the parser (or `Entry(type, fields, persons)`) builds -/
def Raw.toEntry (r : Raw) : Entry :=
  { key := [], type := lower r.type, fields := CIDict.ofPairs r.fields, persons := CIDict.ofPairs r.persons }

def Raw.toSpec (r : Raw) : Spec.SEntry := { key := r.key, fields := r.fields, persons := r.persons }

def toModelFile (f : List Raw) : List (Str × Entry) := f.map fun r => (r.key, r.toEntry)
def toSpecFile (f : List Raw) : List Spec.SEntry := f.map Raw.toSpec

def reportJ : Report → Json
  | .repeated k => arr [Json.str "repeated", strToJson k]
  | .badCrossref k x => arr [Json.str "bad_crossref", strToJson k, strToJson x]
  | .missingEntry k => arr [Json.str "missing", strToJson k]

def reportsJ (l : List Report) : Json := arr (l.map reportJ)

end Pybtex.Drv.DbJson
