import PybtexModel.Drv.Json
import PybtexModel.Model.Wrap
open Lean
namespace Pybtex.Drv.C19
open Pybtex.Wrap

/-- `{"op":"wrap","text":…,"width":…,"indent":…}` ↦ `out` = `wrap(text, width, indent)`,
`spec.lines` = the lines yielded by `iter_lines` before `rstrip`,
`spec.first_break` = `find_break(text)` (`null` for `None`). -/
def wrapOp (j : Json) : Except String Json := do
  let text ← getStr j "text"
  let width ← getInt j "width"
  let indent ← getStr j "indent"
  pure (obj [("out", strToJson (wrap width indent text)),
             ("spec", obj [("lines", strs (iterLines width indent text)),
                           ("first_break", optJ nat (findBreak width indent text))])])

/-- `{"op":"wrap_widths","text":…,"widths":[…],"indent":…}`: the same text wrapped at every width
of the list (keeps the exhaustive sweeps cheap); `out` and `spec` are lists in the same order. -/
def wrapWidthsOp (j : Json) : Except String Json := do
  let text ← getStr j "text"
  let widths ← (← getArr j "widths").mapM fun w => w.getInt?
  let indent ← getStr j "indent"
  pure (obj [("out", arr (widths.map fun w => strToJson (wrap w indent text))),
             ("spec", arr (widths.map fun w =>
                obj [("lines", strs (iterLines w indent text)),
                     ("first_break", optJ nat (findBreak w indent text))]))])

/-- driver ops of this property: (op name, handler) -/
def handlers : List (String × (Json → Except String Json)) :=
  [("wrap", wrapOp), ("wrap_widths", wrapWidthsOp)]

end Pybtex.Drv.C19
