import PybtexModel.Drv.Json
import PybtexModel.Model.Wrap
import PybtexModel.Model.Interp
open Lean
namespace Pybtex.Drv.C19
open Pybtex.Wrap

/-- `{"op":"wrap","text":…,"width":…,"indent":…}` ↦ `out` = `wrap(text, width, indent)`,
`spec.lines` = the lines yielded by `iter_lines` before `rstrip`,
`spec.first_break` = `find_break(text)` (`null` for `None`). -/
def wrapOp (j : Json) : Except String Json := do
  let text ← getStr j "text"
  let width ← getInt j "width"
  let indent ← getStr j "indent"
  pure (obj [("out", strToJson (wrap width indent text)),
             ("spec", obj [("lines", strs (iterLines width indent text)),
                           ("first_break", optJ nat (findBreak width indent text))])])

/-- `{"op":"wrap_widths","text":…,"widths":[…],"indent":…}`: the same text wrapped at every width
of the list (keeps the exhaustive sweeps cheap); `out` and `spec` are lists in the same order. -/
def wrapWidthsOp (j : Json) : Except String Json := do
  let text ← getStr j "text"
  let widths ← (← getArr j "widths").mapM fun w => w.getInt?
  let indent ← getStr j "indent"
  pure (obj [("out", arr (widths.map fun w => strToJson (wrap w indent text))),
             ("spec", arr (widths.map fun w =>
                obj [("lines", strs (iterLines w indent text)),
                     ("first_break", optJ nat (findBreak w indent text))]))])

/-- `{"op":"wrap_engine","bst":…,"lines":[[piece,…],…]}`: a `.bst` program that, for every element
of `lines`, `write$`s its pieces and calls `newline$`.  `out.bbl` = what the INTERPRETER model
(`Interp.run`, the model of `Interpreter.run`) returns for the program text; `spec.engine` = the
buffer semantics of `Model/Wrap.lean` (`engineOutput`) on the pieces; `spec.groups` = for every
`newline$` the lines of `iter_lines` (before `rstrip`) of the concatenated pieces. -/
def wrapEngineOp (j : Json) : Except String Json := do
  let bst ← getStr j "bst"
  let groups ← (← getArr j "lines").mapM fun g => do
    (← g.getArr?).toList.mapM jsonToStr
  let out : Json :=
    match Bst.parseFile bst with
    | .error _ => obj [("error", Json.str "BST-SYNTAX")]
    | .ok prog =>
      match Interp.run 1000000 prog { bibTexts := [], citations := [], minCrossrefs := 2 } with
      | .error _ => obj [("error", Json.str "RUN")]
      | .ok o => obj [("bbl", strToJson o.bbl)]
  pure (obj [("out", out),
             ("spec", obj [("engine", strToJson (engineOutput groups)),
                           ("groups", arr (groups.map fun g =>
                              obj [("lines", strs (iterLines 79 [' ', ' '] g.flatten))]))])])

/-- driver ops of this property: (op name, handler) -/
def handlers : List (String × (Json → Except String Json)) :=
  [("wrap", wrapOp), ("wrap_widths", wrapWidthsOp), ("wrap_engine", wrapEngineOp)]

end Pybtex.Drv.C19
