import PybtexModel.Drv.Json
import PybtexModel.Model.Wrap
import PybtexModel.Model.Interp
import PybtexModel.Model.WrapCalls
import PybtexModel.Spec.BstSem
import PybtexModel.Spec.WrapPhys
open Lean
namespace Pybtex.Drv.C19
open Pybtex.Wrap

/-- `{"op":"wrap","text":…,"width":…,"indent":…}` ↦ `out` = `wrap(text, width, indent)`,
`spec.lines` = the lines yielded by `iter_lines` before `rstrip`,
`spec.first_break` = `find_break(text)` (`null` for `None`). -/
def wrapOp (j : Json) : Except String Json := do
  let text ← getStr j "text"
  let width ← getInt j "width"
  let indent ← getStr j "indent"
  pure (obj [("out", strToJson (wrap width indent text)),
             ("spec", obj [("lines", strs (iterLines width indent text)),
                           ("first_break", optJ nat (findBreak width indent text))])])

/-- `{"op":"wrap_widths","text":…,"widths":[…],"indent":…}`: the same text wrapped at every width
of the list (keeps the exhaustive sweeps cheap); `out` and `spec` are lists in the same order. -/
def wrapWidthsOp (j : Json) : Except String Json := do
  let text ← getStr j "text"
  let widths ← (← getArr j "widths").mapM fun w => w.getInt?
  let indent ← getStr j "indent"
  pure (obj [("out", arr (widths.map fun w => strToJson (wrap w indent text))),
             ("spec", arr (widths.map fun w =>
                obj [("lines", strs (iterLines w indent text)),
                     ("first_break", optJ nat (findBreak w indent text))]))])

/-- `{"op":"wrap_engine","bst":…,"lines":[[piece,…],…]}`: a `.bst` program that, for every element
of `lines`, `write$`s its pieces and calls `newline$`.  `out.bbl` = what the INTERPRETER model
(`Interp.run`, the model of `Interpreter.run`) returns for the program text; `spec.engine` = the
buffer semantics of `Model/Wrap.lean` (`engineOutput`) on the pieces; `spec.groups` = for every
`newline$` the lines of `iter_lines` (before `rstrip`) of the concatenated pieces. -/
def wrapEngineOp (j : Json) : Except String Json := do
  let bst ← getStr j "bst"
  let groups ← (← getArr j "lines").mapM fun g => do
    (← g.getArr?).toList.mapM jsonToStr
  let out : Json :=
    match Bst.parseFile bst with
    | .error _ => obj [("error", Json.str "BST-SYNTAX")]
    | .ok prog =>
      match Interp.run 1000000 prog { bibTexts := [], citations := [], minCrossrefs := 2 } with
      | .error _ => obj [("error", Json.str "RUN")]
      | .ok o => obj [("bbl", strToJson o.bbl)]
  pure (obj [("out", out),
             ("spec", obj [("engine", strToJson (engineOutput groups)),
                           ("groups", arr (groups.map fun g =>
                              obj [("lines", strs (iterLines 79 [' ', ' '] g.flatten))]))])])

/-! ### function-level ops (extension, round 2) -/

/-- `{"op":"ws_positions","text":…}` ↦ `[m.start() for m in whitespace_re.finditer(text)]`. -/
def wsPositionsOp (j : Json) : Except String Json := do
  let text ← getStr j "text"
  pure (obj [("out", arr ((wsPositions text).map nat))])

/-- `{"op":"pairwise","items":[n,…]}` ↦ `list(pybtex.utils.pairwise(items))` (`null` = `None`). -/
def pairwiseOp (j : Json) : Except String Json := do
  let items ← (← getArr j "items").mapM fun x => x.getNat?
  pure (obj [("out", arr ((pairwise items).map fun p => arr [nat p.1, optJ nat p.2]))])

/-- `{"op":"rstrip","text":…}` ↦ `text.rstrip()`. -/
def rstripOp (j : Json) : Except String Json := do
  let text ← getStr j "text"
  pure (obj [("out", strToJson (rstrip text))])

/-- `{"op":"wrap_signature"}` ↦ the default arguments the model stands for. -/
def wrapSignatureOp (_ : Json) : Except String Json :=
  pure (obj [("out", obj [("width", int defaultWidth), ("indent", strToJson defaultIndent)])])

/-- `{"op":"iter_trace","text":…,"width":…,"indent":…}`: the inner functions of `wrap` call by call.
`out.calls` = `[[argument, result], …]` of every `find_break` call of the loop, `out.lines` = what `iter_lines`
yields (before `rstrip`), `out.wrap` = the returned string. -/
def iterTraceOp (j : Json) : Except String Json := do
  let text ← getStr j "text"
  let width ← getInt j "width"
  let indent ← getStr j "indent"
  pure (obj [("out", obj [("calls", arr ((iterCalls width indent text).map fun c => arr [strToJson c.1, optJ nat c.2])),
                          ("lines", strs (iterLines width indent text)),
                          ("wrap", strToJson (wrap width indent text))]),
             ("spec", obj [("lines", strs (iterLines width indent text)),
                           ("first_break", optJ nat (findBreak width indent text))])])

/-- `{"op":"engine_calls","calls":[["w",piece] | ["n"],…]}`: `Interpreter.output(piece)` / `Interpreter.newline()`
called directly on a fresh interpreter.  `out.lines` / `out.buffer` = `output_lines` / `output_buffer` afterwards
(the fold of `emit`, `Spec/BstSem.lean`), `out.bbl` = `''.join(output_lines)`; `spec.groups` = for every `newline`
the lines of `iter_lines` of the buffered text, `spec.phys` = the physical lines `C19_physical_lines` states
(`null` when a piece holds a line feed). -/
def engineCallsOp (j : Json) : Except String Json := do
  let evs ← (← getArr j "calls").mapM fun c => do
    match (← c.getArr?).toList with
    | [_, x] => pure (Interp.OutEv.write (← jsonToStr x))
    | _ => pure Interp.OutEv.newline
  let st := evs.foldl BstSem.emit ([], [])
  let groups := traceGroups [] evs
  let phys : Json :=
    if groups.all (fun g => !g.flatten.contains '\n') then
      strs ((groups.map fun g => groupPhysLines g.flatten).flatten ++ [[]])
    else Json.null
  pure (obj [("out", obj [("lines", strs st.1), ("buffer", strs st.2), ("bbl", strToJson st.1.flatten)]),
             ("spec", obj [("engine", strToJson (engineOutput groups)),
                           ("groups", arr (groups.map fun g =>
                              obj [("lines", strs (iterLines 79 [' ', ' '] g.flatten))])),
                           ("phys", phys)])])

/-- driver ops of this property: (op name, handler) -/
def handlers : List (String × (Json → Except String Json)) :=
  [("wrap", wrapOp), ("wrap_widths", wrapWidthsOp), ("wrap_engine", wrapEngineOp),
   ("ws_positions", wsPositionsOp), ("pairwise", pairwiseOp), ("rstrip", rstripOp),
   ("wrap_signature", wrapSignatureOp), ("iter_trace", iterTraceOp), ("engine_calls", engineCallsOp)]

end Pybtex.Drv.C19
