/-
Driver ops of C17.

  plughist     history of register / find / enumerate calls  → results of the model and of the one-table reference
               (for `enumerate`: the SET of names the one table holds under the group)
  openmatrix   a world (which opens fail or which files exist, isfile, what running the kpsewhich program gives,
               environ) + one call of open_raw / open_unicode → events and outcome; path arguments are `str`
               (JSON string) or `bytes` (`{"bytes": hex}`)
  entrypoints  reader / writer entry points of a class wired as (unicode_io, overridden methods), with the
               codec given as a finite table by the harness (computed with the real codecs) → what the plug-in's
               core is handed / what is returned or written; `parse_files` over any list of base names
  pathfn       os.path.splitext / posixpath.join
  modfile      pybtex.database.parse_file / BibliographyData.to_file: the class chosen for a `file` argument of any
               kind (str path, bytes path, file-like with a name that is absent / str / bytes / int) and a format
  openx        openmatrix in a world where chosen `io.open` calls / starting kpsewhich raise an exception that is
               NOT an EnvironmentError (`other`: [path argument, tag]; `locate_raise`: tag or null)
  guard        BaseParser.parse_string / parse_bytes on a value of either type (isinstance guards)
-/
import PybtexModel.Drv.Json
import PybtexModel.Model.IO
import PybtexModel.Model.IOArgs
import PybtexModel.Spec.Plugins
import PybtexModel.Gen.Plugins
open Lean
namespace Pybtex.Drv.C17
open Pybtex Pybtex.IO

/-! ### JSON helpers -/

def hexDigit (n : Nat) : Char := if n < 10 then Char.ofNat (48 + n) else Char.ofNat (87 + n)

/-- bytes travel as lower-case hex strings -/
def bytesToJson (b : Bytes) : Json :=
  Json.str (String.ofList (b.flatMap fun x => [hexDigit (x.toNat / 16), hexDigit (x.toNat % 16)]))

def hexVal (c : Char) : Except String Nat :=
  if '0' ≤ c ∧ c ≤ '9' then pure (c.toNat - 48)
  else if 'a' ≤ c ∧ c ≤ 'f' then pure (c.toNat - 87)
  else throw "bad hex digit"

def hexToBytes : List Char → Except String Bytes
  | [] => pure []
  | [_] => throw "odd number of hex digits"
  | a :: b :: r => do
    let x ← hexVal a
    let y ← hexVal b
    let rest ← hexToBytes r
    pure (UInt8.ofNat (16 * x + y) :: rest)

def jsonToBytes (j : Json) : Except String Bytes := do
  match j with
  | .str h => hexToBytes h.toList
  | _ =>
    let a ← j.getArr?
    a.toList.mapM fun x => do pure (UInt8.ofNat (← x.getNat?))

def getBytes (j : Json) (k : String) : Except String Bytes := do jsonToBytes (← j.getObjVal? k)

def getOptStr (j : Json) (k : String) : Except String (Option Str) :=
  match j.getObjVal? k with
  | .ok .null => pure none
  | .ok v => do pure (some (← jsonToStr v))
  | .error _ => pure none

/-- a `str` path travels as a JSON string, a `bytes` path as `{"bytes": hex}` -/
def pathArgJ : PathArg → Json
  | .str p => strToJson p
  | .bytes b => obj [("bytes", bytesToJson b)]

def parsePathArg (j : Json) : Except String PathArg :=
  match j with
  | .str _ => do pure (.str (← jsonToStr j))
  | _ => do pure (.bytes (← getBytes j "bytes"))

def streamJ : Stream → Json
  | .text s => obj [("kind", Json.str "text"), ("data", strToJson s)]
  | .binary b => obj [("kind", Json.str "binary"), ("data", bytesToJson b)]

/-! ### plughist -/

def plugErrJ (e : PlugErr) : Json :=
  let kind := match e with
    | .groupNotFound _ => "PluginGroupNotFound"
    | .notFound _ _ => "PluginNotFound"
    | .suffixNoPeriod => "ValueError"
  obj [("err", Json.str kind), ("msg", strToJson e.message)]

def plugResJ : PlugRes → Json
  | .bool b => Json.bool b
  | .cls k => obj [("cls", strToJson k)]
  | .err e => plugErrJ e

inductive HOp
  | plug (op : PlugOp)
  | enumerate (g : Str)

def parseNameArg (j : Json) : Except String NameArg := do
  match j with
  | .null => pure .none
  | _ =>
    let t ← (← j.getObjVal? "t").getStr?
    match t with
    | "none" => pure .none
    | "str" => pure (.str (← getStr j "v"))
    | "cls" => pure (.cls (← getStr j "v"))
    | _ => throw s!"unknown name kind {t}"

def parseHOp (j : Json) : Except String HOp := do
  let o ← (← j.getObjVal? "o").getStr?
  match o with
  | "register" => pure (.plug (.register (← getStr j "g") (← getStr j "n") (← getStr j "k") (← getBool j "force")))
  | "find" => pure (.plug (.find (← getStr j "g") (← parseNameArg (← j.getObjVal? "name")) (← getOptStr j "filename")))
  | "enum" => pure (.enumerate (← getStr j "g"))
  | _ => throw s!"unknown plughist op {o}"

/-- the one-table reference, run next to the model (same argument checks, `Spec.Plugins` for the table) -/
def specFindD (T : Spec.Plugins.Table) (group : Str) (name : NameArg) (filename : Option Str) : Except PlugErr Cls :=
  match name with
  | .cls k => .ok k
  | _ =>
    match dget Gen.defaultPlugins group with
    | none => .error (.groupNotFound group)
    | some dflt =>
      let opt (e : PlugErr) (o : Option Cls) : Except PlugErr Cls := match o with | some k => .ok k | none => .error e
      match name with
      | .str (c :: n) => opt (.notFound group (c :: n)) (Spec.Plugins.findName T group (c :: n))
      | _ =>
        match filename with
        | some (c :: f) => opt (.notFound (group ++ ".suffixes".toList) (splitext (c :: f)).2)
                             (Spec.Plugins.findSuffix T group (splitext (c :: f)).2)
        | _ => opt (.notFound group dflt) (Spec.Plugins.load T group dflt)

/-- `cands`: every name some registration of the history mentions.  The reference answer to
`enumerate_plugin_names(g)` is the SET of names the one table holds under the group `g` itself. -/
def runHist (cands : List Str) (R : Registry) (T : Spec.Plugins.Table) : List HOp → List Json × List Json
  | [] => ([], [])
  | .enumerate g :: ops =>
    let rest := runHist cands R T ops
    let specNames := ((cands ++ installedNames Gen.installedPlugins g).eraseDups).filter fun n => (T g n).isSome
    (obj [("names", strs (enumeratePluginNames Gen.installedPlugins R g))] :: rest.1,
      obj [("nameset", strs specNames)] :: rest.2)
  | .plug op :: ops =>
    let r := plugStep Gen.installedPlugins Gen.defaultPlugins R op
    let s : Spec.Plugins.Table × Json := match op with
      | .register g n k f =>
        match baseGroup g n with
        | .error e => (T, plugErrJ e)
        | .ok base =>
          if dhas Gen.defaultPlugins base then
            let x := Spec.Plugins.register T g n k f
            (x.1, Json.bool x.2)
          else (T, plugErrJ (.groupNotFound base))
      | .find g n f =>
        match specFindD T g n f with
        | .ok k => (T, obj [("cls", strToJson k)])
        | .error e => (T, plugErrJ e)
    let rest := runHist cands r.1 s.1 ops
    (plugResJ r.2 :: rest.1, s.2 :: rest.2)

def plughist (j : Json) : Except String Json := do
  let ops ← (← getArr j "ops").mapM parseHOp
  let cands := ops.filterMap fun o => match o with | .plug (.register _ n _ _) => some n | _ => none
  let r := runHist cands [] (installedLookup Gen.installedPlugins) ops
  pure (obj [("out", arr r.1), ("spec", arr r.2)])

/-! ### openmatrix -/

def eventJ : Event → Json
  | .locate p => obj [("ev", Json.str "locate"), ("path", strToJson p)]
  | .tryOpen p m e => obj [("ev", Json.str "open"), ("path", pathArgJ p), ("mode", strToJson m), ("encoding", optJ strToJson e)]

def parsePairs (l : List Json) : Except String (List (Str × Str)) :=
  l.mapM fun p => do
    let a ← p.getArr?
    pure (← jsonToStr a[0]!, ← jsonToStr a[1]!)

/-- the world of one request: a handle is the path (argument) that was opened.
`fail`: `[path argument, strerror]` pairs; `only` (optional): the path arguments that exist; `locate`: what running the `kpsewhich` program gives —
`{"kind":"proc","rc":…,"stdout":hex}` or `{"kind":"error","strerror":…}` (it cannot be started). -/
def parseWorld (w : Json) : Except String (Env PathArg) := do
  let isfile ← getStrList w "isfile"
  let fail ← (← getArr w "fail").mapM fun p => do
    let a ← p.getArr?
    pure (← parsePathArg a[0]!, ← jsonToStr a[1]!)
  let environ ← parsePairs (← getArr w "environ")
  -- optional `only`: the path arguments that exist; every other one fails with ENOENT (real file system families)
  let only : Option (List PathArg) ← match w.getObjVal? "only" with
    | .ok (.arr a) => do pure (some (← a.toList.mapM parsePathArg))
    | _ => pure none
  let loc ← w.getObjVal? "locate"
  let lk ← (← loc.getObjVal? "kind").getStr?
  let run : Path → Except IOErr (Int × Bytes) ←
    match lk with
    | "proc" => do
      let rc ← getInt loc "rc"
      let out ← getBytes loc "stdout"
      pure (fun _ => .ok (rc, out))
    | "error" => do let m ← getStr loc "strerror"; pure (fun _ => .error ⟨m⟩)
    | _ => throw s!"unknown locate kind {lk}"
  pure { opener := fun p _ _ => match fail.find? (fun f => f.1 == p) with
           | some f => .error ⟨f.2⟩
           | none =>
             match only with
             | some l => if l.contains p then .ok p else .error ⟨"No such file or directory".toList⟩
             | none => .ok p
         isFile := fun p => isfile.contains p
         runKpsewhich := run
         environ := environ }

def openedJ : Except OpenErr (Opened PathArg Unit) → Json
  | .ok (.passthrough _) => obj [("ok", Json.str "passthrough")]
  | .ok (.handle h) => obj [("ok", obj [("handle", pathArgJ h)])]
  | .error e => obj [("err", obj [("kind", Json.str "PybtexError"), ("filename", strToJson e.filename),
                                   ("message", strToJson e.message)])]

def openmatrix (j : Json) : Except String Json := do
  let env ← parseWorld (← j.getObjVal? "world")
  let fn ← (← j.getObjVal? "fn").getStr?
  let mode ← getStr j "mode"
  let enc ← getOptStr j "encoding"
  let argk ← (← j.getObjVal? "arg").getStr?
  let path ← getStr j "path"
  let file : FileArg Unit := if argk == "stream" then .stream () else .path path
  let r ← match fn with
    | "raw" => pure (openRaw env file mode enc)
    | "unicode" => pure (openUnicode env file mode enc)
    | _ => throw s!"unknown fn {fn}"
  pure (obj [("out", obj [("events", arr (r.1.map eventJ)), ("result", openedJ r.2)])])

/-! ### entrypoints -/

def parseCodec (l : List Json) : Except String Codec := do
  let pairs ← l.mapM fun p => do
    let a ← p.getArr?
    pure ((← jsonToStr a[0]!), (← jsonToBytes a[1]!))
  pure { enc := fun s => match pairs.find? (fun p => p.1 == s) with | some p => p.2 | none => []
         dec := fun b => match pairs.find? (fun p => p.2 == b) with
           | some p => .ok p.1
           | none => .error "undecodable".toList }

/-- a reader core that records what it is handed -/
def recReader : ReaderCore (List (String × Stream)) Unit where
  parseStream := fun d st => .ok (d ++ [("parse_stream", st)])
  parseText := fun d s => .ok (d ++ [("parse_string", .text s)])

def recJ (l : List (String × Stream)) : Json :=
  arr (l.map fun r => obj [("core", Json.str r.1), ("got", streamJ r.2)])

def rerrJ : RErr Unit → Json
  | .open e => obj [("err", Json.str "PybtexError"), ("message", strToJson e.message)]
  | .decodeInFile _ f => obj [("err", Json.str "PybtexError"), ("filename", strToJson f)]
  | .unicodeDecode _ => obj [("err", Json.str "UnicodeDecodeError")]
  | .wrongStream => obj [("err", Json.str "TypeError")]
  | .core _ => obj [("err", Json.str "core")]

def werrJ : WErr Unit → Json
  | .open e => obj [("err", Json.str "PybtexError"), ("message", strToJson e.message)]
  | .unicodeDecode _ => obj [("err", Json.str "UnicodeDecodeError")]
  | .core _ => obj [("err", Json.str "core")]

/-- the bytes behind a handle (= the path that was opened) -/
def epContent (files : List (PathArg × Bytes)) (h : PathArg) : Bytes :=
  match files.find? (fun f => f.1 == h) with
  | some f => f.2
  | none => []

def epReply (events : List Event) (result : Json) : Json :=
  obj [("events", arr (events.map eventJ)), ("result", result)]

def readEntry (k : ReaderKind) (c : Codec) (encName : Str) (env : Env PathArg) (files : List (PathArg × Bytes))
    (s : Str) (b : Bytes) (j : Json) : Except String Json := do
  let entry ← (← j.getObjVal? "entry").getStr?
  -- a stream of the kind the class asks for, holding the document
  let own : Stream := if k.unicodeIO then .text s else .binary b
  let res : List Event × Except (RErr Unit) (List (String × Stream)) ← match entry with
    | "parse_string" => pure ([], parseString k recReader c [] s)
    | "parse_bytes" => pure ([], parseBytes k recReader c [] b)
    | "parse_stream" => pure ([], parseStream k recReader [] own)
    | "parse_file_path" =>
      pure (parseFile k recReader c encName env (epContent files) [] (.path (← getStr j "path")) none)
    | "parse_file_stream" =>
      pure (parseFile k recReader c encName env (epContent files) [] (.stream own) none)
    | "parse_files" =>
      pure (parseFiles k recReader c encName env (epContent files) (← getOptStr j "suffix") []
        (← getStrList j "bases"))
    | _ => throw s!"unknown reader entry {entry}"
  pure (epReply res.1 (match res.2 with | .ok l => recJ l | .error e => rerrJ e))

def writeEntry (k : WriterKind) (c utf8 : Codec) (encName : Str) (env : Env PathArg) (text : Str) (wrote : Bool)
    (j : Json) : Except String Json := do
  let entry ← (← j.getObjVal? "entry").getStr?
  -- `wrote`: did the real `write_stream` call `stream.write` at all (observed by the harness)?
  let core : WriterCore Unit Unit :=
    { writeText := fun _ => .ok (if wrote then [text] else []), writeBytes := fun _ => .ok (c.enc text), xmlBody := fun _ => .ok text }
  let writtenJ (r : List Event × Except (WErr Unit) (Written PathArg Unit)) : Json :=
    epReply r.1 (match r.2 with
      | .ok (.file h b) => obj [("file", pathArgJ h), ("bytes", bytesToJson b)]
      | .ok (.stream _ p) => obj [("stream", streamJ p)]
      | .error e => werrJ e)
  match entry with
  | "to_string" =>
    pure (epReply [] (match toStr k core c utf8 encName () with | .ok s => strToJson s | .error e => werrJ e))
  | "to_bytes" =>
    pure (epReply [] (match toBytes k core c encName () with | .ok b => bytesToJson b | .error e => werrJ e))
  | "write_file_path" =>
    pure (writtenJ (writeFile k core c encName env () (.path (← getStr j "path") : FileArg Unit)))
  | "write_file_stream" =>
    pure (writtenJ (writeFile k core c encName env () (.stream () : FileArg Unit)))
  | _ => throw s!"unknown writer entry {entry}"

def entrypoints (j : Json) : Except String Json := do
  let side ← (← j.getObjVal? "side").getStr?
  let u ← getBool j "u"
  let ov ← getStrList j "ov"
  let c ← parseCodec (← getArr j "codec")
  let utf8 ← parseCodec (← getArr j "utf8")
  let encName ← getStr j "enc"
  let files ← (← getArr j "files").mapM fun p => do
    let a ← p.getArr?
    pure ((← parsePathArg a[0]!), (← jsonToBytes a[1]!))
  let env ← parseWorld (← j.getObjVal? "world")
  let entries ← getArr j "entries"
  if side == "read" then
    match readerKindOf u ov with
    | none => pure (obj [("out", Json.str "unknown-wiring")])
    | some k =>
      let s ← getStr j "s"
      let b ← getBytes j "b"
      pure (obj [("out", arr (← entries.mapM (readEntry k c encName env files s b)))])
  else
    match writerKindOf u ov with
    | none => pure (obj [("out", Json.str "unknown-wiring")])
    | some k =>
      let text ← getStr j "text"
      let wrote := match getBool j "wrote" with | .ok b => b | .error _ => !text.isEmpty
      pure (obj [("out", arr (← entries.mapM (writeEntry k c utf8 encName env text wrote)))])

/-! ### pathfn -/

def pathfn (j : Json) : Except String Json := do
  let fn ← (← j.getObjVal? "fn").getStr?
  match fn with
  | "splitext" => let r := splitext (← getStr j "a"); pure (obj [("out", arr [strToJson r.1, strToJson r.2])])
  | "join" => pure (obj [("out", strToJson (posixJoin (← getStr j "a") (← getStr j "b")))])
  | _ => throw s!"unknown pathfn {fn}"

/-! ### modfile -/

def parseModFile (j : Json) : Except String ModFileArg := do
  let k ← (← j.getObjVal? "k").getStr?
  match k with
  | "str" => pure (.strPath (← getStr j "v"))
  | "bytes" => pure (.bytesPath (← getBytes j "v"))
  | "like" =>
    let n ← j.getObjVal? "name"
    match n with
    | .null => pure (.fileLike .absent)
    | _ =>
      let t ← (← n.getObjVal? "t").getStr?
      match t with
      | "str" => pure (.fileLike (.str (← getStr n "v")))
      | "bytes" => pure (.fileLike (.bytes (← getBytes n "v")))
      | "int" => pure (.fileLike (.int (← getInt n "v")))
      | _ => throw s!"unknown name kind {t}"
  | _ => throw s!"unknown file kind {k}"

def modfile (j : Json) : Except String Json := do
  let side ← (← j.getObjVal? "side").getStr?
  let fmt ← parseNameArg (← j.getObjVal? "fmt")
  let file ← parseModFile (← j.getObjVal? "file")
  let r := if side == "read" then moduleReaderFor Gen.installedPlugins Gen.defaultPlugins [] fmt file
           else moduleWriterFor Gen.installedPlugins Gen.defaultPlugins [] fmt file
  pure (obj [("out", match r with | .ok k => obj [("cls", strToJson k)] | .error e => plugErrJ e),
             ("spec", obj [("filename", optJ strToJson (moduleFileName file))])])

/-! ### openx -/

def openedXJ : Except (OpenExc Str) (Opened PathArg Unit) → Json
  | .ok (.passthrough _) => obj [("ok", Json.str "passthrough")]
  | .ok (.handle h) => obj [("ok", obj [("handle", pathArgJ h)])]
  | .error (.pybtex e) => obj [("err", obj [("kind", Json.str "PybtexError"), ("filename", strToJson e.filename),
                                           ("message", strToJson e.message)])]
  | .error (.other x) => obj [("raised", strToJson x)]

def openx (j : Json) : Except String Json := do
  let w ← j.getObjVal? "world"
  let base ← parseWorld w
  let other ← (← getArr w "other").mapM fun p => do
    let a ← p.getArr?
    pure (← parsePathArg a[0]!, ← jsonToStr a[1]!)
  let locRaise ← getOptStr w "locate_raise"
  let envx : EnvX PathArg Str :=
    { opener := fun p m k => match other.find? (fun f => f.1 == p) with
        | some f => .error (.other f.2)
        | none => (base.toX (X := Str)).opener p m k
      isFile := base.isFile
      runKpsewhich := fun p => match locRaise with
        | some t => .error (.other t)
        | none => (base.toX (X := Str)).runKpsewhich p
      environ := base.environ }
  let fn ← (← j.getObjVal? "fn").getStr?
  let mode ← getStr j "mode"
  let enc ← getOptStr j "encoding"
  let path ← getStr j "path"
  let file : FileArg Unit := .path path
  let r ← match fn with
    | "raw" => pure (openRawX envx file mode enc)
    | "unicode" => pure (openUnicodeX envx file mode enc)
    | _ => throw s!"unknown fn {fn}"
  pure (obj [("out", obj [("events", arr (r.1.map eventJ)), ("result", openedXJ r.2)])])

/-! ### guard -/

def guard (j : Json) : Except String Json := do
  let u ← getBool j "u"
  let kind ← (← j.getObjVal? "kind").getStr?
  let k : ReaderKind := if kind == "bibtex" then .bibtex else .base u
  let cls ← getStr j "cls"
  let entry ← (← j.getObjVal? "entry").getStr?
  let c ← parseCodec (← getArr j "codec")
  let v ← j.getObjVal? "val"
  let t ← (← v.getObjVal? "t").getStr?
  let val : PyVal ← match t with
    | "str" => do pure (.str (← getStr v "v"))
    | "bytes" => do pure (.bytes (← getBytes v "v"))
    | _ => throw s!"unknown value kind {t}"
  let r ← match entry with
    | "parse_string" =>
      if kind == "bibtex" then throw "parse_string of a class that overrides it has no guard in the model"
      else pure (parseStringAny u cls recReader c [] val)
    | "parse_bytes" => pure (parseBytesAny k cls recReader c [] val)
    | _ => throw s!"unknown entry {entry}"
  pure (obj [("out", match r with
    | .ok d => recJ d
    | .error (.valueError m) => obj [("err", Json.str "ValueError"), ("message", strToJson m)]
    | .error (.reader e) => rerrJ e)])

/-- driver ops of this property: (op name, handler) -/
def handlers : List (String × (Json → Except String Json)) :=
  [("plughist", plughist), ("openmatrix", openmatrix), ("entrypoints", entrypoints), ("pathfn", pathfn),
   ("modfile", modfile), ("openx", openx), ("guard", guard)]

end Pybtex.Drv.C17
