import PybtexModel.Drv.Json
import PybtexModel.Drv.C01
import PybtexModel.Model.BibParse
import PybtexModel.Spec.BibConfine
open Lean
namespace Pybtex.Drv.C10
open Pybtex.Bib Pybtex.Drv.C01

/-- ONE round of the command loop from a loop-top state: `some s'` = the loop goes on from `s'`
(`loopStep s = .inr s'` of `Lemmas/BibTotal.lean`; `parseLoop 1` runs one round and then stops with
the fuel marker `internal`, which no round produces itself, `C10_total`), `none` = the loop stops. -/
def oneRound (s : St) : Option St :=
  match parseLoop 1 s with
  | (s', some ⟨.internal, none⟩) => some s'
  | _ => none

def sameDict (a b : CIDict Str) : Bool := a.dict == b.dict && a.keys == b.keys

def sameSet : Option CISet → Option CISet → Bool
  | none, none => true
  | some a, some b => a.set == b.set && a.keys == b.keys
  | _, _ => false

def isRep (keys : List Str) (e : Err) : Bool :=
  match e.kind with
  | .repeatedEntry k => keys.any fun k' => keyFold k' = keyFold k
  | _ => false

/-- `c10case`: a (context, corruption) pair `pre ++ bad ++ post`.  Reply `out` = the two runs on the whole
text (as `bibparse` with `both`); `cover` = the hypotheses of `C10_confined_after_partial` evaluated
for `S` = the reader state after `pre` (its unread rest has no `@`), `bad' = S.rest ++ bad`, `post`:
`hround hE hat hmac hun hw hK`; `selfContained` = the syntactic premise `selfContainedB bad'` of
`C10_confined_syntactic` (`Spec/BibConfine.lean`), which implies `hE` and `hat`; `swallow` = the round that reads the malformed command in front of `post`
consumes the first `@` of `post` (as an identifier character); and the conclusion of the theorem: the entries / preamble items the
theorem predicts for the run on the whole text (`S1` followed by what the run on `post` alone from
`S` adds). -/
def c10case (j : Json) : Except String Json := do
  let pre ← getStr j "pre"
  let bad ← getStr j "bad"
  let post ← getStr j "post"
  let wanted ← match j.getObjVal? "wanted" with
    | .ok (Json.arr a) => do
      let l ← a.toList.mapM jsonToStr
      pure (some l)
    | _ => pure none
  let text := pre ++ bad ++ post
  let out := obj [("capture", resultPosJ text (parseBib text false wanted)),
                  ("strict", resultPosJ text (parseBib text true wanted))]
  let S := (parseBib pre false wanted).1
  let preOk := (parseBib pre false wanted).2.isNone && S.errs.all fun e => e.kind ≠ .prematureEOF
  let bad1 := S.rest ++ bad
  -- does the round that reads the malformed command, in front of `post`, consume the first `@` of `post`?
  let p := (post.takeWhile (· ≠ '@')).length
  let swallow := bad1.contains '@' && post.contains '@' &&
    decide ((parseLoop 1 { S with rest := bad1 ++ post }).1.rest.length < post.length - p)
  let cover : Json :=
    match oneRound { S with rest := bad1 } with
    | none => obj [("covered", Json.bool false), ("hround", Json.bool false), ("swallow", Json.bool swallow),
                   ("selfContained", Json.bool (selfContainedB bad1))]
    | some S1 =>
      let hE := (S1.errs.drop S.errs.length).all fun e => e.kind ≠ .prematureEOF
      let hat := !S1.rest.contains '@'
      let hmac := sameDict S1.macros S.macros
      let hun := S1.unnamed == S.unnamed
      let hw := sameSet S1.db.wanted S.db.wanted
      let A := parseLoop ((bad1 ++ post).length + 1) { S with rest := bad1 ++ post }
      let B := parseLoop (post.length + 1) { S with rest := post }
      let newKeys := (S1.db.entries.drop S.db.entries.length).map (·.key)
      let hK := !(A.1.errs.drop S1.errs.length).any (isRep newKeys) &&
                !(match A.2 with | some e => isRep newKeys e | none => false)
      let covered := preOk && hE && hat && hmac && hun && hw && hK
      obj [("covered", Json.bool covered), ("hround", Json.bool true), ("swallow", Json.bool swallow),
           ("selfContained", Json.bool (selfContainedB bad1)), ("preOk", Json.bool preOk), ("hE", Json.bool hE),
           ("hat", Json.bool hat), ("hmac", Json.bool hmac), ("hun", Json.bool hun), ("hw", Json.bool hw), ("hK", Json.bool hK),
           ("entries", arr ((S1.db.entries ++ B.1.db.entries.drop S.db.entries.length).map entryJ)),
           ("preamble", strs (S1.db.preamble ++ B.1.db.preamble.drop S.db.preamble.length)),
           ("npre", nat S.db.entries.length), ("nbad", nat (S1.db.entries.length - S.db.entries.length))]
  pure (obj [("out", out), ("cover", cover)])

/-- driver ops of this property: (op name, handler) -/
def handlers : List (String × (Json → Except String Json)) := [("c10case", c10case)]

end Pybtex.Drv.C10
