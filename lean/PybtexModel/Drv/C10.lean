import PybtexModel.Drv.Json
import PybtexModel.Drv.C01
import PybtexModel.Model.BibParse
import PybtexModel.Spec.BibConfine
import PybtexModel.Model.BibContext
open Lean
namespace Pybtex.Drv.C10
open Pybtex.Bib Pybtex.Drv.C01

/-- ONE round of the command loop from a loop-top state: `some s'` = the loop goes on from `s'`
(`loopStep s = .inr s'` of `Lemmas/BibTotal.lean`; `parseLoop 1` runs one round and then stops with
the fuel marker `internal`, which no round produces itself, `C10_total`), `none` = the loop stops. -/
def oneRound (s : St) : Option St :=
  match parseLoop 1 s with
  | (s', some ⟨.internal, none⟩) => some s'
  | _ => none

def sameDict (a b : CIDict Str) : Bool := a.dict == b.dict && a.keys == b.keys

def sameSet : Option CISet → Option CISet → Bool
  | none, none => true
  | some a, some b => a.set == b.set && a.keys == b.keys
  | _, _ => false

def isRep (keys : List Str) (e : Err) : Bool :=
  match e.kind with
  | .repeatedEntry k => keys.any fun k' => keyFold k' = keyFold k
  | _ => false

/-- `c10case`: a (context, corruption) pair `pre ++ bad ++ post`.  Reply `out` = the two runs on the whole
text (as `bibparse` with `both`); `cover` = the hypotheses of `C10_confined_after_partial` evaluated
for `S` = the reader state after `pre` (its unread rest has no `@`), `bad' = S.rest ++ bad`, `post`:
`hround hE hat hmac hun hw hK`; `selfContained` = the syntactic premise `selfContainedB bad'` of
`C10_confined_syntactic` (`Spec/BibConfine.lean`), which implies `hE` and `hat`; `swallow` = the round that reads the malformed command in front of `post`
consumes the first `@` of `post` (as an identifier character); and the conclusion of the theorem: the entries / preamble items the
theorem predicts for the run on the whole text (`S1` followed by what the run on `post` alone from
`S` adds). -/
def c10case (j : Json) : Except String Json := do
  let pre ← getStr j "pre"
  let bad ← getStr j "bad"
  let post ← getStr j "post"
  let wanted ← match j.getObjVal? "wanted" with
    | .ok (Json.arr a) => do
      let l ← a.toList.mapM jsonToStr
      pure (some l)
    | _ => pure none
  let text := pre ++ bad ++ post
  let out := obj [("capture", resultPosJ text (parseBib text false wanted)),
                  ("strict", resultPosJ text (parseBib text true wanted))]
  let S := (parseBib pre false wanted).1
  let preOk := (parseBib pre false wanted).2.isNone && S.errs.all fun e => e.kind ≠ .prematureEOF
  let bad1 := S.rest ++ bad
  -- does the round that reads the malformed command, in front of `post`, consume the first `@` of `post`?
  let p := (post.takeWhile (· ≠ '@')).length
  let swallow := bad1.contains '@' && post.contains '@' &&
    decide ((parseLoop 1 { S with rest := bad1 ++ post }).1.rest.length < post.length - p)
  let cover : Json :=
    match oneRound { S with rest := bad1 } with
    | none => obj [("covered", Json.bool false), ("hround", Json.bool false), ("swallow", Json.bool swallow),
                   ("selfContained", Json.bool (selfContainedB bad1))]
    | some S1 =>
      let hE := (S1.errs.drop S.errs.length).all fun e => e.kind ≠ .prematureEOF
      let hat := !S1.rest.contains '@'
      let hmac := sameDict S1.macros S.macros
      let hun := S1.unnamed == S.unnamed
      let hw := sameSet S1.db.wanted S.db.wanted
      let A := parseLoop ((bad1 ++ post).length + 1) { S with rest := bad1 ++ post }
      let B := parseLoop (post.length + 1) { S with rest := post }
      let newKeys := (S1.db.entries.drop S.db.entries.length).map (·.key)
      let hK := !(A.1.errs.drop S1.errs.length).any (isRep newKeys) &&
                !(match A.2 with | some e => isRep newKeys e | none => false)
      let covered := preOk && hE && hat && hmac && hun && hw && hK
      obj [("covered", Json.bool covered), ("hround", Json.bool true), ("swallow", Json.bool swallow),
           ("selfContained", Json.bool (selfContainedB bad1)), ("preOk", Json.bool preOk), ("hE", Json.bool hE),
           ("hat", Json.bool hat), ("hmac", Json.bool hmac), ("hun", Json.bool hun), ("hw", Json.bool hw), ("hK", Json.bool hK),
           ("entries", arr ((S1.db.entries ++ B.1.db.entries.drop S.db.entries.length).map entryJ)),
           ("preamble", strs (S1.db.preamble ++ B.1.db.preamble.drop S.db.preamble.length)),
           ("npre", nat S.db.entries.length), ("nbad", nat (S1.db.entries.length - S.db.entries.length))]
  pure (obj [("out", out), ("cover", cover)])

/-- a rendering the model cannot produce (`RenderFail`: `get_error_context` would index out of range;
unreachable, `C10_context_renderable`) or a model-only error kind -/
def renderFailJ : Json := obj [("fail", Json.bool true)]

/-- one located problem as the exception object shows itself: class / line / message (`errJ`),
`error_context_info` (`start` = `command_start`, `pos`; `null` for the data errors, which have none),
`str(e)`, `e.get_context()`, `format_error(e, prefix)` -/
def locJ (fn : Option Str) (text pre : Str) (l : Located) : Json :=
  obj [("err", errJ l.err),
       ("start", if l.err.line.isSome then nat l.start else Json.null),
       ("pos", if l.err.line.isSome then nat l.pos else Json.null),
       ("str", match l.exc fn text with
         | some x => strToJson x.str
         | none => renderFailJ),
       ("context", match l.context fn text with
         | some (.ok (some c)) => strToJson c
         | some (.ok none) => Json.null
         | _ => renderFailJ),
       ("format", match l.render fn text pre with
         | some (.ok t) => strToJson t
         | _ => renderFailJ)]

/-- `c10render`: the reader with `command_start` (`parseBibCS`) on `text` in continue and in strict
mode.  `capture.located`: every reported problem with its `error_context_info` and its rendering as
a warning; `capture.stderr`: what non-strict mode prints (`print_error(e, 'WARNING: ')` per problem);
`strict.raised`: the error strict mode raises, rendered as `ERROR: `; `agree`: the final result of
`parseBibCS` is the one of `parseBib` (`C10_context_refines`, evaluated on the observable part). -/
def c10render (j : Json) : Except String Json := do
  let text ← getStr j "text"
  let wanted ← match j.getObjVal? "wanted" with
    | .ok (Json.arr a) => do
      let l ← a.toList.mapM jsonToStr
      pure (some l)
    | _ => pure none
  let fn ← match j.getObjVal? "filename" with
    | .ok (Json.str _) => do
      let f ← getStr j "filename"
      pure (some f)
    | _ => pure none
  let c := parseBibCS text false wanted
  let s := parseBibCS text true wanted
  let warn (l : Located) : Str := match l.render fn text Errors.warningPrefix with
    | some (.ok t) => t ++ ['\n']
    | _ => "<RENDERFAIL>".toList
  let agree := resultPosJ text c.1 == resultPosJ text (parseBib text false wanted) &&
               resultPosJ text s.1 == resultPosJ text (parseBib text true wanted)
  pure (obj [("out", obj [
    ("capture", obj [("located", arr (c.2.1.map (locJ fn text Errors.warningPrefix))),
                     ("stderr", strToJson (c.2.1.flatMap warn)),
                     ("raised", optJ (locJ fn text Errors.errorPrefix) c.2.2)]),
    ("strict", obj [("raised", optJ (locJ fn text Errors.errorPrefix) s.2.2)])]),
    ("agree", Json.bool agree)])

def lowCmdJ (c : LowCmd) : Json :=
  let parts (l : List Str) : Json := strs l
  match c.cmd with
  | .string => obj [("kind", Json.str "string"), ("name", optJ strToJson c.fieldName), ("value", parts c.value)]
  | .preamble v => obj [("kind", Json.str "preamble"), ("value", parts v)]
  | .entry t k fs => obj [("kind", Json.str "entry"), ("command", strToJson t), ("key", optJ strToJson k),
                           ("fields", arr (fs.map fun f => arr [strToJson f.1, parts f.2]))]

/-- `c10lowlevel`: `LowLevelParser` used directly — the commands the iterator yields (raw value parts),
the problems handed to `handle_error` with their positions, the error that ends the iteration, and
the scanner position / line at the end; `strict` = the default `handle_error` (raise). -/
def c10lowlevel (j : Json) : Except String Json := do
  let text ← getStr j "text"
  let strict ← getBool j "strict"
  let wanted ← match j.getObjVal? "wanted" with
    | .ok (Json.arr a) => do
      let l ← a.toList.mapM jsonToStr
      pure (some l)
    | _ => pure none
  let r := lowLevelRun text strict wanted
  pure (obj [("out", obj [("commands", arr (r.2.map lowCmdJ)),
    ("errors", arr (r.1.1.errs.map errJ)),
    ("errpos", arr ((r.1.1.errs.zip r.1.1.errAt).map fun p => posJ text p.1 p.2)),
    ("raised", optJ errJ r.1.2),
    ("pos", nat (text.length - r.1.1.rest.length)), ("lineno", nat r.1.1.ln)])])

/-- driver ops of this property: (op name, handler) -/
def handlers : List (String × (Json → Except String Json)) := [("c10case", c10case), ("c10render", c10render), ("c10lowlevel", c10lowlevel)]

end Pybtex.Drv.C10
