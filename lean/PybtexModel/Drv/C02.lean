/-
Driver ops of C02.

A database travels as
  {"entries": [{"key": s, "orig_type": s, "fields": [[name, value], …],
                "persons": [[role, [[first…], [middle…], [prelast…], [last…], [lineage…]], …], …]}, …],
   "preamble": [s, …]}
and comes back in the same shape (plus "type").  The serialisers are the identity on trees here
(`yaml` / `xml` steps are `ofDict ∘ toDict`, `ofTree ∘ toTree`), the BibTeX step is
`parseBib ∘ writeStream` with `encode = encodeLatex`.
-/
import PybtexModel.Drv.Json
import PybtexModel.Model.BibWrite
import PybtexModel.Spec.BibWrite
import PybtexModel.Model.BibWriteText
import PybtexModel.Spec.BibWriteText
import PybtexModel.Model.Backends
open Lean
namespace Pybtex.Drv.C02
open Pybtex.Bib Pybtex.BibWrite

def parsePerson (j : Json) : Except String Person := do
  let a ← j.getArr?
  if a.size != 5 then throw "person: five part lists expected"
  let part (i : Nat) : Except String (List Str) := do (← (a[i]!).getArr?).toList.mapM jsonToStr
  pure { first := ← part 0, middle := ← part 1, prelast := ← part 2, last := ← part 3, lineage := ← part 4 }

def parseField (j : Json) : Except String (Str × Str) := do
  let a ← j.getArr?
  if a.size != 2 then throw "pair expected"
  pure (← jsonToStr a[0]!, ← jsonToStr a[1]!)

def parseRole (j : Json) : Except String (Str × List Person) := do
  let a ← j.getArr?
  if a.size != 2 then throw "role pair expected"
  pure (← jsonToStr a[0]!, ← (← (a[1]!).getArr?).toList.mapM parsePerson)

def parseEntry (j : Json) : Except String Entry := do
  let ty ← getStr j "orig_type"
  pure { key := ← getStr j "key", type := lowerU ty, origType := ty,
         fields := ← (← getArr j "fields").mapM parseField,
         persons := ← (← getArr j "persons").mapM parseRole }

def parseDb (j : Json) : Except String BibData := do
  pure { entries := ← (← getArr j "entries").mapM parseEntry, preamble := ← getStrList j "preamble" }

def personJ (p : Person) : Json :=
  arr [strs p.first, strs p.middle, strs p.prelast, strs p.last, strs p.lineage]

def entryJ (e : Entry) : Json :=
  obj [("key", strToJson e.key), ("type", strToJson e.type), ("orig_type", strToJson e.origType),
       ("fields", arr (e.fields.map fun f => arr [strToJson f.1, strToJson f.2])),
       ("persons", arr (e.persons.map fun r => arr [strToJson r.1, arr (r.2.map personJ)]))]

def dbJ (d : BibData) : Json :=
  obj [("entries", arr (d.entries.map entryJ)), ("preamble", strs d.preamble)]

def errName : WErr → String
  | .unmatched _ => "BibTeXError"
  | .tooDeep => "BibTeXError"
  | .malformed => "MALFORMED"
  | .nameTooDeep => "BibTeXError"

/-- `bibwrite`: the text of the BibTeX writer -/
def bibwrite (j : Json) : Except String Json := do
  let d ← parseDb (← j.getObjVal? "db")
  let spec := obj [("wf_bibtex", Json.bool (BibWrite.WFDb d)), ("q_bibtex", Json.bool (BibWrite.WFDbQ .bibtex d))]
  match writeStream encodeLatex d with
  | .error e => pure (obj [("out", obj [("error", Json.str (errName e))]), ("spec", spec)])
  | .ok t => pure (obj [("out", obj [("text", strToJson t)]), ("spec", spec)])

def mkJ : Except NameErr (Person × Bool) → Json
  | .error _ => obj [("error", Json.str "BibTeXError")]
  | .ok (p, r) => obj [("person", personJ p), ("too_many_commas", Json.bool r)]

/-- `personfmt`: five part lists → `_format_name`, `__str__`, both re-parsed, and the person built
from the five part texts (the YAML / BibTeXML path) -/
def personfmt (j : Json) : Except String Json := do
  let p ← parsePerson (← j.getObjVal? "person")
  pure (obj [("out", obj [
      ("format_name", strToJson (formatName p)),
      ("str", strToJson (personStr p)),
      ("reparsed", mkJ (mkPerson (formatName p) [] [] [] [] [])),
      ("reparsed_str", mkJ (mkPerson (personStr p) [] [] [] [] [])),
      ("from_parts", mkJ (mkPerson [] (partText p.first) (partText p.middle) (partText p.prelast)
                            (partText p.last) (partText p.lineage)))]),
    ("spec", obj [("wf_person", Json.bool (BibWrite.WFPerson p)),
                  ("wf_core", Json.bool (BibWrite.WFPersonCore p))])])

def readResJ (r : ReadRes) : Json :=
  obj [("db", dbJ r.db), ("bad_names", strs r.badNames), ("repeated", strs r.repeated),
       ("others", nat r.others)]

/-- `lowerdb`: `BibliographyData.lower()` -/
def lowerdb (j : Json) : Except String Json := do
  let d ← parseDb (← j.getObjVal? "db")
  let r := dbLower d
  let distinct (l : List Str) : Bool := (l.map lowerU).eraseDups.length == l.length
  let ci := distinct (d.entries.map (·.key)) &&
    d.entries.all fun e => distinct (e.fields.map (·.1)) && distinct (e.persons.map (·.1))
  -- `eval(repr(db))` over the constructor calls the two `__repr__` print
  let reprJ : Json := match dbEval (dbRepr d) with
    | .error e => obj [("error", Json.str (errName e))]
    | .ok (d', _) => dbJ d'
  pure (obj [("out", obj [("db", dbJ r.1), ("repeated", strs r.2), ("repr", reprJ)]),
             ("spec", obj [("lowered", dbJ (BibWrite.lowerSpec d)), ("ci_distinct", Json.bool ci),
                           ("lower_domain", Json.bool (d.entries.all fun e => lowerDomain e.key && lowerDomain e.origType &&
                              e.fields.all (fun f => lowerDomain f.1) && e.persons.all (fun r => lowerDomain r.1))),
                           ("persons_wf", Json.bool (d.entries.all fun e => e.persons.all fun r => r.2.all BibWrite.WFPerson))])])

def parseFmt (j : Json) : Except String Fmt := do
  match ← j.getStr? with
  | "bibtex" => pure .bibtex
  | "yaml" => pure .yaml
  | "bibtexml" => pure .bibtexml
  | s => throw s!"unknown format {s}"

/-- one write/read step with identity serialisers -/
def stepD (f : Fmt) (d : BibData) : Except WErr ReadRes :=
  match f with
  | .bibtex =>
    match writeStream encodeLatex d with
    | .error e => .error e
    | .ok text => readFmt ⟨encodeLatex, fun _ => [], fun _ => none, fun _ => [], fun _ => none⟩ .bibtex text
  | .yaml => ofDictYaml (toDictYaml d)
  | .bibtexml => ofTreeXml (toTreeXml d)

/-- the chain of `BibWrite.chain`, collecting what every read reports -/
def chainD (preserve : Bool) : Bool → List Fmt → BibData → List Json → Except WErr (BibData × List Json)
  | _, [], d, acc => .ok (d, acc)
  | first, f :: fs, d, acc =>
    let d := if first || preserve then d else (dbLower d).1
    match stepD f d with
    | .error e => .error e
    | .ok r => chainD preserve false fs r.db (acc ++ [readResJ r])

/-- `convert`: database, chain of formats, preserve_case → the database read back at the end -/
def convertOp (j : Json) : Except String Json := do
  let d ← parseDb (← j.getObjVal? "db")
  let fs ← (← getArr j "chain").mapM parseFmt
  let preserve ← getBool j "preserve_case"
  let spec := obj [("wf_bibtex", Json.bool (BibWrite.WFDb d)),
                   ("wf_yaml", Json.bool (BibWrite.WFDbTree true d)),
                   ("wf_xml", Json.bool (BibWrite.WFDbTree false d)),
                   ("q_bibtex", Json.bool (BibWrite.WFDbQ .bibtex d)),
                   ("q_yaml", Json.bool (BibWrite.WFDbQ .yaml d)),
                   ("q_xml", Json.bool (BibWrite.WFDbQ .bibtexml d)),
                   ("lowered", dbJ (BibWrite.lowerSpec d))]
  match chainD preserve true fs d [] with
  | .error e => pure (obj [("out", obj [("error", Json.str (errName e))]), ("spec", spec)])
  | .ok (d', steps) =>
    pure (obj [("out", obj [("db", dbJ d'),
                            ("reports", arr (steps.map fun s =>
                               obj [("bad_names", s.getObjValD "bad_names"), ("repeated", s.getObjValD "repeated"),
                                    ("others", s.getObjValD "others")]))]),
               ("spec", spec)])

/-! trees for the reader-only ops -/

def parseY : Nat → Json → Except String YNode
  | 0, _ => throw "yaml tree too deep"
  | fuel + 1, j => do
  match j with
  | .str s => pure (.str s.toList)
  | .arr a => do
    let l ← a.toList.mapM (parseY fuel)
    pure (.seq l)
  | .obj _ =>
    match j.getObjVal? "other" with
    | .ok t => pure (.other (← jsonToStr t))
    | .error _ =>
      let items ← getArr j "map"
      let l ← items.mapM fun it => do
        let a ← it.getArr?
        if a.size != 2 then throw "map item: pair expected"
        pure ((← jsonToStr a[0]!), (← parseY fuel a[1]!))
      pure (.map l)
  | _ => throw "yaml node expected"

/-- `yamlread`: a value tree → YAML `Parser.parse_stream` -/
def yamlread (j : Json) : Except String Json := do
  let t ← parseY 64 (← j.getObjVal? "tree")
  match ofDictYaml t with
  | .error e => pure (obj [("out", obj [("error", Json.str (errName e))])])
  | .ok r => pure (obj [("out", readResJ r)])

def parseX : Nat → Json → Except String XNode
  | 0, _ => throw "xml tree too deep"
  | fuel + 1, j => do
  let tag ← getStr j "tag"
  let id ← match j.getObjVal? "id" with
    | .ok Json.null => pure none
    | .ok v => do pure (some (← jsonToStr v))
    | .error _ => pure none
  let text ← match j.getObjVal? "text" with
    | .ok Json.null => pure none
    | .ok v => do pure (some (← jsonToStr v))
    | .error _ => pure none
  let ch ← (← getArr j "children").mapM (parseX fuel)
  pure (.elem tag id text ch)

/-- `xmlread`: an element tree → BibTeXML `Parser.parse_tree` -/
def xmlread (j : Json) : Except String Json := do
  let t ← parseX 64 (← j.getObjVal? "tree")
  match ofTreeXml t with
  | .error e => pure (obj [("out", obj [("error", Json.str (errName e))])])
  | .ok r => pure (obj [("out", readResJ r)])

/-! function-level ops (round 2): one function of the code each, so that a disagreement is localised -/

/-- `encode`: `Writer._encode(s)` and `Writer._encode_with_comments(s)` (default encoding) -/
def encodeOp (j : Json) : Except String Json := do
  let s ← getStr j "s"
  let safeC : Bool := s.all fun c => !(c = '#' || c = '&' || c = '_' || c = '~')
  pure (obj [("out", obj [("text", strToJson (encodeLatex s)),
                          ("comments", strToJson (encodeWithComments encodeLatex s))]),
             ("spec", obj [("safe", Json.bool (BibWrite.Safe s)), ("safe_c", Json.bool safeC)])])

/-- `encodeenc`: `Writer(encoding=…)._encode(s)` = `codecs.encode(s, 'ulatex+' + encoding)` (C09's model of the codec) -/
def encodeEncOp (j : Json) : Except String Json := do
  let s ← getStr j "s"
  let enc ← getStr j "encoding"
  match Backends.Latex.encodableIn enc with
  | none => throw "encoding not modelled"
  | some E =>
    let spec := obj [("holds", Json.bool (s.all E)), ("default", strToJson (encodeLatex s))]
    match Backends.Latex.latexcodecEncodeE E s with
    | none => pure (obj [("out", obj [("error", Json.str "UnicodeEncodeError")]), ("spec", spec)])
    | some t => pure (obj [("out", obj [("text", strToJson t)]), ("spec", spec)])

/-- `quote`: `Writer.quote(s)` (with `check_braces`: both error points) -/
def quoteOp (j : Json) : Except String Json := do
  let s ← getStr j "s"
  match quote s with
  | .error e => pure (obj [("out", obj [("error", Json.str (errName e))]),
                           ("spec", obj [("balanced", Json.bool false)])])
  | .ok t => pure (obj [("out", obj [("text", strToJson t)]),
                        ("spec", obj [("balanced", Json.bool (Pybtex.BibSpec.litScan false 0 s == some 0))])])

mutual
def yJ : YNode → Json
  | .str s => strToJson s
  | .other t => obj [("other", strToJson t)]
  | .seq items => Json.arr (ysJ items).toArray
  | .map items => obj [("map", Json.arr (ymJ items).toArray)]
def ysJ : List YNode → List Json
  | [] => []
  | x :: r => yJ x :: ysJ r
def ymJ : List (Str × YNode) → List Json
  | [] => []
  | (k, v) :: r => arr [strToJson k, yJ v] :: ymJ r
end

/-- `yamltree`: `Writer._to_dict(db)` of the YAML writer, the value tree itself -/
def yamltree (j : Json) : Except String Json := do
  let d ← parseDb (← j.getObjVal? "db")
  pure (obj [("out", obj [("tree", yJ (toDictYaml d))])])

/-- `xmltext`: the text of `to_string('bibtexml')` and of `to_bytes('bibtexml')` (UTF-8, decoded) -/
def xmltext (j : Json) : Except String Json := do
  let d ← parseDb (← j.getObjVal? "db")
  pure (obj [("out", obj [("string", strToJson (xmlToString d)), ("stream", strToJson (xmlWriteStream d))])])

/-- `xmlesc`: `escape(s)`, `quoteattr(s)`; spec: the reference reading of both -/
def xmlesc (j : Json) : Except String Json := do
  let s ← getStr j "s"
  pure (obj [("out", obj [("escape", strToJson (xmlEscape s)), ("quoteattr", strToJson (xmlQuoteAttr s))]),
             ("spec", obj [("text_back", optJ strToJson (xmlUnescape (xmlEscape s))),
                           ("attr_back", optJ strToJson (xmlAttrValue (xmlQuoteAttr s))),
                           ("raw_reading", optJ strToJson (xmlUnescape s))])])

/-- driver ops of this property: (op name, handler) -/
def handlers : List (String × (Json → Except String Json)) :=
  [("bibwrite", bibwrite), ("personfmt", personfmt), ("lowerdb", lowerdb), ("convert", convertOp),
   ("yamlread", yamlread), ("xmlread", xmlread), ("encode", encodeOp), ("encodeenc", encodeEncOp), ("quote", quoteOp),
   ("yamltree", yamltree), ("xmltext", xmltext), ("xmlesc", xmlesc)]

end Pybtex.Drv.C02
