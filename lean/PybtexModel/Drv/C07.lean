import PybtexModel.Drv.Json
import PybtexModel.Drv.C06
import PybtexModel.Drv.C08
import PybtexModel.Drv.DbJson
import PybtexModel.Model.Template
import PybtexModel.Model.Backends
import PybtexModel.Spec.PyStyle
open Lean
namespace Pybtex.Drv.C07
open Pybtex.Tmpl

def parseFn (s : String) : Except String ApplyFn :=
  match s with
  | "none" => pure .none | "dashify" => pure .dashify | "lower" => pure .lower | "capitalize" => pure .capitalize
  | _ => throw s!"unknown apply_func {s}"

def getTree (j : Json) (k : String) : Except String RT := do C08.tree (← j.getObjVal? k)

/-- parse a serialised template (bounded nesting: I/O glue) -/
def parseT : Nat → Json → Except String T
  | 0, _ => throw "template nested too deeply for the driver"
  | fuel + 1, j => do
    let t ← (← j.getObjVal? "t").getStr?
    let kids := fun (k : String) => do (← getArr j k).mapM (parseT fuel)
    match t with
    | "lit" => pure (.lit (← getTree j "r"))
    | "join" => pure (.join (← getTree j "sep") (← getTree j "sep2") (← getTree j "last") (← kids "c"))
    | "together" => pure (.together (← getBool j "last_tie") (← kids "c"))
    | "sentence" =>
      pure (.sentence (← getBool j "capfirst") (← getBool j "capitalize") (← getBool j "add_period") (← getTree j "sep") (← kids "c"))
    | "field" => pure (.field (← getStr j "name") (← parseFn (← (← j.getObjVal? "fn").getStr?)) (← getBool j "raw"))
    | "names" => pure (.names (← getStr j "role") (← getTree j "sep") (← getTree j "sep2") (← getTree j "last"))
    | "optional" => pure (.optional (← kids "c"))
    | "first_of" => pure (.firstOf (← kids "c"))
    | "tag" => pure (.tag (← getStr j "name") (← kids "c"))
    | "href" => pure (.href (← parseT fuel (← j.getObjVal? "url")) (← getBool j "external") (← kids "c"))
    | "name_part" => pure (.namePart (← getTree j "before") (← getBool j "tie") (← getBool j "abbr") (← kids "c"))
    | _ => throw s!"unknown template node {t}"

def toPEntry (ke : Str × Bib.Entry) : PEntry :=
  { key := ke.1, type := ke.2.type, fields := CIDict.ofPairs ke.2.fields, persons := CIDict.ofPairs ke.2.persons }

def bibErrJ : BibErr → Json
  | .missingField f k => arr [Json.str "FieldIsMissing", strToJson f, strToJson k]
  | .unbalanced k => arr [Json.str "PybtexSyntaxError", strToJson k]
  | .noTemplate k => arr [Json.str "NO-TEMPLATE", strToJson k]
  | .labelIndex => arr [Json.str "INTERNAL", Json.str "label"]
  | .outOfFuel => arr [Json.str "OUT-OF-FUEL"]

def parseSorting (s : String) : Except String Sorting :=
  match s with | "none" => pure .none | "author_year_title" => pure .authorYearTitle | _ => throw "sorting"
def parseLabels (s : String) : Except String Labels :=
  match s with | "number" => pure .number | "alpha" => pure .alpha | _ => throw "labels"

/-- the codec table `[[value, decoded value], …]` (computed by the real latexcodec) -/
def parseDecode (j : Json) : Except String (List (Str × Str)) :=
  match j.getObjVal? "decode" with
  | .error _ => pure []
  | .ok d => do
    (← d.getArr?).toList.mapM fun p => do
      let a ← p.getArr?
      pure ((← jsonToStr a[0]!), (← jsonToStr a[1]!))

def parseItems (j : Json) (dec : List (Str × Str)) : Except String (List (Str × Item)) := do
  (← getArr j "items").mapM fun it => do
    let key ← getStr it "key"
    let tmpl ← parseT 64 (← it.getObjVal? "template")
    let pts ← (← getArr it "person_templates").mapM fun r => do
      let a ← r.getArr?
      let ts ← (← (a[1]!).getArr?).toList.mapM (parseT 64)
      pure ((← jsonToStr a[0]!), ts)
    pure (key, ({ template := tmpl, personTemplates := pts, decode := dec } : Item))

/-- the rendering of a formatted text through the four backends (`none` = `KeyError` for an unknown symbol) -/
def rendersJ (t : RT) : Json :=
  let r := fun (b : RT.Backend Str) => optJ strToJson (RT.render b t)
  obj [("html", r Backends.html), ("markdown", r Backends.markdown),
       ("latex", r (Backends.latex Backends.Latex.latexcodecEncode)), ("text", r Backends.plaintext)]

/-- `style.format_bibliography(db, citations)` -/
def pystyle (j : Json) : Except String Json := do
  let es ← (← getArr j "entries").mapM C06.parseEntry
  let dec ← parseDecode j
  let items ← parseItems j dec
  let cites ← getStrList j "citations"
  let mc ← getInt j "min_crossrefs"
  let sorting ← parseSorting (← (← j.getObjVal? "sorting").getStr?)
  let labels ← parseLabels (← (← j.getObjVal? "labels").getStr?)
  let lookup := fun (k : Str) => (items.find? fun p => p.1 = k).map (·.2)
  let pes := es.map toPEntry
  let r := formatBibliography pes lookup cites mc sorting labels
  let reports := DbJson.reportsJ r.1
  -- spec values for the oracle: the syntactic condition of C07_terminated for every serialised template, and the
  -- BibTeX alpha base labels (before the suffix letters) of the entries in output order
  let ends := arr (items.map fun p => arr [strToJson p.1, Json.bool (Spec.endsInSentence p.2.template)])
  let sorted := sortEntries sorting (Spec.resolvedEntries pes cites mc)
  let base : Json := match sorted.mapM formatLabel with
    | none => Json.null
    | some ls => arr ((sorted.zip ls).map fun p => arr [strToJson p.1.key, strToJson p.2])
  let spec := obj [("ends_in_sentence", ends), ("alpha_base", base),
    ("sort_keys", arr (sorted.map fun e =>
      let k := sortingKey e
      arr [strToJson e.key, strToJson k.1, strToJson k.2.1, strToJson k.2.2]))]
  match r.2 with
  | .error e => pure (obj [("out", obj [("error", bibErrJ e), ("reports", reports)]), ("spec", spec)])
  | .ok fs =>
    pure (obj [("out", obj [("reports", reports),
      ("entries", arr (fs.map fun f => arr [strToJson f.key, strToJson f.label, C08.treeJ f.text])),
      ("render", arr (fs.map fun f => rendersJ f.text))]), ("spec", spec)])

/-- one template on one entry (evaluator alone) -/
def tmpleval (j : Json) : Except String Json := do
  let es ← (← getArr j "entries").mapM C06.parseEntry
  let key ← getStr j "key"
  let tmpl ← parseT 64 (← j.getObjVal? "template")
  let pts ← (← getArr j "person_templates").mapM fun r => do
    let a ← r.getArr?
    let ts ← (← (a[1]!).getArr?).toList.mapM (parseT 64)
    pure ((← jsonToStr a[0]!), ts)
  let pes := es.map toPEntry
  let dec ← parseDecode j
  match pes.find? fun e => e.key = key with
  | none => throw "no such entry"
  | some e =>
    match eval evalFuel { entry := e.toEntry, db := some (mkDb pes), personTemplates := pts, decode := dec } tmpl with
    | .error (.missing f) => pure (obj [("out", obj [("error", arr [Json.str "FieldIsMissing", strToJson f, strToJson key])])])
    | .error .unbalanced => pure (obj [("out", obj [("error", arr [Json.str "PybtexSyntaxError", strToJson key])])])
    | .error .outOfFuel => pure (obj [("out", obj [("error", arr [Json.str "OUT-OF-FUEL"])])])
    | .ok t => pure (obj [("out", obj [("text", C08.treeJ t)])])

def handlers : List (String × (Json → Except String Json)) := [("pystyle", pystyle), ("tmpleval", tmpleval)]

end Pybtex.Drv.C07
