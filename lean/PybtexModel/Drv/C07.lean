import PybtexModel.Drv.Json
import PybtexModel.Drv.C06
import PybtexModel.Drv.C08
import PybtexModel.Drv.DbJson
import PybtexModel.Model.Template
import PybtexModel.Model.UnsrtStyle
import PybtexModel.Model.Backends
import PybtexModel.Spec.PyStyle
open Lean
namespace Pybtex.Drv.C07
open Pybtex.Tmpl

def parseFn (s : String) : Except String ApplyFn :=
  match s with
  | "none" => pure .none | "dashify" => pure .dashify | "lower" => pure .lower | "capitalize" => pure .capitalize
  | _ => throw s!"unknown apply_func {s}"

def getTree (j : Json) (k : String) : Except String RT := do C08.tree (← j.getObjVal? k)

/-- parse a serialised template (bounded nesting: I/O glue) -/
def parseT : Nat → Json → Except String T
  | 0, _ => throw "template nested too deeply for the driver"
  | fuel + 1, j => do
    let t ← (← j.getObjVal? "t").getStr?
    let kids := fun (k : String) => do (← getArr j k).mapM (parseT fuel)
    match t with
    | "lit" => pure (.lit (← getTree j "r"))
    | "join" => pure (.join (← getTree j "sep") (← getTree j "sep2") (← getTree j "last") (← kids "c"))
    | "together" => pure (.together (← getBool j "last_tie") (← kids "c"))
    | "sentence" =>
      pure (.sentence (← getBool j "capfirst") (← getBool j "capitalize") (← getBool j "add_period") (← getTree j "sep") (← kids "c"))
    | "field" => pure (.field (← getStr j "name") (← parseFn (← (← j.getObjVal? "fn").getStr?)) (← getBool j "raw"))
    | "names" => pure (.names (← getStr j "role") (← getTree j "sep") (← getTree j "sep2") (← getTree j "last"))
    | "optional" => pure (.optional (← kids "c"))
    | "first_of" => pure (.firstOf (← kids "c"))
    | "tag" => pure (.tag (← getStr j "name") (← kids "c"))
    | "href" => pure (.href (← parseT fuel (← j.getObjVal? "url")) (← getBool j "external") (← kids "c"))
    | "name_part" => pure (.namePart (← getTree j "before") (← getBool j "tie") (← getBool j "abbr") (← kids "c"))
    | _ => throw s!"unknown template node {t}"

def toPEntry (ke : Str × Bib.Entry) : PEntry :=
  { key := ke.1, type := ke.2.type, fields := CIDict.ofPairs ke.2.fields, persons := CIDict.ofPairs ke.2.persons }

def bibErrJ : BibErr → Json
  | .missingField f k => arr [Json.str "FieldIsMissing", strToJson f, strToJson k]
  | .unbalanced k => arr [Json.str "PybtexSyntaxError", strToJson k]
  | .noTemplate k => arr [Json.str "NO-TEMPLATE", strToJson k]
  | .labelIndex => arr [Json.str "INTERNAL", Json.str "label"]
  | .outOfFuel => arr [Json.str "OUT-OF-FUEL"]

def parseSorting (s : String) : Except String Sorting :=
  match s with | "none" => pure .none | "author_year_title" => pure .authorYearTitle | _ => throw "sorting"
def parseLabels (s : String) : Except String Labels :=
  match s with | "number" => pure .number | "alpha" => pure .alpha | _ => throw "labels"

/-- the codec table `[[value, decoded value], …]` (computed by the real latexcodec) -/
def parseDecode (j : Json) : Except String (List (Str × Str)) :=
  match j.getObjVal? "decode" with
  | .error _ => pure []
  | .ok d => do
    (← d.getArr?).toList.mapM fun p => do
      let a ← p.getArr?
      pure ((← jsonToStr a[0]!), (← jsonToStr a[1]!))

def parseItems (j : Json) (dec : List (Str × Str)) : Except String (List (Str × Item)) := do
  (← getArr j "items").mapM fun it => do
    let key ← getStr it "key"
    let tmpl ← parseT 64 (← it.getObjVal? "template")
    let pts ← (← getArr it "person_templates").mapM fun r => do
      let a ← r.getArr?
      let ts ← (← (a[1]!).getArr?).toList.mapM (parseT 64)
      pure ((← jsonToStr a[0]!), ts)
    pure (key, ({ template := tmpl, personTemplates := pts, decode := dec } : Item))

/-- the rendering of a formatted text through the four backends (`none` = `KeyError` for an unknown symbol) -/
def rendersJ (t : RT) : Json :=
  let r := fun (b : RT.Backend Str) => optJ strToJson (RT.render b t)
  obj [("html", r Backends.html), ("markdown", r Backends.markdown),
       ("latex", r (Backends.latex Backends.Latex.latexcodecEncode)), ("text", r Backends.plaintext)]

def fnName : ApplyFn → String
  | .none => "none" | .dashify => "dashify" | .lower => "lower" | .capitalize => "capitalize"

mutual
/-- a template in the wire format of the harness translator (`tmpl` in harness/props/c07.py) -/
def tJ : T → Json
  | .lit r => obj [("t", Json.str "lit"), ("r", C08.treeJ r)]
  | .raw s => obj [("t", Json.str "raw"), ("s", strToJson s)]
  | .join sep sep2 last cs =>
    obj [("t", Json.str "join"), ("sep", C08.treeJ sep), ("sep2", C08.treeJ sep2), ("last", C08.treeJ last), ("c", arr (tJL cs))]
  | .together lt cs => obj [("t", Json.str "together"), ("last_tie", Json.bool lt), ("c", arr (tJL cs))]
  | .sentence cf cap ap sep cs =>
    obj [("t", Json.str "sentence"), ("capfirst", Json.bool cf), ("capitalize", Json.bool cap), ("add_period", Json.bool ap),
         ("sep", C08.treeJ sep), ("c", arr (tJL cs))]
  | .field n fn raw => obj [("t", Json.str "field"), ("name", strToJson n), ("fn", Json.str (fnName fn)), ("raw", Json.bool raw)]
  | .names role sep sep2 last =>
    obj [("t", Json.str "names"), ("role", strToJson role), ("sep", C08.treeJ sep), ("sep2", C08.treeJ sep2), ("last", C08.treeJ last)]
  | .optional cs => obj [("t", Json.str "optional"), ("c", arr (tJL cs))]
  | .firstOf cs => obj [("t", Json.str "first_of"), ("c", arr (tJL cs))]
  | .tag n cs => obj [("t", Json.str "tag"), ("name", strToJson n), ("c", arr (tJL cs))]
  | .href url ext cs => obj [("t", Json.str "href"), ("url", tJ url), ("external", Json.bool ext), ("c", arr (tJL cs))]
  | .namePart before tie abbr cs =>
    obj [("t", Json.str "name_part"), ("before", C08.treeJ before), ("tie", Json.bool tie), ("abbr", Json.bool abbr), ("c", arr (tJL cs))]
def tJL : List T → List Json
  | [] => []
  | t :: ts => tJ t :: tJL ts
end

def terrJ (key : Str) : TErr → Json
  | .missing f => arr [Json.str "FieldIsMissing", strToJson f, strToJson key]
  | .unbalanced => arr [Json.str "PybtexSyntaxError", strToJson key]
  | .outOfFuel => arr [Json.str "OUT-OF-FUEL"]

/-- an optional string-valued keyword argument (absent or null = not given) -/
def optStr (j : Json) (k : String) : Except String (Option Str) :=
  match j.getObjVal? k with
  | .error _ => pure none
  | .ok .null => pure none
  | .ok v => do pure (some (← jsonToStr v))

def optBool (j : Json) (k : String) : Except String Bool :=
  match j.getObjVal? k with
  | .error _ => pure false
  | .ok .null => pure false
  | .ok v => v.getBool?

/-- `citations`: a list of keys, or null = `format_bibliography(db)` without citations -/
def optCitations (j : Json) : Except String (Option (List Str)) :=
  match j.getObjVal? "citations" with
  | .ok .null => pure none
  | _ => do pure (some (← getStrList j "citations"))

def nameStyleName : NameStyle → String | .plain => "plain" | .lastfirst => "lastfirst"
def labelsName : Labels → String | .number => "number" | .alpha => "alpha"
def sortingName : Sorting → String | .none => "none" | .authorYearTitle => "author_year_title"

/-- the error of a failed run; an entry type without template is the `BibliographyDataError` of `format_entry` with
the message the model composes (type looked up in the database: wire glue) -/
def bibErrFullJ (pes : List PEntry) : BibErr → Json
  | .noTemplate k =>
    let ty := match pes.find? fun e => e.key = k with | some e => e.type | none => []
    arr [strToJson Gen.noTemplateErrorClass, strToJson (Unsrt.noTemplateMessage ty k)]
  | e => bibErrJ e

def resultJ (pes : List PEntry) (r : List Report × Except BibErr (List Formatted)) : Json :=
  let reports := DbJson.reportsJ r.1
  match r.2 with
  | .error e => obj [("error", bibErrFullJ pes e), ("reports", reports)]
  | .ok fs =>
    obj [("reports", reports),
      ("entries", arr (fs.map fun f => arr [strToJson f.key, strToJson f.label, C08.treeJ f.text])),
      ("render", arr (fs.map fun f => rendersJ f.text))]

/-- `style.format_bibliography(db, citations)`.  `out` is computed by the evaluator on the templates the request
carries (serialised from the live style objects); when the request names the style (`style`, `options`) the same is
computed with everything inside the model (`formatBibliographyShipped`: templates of `Model/UnsrtStyle.lean`, name
templates of `Model/NameStyle.lean`, configuration from the regenerated class attributes) and `spec.shipped` says where
the two differ: `config` = the configuration the model derives, `templates` / `person_templates` = keys of the entries
whose model template differs from the serialised one (with the model's tree), `out` = the model's result when it
differs from `out` (null when equal). -/
def pystyle (j : Json) : Except String Json := do
  let es ← (← getArr j "entries").mapM C06.parseEntry
  let dec ← parseDecode j
  let items ← parseItems j dec
  let citesOpt ← optCitations j
  let mc ← getInt j "min_crossrefs"
  let sorting ← parseSorting (← (← j.getObjVal? "sorting").getStr?)
  let labels ← parseLabels (← (← j.getObjVal? "labels").getStr?)
  let lookup := fun (k : Str) => (items.find? fun p => p.1 = k).map (·.2)
  let pes := es.map toPEntry
  let cites := match citesOpt with | some c => c | none => Unsrt.allKeys pes
  let r := formatBibliography pes lookup cites mc sorting labels
  -- spec values for the oracle: the syntactic condition of C07_terminated for every serialised template, and the
  -- BibTeX alpha base labels (before the suffix letters) of the entries in output order
  let ends := arr (items.map fun p => arr [strToJson p.1, Json.bool (Spec.endsInSentence p.2.template)])
  let sorted := sortEntries sorting (Spec.resolvedEntries pes cites mc)
  let base : Json := match sorted.mapM formatLabel with
    | none => Json.null
    | some ls => arr ((sorted.zip ls).map fun p => arr [strToJson p.1.key, strToJson p.2])
  let out := resultJ pes r
  -- everything inside the model
  let shipped : Json ← match j.getObjVal? "style" with
    | .error _ => pure Json.null
    | .ok sj => do
      let style ← jsonToStr sj
      let o := (j.getObjVal? "options").toOption.getD (Json.mkObj [])
      match Unsrt.configure style (← optStr o "label_style") (← optStr o "name_style") (← optStr o "sorting_style")
          (← optBool o "abbreviate_names") with
      | none => pure (obj [("config", Json.null)])
      | some cfg =>
        let tdiff := pes.filterMap fun e =>
          let mine := optJ tJ (Unsrt.getTemplate e)
          let theirs := optJ (fun (it : Item) => tJ it.template) (lookup e.key)
          if mine.compress == theirs.compress then none else some (arr [strToJson e.key, mine])
        let pdiff := pes.filterMap fun e =>
          match lookup e.key with
          | none => none
          | some it =>
            let theirs := arr (it.personTemplates.map fun p => arr [strToJson p.1, arr (tJL p.2)])
            let mine : Json := match personTemplatesOf cfg.names dec cfg.abbr e.roles with
              | .error err => terrJ e.key err
              | .ok pts => arr (pts.map fun p => arr [strToJson p.1, arr (tJL p.2)])
            if mine.compress == theirs.compress then none else some (arr [strToJson e.key, mine])
        let full : Json := match Unsrt.formatBibliographyShipped cfg dec pes citesOpt mc with
          | none => Json.str "OUTSIDE-DOMAIN"
          | some r' => resultJ pes r'
        pure (obj [("config", arr [Json.str (nameStyleName cfg.names), Json.str (labelsName cfg.labels),
                                   Json.str (sortingName cfg.sorting), Json.bool cfg.abbr]),
                   ("templates", arr tdiff), ("person_templates", arr pdiff),
                   ("out", if full.compress == out.compress then Json.null else full)])
  let spec := obj [("ends_in_sentence", ends), ("alpha_base", base), ("shipped", shipped),
    ("sort_keys", arr (sorted.map fun e =>
      let k := sortingKey e
      arr [strToJson e.key, strToJson k.1, strToJson k.2.1, strToJson k.2.2]))]
  pure (obj [("out", out), ("spec", spec)])

/-- one template on one entry (evaluator alone) -/
def tmpleval (j : Json) : Except String Json := do
  let es ← (← getArr j "entries").mapM C06.parseEntry
  let key ← getStr j "key"
  let tmpl ← parseT 64 (← j.getObjVal? "template")
  let pts ← (← getArr j "person_templates").mapM fun r => do
    let a ← r.getArr?
    let ts ← (← (a[1]!).getArr?).toList.mapM (parseT 64)
    pure ((← jsonToStr a[0]!), ts)
  let pes := es.map toPEntry
  let dec ← parseDecode j
  match pes.find? fun e => e.key = key with
  | none => throw "no such entry"
  | some e =>
    match eval evalFuel { entry := e.toEntry, db := some (mkDb pes), personTemplates := pts, decode := dec } tmpl with
    | .error (.missing f) => pure (obj [("out", obj [("error", arr [Json.str "FieldIsMissing", strToJson f, strToJson key])])])
    | .error .unbalanced => pure (obj [("out", obj [("error", arr [Json.str "PybtexSyntaxError", strToJson key])])])
    | .error .outOfFuel => pure (obj [("out", obj [("error", arr [Json.str "OUT-OF-FUEL"])])])
    | .ok t => pure (obj [("out", obj [("text", C08.treeJ t)])])

/-! ### function-level ops -/

/-- `style.get_<type>_template(entry)` of the model, with the property-relevant facts about it -/
def styletemplate (j : Json) : Except String Json := do
  let e := toPEntry (← C06.parseEntry (← j.getObjVal? "entry"))
  match Unsrt.getTemplate e with
  | none => pure (obj [("out", obj [("template", Json.null),
      ("error", arr [strToJson Gen.noTemplateErrorClass, strToJson (Unsrt.noTemplateMessage e.type e.key)])])])
  | some t =>
    pure (obj [("out", obj [("template", tJ t)]),
      ("spec", obj [("ends_in_sentence", Json.bool (Spec.endsInSentence t)),
        ("required", arr ((Spec.requiredNodes t).map fun l => match l with
          | .field n => arr [Json.str "field", strToJson n]
          | .names r => arr [Json.str "names", strToJson r]))])])

/-- `NameStyle().format(person, abbr)` of the name style registered as `style` -/
def namestyle (j : Json) : Except String Json := do
  let p ← C06.parsePerson (← j.getObjVal? "person")
  let dec ← parseDecode j
  let abbr ← getBool j "abbr"
  match Unsrt.nameStyleOf (← getStr j "style") with
  | none => throw "unknown name style"
  | some st =>
    match Tmpl.formatName st dec p abbr with
    | .error e => pure (obj [("out", obj [("error", terrJ [] e)])])
    | .ok t =>
      -- the evaluated template (`.format()`): `str(text)`
      let shown : Json := match eval evalFuel { entry := { key := [], type := [], fields := CIDict.empty, persons := CIDict.empty },
                                                 db := none, personTemplates := [], decode := dec } t with
        | .ok r => C08.treeJ r
        | .error e => terrJ [] e
      pure (obj [("out", obj [("template", tJ t), ("text", shown)])])

/-- `SortingStyle().sorting_key(entry)` of author_year_title -/
def sortkey (j : Json) : Except String Json := do
  let e := toPEntry (← C06.parseEntry (← j.getObjVal? "entry"))
  let k := sortingKey e
  pure (obj [("out", obj [("key", arr [strToJson k.1, strToJson k.2.1, strToJson k.2.2])])])

/-- the label styles on a list of entries: `format_label` per entry, `format_labels` of alpha and number -/
def labelsOp (j : Json) : Except String Json := do
  let es := (← (← getArr j "entries").mapM C06.parseEntry).map toPEntry
  let lab := fun (o : Option (List Str)) => optJ strs o
  pure (obj [("out", obj [("base", arr (es.map fun e => optJ strToJson (formatLabel e))),
                          ("alpha", lab (alphaLabels es)), ("number", strs (numberLabels es.length))])])

/-- the rich-text helpers of the template language on `Text.from_latex(value)` / on the plain string -/
def richfn (j : Json) : Except String Json := do
  let dec ← parseDecode j
  let v ← getStr j "value"
  let fn ← (← j.getObjVal? "fn").getStr?
  let onText := fun (f : RT → RT) =>
    match Tmpl.fromLatex (decodeOf dec v) with
    | .error e => obj [("out", obj [("error", terrJ [] e)])]
    | .ok r => obj [("out", obj [("text", C08.treeJ (f r))])]
  match fn with
  | "from_latex" => pure (onText id)
  | "abbreviate" => pure (onText abbreviate)
  | "dashify" => pure (onText (applyFn .dashify))
  | "lower" => pure (onText (applyFn .lower))
  | "capitalize" => pure (onText (applyFn .capitalize))
  | "add_period" => pure (onText addPeriodT)
  | "str_abbreviate" => pure (obj [("out", obj [("str", strToJson (abbreviateStr v))])])
  | "strip_nonalnum" => pure (obj [("out", obj [("str", strToJson (stripNonalnum [v]))])])
  | "tie_or_space" =>
    let o ← optStr j "other"
    let r := Tmpl.tieOrSpace (.str v) (.str ['~']) (.str [' ']) (o.map fun x => (.str x : RT))
    pure (obj [("out", obj [("text", C08.treeJ r)])])
  | _ => throw s!"unknown richfn {fn}"

def handlers : List (String × (Json → Except String Json)) := [("pystyle", pystyle), ("tmpleval", tmpleval), ("styletemplate", styletemplate), ("namestyle", namestyle),
   ("sortkey", sortkey), ("pylabels", labelsOp), ("richfn", richfn)]

end Pybtex.Drv.C07
