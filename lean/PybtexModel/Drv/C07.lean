import PybtexModel.Drv.Json
import PybtexModel.Drv.C06
import PybtexModel.Drv.C08
import PybtexModel.Drv.DbJson
import PybtexModel.Model.Template
open Lean
namespace Pybtex.Drv.C07
open Pybtex.Tmpl

def parseFn (s : String) : Except String ApplyFn :=
  match s with
  | "none" => pure .none | "dashify" => pure .dashify | "lower" => pure .lower | "capitalize" => pure .capitalize
  | _ => throw s!"unknown apply_func {s}"

def getTree (j : Json) (k : String) : Except String RT := do C08.tree (← j.getObjVal? k)

/-- parse a serialised template (bounded nesting: I/O glue) -/
def parseT : Nat → Json → Except String T
  | 0, _ => throw "template nested too deeply for the driver"
  | fuel + 1, j => do
    let t ← (← j.getObjVal? "t").getStr?
    let kids := fun (k : String) => do (← getArr j k).mapM (parseT fuel)
    match t with
    | "lit" => pure (.lit (← getTree j "r"))
    | "join" => pure (.join (← getTree j "sep") (← getTree j "sep2") (← getTree j "last") (← kids "c"))
    | "together" => pure (.together (← getBool j "last_tie") (← kids "c"))
    | "sentence" =>
      pure (.sentence (← getBool j "capfirst") (← getBool j "capitalize") (← getBool j "add_period") (← getTree j "sep") (← kids "c"))
    | "field" => pure (.field (← getStr j "name") (← parseFn (← (← j.getObjVal? "fn").getStr?)) (← getBool j "raw"))
    | "names" => pure (.names (← getStr j "role") (← getTree j "sep") (← getTree j "sep2") (← getTree j "last"))
    | "optional" => pure (.optional (← kids "c"))
    | "first_of" => pure (.firstOf (← kids "c"))
    | "tag" => pure (.tag (← getStr j "name") (← kids "c"))
    | "href" => pure (.href (← parseT fuel (← j.getObjVal? "url")) (← getBool j "external") (← kids "c"))
    | "name_part" => pure (.namePart (← getTree j "before") (← getBool j "tie") (← getBool j "abbr") (← kids "c"))
    | _ => throw s!"unknown template node {t}"

def toPEntry (ke : Str × Bib.Entry) : PEntry :=
  { key := ke.1, type := ke.2.type, fields := CIDict.ofPairs ke.2.fields, persons := CIDict.ofPairs ke.2.persons }

def bibErrJ : BibErr → Json
  | .missingField f k => arr [Json.str "FieldIsMissing", strToJson f, strToJson k]
  | .unbalanced k => arr [Json.str "PybtexSyntaxError", strToJson k]
  | .noTemplate k => arr [Json.str "NO-TEMPLATE", strToJson k]
  | .labelIndex => arr [Json.str "INTERNAL", Json.str "label"]
  | .outOfFuel => arr [Json.str "OUT-OF-FUEL"]

def parseSorting (s : String) : Except String Sorting :=
  match s with | "none" => pure .none | "author_year_title" => pure .authorYearTitle | _ => throw "sorting"
def parseLabels (s : String) : Except String Labels :=
  match s with | "number" => pure .number | "alpha" => pure .alpha | _ => throw "labels"

/-- `style.format_bibliography(db, citations)` -/
def pystyle (j : Json) : Except String Json := do
  let es ← (← getArr j "entries").mapM C06.parseEntry
  let items ← (← getArr j "items").mapM fun it => do
    let key ← getStr it "key"
    let tmpl ← parseT 64 (← it.getObjVal? "template")
    let pts ← (← getArr it "person_templates").mapM fun r => do
      let a ← r.getArr?
      let ts ← (← (a[1]!).getArr?).toList.mapM (parseT 64)
      pure ((← jsonToStr a[0]!), ts)
    pure (key, ({ template := tmpl, personTemplates := pts } : Item))
  let cites ← getStrList j "citations"
  let mc ← getInt j "min_crossrefs"
  let sorting ← parseSorting (← (← j.getObjVal? "sorting").getStr?)
  let labels ← parseLabels (← (← j.getObjVal? "labels").getStr?)
  let lookup := fun (k : Str) => (items.find? fun p => p.1 = k).map (·.2)
  let r := formatBibliography (es.map toPEntry) lookup cites mc sorting labels
  let reports := DbJson.reportsJ r.1
  match r.2 with
  | .error e => pure (obj [("out", obj [("error", bibErrJ e), ("reports", reports)])])
  | .ok fs =>
    pure (obj [("out", obj [("reports", reports),
      ("entries", arr (fs.map fun f => arr [strToJson f.key, strToJson f.label, C08.treeJ f.text]))])])

/-- one template on one entry (evaluator alone) -/
def tmpleval (j : Json) : Except String Json := do
  let es ← (← getArr j "entries").mapM C06.parseEntry
  let key ← getStr j "key"
  let tmpl ← parseT 64 (← j.getObjVal? "template")
  let pts ← (← getArr j "person_templates").mapM fun r => do
    let a ← r.getArr?
    let ts ← (← (a[1]!).getArr?).toList.mapM (parseT 64)
    pure ((← jsonToStr a[0]!), ts)
  let pes := es.map toPEntry
  match pes.find? fun e => e.key = key with
  | none => throw "no such entry"
  | some e =>
    match eval evalFuel { entry := e.toEntry, db := some (mkDb pes), personTemplates := pts } tmpl with
    | .error (.missing f) => pure (obj [("out", obj [("error", arr [Json.str "FieldIsMissing", strToJson f, strToJson key])])])
    | .error .unbalanced => pure (obj [("out", obj [("error", arr [Json.str "PybtexSyntaxError", strToJson key])])])
    | .error .outOfFuel => pure (obj [("out", obj [("error", arr [Json.str "OUT-OF-FUEL"])])])
    | .ok t => pure (obj [("out", obj [("text", C08.treeJ t)])])

def handlers : List (String × (Json → Except String Json)) := [("pystyle", pystyle), ("tmpleval", tmpleval)]

end Pybtex.Drv.C07
