import PybtexModel.Drv.Json
import PybtexModel.Spec.AuxFile
open Lean
namespace Pybtex.Drv.C20
open Pybtex.Aux

def parseFiles (l : List Json) : Except String (List (Path × List Str)) :=
  l.mapM fun p => do
    let a ← p.getArr?
    match a.toList with
    | [n, ls] =>
      let name ← jsonToStr n
      let lines ← (← ls.getArr?).toList.mapM jsonToStr
      pure (name, lines)
    | _ => throw "file = [name, [lines]] expected"

def reportJ (r : Report) : Json :=
  obj [("kind", Json.str r.kind.name), ("file", strToJson r.file), ("lineno", optJ nat r.lineno),
       ("str", strToJson r.str), ("ctx", optJ strToJson r.getContext), ("msg", strToJson r.kind.message)]

def openMessage (p : Path) : Str := "unable to open ".toList ++ p ++ ". No such file or directory".toList

def fatalJ : Fatal → Json
  | .aux e => reportJ e
  | .cannotOpen p =>
    obj [("kind", Json.str "open"), ("file", Json.null), ("lineno", Json.null),
         ("str", strToJson (openMessage p)), ("ctx", Json.null), ("msg", strToJson (openMessage p))]
  | .outOfFuel =>
    obj [("kind", Json.str "MODEL:out_of_fuel"), ("file", Json.null), ("lineno", Json.null),
         ("str", Json.null), ("ctx", Json.null), ("msg", Json.null)]
  | .attributeError =>
    obj [("kind", Json.str "MODEL:attribute_error"), ("file", Json.null), ("lineno", Json.null),
         ("str", Json.null), ("ctx", Json.null), ("msg", Json.null)]

def outJ : Except Abort St → Json
  | .ok st =>
    obj [("citations", strs st.citations), ("style", optJ strToJson st.style), ("data", optJ strs st.data),
         ("errors", arr (st.reports.map reportJ)), ("fatal", Json.null)]
  | .error a =>
    obj [("citations", Json.null), ("style", Json.null), ("data", Json.null),
         ("errors", arr (a.reports.map reportJ)), ("fatal", fatalJ a.fatal)]

def specReportJ (r : Report) : Json :=
  obj [("kind", Json.str r.kind.name), ("file", strToJson r.file), ("lineno", optJ nat r.lineno),
       ("text", optJ strToJson r.line), ("msg", strToJson r.kind.message)]

/-- the `\citation` events: [file, line number, text, keys, lower-cased keys] — two keys are "the
same key up to case" when their lower-cased forms (`lowerPy`) are equal -/
def citesJ (evs : List Spec.Event) : Json :=
  arr (evs.filterMap fun e =>
    match e.item with
    | .citation keys =>
      some (arr [strToJson e.file, nat e.lineno, strToJson e.text, strs keys, strs (keys.map lowerPy)])
    | _ => none)

/-- what `Engine.make_bibliography` hands to `format_from_files` (reader suffix `.bib`, no explicit
style), or what it raises -/
def engineJ : Except Abort EngineArgs → Json
  | .ok a =>
    obj [("bib_filenames", strs a.bibFilenames), ("style", optJ strToJson a.style), ("citations", strs a.citations),
         ("errors", Json.null), ("fatal", Json.null)]
  | .error a =>
    obj [("bib_filenames", Json.null), ("style", Json.null), ("citations", Json.null),
         ("errors", arr (a.reports.map reportJ)), ("fatal", fatalJ a.fatal)]

/-- `aux`: {files: [[name, [line…]]…], top: name}; with `"mode":"engine"` the reply also holds
`engine` = the model of `Engine.make_bibliography` up to the call of `format_from_files`.
Encodings, directories and the current directory live in the harness: the model sees the decoded
lines of every file under the name by which `parse_file` / `\@input` refers to it. -/
def aux (j : Json) : Except String Json := do
  let files ← parseFiles (← getArr j "files")
  let top ← getStr j "top"
  let fs := fsOf files
  let fuel := files.length + 1
  let evs := Spec.events fs fuel top
  let um := Spec.eventsUntilMissing fs fuel top
  let engine : Json :=
    match j.getObjVal? "mode" with
    | .ok (Json.str "engine") => engineJ (makeBibliographyArgs fs fuel top none ".bib".toList)
    | _ => Json.null
  pure (obj [
    ("out", outJ (parse fs fuel top)),
    ("engine", engine),
    ("spec", obj [
      ("closed", Json.bool (closedDepth fs fuel top)),
      ("acyclic", Json.bool (depthOk fs fuel top)),
      ("missing", optJ strToJson um.2),
      ("errors_until_missing", arr ((Spec.reports um.1).map specReportJ)),
      ("cites_until_missing", citesJ um.1),
      ("citations", strs (Spec.citations evs)),
      ("style", optJ strToJson (Spec.style evs)),
      ("data", optJ strs (Spec.data evs)),
      ("errors", arr ((Spec.reports evs).map specReportJ)),
      ("fatal", optJ (fun k => Json.str (Kind.name k)) (Spec.fatal evs)),
      ("cites", citesJ evs),
      ("events", nat evs.length)])])

def cmdName : Cmd → String
  | .citation => "citation" | .bibdata => "bibdata" | .bibstyle => "bibstyle" | .input => "@input"

def itemJ : Spec.Item → Json
  | .citation ks => arr [Json.str "citation", strToJson (joinWith [','] ks)]
  | .bibstyle s => arr [Json.str "bibstyle", strToJson s]
  | .bibdata ns => arr [Json.str "bibdata", strToJson (joinWith [','] ns)]
  | .input f => arr [Json.str "@input", strToJson f]
  | .other => Json.null

/-- `auxmatch`: the matcher alone — {s: line} ↦ groups of `command_re.match(s)` or null;
`split` = `s.split(',')` -/
def auxmatch (j : Json) : Except String Json := do
  let s ← getStr j "s"
  pure (obj [
    ("out", obj [("groups", optJ (fun (p : Cmd × Str) => arr [Json.str (cmdName p.1), strToJson p.2]) (matchCommand s)),
                 ("split", strs (pySplit ',' s)), ("strip", strToJson (strip s))]),
    ("spec", obj [("groups", itemJ (Spec.classify s)), ("split", strs (Spec.splitComma s))])])

def handlers : List (String × (Json → Except String Json)) := [("aux", aux), ("auxmatch", auxmatch)]

end Pybtex.Drv.C20
