import PybtexModel.Drv.Json
import PybtexModel.Spec.AuxFile
import PybtexModel.Model.AuxFileIO
open Lean
namespace Pybtex.Drv.C20
open Pybtex.Aux

def parseFiles (l : List Json) : Except String (List (Path × List Str)) :=
  l.mapM fun p => do
    let a ← p.getArr?
    match a.toList with
    | [n, ls] =>
      let name ← jsonToStr n
      let lines ← (← ls.getArr?).toList.mapM jsonToStr
      pure (name, lines)
    | _ => throw "file = [name, [lines]] expected"

def reportJ (r : Report) : Json :=
  obj [("kind", Json.str r.kind.name), ("file", strToJson r.file), ("lineno", optJ nat r.lineno),
       ("str", strToJson r.str), ("ctx", optJ strToJson r.getContext), ("msg", strToJson r.kind.message)]

def openMessage (p : Path) : Str := "unable to open ".toList ++ p ++ ". No such file or directory".toList   -- op `aux`: ENOENT only; op `auxio` takes the text from `openUnicode`

def fatalJ : Fatal → Json
  | .aux e => reportJ e
  | .cannotOpen p =>
    obj [("kind", Json.str "open"), ("file", Json.null), ("lineno", Json.null),
         ("str", strToJson (openMessage p)), ("ctx", Json.null), ("msg", strToJson (openMessage p))]
  | .outOfFuel =>
    obj [("kind", Json.str "MODEL:out_of_fuel"), ("file", Json.null), ("lineno", Json.null),
         ("str", Json.null), ("ctx", Json.null), ("msg", Json.null)]
  | .attributeError =>
    obj [("kind", Json.str "MODEL:attribute_error"), ("file", Json.null), ("lineno", Json.null),
         ("str", Json.null), ("ctx", Json.null), ("msg", Json.null)]

def outJ : Except Abort St → Json
  | .ok st =>
    obj [("citations", strs st.citations), ("style", optJ strToJson st.style), ("data", optJ strs st.data),
         ("errors", arr (st.reports.map reportJ)), ("fatal", Json.null)]
  | .error a =>
    obj [("citations", Json.null), ("style", Json.null), ("data", Json.null),
         ("errors", arr (a.reports.map reportJ)), ("fatal", fatalJ a.fatal)]

def specReportJ (r : Report) : Json :=
  obj [("kind", Json.str r.kind.name), ("file", strToJson r.file), ("lineno", optJ nat r.lineno),
       ("text", optJ strToJson r.line), ("msg", strToJson r.kind.message)]

/-- the `\citation` events: [file, line number, text, keys, lower-cased keys] — two keys are "the
same key up to case" when their lower-cased forms (`lowerPy`) are equal -/
def citesJ (evs : List Spec.Event) : Json :=
  arr (evs.filterMap fun e =>
    match e.item with
    | .citation keys =>
      some (arr [strToJson e.file, nat e.lineno, strToJson e.text, strs keys, strs (keys.map lowerPy)])
    | _ => none)

/-- what `Engine.make_bibliography` hands to `format_from_files` (reader suffix `.bib`, no explicit
style), or what it raises -/
def engineJ : Except Abort EngineArgs → Json
  | .ok a =>
    obj [("bib_filenames", strs a.bibFilenames), ("style", optJ strToJson a.style), ("citations", strs a.citations),
         ("errors", Json.null), ("fatal", Json.null)]
  | .error a =>
    obj [("bib_filenames", Json.null), ("style", Json.null), ("citations", Json.null),
         ("errors", arr (a.reports.map reportJ)), ("fatal", fatalJ a.fatal)]

/-- `aux`: {files: [[name, [line…]]…], top: name}; with `"mode":"engine"` the reply also holds
`engine` = the model of `Engine.make_bibliography` up to the call of `format_from_files`.
Encodings, directories and the current directory live in the harness: the model sees the decoded
lines of every file under the name by which `parse_file` / `\@input` refers to it. -/
def aux (j : Json) : Except String Json := do
  let files ← parseFiles (← getArr j "files")
  let top ← getStr j "top"
  let fs := fsOf files
  let fuel := files.length + 1
  let evs := Spec.events fs fuel top
  let um := Spec.eventsUntilMissing fs fuel top
  let engine : Json :=
    match j.getObjVal? "mode" with
    | .ok (Json.str "engine") => engineJ (makeBibliographyArgs fs fuel top none ".bib".toList)
    | _ => Json.null
  pure (obj [
    ("out", outJ (parse fs fuel top)),
    ("engine", engine),
    ("spec", obj [
      ("closed", Json.bool (closedDepth fs fuel top)),
      ("acyclic", Json.bool (depthOk fs fuel top)),
      ("missing", optJ strToJson um.2),
      ("errors_until_missing", arr ((Spec.reports um.1).map specReportJ)),
      ("cites_until_missing", citesJ um.1),
      ("citations", strs (Spec.citations evs)),
      ("style", optJ strToJson (Spec.style evs)),
      ("data", optJ strs (Spec.data evs)),
      ("errors", arr ((Spec.reports evs).map specReportJ)),
      ("fatal", optJ (fun k => Json.str (Kind.name k)) (Spec.fatal evs)),
      ("cites", citesJ evs),
      ("events", nat evs.length)])])

def cmdName : Cmd → String
  | .citation => "citation" | .bibdata => "bibdata" | .bibstyle => "bibstyle" | .input => "@input"

def itemJ : Spec.Item → Json
  | .citation ks => arr [Json.str "citation", strToJson (joinWith [','] ks)]
  | .bibstyle s => arr [Json.str "bibstyle", strToJson s]
  | .bibdata ns => arr [Json.str "bibdata", strToJson (joinWith [','] ns)]
  | .input f => arr [Json.str "@input", strToJson f]
  | .other => Json.null

/-- `auxmatch`: the matcher alone — {s: line} ↦ groups of `command_re.match(s)` or null;
`split` = `s.split(',')` -/
def auxmatch (j : Json) : Except String Json := do
  let s ← getStr j "s"
  pure (obj [
    ("out", obj [("groups", optJ (fun (p : Cmd × Str) => arr [Json.str (cmdName p.1), strToJson p.2]) (matchCommand s)),
                 ("split", strs (pySplit ',' s)), ("strip", strToJson (strip s))]),
    ("spec", obj [("groups", itemJ (Spec.classify s)), ("split", strs (Spec.splitComma s))])])

/-! ### second round: `pybtex.io`, the reporting modes, all of `make_bibliography` -/

def parsePairs (l : List Json) : Except String (List (Path × Path)) :=
  l.mapM fun p => do
    let a ← p.getArr?
    match a.toList with
    | [n, f] => pure (← jsonToStr n, ← jsonToStr f)
    | _ => throw "pair = [name, found] expected"

def modeOf (j : Json) : Except String Mode :=
  match j.getObjVal? "mode" with
  | .ok (Json.str "strict") => pure .strict
  | .ok (Json.str "nonstrict") => pure .nonStrict
  | .ok (Json.str "capture") => pure .capture
  | .ok Json.null => pure .capture
  | .error _ => pure .capture
  | _ => throw "mode = capture | strict | nonstrict"

def optStr (j : Json) (k : String) : Except String (Option Str) :=
  match j.getObjVal? k with
  | .ok Json.null => pure none
  | .error _ => pure none
  | .ok v => do pure (some (← jsonToStr v))

/-- fatal error with the message `pybtex.io._open` builds (strerror of the model's file system) -/
def fatalIOJ (raw : RawFS) (locate : Path → Option Path) : Fatal → Json
  | .cannotOpen p =>
    match openUnicode raw locate p with
    | .error msg =>
      obj [("kind", Json.str "open"), ("file", Json.null), ("lineno", Json.null),
           ("str", strToJson msg), ("ctx", Json.null), ("msg", strToJson msg)]
    | .ok _ => obj [("kind", Json.str "MODEL:opened_after_all")]
  | f => fatalJ f

def outIOJ (raw : RawFS) (locate : Path → Option Path) : Except Abort St → Json
  | .ok st => outJ (.ok st)
  | .error a =>
    obj [("citations", Json.null), ("style", Json.null), ("data", Json.null),
         ("errors", arr (a.reports.map reportJ)), ("fatal", fatalIOJ raw locate a.fatal)]

def channelOf : Except Abort St → List Report
  | .ok st => st.reports
  | .error a => a.reports

def engineCallJ (raw : RawFS) (locate : Path → Option Path) : Except EngineErr EngineCall → Json
  | .ok c =>
    obj [("bib_filenames", strs c.args.bibFilenames), ("style", optJ strToJson c.args.style),
         ("citations", strs c.args.citations), ("output_filename", strToJson c.outputFilename),
         ("add_output_suffix", Json.bool c.addOutputSuffix), ("errors", Json.null), ("fatal", Json.null)]
  | .error (.pluginNotFound n) =>
    obj [("bib_filenames", Json.null), ("style", Json.null), ("citations", Json.null), ("output_filename", Json.null),
         ("add_output_suffix", Json.null), ("errors", arr []),
         ("fatal", obj [("kind", Json.str "PluginNotFound"), ("name", optJ strToJson n)])]
  | .error (.abort a) =>
    obj [("bib_filenames", Json.null), ("style", Json.null), ("citations", Json.null), ("output_filename", Json.null),
         ("add_output_suffix", Json.null), ("errors", arr (a.reports.map reportJ)), ("fatal", fatalIOJ raw locate a.fatal)]

/-- `auxio`: {files, top, kpse: [[name, found]…], mode: capture|strict|nonstrict, engine: null | {style, bib_format}}:
the parse over the file system as `pybtex.io.open_unicode` presents it (directories, paths through files, a `kpsewhich`
table), with `report_error` in the given mode; `spec` is the denotation over that file system (capture reading). -/
def auxio (j : Json) : Except String Json := do
  let files ← parseFiles (← getArr j "files")
  let top ← getStr j "top"
  let kpse ← match j.getObjVal? "kpse" with
    | .ok (Json.arr a) => parsePairs a.toList
    | _ => pure []
  let mode ← modeOf j
  let raw := rawOf files
  let locate := locateOf kpse
  let fs := ioFS raw locate
  let fuel := files.length + 1
  let evs := Spec.events fs fuel top
  let um := Spec.eventsUntilMissing fs fuel top
  let res := parseG fs mode fuel top
  let engine : Json ←
    match j.getObjVal? "engine" with
    | .ok (Json.obj o) => do
      let e := Json.obj o
      let style ← optStr e "style"
      let bf ← optStr e "bib_format"
      pure (engineCallJ raw locate (makeBibliography Gen.Aux.readerSuffix fs mode fuel top style bf))
    | _ => pure Json.null
  pure (obj [
    ("out", outIOJ raw locate res),
    ("error_code", nat (errorCode mode (channelOf res))),
    ("engine", engine),
    ("spec", obj [
      ("closed", Json.bool (closedDepth fs fuel top)),
      ("acyclic", Json.bool (depthOk fs fuel top)),
      ("missing", optJ strToJson um.2),
      ("errors_until_missing", arr ((Spec.reports um.1).map specReportJ)),
      ("cites_until_missing", citesJ um.1),
      ("citations", strs (Spec.citations evs)),
      ("style", optJ strToJson (Spec.style evs)),
      ("data", optJ strs (Spec.data evs)),
      ("errors", arr ((Spec.reports evs).map specReportJ)),
      ("fatal", optJ (fun k => Json.str (Kind.name k)) (Spec.fatal evs)),
      ("cites", citesJ evs),
      ("events", nat evs.length)])])

/-- `auxopen`: {files, kpse, name}: `pybtex.io.open_unicode(name)` alone: the lines read, the name handed to the opener,
or the message of the PybtexError -/
def auxopen (j : Json) : Except String Json := do
  let files ← parseFiles (← getArr j "files")
  let kpse ← match j.getObjVal? "kpse" with
    | .ok (Json.arr a) => parsePairs a.toList
    | _ => pure []
  let name ← getStr j "name"
  let raw := rawOf files
  let locate := locateOf kpse
  let out :=
    match openUnicode raw locate name with
    | .ok ls => obj [("lines", strs ls), ("opened", strToJson (openedName raw locate name)), ("error", Json.null)]
    | .error msg => obj [("lines", Json.null), ("opened", Json.null), ("error", strToJson msg)]
  pure (obj [("out", obj [("open", out), ("isfile", Json.bool (isfile raw name))]), ("spec", Json.null)])

/-- `auxpath`: {s}: `os.path.splitext(s)[0]` as `make_bibliography` uses it -/
def auxpath (j : Json) : Except String Json := do
  let s ← getStr j "s"
  pure (obj [("out", obj [("root", strToJson (splitextRoot s))]), ("spec", Json.null)])

/-- `auxconsts`: the texts the model uses, for comparison with the running code -/
def auxconsts (_ : Json) : Except String Json := do
  let alts := joinWith ['|'] (cmdNames.map (·.2))
  pure (obj [("out", obj [
    ("pattern", strToJson ("\\\\(".toList ++ alts ++ "){(.*)}".toList)),
    ("messages", strs [Kind.message .anotherBibstyle, Kind.message .anotherBibdata, Kind.message .noBibdata, Kind.message .noBibstyle,
                       Kind.message (.caseMismatch "{0}".toList "{1}".toList)]),
    ("location", strToJson (Report.str ⟨.noBibdata, [], some 7, none⟩)),
    ("open", strToJson (Pybtex.Aux.openMessage "%s".toList "%s".toList)),
    ("suffixes", arr (Gen.Aux.readerSuffix.map fun p => arr [optJ strToJson p.1, strToJson p.2]))]),
    ("spec", Json.null)])

def handlers : List (String × (Json → Except String Json)) :=
  [("aux", aux), ("auxmatch", auxmatch), ("auxio", auxio), ("auxopen", auxopen), ("auxpath", auxpath), ("auxconsts", auxconsts)]

end Pybtex.Drv.C20
