import PybtexModel.Drv.Json
import PybtexModel.Model.Names
import PybtexModel.Model.BibWrite
import PybtexModel.Spec.Names
open Lean
namespace Pybtex.Drv.C04

def personJ (p : Person) : Json :=
  obj [("first", strs p.first), ("middle", strs p.middle), ("prelast", strs p.prelast),
       ("last", strs p.last), ("lineage", strs p.lineage), ("bibtex_first", strs p.bibtexFirst),
       ("str", strToJson (BibWrite.personStr p))]

def errName : NameErr → String
  | .tooDeep => "BibTeXError"
  | .indexError => "INTERNAL:IndexError"
  | .valueError => "INTERNAL:ValueError"

def resJ : Except NameErr (Person × Bool) → Json
  | .error e => obj [("error", Json.str (errName e))]
  | .ok (p, r) => obj [("person", personJ p), ("too_many_commas", Json.bool r)]

/-- reference values for one text that is tokenised: the tokens by the rule (`Spec.nameTokens`, stated
from the property text; meaningful when every brace group is closed) and by the model of
`split_tex_string` -/
def toksJ (t : Str) : Json :=
  obj [("rule", strs (Spec.nameTokens t)), ("closed", Json.bool (Spec.groupsClosed t)),
       ("model", strs (splitTex .space t))]

/-- the case of every token by the SCANNER-FREE rule of bibtex.web (`Spec.tokenCaseBibtex`): pairs
(token, is lower-case), for the tokens (`Spec.nameTokens`, the tokeniser stated from the property
text) of every brace-level-0 comma part of the stripped name -/
def caseBibtexJ (s : Str) : Json :=
  arr (((Spec.nameCommaParts (strip s)).map Spec.nameTokens).flatten.map fun t =>
    arr [strToJson t, Json.bool (decide (Spec.tokenCaseBibtex t = .lower))])

def specPersonJ (s : Str) : Json :=
  if strip s = [] then personJ {} else personJ (Spec.split (strip s)).1

/-- `Person(s)` -/
def person (j : Json) : Except String Json := do
  let s ← getStr j "s"
  let tokens := splitTex .space (strip s)
  let parts := splitTex .comma (strip s)
  let regroup (ps : List Str) := if ps.length > 3 then ps.take 2 ++ [joinWith [' '] (ps.drop 2)] else ps
  pure (obj [("out", resJ (mkPerson s [] [] [] [] [])),
             ("spec", obj [("person", specPersonJ s),
                           ("too_many_commas", Json.bool (if strip s = [] then false else (Spec.split (strip s)).2)),
                           ("tokens", strs tokens), ("comma_parts", strs parts),
                           ("part_tokens", arr ((regroup parts).map fun p => strs (splitTex .space p))),
                           ("closed", Json.bool (Spec.groupsClosed (strip s))),
                           ("case_bibtex", caseBibtexJ s),
                           ("rule_tokens", strs (Spec.nameTokens (strip s))),
                           ("rule_comma_parts", strs (Spec.nameCommaParts (strip s))),
                           ("rule_part_tokens", arr ((regroup (Spec.nameCommaParts (strip s))).map fun p => strs (Spec.nameTokens p)))])])

/-- `Person(s, first=…, middle=…, prelast=…, last=…, lineage=…)` -/
def personParts (j : Json) : Except String Json := do
  let s ← getStr j "s"
  let f ← getStr j "first"
  let m ← getStr j "middle"
  let p ← getStr j "prelast"
  let l ← getStr j "last"
  let g ← getStr j "lineage"
  pure (obj [("out", resJ (mkPerson s f m p l g)),
             ("spec", obj [("person", specPersonJ s),
                           ("too_many_commas", Json.bool (if strip s = [] then false else (Spec.split (strip s)).2)),
                           ("first", toksJ f), ("middle", toksJ m), ("prelast", toksJ p), ("last", toksJ l),
                           ("lineage", toksJ g)])])

def handlers : List (String × (Json → Except String Json)) := [("person", person), ("personparts", personParts)]

end Pybtex.Drv.C04
