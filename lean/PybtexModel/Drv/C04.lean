import PybtexModel.Drv.Json
import PybtexModel.Model.Names
import PybtexModel.Model.BibWrite
import PybtexModel.Spec.Names
open Lean
namespace Pybtex.Drv.C04

def personJ (p : Person) : Json :=
  obj [("first", strs p.first), ("middle", strs p.middle), ("prelast", strs p.prelast),
       ("last", strs p.last), ("lineage", strs p.lineage), ("bibtex_first", strs p.bibtexFirst),
       ("str", strToJson (BibWrite.personStr p))]

def errName : NameErr → String
  | .tooDeep => "BibTeXError"
  | .indexError => "INTERNAL:IndexError"
  | .valueError => "INTERNAL:ValueError"

def resJ : Except NameErr (Person × Bool) → Json
  | .error e => obj [("error", Json.str (errName e))]
  | .ok (p, r) => obj [("person", personJ p), ("too_many_commas", Json.bool r)]

/-- `Person(s)` -/
def person (j : Json) : Except String Json := do
  let s ← getStr j "s"
  let tokens := splitTex .space (strip s)
  let parts := splitTex .comma (strip s)
  pure (obj [("out", resJ (mkPerson s [] [] [] [] [])),
             ("spec", obj [("person", if strip s = [] then personJ {} else personJ (Spec.split (strip s)).1),
                           ("too_many_commas", Json.bool (if strip s = [] then false else (Spec.split (strip s)).2)),
                           ("tokens", strs tokens), ("comma_parts", strs parts),
                           ("part_tokens", arr ((if parts.length > 3 then parts.take 2 ++ [joinWith [' '] (parts.drop 2)] else parts).map
                              fun p => strs (splitTex .space p)))])])

/-- `Person(first=…, middle=…, prelast=…, last=…, lineage=…)` -/
def personParts (j : Json) : Except String Json := do
  pure (obj [("out", resJ (mkPerson (← getStr j "s") (← getStr j "first") (← getStr j "middle")
        (← getStr j "prelast") (← getStr j "last") (← getStr j "lineage")))])

def handlers : List (String × (Json → Except String Json)) := [("person", person), ("personparts", personParts)]

end Pybtex.Drv.C04
