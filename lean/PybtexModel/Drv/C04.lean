import PybtexModel.Drv.Json
import PybtexModel.Model.Names
import PybtexModel.Model.NamesLocal
import PybtexModel.Model.BibWrite
import PybtexModel.Spec.Names
open Lean
namespace Pybtex.Drv.C04

def personJ (p : Person) : Json :=
  obj [("first", strs p.first), ("middle", strs p.middle), ("prelast", strs p.prelast),
       ("last", strs p.last), ("lineage", strs p.lineage), ("bibtex_first", strs p.bibtexFirst),
       ("str", strToJson (BibWrite.personStr p))]

def errName : NameErr → String
  | .tooDeep => "BibTeXError"
  | .indexError => "INTERNAL:IndexError"
  | .valueError => "INTERNAL:ValueError"

def resJ : Except NameErr (Person × Bool) → Json
  | .error e => obj [("error", Json.str (errName e))]
  | .ok (p, r) => obj [("person", personJ p), ("too_many_commas", Json.bool r)]

/-- reference values for one text that is tokenised: the tokens by the rule (`Spec.nameTokens`, stated
from the property text; meaningful when every brace group is closed) and by the model of
`split_tex_string` -/
def toksJ (t : Str) : Json :=
  obj [("rule", strs (Spec.nameTokens t)), ("closed", Json.bool (Spec.groupsClosed t)),
       ("model", strs (splitTex .space t))]

/-- the case of every token by the SCANNER-FREE rule of bibtex.web (`Spec.tokenCaseBibtex`): pairs
(token, is lower-case), for the tokens (`Spec.nameTokens`, the tokeniser stated from the property
text) of every brace-level-0 comma part of the stripped name -/
def caseBibtexJ (s : Str) : Json :=
  arr (((Spec.nameCommaParts (strip s)).map Spec.nameTokens).flatten.map fun t =>
    arr [strToJson t, Json.bool (decide (Spec.tokenCaseBibtex t = .lower))])

def specPersonJ (s : Str) : Json :=
  if strip s = [] then personJ {} else personJ (Spec.split (strip s)).1

/-- `Person(s)` -/
def person (j : Json) : Except String Json := do
  let s ← getStr j "s"
  let tokens := splitTex .space (strip s)
  let parts := splitTex .comma (strip s)
  let regroup (ps : List Str) := if ps.length > 3 then ps.take 2 ++ [joinWith [' '] (ps.drop 2)] else ps
  pure (obj [("out", resJ (mkPerson s [] [] [] [] [])),
             ("spec", obj [("person", specPersonJ s),
                           ("too_many_commas", Json.bool (if strip s = [] then false else (Spec.split (strip s)).2)),
                           ("tokens", strs tokens), ("comma_parts", strs parts),
                           ("part_tokens", arr ((regroup parts).map fun p => strs (splitTex .space p))),
                           ("closed", Json.bool (Spec.groupsClosed (strip s))),
                           ("case_bibtex", caseBibtexJ s),
                           ("rule_tokens", strs (Spec.nameTokens (strip s))),
                           ("rule_comma_parts", strs (Spec.nameCommaParts (strip s))),
                           ("rule_part_tokens", arr ((regroup (Spec.nameCommaParts (strip s))).map fun p => strs (Spec.nameTokens p)))])])

/-- `Person(s, first=…, middle=…, prelast=…, last=…, lineage=…)` -/
def personParts (j : Json) : Except String Json := do
  let s ← getStr j "s"
  let f ← getStr j "first"
  let m ← getStr j "middle"
  let p ← getStr j "prelast"
  let l ← getStr j "last"
  let g ← getStr j "lineage"
  pure (obj [("out", resJ (mkPerson s f m p l g)),
             ("spec", obj [("person", specPersonJ s),
                           ("too_many_commas", Json.bool (if strip s = [] then false else (Spec.split (strip s)).2)),
                           ("first", toksJ f), ("middle", toksJ m), ("prelast", toksJ p), ("last", toksJ l),
                           ("lineage", toksJ g)])])

/-! ### function-level ops: the local functions of `Person._parse_string`, one by one
(the harness rebuilds the closures from the code objects of the running `/repo`) -/

def caseName : Spec.TokCase → String
  | .upper => "upper"
  | .lower => "lower"
  | .caseless => "caseless"

def boolRes (key : String) : Except NameErr Bool → Json
  | .error e => obj [("error", Json.str (errName e))]
  | .ok b => obj [(key, Json.bool b)]

/-- `is_von_name(tok)` -/
def isVon (j : Json) : Except String Json := do
  let t ← getStr j "tok"
  pure (obj [("out", boolRes "von" (isVonName t)),
             ("spec", obj [("case", Json.str (caseName (Spec.tokenCase t))),
                           ("case_bibtex", Json.str (caseName (Spec.tokenCaseBibtex t))),
                           ("scans", Json.bool (scan t).isSome)])])

/-- `special_char_islower(sc)` -/
def spIsLower (j : Json) : Except String Json := do
  let sc ← getStr j "sc"
  pure (obj [("out", obj [("lower", Json.bool (specialCharIsLower sc))]),
             ("spec", obj [("case", Json.str (caseName (Spec.specialCase sc))),
                           ("control_sequence", strToJson ((sc.drop 1).takeWhile isAlphaN)),
                           ("builtin", optJ (fun c => Json.str (caseName c)) (Spec.builtinCase ((sc.drop 1).takeWhile isAlphaN)))])])

/-- the predicate of the `findpos` op: the item starts with `1` -/
def flagged (x : Str) : Except NameErr Bool := .ok (x.head? = some '1')

def pairJ : Except NameErr (List Str × List Str) → Json
  | .error e => obj [("error", Json.str (errName e))]
  | .ok (a, b) => obj [("left", strs a), ("right", strs b)]

/-- `find_pos(lst, pred)`, `split_at(lst, pred)`, `rsplit_at(lst, pred)` with `pred` = "the item starts with 1" -/
def findPos (j : Json) : Except String Json := do
  let l ← getStrList j "items"
  let pos : Json := match findPosM flagged l with
    | .error e => obj [("error", Json.str (errName e))]
    | .ok n => nat n
  pure (obj [("out", obj [("find_pos", pos), ("split_at", pairJ (splitAtM flagged l)), ("rsplit_at", pairJ (rsplitAtM flagged l))]),
             ("spec", obj [("first", optJ nat (l.findIdx? fun x => x.head? = some '1')),
                           ("last", optJ nat (Spec.lastIdx (fun x => x.head? = some '1') l))])])

/-- `process_von_last(parts)` and `process_first_middle(parts)` on a fresh person -/
def vonLast (j : Json) : Except String Json := do
  let ts ← getStrList j "toks"
  let vl : Json := match processVonLast {} ts with
    | .error e => obj [("error", Json.str (errName e))]
    | .ok p => obj [("prelast", strs p.prelast), ("last", strs p.last)]
  let vl2 : Json := match processVonLastL {} ts with
    | .error e => obj [("error", Json.str (errName e))]
    | .ok p => obj [("prelast", strs p.prelast), ("last", strs p.last)]
  let fm := processFirstMiddle {} ts
  pure (obj [("out", obj [("von_last", vl), ("first_middle", obj [("first", strs fm.first), ("middle", strs fm.middle)])]),
             ("spec", obj [("von", strs (Spec.vonLast ts).1), ("last", strs (Spec.vonLast ts).2),
                           ("von_bibtex", strs (Spec.vonLastBy Spec.isLowBibtex ts).1),
                           ("last_bibtex", strs (Spec.vonLastBy Spec.isLowBibtex ts).2),
                           ("with_rsplit_at", vl2),
                           ("low_bibtex", arr (ts.map fun t => Json.bool (Spec.isLowBibtex t)))])])

def modeOutJ : Except NameErr ModeOut → Json
  | .error e => obj [("error", Json.str (errName e))]
  | .ok o => obj [("person", optJ personJ o.person), ("raised", optJ strToJson o.raised), ("captured", strs o.captured),
                  ("stderr", strToJson o.stderr), ("error_code", nat o.errorCode)]

/-- `Person(s)` in capture / strict / non-strict mode -/
def personMode (j : Json) : Except String Json := do
  let s ← getStr j "s"
  let m ← getStr j "mode"
  let mode ← match String.ofList m with
    | "capture" => pure ErrMode.capture
    | "strict" => pure ErrMode.strict
    | "nonstrict" => pure ErrMode.nonstrict
    | _ => throw "personmode: unknown mode"
  pure (obj [("out", modeOutJ (mkPersonMode mode s [] [] [] [] [])),
             ("spec", obj [("person", specPersonJ s),
                           ("too_many_commas", Json.bool (if strip s = [] then false else (Spec.split (strip s)).2)),
                           ("closed", Json.bool (Spec.groupsClosed (strip s))),
                           ("rule_comma_parts", strs (Spec.nameCommaParts (strip s)))])])

def handlers : List (String × (Json → Except String Json)) :=
  [("person", person), ("personmode", personMode), ("personparts", personParts), ("isvon", isVon), ("spislower", spIsLower), ("findpos", findPos),
   ("vonlast", vonLast)]

end Pybtex.Drv.C04
