import PybtexModel.Drv.DbJson
import PybtexModel.Model.CitationsX
open Lean
namespace Pybtex.Drv.C05
open Pybtex.Drv.DbJson

def pairsJ (l : List (Str × Str)) : Json := arr (l.map fun p => arr [strToJson p.1, strToJson p.2])

/-- `[key, type, [[name, value], …]]` of every stored entry, in database order -/
def contentsJ (db : BibData) : Json :=
  optJ (fun l => arr (l.map fun p =>
      arr [strToJson p.2.key, strToJson p.2.type, optJ pairsJ (CIDict.items p.2.fields)]))
    (CIDict.items db.entries)

/-- one reading mode: read the file (filtered by the citations or not), then `add_extra_citations`
(twice on the same database object: the result may not depend on earlier calls) -/
def modeJ (wanted : Option (List Str)) (file : List (Str × Entry)) (cits : List Str) (m : Int) : Json :=
  match BibData.readFile wanted file with
  | none => Json.str "KeyError"
  | some (db, rep0) =>
    let a := db.addExtraCitations cits m
    let a2 := db.addExtraCitations cits m
    obj [("db", strs (CIDict.iter db.entries)),
         ("entry_keys", optJ (fun l => strs (l.map fun p => p.2.key)) (CIDict.items db.entries)),
         ("contents", contentsJ db),
         ("read_reports", reportsJ rep0),
         ("expanded", strs (db.expandWildcard cits)),
         ("resolved", strs a.1), ("reports", reportsJ a.2),
         ("resolved_again", strs a2.1), ("reports_again", reportsJ a2.2)]

def noteName : Str := "note".toList

/-- the `note` of the entries a front end emits, read from the database it built (filtered reading) -/
def engineNotes (file : List (Str × Entry)) (cits : List Str) (keys : List Str) : Json :=
  match BibData.readFile (some cits) file with
  | none => Json.null
  | some (db, _) => arr (keys.map fun k =>
      match db.entries.getItem k with
      | none => Json.null
      | some e => optJ strToJson (e.fields.getItem noteName))

def engineJ (file : List (Str × Entry)) (cits : List Str) : Option EngineOut → Json
  | none => Json.str "KeyError"
  | some o => obj [("keys", strs o.keys), ("reports", reportsJ o.reports), ("notes", engineNotes file cits o.keys)]

/-- keys and reports of a `format_bibliography` call -/
def styleJ : Option EngineOut → Json
  | none => Json.str "KeyError"
  | some o => obj [("keys", strs o.keys), ("reports", reportsJ o.reports)]

/-- `resolve`: file + citations + min_crossrefs → resolved list and reports, for both reading
modes and both engine front ends (model), and the reference values (spec).  A case may give the
entries as several files (`split`): one reader object reads them one after the other into one
database, which is reading their concatenation. -/
def resolve (j : Json) : Except String Json := do
  let raw ← parseFile j
  let cits ← getStrList j "citations"
  let m ← getInt j "min_crossrefs"
  let file := toModelFile raw
  let sfile := toSpecFile raw
  let sdb := Spec.readAll sfile
  let res := Spec.resolved sdb cits m
  pure (obj [
    ("out", obj [("unfiltered", modeJ none file cits m), ("filtered", modeJ (some cits) file cits m),
                 ("bibtex", engineJ file cits (bibtexEngine file cits m)),
                 ("python", engineJ file cits (pythonEngine file cits m)),
                 ("style_whole", styleJ (styleWhole file (some cits) m))]),
    ("spec", obj [("db", strs (Spec.keys sdb)), ("repeated", strs (Spec.repeatedFrom [] sfile)),
                  ("expanded", strs (Spec.expanded sdb cits)),
                  ("extra", strs (Spec.extra sdb (Spec.expanded sdb cits) m)),
                  ("resolved", strs res),
                  ("dangling", arr ((Spec.dangling sdb res).map fun p => arr [strToJson p.1, strToJson p.2])),
                  ("dangling_cited", arr ((Spec.dangling sdb (Spec.expanded sdb cits)).map fun p => arr [strToJson p.1, strToJson p.2])),
                  ("missing", strs (Spec.missing sdb res)), ("present", strs (Spec.present sdb res)),
                  ("contents", arr (sdb.map fun e => arr [strToJson e.key, pairsJ e.fields])),
                  ("proviso", Json.bool (Spec.proviso sfile cits)),
                  ("proviso_strong", Json.bool (Spec.provisoStrong sfile cits))])])

/-! ### function-level ops (the database is built through `BibliographyData(entries=…)`, no reader) -/

/-- an optional list of strings: key absent or `null` = `None` -/
def getOptStrList (j : Json) (k : String) : Except String (Option (List Str)) :=
  match j.getObjVal? k with
  | .error _ => pure none
  | .ok Json.null => pure none
  | .ok _ => do pure (some (← getStrList j k))

def getOptInt (j : Json) (k : String) : Except String (Option Int) :=
  match j.getObjVal? k with
  | .error _ => pure none
  | .ok Json.null => pure none
  | .ok _ => do pure (some (← getInt j k))

def textsJ (l : List Report) : Json := strs (l.map Report.text)

/-- `add_entries`: `BibliographyData(entries, wanted_entries=wanted)` → the three containers and the reports -/
def addEntriesOp (j : Json) : Except String Json := do
  let file := toModelFile (← parseFile j)
  let wanted ← getOptStrList j "wanted"
  let out := match BibData.ofEntries wanted file with
    | none => Json.str "KeyError"
    | some (db, rep) =>
      obj [("db", strs (CIDict.iter db.entries)),
           ("entry_keys", optJ (fun l => strs (l.map fun p => p.2.key)) (CIDict.items db.entries)),
           ("wanted", optJ (fun w => strs (CISet.iter w)) db.wanted),
           ("citations", pairsJ db.citations.keys),
           ("want", strs ((file.map Prod.fst).filter db.wantEntry)),
           ("canonical", arr ((file.map Prod.fst).map fun k => optJ strToJson (db.getCanonicalKey k))),
           ("reports", reportsJ rep), ("texts", textsJ rep)]
  -- the reader reaches the same database (`readFile` = `ofEntries`, C05_constructor_eq_reader)
  let same := match BibData.ofEntries wanted file, BibData.readFile wanted file with
    | some (a, ra), some (b, rb) => CIDict.iter a.entries == CIDict.iter b.entries && ra == rb
    | none, none => true
    | _, _ => false
  pure (obj [("out", out), ("spec", obj [("same_as_reader", Json.bool same)])])

/-- the database of the ops below: everything the constructor is given -/
def wholeDb (file : List (Str × Entry)) : Option BibData := (BibData.ofEntries none file).map Prod.fst

/-- `xref_citations`: `_get_crossreferenced_citations(citations, min_crossrefs)` called directly (the list
need not be de-duplicated nor free of `*`) and `_expand_wildcard_citations(citations)` -/
def xrefCitationsOp (j : Json) : Except String Json := do
  let raw ← parseFile j
  let file := toModelFile raw
  let cits ← getStrList j "citations"
  let m ← getInt j "min_crossrefs"
  let out := match wholeDb file with
    | none => Json.str "KeyError"
    | some db =>
      let x := db.crossreferenced cits m
      obj [("expanded", strs (db.expandWildcard cits)),
           ("extra", strs x.1), ("reports", reportsJ x.2), ("texts", textsJ x.2)]
  let sdb := Spec.readAll (toSpecFile raw)
  pure (obj [("out", out),
             ("spec", obj [("expanded", strs (Spec.expanded sdb cits)),
                           ("extra", strs (Spec.extra sdb cits m)),
                           ("dangling", arr ((Spec.dangling sdb (cits ++ Spec.extra sdb cits m)).map fun p =>
                              arr [strToJson p.1, strToJson p.2]))])])

/-- `remove_missing`: `Interpreter.remove_missing_citations` and `BaseStyle.remove_missing_citations` -/
def removeMissingOp (j : Json) : Except String Json := do
  let raw ← parseFile j
  let file := toModelFile raw
  let cits ← getStrList j "citations"
  let out := match wholeDb file with
    | none => Json.str "KeyError"
    | some db =>
      let a := db.removeMissing cits
      let b := db.removeMissingPy cits
      obj [("interpreter", obj [("keys", strs a.1), ("reports", reportsJ a.2), ("texts", textsJ a.2)]),
           ("style", obj [("keys", strs b.1), ("reports", reportsJ b.2), ("texts", textsJ b.2)])]
  let sdb := Spec.readAll (toSpecFile raw)
  pure (obj [("out", out),
             ("spec", obj [("present", strs (Spec.present sdb cits)), ("missing", strs (Spec.missing sdb cits))])])

/-- `format_bibliography`: `Style(min_crossrefs=m).format_bibliography(bib_data, citations)`; `citations` may be
`null` (= `None`: the whole database), `min_crossrefs` may be absent (the default of `BaseStyle.__init__`) -/
def formatBibliographyOp (j : Json) : Except String Json := do
  let raw ← parseFile j
  let file := toModelFile raw
  let cits ← getOptStrList j "citations"
  let m := (← getOptInt j "min_crossrefs").getD Gen.C05.styleMinCrossrefs
  let out := match wholeDb file with
    | none => Json.str "KeyError"
    | some db =>
      match db.formatBibliography cits m with
      | none => Json.str "KeyError"
      | some o => obj [("keys", strs o.keys), ("reports", reportsJ o.reports), ("texts", textsJ o.reports)]
  let sdb := Spec.readAll (toSpecFile raw)
  let res := Spec.resolved sdb (cits.getD (Spec.keys sdb)) m
  pure (obj [("out", out),
             ("spec", obj [("resolved", strs res), ("present", strs (Spec.present sdb res)),
                           ("missing", strs (Spec.missing sdb res)),
                           ("dangling", arr ((Spec.dangling sdb res).map fun p => arr [strToJson p.1, strToJson p.2])),
                           ("star", strs (Spec.resolved sdb [Spec.star] m))])])

/-- `engine_defaults`: both engines called with neither `citations` nor `min_crossrefs` -/
def engineDefaultsOp (j : Json) : Except String Json := do
  let raw ← parseFile j
  let file := toModelFile raw
  let sdb := Spec.readAll (toSpecFile raw)
  pure (obj [("out", obj [("bibtex", styleJ (bibtexEngineDefault file)), ("python", styleJ (pythonEngineDefault file))]),
             ("spec", obj [("db", strs (Spec.keys sdb)),
                           ("dangling", arr ((Spec.dangling sdb (Spec.keys sdb)).map fun p => arr [strToJson p.1, strToJson p.2]))])])

/-- `fold`: the models' key folding (`lower`, ASCII) next to Python's `str.lower()` (`lowerPy`) and the domain on
which the two are proved equal -/
def foldOp (j : Json) : Except String Json := do
  let ks ← getStrList j "keys"
  pure (obj [("out", obj [("lower", strs (ks.map lowerPy))]),
             ("spec", obj [("ascii", strs (ks.map lower)), ("domain", arr (ks.map fun k => Json.bool (foldDomain k)))])])

/-- driver ops of this property: (op name, handler) -/
def handlers : List (String × (Json → Except String Json)) :=
  [("resolve", resolve), ("add_entries", addEntriesOp), ("xref_citations", xrefCitationsOp),
   ("remove_missing", removeMissingOp), ("format_bibliography", formatBibliographyOp),
   ("engine_defaults", engineDefaultsOp), ("fold", foldOp)]

end Pybtex.Drv.C05
