import PybtexModel.Drv.DbJson
open Lean
namespace Pybtex.Drv.C05
open Pybtex.Drv.DbJson

def pairsJ (l : List (Str × Str)) : Json := arr (l.map fun p => arr [strToJson p.1, strToJson p.2])

/-- `[key, type, [[name, value], …]]` of every stored entry, in database order -/
def contentsJ (db : BibData) : Json :=
  optJ (fun l => arr (l.map fun p =>
      arr [strToJson p.2.key, strToJson p.2.type, optJ pairsJ (CIDict.items p.2.fields)]))
    (CIDict.items db.entries)

/-- one reading mode: read the file (filtered by the citations or not), then `add_extra_citations`
(twice on the same database object: the result may not depend on earlier calls) -/
def modeJ (wanted : Option (List Str)) (file : List (Str × Entry)) (cits : List Str) (m : Int) : Json :=
  match BibData.readFile wanted file with
  | none => Json.str "KeyError"
  | some (db, rep0) =>
    let a := db.addExtraCitations cits m
    let a2 := db.addExtraCitations cits m
    obj [("db", strs (CIDict.iter db.entries)),
         ("entry_keys", optJ (fun l => strs (l.map fun p => p.2.key)) (CIDict.items db.entries)),
         ("contents", contentsJ db),
         ("read_reports", reportsJ rep0),
         ("expanded", strs (db.expandWildcard cits)),
         ("resolved", strs a.1), ("reports", reportsJ a.2),
         ("resolved_again", strs a2.1), ("reports_again", reportsJ a2.2)]

def noteName : Str := "note".toList

/-- the `note` of the entries a front end emits, read from the database it built (filtered reading) -/
def engineNotes (file : List (Str × Entry)) (cits : List Str) (keys : List Str) : Json :=
  match BibData.readFile (some cits) file with
  | none => Json.null
  | some (db, _) => arr (keys.map fun k =>
      match db.entries.getItem k with
      | none => Json.null
      | some e => optJ strToJson (e.fields.getItem noteName))

def engineJ (file : List (Str × Entry)) (cits : List Str) : Option EngineOut → Json
  | none => Json.str "KeyError"
  | some o => obj [("keys", strs o.keys), ("reports", reportsJ o.reports), ("notes", engineNotes file cits o.keys)]

/-- `resolve`: file + citations + min_crossrefs → resolved list and reports, for both reading
modes and both engine front ends (model), and the reference values (spec).  A case may give the
entries as several files (`split`): one reader object reads them one after the other into one
database, which is reading their concatenation. -/
def resolve (j : Json) : Except String Json := do
  let raw ← parseFile j
  let cits ← getStrList j "citations"
  let m ← getInt j "min_crossrefs"
  let file := toModelFile raw
  let sfile := toSpecFile raw
  let sdb := Spec.readAll sfile
  let res := Spec.resolved sdb cits m
  pure (obj [
    ("out", obj [("unfiltered", modeJ none file cits m), ("filtered", modeJ (some cits) file cits m),
                 ("bibtex", engineJ file cits (bibtexEngine file cits m)),
                 ("python", engineJ file cits (pythonEngine file cits m))]),
    ("spec", obj [("db", strs (Spec.keys sdb)), ("repeated", strs (Spec.repeatedFrom [] sfile)),
                  ("expanded", strs (Spec.expanded sdb cits)),
                  ("extra", strs (Spec.extra sdb (Spec.expanded sdb cits) m)),
                  ("resolved", strs res),
                  ("dangling", arr ((Spec.dangling sdb res).map fun p => arr [strToJson p.1, strToJson p.2])),
                  ("dangling_cited", arr ((Spec.dangling sdb (Spec.expanded sdb cits)).map fun p => arr [strToJson p.1, strToJson p.2])),
                  ("missing", strs (Spec.missing sdb res)), ("present", strs (Spec.present sdb res)),
                  ("contents", arr (sdb.map fun e => arr [strToJson e.key, pairsJ e.fields])),
                  ("proviso", Json.bool (Spec.proviso sfile cits)),
                  ("proviso_strong", Json.bool (Spec.provisoStrong sfile cits))])])

/-- driver ops of this property: (op name, handler) -/
def handlers : List (String × (Json → Except String Json)) := [("resolve", resolve)]

end Pybtex.Drv.C05
