import PybtexModel.Drv.Json
open Lean
namespace Pybtex.Drv.C05

/-- driver ops of this property: (op name, handler) -/
def handlers : List (String × (Json → Except String Json)) := []

end Pybtex.Drv.C05
