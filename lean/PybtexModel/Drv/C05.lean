import PybtexModel.Drv.DbJson
open Lean
namespace Pybtex.Drv.C05
open Pybtex.Drv.DbJson

/-- one reading mode: read the file (filtered by the citations or not), then `add_extra_citations` -/
def modeJ (wanted : Option (List Str)) (file : List (Str × Entry)) (cits : List Str) (m : Int) : Json :=
  match BibData.readFile wanted file with
  | none => Json.str "KeyError"
  | some (db, rep0) =>
    let a := db.addExtraCitations cits m
    obj [("db", strs (CIDict.iter db.entries)),
         ("entry_keys", optJ (fun l => strs (l.map fun p => p.2.key)) (CIDict.items db.entries)),
         ("read_reports", reportsJ rep0),
         ("expanded", strs (db.expandWildcard cits)),
         ("resolved", strs a.1), ("reports", reportsJ a.2)]

def engineJ : Option EngineOut → Json
  | none => Json.str "KeyError"
  | some o => obj [("keys", strs o.keys), ("reports", reportsJ o.reports)]

/-- `resolve`: file + citations + min_crossrefs → resolved list and reports, for both reading
modes and both engine front ends (model), and the reference values (spec). -/
def resolve (j : Json) : Except String Json := do
  let raw ← parseFile j
  let cits ← getStrList j "citations"
  let m ← getInt j "min_crossrefs"
  let file := toModelFile raw
  let sfile := toSpecFile raw
  let sdb := Spec.readAll sfile
  let res := Spec.resolved sdb cits m
  pure (obj [
    ("out", obj [("unfiltered", modeJ none file cits m), ("filtered", modeJ (some cits) file cits m),
                 ("bibtex", engineJ (bibtexEngine file cits m)), ("python", engineJ (pythonEngine file cits m))]),
    ("spec", obj [("db", strs (Spec.keys sdb)), ("repeated", strs (Spec.repeatedFrom [] sfile)),
                  ("expanded", strs (Spec.expanded sdb cits)),
                  ("extra", strs (Spec.extra sdb (Spec.expanded sdb cits) m)),
                  ("resolved", strs res),
                  ("dangling", arr ((Spec.dangling sdb (Spec.expanded sdb cits)).map fun p => arr [strToJson p.1, strToJson p.2])),
                  ("missing", strs (Spec.missing sdb res)), ("present", strs (Spec.present sdb res)),
                  ("proviso", Json.bool (Spec.proviso sfile cits))])])

/-- driver ops of this property: (op name, handler) -/
def handlers : List (String × (Json → Except String Json)) := [("resolve", resolve)]

end Pybtex.Drv.C05
