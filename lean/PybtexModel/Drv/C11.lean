import PybtexModel.Drv.Json
import PybtexModel.Model.NameFormat
import PybtexModel.Spec.NameFormat
open Lean
namespace Pybtex.Drv.C11

def errName : FmtErr → String
  | .unbalanced => "UnbalancedBraceError"
  | .prematureEOF => "PrematureEOF"
  | .tokenRequired => "TokenRequired"
  | .illegalLetters => "PybtexSyntaxError"
  | .tooDeep => "BibTeXError"
  | .internal => "INTERNAL"

def partJ : FmtPart → Json
  | .text s => obj [("text", strToJson s)]
  | .part pre fc delim post => obj [("pre", strToJson pre), ("fc", optJ strToJson fc), ("delim", optJ strToJson delim), ("post", strToJson post)]

def fmtname (j : Json) : Except String Json := do
  let name ← getStr j "name"
  let fmt ← getStr j "fmt"
  let out := match formatName name fmt with
    | .error e => obj [("error", Json.str (errName e))]
    | .ok (s, rep) => obj [("str", strToJson s), ("too_many_commas", Json.bool rep)]
  let parsed := match parseFormat fmt with
    | .error e => obj [("error", Json.str (errName e))]
    | .ok ps => arr (ps.map partJ)
  -- the independent reference (`Spec/NameFormat.lean`); the oracle compares `spec.str` with the implementation
  let spec := match Spec.formatName name fmt with
    | .ok s => obj [("str", strToJson s)]
    | .malformed => obj [("malformed", Json.bool true)]
    | .tooDeep => obj [("too_deep", Json.bool true)]
  pure (obj [("out", out), ("parsed", parsed), ("spec", spec),
             ("wellformed", Json.bool (Spec.wellformed fmt))])

/-- the `format.name$` built-in on `names n fmt`; `nth` (optional) = the n-th name of the list as
the generator built it: the reference is `Spec.formatName` on that name. -/
def fmtnth (j : Json) : Except String Json := do
  let names ← getStr j "names"
  let n ← getInt j "n"
  let fmt ← getStr j "fmt"
  let out := match formatNth names n fmt with
    | .error e => obj [("error", Json.str (errName e))]
    | .ok .noSuchName => obj [("no_such_name", Json.bool true)]
    | .ok (.formatted s rep) => obj [("str", strToJson s), ("too_many_commas", Json.bool rep)]
  let spec := match getStr j "nth" with
    | .error _ => Json.null
    | .ok nth =>
      match Spec.formatName nth fmt with
      | .ok s => obj [("str", strToJson s)]
      | .malformed => obj [("malformed", Json.bool true)]
      | .tooDeep => obj [("too_deep", Json.bool true)]
  pure (obj [("out", out), ("spec", spec), ("wellformed", Json.bool (Spec.wellformed fmt)),
             ("count", nat (splitNameList names).length)])

def handlers : List (String × (Json → Except String Json)) := [("fmtname", fmtname), ("fmtnth", fmtnth)]

end Pybtex.Drv.C11
