import PybtexModel.Drv.Json
import PybtexModel.Model.NameFormat
import PybtexModel.Spec.NameFormat
import PybtexModel.Model.NameFormatFns
open Lean
namespace Pybtex.Drv.C11

def errName : FmtErr → String
  | .unbalanced => "UnbalancedBraceError"
  | .prematureEOF => "PrematureEOF"
  | .tokenRequired => "TokenRequired"
  | .illegalLetters => "PybtexSyntaxError"
  | .tooDeep => "BibTeXError"
  | .internal => "INTERNAL"

def partJ : FmtPart → Json
  | .text s => obj [("text", strToJson s)]
  | .part pre fc delim post => obj [("pre", strToJson pre), ("fc", optJ strToJson fc), ("delim", optJ strToJson delim), ("post", strToJson post)]

def fmtname (j : Json) : Except String Json := do
  let name ← getStr j "name"
  let fmt ← getStr j "fmt"
  let out := match formatName name fmt with
    | .error e => obj [("error", Json.str (errName e))]
    | .ok (s, rep) => obj [("str", strToJson s), ("too_many_commas", Json.bool rep)]
  let parsed := match parseFormat fmt with
    | .error e => obj [("error", Json.str (errName e))]
    | .ok ps => arr (ps.map partJ)
  -- the independent reference (`Spec/NameFormat.lean`); the oracle compares `spec.str` with the implementation
  let spec := match Spec.formatName name fmt with
    | .ok s => obj [("str", strToJson s)]
    | .malformed => obj [("malformed", Json.bool true)]
    | .tooDeep => obj [("too_deep", Json.bool true)]
  pure (obj [("out", out), ("parsed", parsed), ("spec", spec),
             ("wellformed", Json.bool (Spec.wellformed fmt))])

/-- the `format.name$` built-in on `names n fmt`; `nth` (optional) = the n-th name of the list as
the generator built it: the reference is `Spec.formatName` on that name. -/
def fmtnth (j : Json) : Except String Json := do
  let names ← getStr j "names"
  let n ← getInt j "n"
  let fmt ← getStr j "fmt"
  let out := match formatNth names n fmt with
    | .error e => obj [("error", Json.str (errName e))]
    | .ok .noSuchName => obj [("no_such_name", Json.bool true)]
    | .ok (.formatted s rep) => obj [("str", strToJson s), ("too_many_commas", Json.bool rep)]
  let spec := match getStr j "nth" with
    | .error _ => Json.null
    | .ok nth =>
      match Spec.formatName nth fmt with
      | .ok s => obj [("str", strToJson s)]
      | .malformed => obj [("malformed", Json.bool true)]
      | .tooDeep => obj [("too_deep", Json.bool true)]
  pure (obj [("out", out), ("spec", spec), ("wellformed", Json.bool (Spec.wellformed fmt)),
             ("count", nat (splitNameList names).length)])

/-! ### function-level ops (extension): the classes and helpers of names.py one by one -/

def errJ (e : FmtErr) : Json := obj [("error", Json.str (errName e))]

def tieJ : Tie → Json
  | .none => Json.null
  | .one => Json.str "~"
  | .two => Json.str "~~"

def recJ (np : NamePartRec) : Json :=
  obj [("pre_text", strToJson np.preText),
       ("format_char", Json.str (match np.formatChar with | none => "" | some c => String.singleton c)),
       ("abbreviate", Json.bool np.abbreviate), ("delimiter", optJ strToJson np.delimiter),
       ("post_text", strToJson np.postText), ("tie", tieJ np.tie),
       ("repr", let r := np.reprList; arr [strToJson r.1, strToJson r.2.1, optJ strToJson r.2.2.1, strToJson r.2.2.2])]

def objJ : FmtObj → Json
  | .text s => obj [("text", strToJson s), ("eq", Json.bool (decide (FmtObj.text s = FmtObj.text s ∧ FmtObj.text s ≠ FmtObj.text (s ++ ['x']))))]
  | .part np => recJ np

def optStr (j : Json) (k : String) : Except String (Option Str) :=
  match j.getObjVal? k with
  | .ok Json.null => pure none
  | .ok _ => do pure (some (← getStr j k))
  | .error _ => pure none

def getPerson (j : Json) : Except String Person := do
  pure { first := ← getStrList j "first", middle := ← getStrList j "middle", prelast := ← getStrList j "prelast",
         last := ← getStrList j "last", lineage := ← getStrList j "lineage" }

def resStrJ : Except FmtErr Str → Json
  | .error e => errJ e
  | .ok s => obj [("str", strToJson s)]

/-- `NameFormat(fmt).parts`: the objects with their attributes (and what `parse_name_part` returned for them) -/
def c11parts (j : Json) : Except String Json := do
  let fmt ← getStr j "fmt"
  let raw := match parseFormat fmt with
    | .error e => errJ e
    | .ok ps => arr (ps.map partJ)
  let out := match nameFormatParts fmt with
    | .error e => obj [("error", Json.str (errName e)), ("raw", raw)]
    | .ok os => obj [("parts", arr (os.map objJ)), ("raw", raw)]
  pure (obj [("out", out), ("wellformed", Json.bool (Spec.wellformed fmt))])

/-- `NamePart([pre, fc, delim, post])` and, if a person is given, `.format(person)`; `eq` = `__eq__` with
the part rebuilt from its own `__repr__` list -/
def c11namepart (j : Json) : Except String Json := do
  let pre ← getStr j "pre"
  let fc ← optStr j "fc"
  let delim ← optStr j "delim"
  let post ← getStr j "post"
  let person ← getPerson j
  let out := match mkNamePart pre fc delim post with
    | .error e => errJ e
    | .ok np =>
      let again := match mkNamePart np.reprList.1 (some np.reprList.2.1) np.reprList.2.2.1 np.reprList.2.2.2 with
        | .error e => errJ e
        | .ok np2 => Json.bool (np2.pyEq np)
      obj [("part", recJ np), ("formatted", resStrJ (np.format person)), ("eq_repr", again)]
  pure (obj [("out", out)])

/-- `NameFormat(fmt)` on a person given by its five token lists -/
def c11person (j : Json) : Except String Json := do
  let fmt ← getStr j "fmt"
  let person ← getPerson j
  let spec := match Spec.NameFormat.parse fmt with
    | none => obj [("malformed", Json.bool true)]
    | some pieces =>
      match Spec.NameFormat.formatPieces person pieces with
      | none => obj [("too_deep", Json.bool true)]
      | some s => obj [("str", strToJson s)]
  pure (obj [("out", resStrJ (formatPersonWith person fmt)), ("spec", spec),
             ("wellformed", Json.bool (Spec.wellformed fmt))])

def optStrJ : Option Str → Json
  | none => obj [("error", Json.str "BibTeXError")]
  | some s => obj [("str", strToJson s)]

/-- `join(words, tie, space)`, `tie_or_space(word, tie, space)` for every word, `bibtex_len` -/
def c11join (j : Json) : Except String Json := do
  let words ← getStrList j "words"
  let tie ← getStr j "tie"
  let space ← getStr j "space"
  pure (obj [("out", obj [("join", optStrJ (joinNames words tie space)),
                           ("tie_or_space", arr (words.map fun w => optStrJ (tieOrSpace w tie space)))])])

/-- `bibtex_abbreviate(s, delim)` and `bibtex_first_letter(s)` as C11 uses them -/
def c11abbr (j : Json) : Except String Json := do
  let s ← getStr j "s"
  let delim ← optStr j "delim"
  pure (obj [("out", obj [("abbreviate", optStrJ (NFChars.bibtexAbbreviateU s delim)),
                           ("first_letter", optStrJ (NFChars.bibtexFirstLetterU s))])])

/-- the constants of names.py as the model has them (compared with the source on every run) -/
def c11consts (_ : Json) : Except String Json := do
  let probe : Str := ['a', 'b']
  let dflt := fun (ws : List Str) => optStrJ (joinNames ws ['~'] [' '])
  pure (obj [("out", obj [
    ("enough_chars", nat enoughChars),
    ("types", obj (namePartTypes.map fun p => (String.singleton p.1, Json.str p.2))),
    ("get_part", obj (namePartTypes.map fun p =>
        (String.singleton p.1,
         optJ strs (Person.getPart { first := [['1']], middle := [['2']], prelast := [['3']], last := [['4']], lineage := [['5']] } p.1)))),
    ("legal_letters", strToJson legalFormatLetters),
    ("abbreviate_default_delimiter", optStrJ (NFChars.bibtexAbbreviateU ['a', '-', 'b'] none)),
    ("join_defaults", arr [dflt [probe, probe], dflt [probe, probe, probe], dflt [['a', 'b', 'c'], probe, probe]])])])

def handlers : List (String × (Json → Except String Json)) :=
  [("fmtname", fmtname), ("fmtnth", fmtnth), ("c11parts", c11parts), ("c11namepart", c11namepart),
   ("c11person", c11person), ("c11join", c11join), ("c11abbr", c11abbr), ("c11consts", c11consts)]

end Pybtex.Drv.C11
