import PybtexModel.Drv.Json
import PybtexModel.Model.Width
import PybtexModel.Model.TeXStringU
import PybtexModel.Model.TeXCaseFull
import PybtexModel.Spec.TeXString
open Lean
namespace Pybtex.Drv.C12
open Pybtex.TeXU

def errJ : Json := obj [("error", Json.str "BibTeXError")]
def optE (f : α → Json) : Option α → Json
  | some a => f a
  | none => errJ

def toksJ (l : List Tok) : Json := arr (l.map fun t => arr [strToJson t.1, nat t.2])

def parseMode (s : Str) : Except String CaseMode :=
  match s with
  | ['l'] => pure .l | ['u'] => pure .u | ['t'] => pure .t
  | _ => throw "bad mode"

def parseSep (s : String) : Except String Sep :=
  match s with
  | "space" => pure .space | "comma" => pure .comma | "hyphen" => pure .hyphen | "and" => pure .and
  | _ => throw "bad sep"

def outside : Json := Json.str "outside-domain"

def tex (j : Json) : Except String Json := do
  let fn ← (← j.getObjVal? "fn").getStr?
  let s ← getStr j "s"
  match fn with
  | "scan" => pure (obj [("out", optE toksJ (scan s))])
  | "len" => pure (obj [("out", optE nat (bibtexLen s))])
  | "prefix" => pure (obj [("out", optE strToJson (bibtexPrefix s (← getInt j "n")))])
  | "substring" =>
    let st ← getInt j "start"
    let ln ← getInt j "len"
    pure (obj [("out", strToJson (bibtexSubstring s st ln)), ("spec", strToJson (Spec.substring s st ln))])
  | "purify" => pure (obj [("out", optE strToJson (bibtexPurifyG uniOps s))])
  | "case" =>
    let m ← parseMode (← getStr j "mode")
    pure (obj [("out", optE strToJson (changeCaseW pyWordOps s m)),
               ("domain_model", if caseDomain s then optE strToJson (changeCaseG uniOps s m) else outside)])
  | "width" => pure (obj [("out", optE int (bibtexWidthStd s))])
  | "fcb" => let r := findClosingBrace s; pure (obj [("out", arr [strToJson r.1, strToJson r.2])])
  | "split" =>
    let sep ← parseSep (← (← j.getObjVal? "sep").getStr?)
    pure (obj [("out", strs (splitTex sep s)), ("raw", strs (splitTexRaw sep s))])
  | "firstletter" => pure (obj [("out", optE strToJson (bibtexFirstLetterG uniOps s))])
  | "abbreviate" =>
    let d := match j.getObjVal? "delim" with
      | .ok (Json.str x) => some x.toList
      | _ => none
    pure (obj [("out", optE strToJson (bibtexAbbreviateG uniOps s d))])
  | _ => throw s!"unknown tex fn {fn}"

def builtinE (f : α → Json) : Except BuiltinErr α → Json
  | .ok a => f a
  | .error _ => errJ

/-- everything about one string in one reply.  The character-class dependent primitives
(`purify`, `case`, `firstletter`, `abbreviate`) are the Unicode-aware ones of
`Model/TeXStringU.lean`; case change is `Model/TeXCaseFull.lean` (`str.lower` / `str.upper` as string
operations of the interpreter: every string is answered). -/
def texAll (j : Json) : Except String Json := do
  let s ← getStr j "s"
  let ns ← (← getArr j "ns").mapM fun x => x.getInt?
  let subs ← (← getArr j "subs").mapM fun x => do
    let a ← x.getArr?
    pure ((← (a[0]!).getInt?), (← (a[1]!).getInt?))
  let modes ← match j.getObjVal? "modes" with
    | .ok _ => getStrList j "modes"
    | .error _ => pure []
  let delims ← match j.getObjVal? "delims" with
    | .ok _ => getStrList j "delims"
    | .error _ => pure []
  let dom := caseDomain s
  let cc := fun m => optE strToJson (changeCaseW pyWordOps s m)
  let out := obj [
    ("scan", optE toksJ (scan s)),
    ("len", optE nat (bibtexLen s)),
    ("purify", optE strToJson (bibtexPurifyG uniOps s)),
    ("case", obj [("l", cc .l), ("u", cc .u), ("t", cc .t)]),
    ("width", optE int (bibtexWidthStd s)),
    ("split", obj [("space", strs (splitTex .space s)), ("comma", strs (splitTex .comma s)),
                   ("hyphen", strs (splitTex .hyphen s)), ("and", strs (splitNameList s))]),
    ("raw", obj [("space", strs (splitTexRaw .space s)), ("comma", strs (splitTexRaw .comma s)),
                 ("hyphen", strs (splitTexRaw .hyphen s)), ("and", strs (splitTexRaw .and s))]),
    ("firstletter", optE strToJson (bibtexFirstLetterG uniOps s)),
    ("abbreviate", optE strToJson (bibtexAbbreviateG uniOps s none)),
    ("abbrev_d", arr (delims.map fun d => optE strToJson (bibtexAbbreviateG uniOps s (some d)))),
    ("fcb", let r := findClosingBrace s; arr [strToJson r.1, strToJson r.2]),
    ("prefix", arr (ns.map fun n => optE strToJson (bibtexPrefix s n))),
    ("substring", arr (subs.map fun p => strToJson (bibtexSubstring s p.1 p.2))),
    -- the same primitives through the built-ins of the .bst interpreter
    ("b", obj [
      ("substring$", arr (subs.map fun p => strToJson (bibtexSubstring s p.1 p.2))),
      ("text.prefix$", arr (ns.map fun n => optE strToJson (bibtexPrefix s n))),
      ("purify$", optE strToJson (bibtexPurifyG uniOps s)),
      ("text.length$", optE nat (bibtexLen s)),
      ("width$", optE int (bibtexWidthStd s)),
      ("num.names$", nat (splitNameList s).length),
      ("change.case$", arr (modes.map fun m => builtinE strToJson (changeCaseBuiltinW pyWordOps s m)))])]
  let spec := obj [
    ("substring", arr (subs.map fun p => strToJson (Spec.substring s p.1 p.2))),
    ("balanced", Json.bool (Spec.balanced s)),
    ("maxdepth", nat (Spec.maxDepth 0 s)),
    ("case_domain", Json.bool dom)]
  pure (obj [("out", out), ("spec", spec)])

/-- the splitting call sites only (cheap; for the large exhaustive "and" scope) -/
def texSplit (j : Json) : Except String Json := do
  let s ← getStr j "s"
  let out := obj [
    ("and", strs (splitNameList s)),
    ("raw_and", strs (splitTexRaw .and s)),
    ("space", strs (splitTex .space s)),
    ("raw_space", strs (splitTexRaw .space s)),
    ("num.names$", nat (splitNameList s).length)]
  pure (obj [("out", out), ("spec", obj [("balanced", Json.bool (Spec.balanced s))])])

/-- `str.lower` / `str.upper` of the interpreter on one string: the two word operations `change_case` calls
(function-level tie of `lowerPy` / `upperPy`), and `mode[0].lower()` as `modeLetter` reads it -/
def texCase (j : Json) : Except String Json := do
  let w ← getStr j "w"
  pure (obj [("out", obj [("lower", strToJson (lowerPy w)), ("upper", strToJson (upperPy w))])])

/-- the constants of the source that the model hard-codes (in `scanM`, `stripCtrlWord`, `spaceRun`, `fcbAux`, `isAndAt`,
`bibtexAbbreviateG`, `modeLetter`, `widthTok`, `purifyTokG`, `firstLetterAuxG`, `splitTex`), in the spelling of the source;
the harness reads the same constants off /repo on every run and compares.  `max_level` is the model's own constant, the
others are declarations of what the hand-written matchers implement. -/
def texConsts (_j : Json) : Except String Json :=
  pure (obj [("out", obj [
    ("max_level", nat maxLevel),
    ("purify_special_char_re", Json.str "^\\\\[A-Za-z]+"),
    ("BIBTEX_SPACE_RE", Json.str "(?:\\\\ |\\s|(?<!\\\\)~)+"),
    ("BRACE_RE", Json.str "{|}"),
    ("name_list_sep", Json.str " [Aa][Nn][Dd] "),
    ("abbreviate_delimiter", Json.str ".-"),
    ("abbreviate_separator", Json.str "-"),
    ("change_case_modes", arr [Json.str "l", Json.str "u", Json.str "t"]),
    ("width_special_braces", nat 1000),
    ("width_special_skip", nat 2),
    ("purify_blank_chars", Json.str "-~"),
    ("first_letter_format", Json.str "{{{0}}}"),
    ("split_defaults", arr [Json.null, Json.bool true, Json.bool false])])])

def handlers : List (String × (Json → Except String Json)) :=
  [("tex", tex), ("texall", texAll), ("texsplit", texSplit), ("texcase", texCase), ("texconsts", texConsts)]

end Pybtex.Drv.C12
