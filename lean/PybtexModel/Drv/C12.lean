import PybtexModel.Drv.Json
import PybtexModel.Model.Width
import PybtexModel.Spec.TeXString
open Lean
namespace Pybtex.Drv.C12

def errJ : Json := obj [("error", Json.str "BibTeXError")]
def optE (f : α → Json) : Option α → Json
  | some a => f a
  | none => errJ

def toksJ (l : List Tok) : Json := arr (l.map fun t => arr [strToJson t.1, nat t.2])

def parseMode (s : Str) : Except String CaseMode :=
  match s with
  | ['l'] => pure .l | ['u'] => pure .u | ['t'] => pure .t
  | _ => throw "bad mode"

def parseSep (s : String) : Except String Sep :=
  match s with
  | "space" => pure .space | "comma" => pure .comma | "hyphen" => pure .hyphen | "and" => pure .and
  | _ => throw "bad sep"

def tex (j : Json) : Except String Json := do
  let fn ← (← j.getObjVal? "fn").getStr?
  let s ← getStr j "s"
  match fn with
  | "scan" => pure (obj [("out", optE toksJ (scan s))])
  | "len" => pure (obj [("out", optE nat (bibtexLen s))])
  | "prefix" => pure (obj [("out", optE strToJson (bibtexPrefix s (← getInt j "n")))])
  | "substring" =>
    let st ← getInt j "start"
    let ln ← getInt j "len"
    pure (obj [("out", strToJson (bibtexSubstring s st ln)), ("spec", strToJson (Spec.substring s st ln))])
  | "purify" => pure (obj [("out", optE strToJson (bibtexPurify s))])
  | "case" => pure (obj [("out", optE strToJson (changeCase s (← parseMode (← getStr j "mode"))))])
  | "width" => pure (obj [("out", optE int (bibtexWidthStd s))])
  | "fcb" => let r := findClosingBrace s; pure (obj [("out", arr [strToJson r.1, strToJson r.2])])
  | "split" =>
    let sep ← parseSep (← (← j.getObjVal? "sep").getStr?)
    pure (obj [("out", strs (splitTex sep s)), ("raw", strs (splitTexRaw sep s))])
  | "firstletter" => pure (obj [("out", optE strToJson (bibtexFirstLetter s))])
  | "abbreviate" =>
    let d := match j.getObjVal? "delim" with
      | .ok (Json.str x) => some x.toList
      | _ => none
    pure (obj [("out", optE strToJson (bibtexAbbreviate s d))])
  | _ => throw s!"unknown tex fn {fn}"

/-- everything about one string in one reply -/
def texAll (j : Json) : Except String Json := do
  let s ← getStr j "s"
  let ns ← (← getArr j "ns").mapM fun x => x.getInt?
  let subs ← (← getArr j "subs").mapM fun x => do
    let a ← x.getArr?
    pure ((← (a[0]!).getInt?), (← (a[1]!).getInt?))
  let out := obj [
    ("scan", optE toksJ (scan s)),
    ("len", optE nat (bibtexLen s)),
    ("purify", optE strToJson (bibtexPurify s)),
    ("case", obj [("l", optE strToJson (changeCase s .l)), ("u", optE strToJson (changeCase s .u)), ("t", optE strToJson (changeCase s .t))]),
    ("width", optE int (bibtexWidthStd s)),
    ("split", obj [("space", strs (splitTex .space s)), ("comma", strs (splitTex .comma s)),
                   ("hyphen", strs (splitTex .hyphen s)), ("and", strs (splitTex .and s))]),
    ("raw", obj [("space", strs (splitTexRaw .space s)), ("comma", strs (splitTexRaw .comma s)),
                 ("hyphen", strs (splitTexRaw .hyphen s)), ("and", strs (splitTexRaw .and s))]),
    ("firstletter", optE strToJson (bibtexFirstLetter s)),
    ("abbreviate", optE strToJson (bibtexAbbreviate s none)),
    ("fcb", let r := findClosingBrace s; arr [strToJson r.1, strToJson r.2]),
    ("prefix", arr (ns.map fun n => optE strToJson (bibtexPrefix s n))),
    ("substring", arr (subs.map fun p => strToJson (bibtexSubstring s p.1 p.2)))]
  let spec := obj [
    ("substring", arr (subs.map fun p => strToJson (Spec.substring s p.1 p.2))),
    ("balanced", Json.bool (Spec.balanced s)),
    ("maxdepth", nat (Spec.maxDepth 0 s))]
  pure (obj [("out", out), ("spec", spec)])

def handlers : List (String × (Json → Except String Json)) := [("tex", tex), ("texall", texAll)]

end Pybtex.Drv.C12
