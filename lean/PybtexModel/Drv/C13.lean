import PybtexModel.Drv.Json
import PybtexModel.Spec.OrderedMapU
open Lean
namespace Pybtex.Drv.C13
open Pybtex.Uni

/-- the key normaliser the driver runs the model and the reference with: `str.lower()` on whole strings -/
abbrev norm : Str → Str := lowerPy

def parsePairs (l : List Json) : Except String (List (Str × Int)) :=
  l.mapM fun p => do
    let a ← p.getArr?
    let k ← jsonToStr (a[0]!)
    let v ← (a[1]!).getInt?
    pure (k, v)

def parseOp (j : Json) : Except String (Op Int) := do
  let o ← (← j.getObjVal? "o").getStr?
  match o with
  | "set" => pure (.set (← getStr j "k") (← getInt j "v"))
  | "get" => pure (.get (← getStr j "k"))
  | "del" => pure (.del (← getStr j "k"))
  | "contains" => pure (.contains (← getStr j "k"))
  | "len" => pure .len
  | "iter" => pure .iter
  | "items" => pure .items
  | "keys" => pure .keys
  | "values" => pure .values
  | "bool" => pure .truth
  | "getD" => pure (.getD (← getStr j "k") (← getInt j "v"))
  | "setdefault" => pure (.setDefault (← getStr j "k") (← getInt j "v"))
  | "pop" => pure (.pop (← getStr j "k"))
  | "popD" => pure (.popD (← getStr j "k") (← getInt j "v"))
  | "popitem" => pure .popItem
  | "update" => pure (.update (← parsePairs (← getArr j "ps")))
  | "lower" => pure .lower
  | "clear" => pure .clear
  | "incr" => do
    let n ← getInt j "v"
    pure (.modify (← getStr j "k") (· + n))   -- `d[k] += n`
  | _ => throw s!"unknown cimap op {o}"

def itemsJ (l : List (Str × Int)) : Json := arr (l.map fun p => arr [strToJson p.1, int p.2])

def resJ : Res Int → Json
  | .unit => Json.null
  | .val v => obj [("v", int v)]
  | .keyError => Json.str "KeyError"
  | .bool b => Json.bool b
  | .nat n => nat n
  | .keys l => strs l
  | .items l => itemsJ l
  | .vals l => arr (l.map int)
  | .pair k v => arr [strToJson k, int v]

/-- a view that raised `KeyError` is `null` in a snapshot -/
def viewJ : Res Int → Json
  | .keyError => Json.null
  | r => resJ r

/-- the observations taken after every step, each through the corresponding operation of `stepF` -/
def snap {S : Type} (stepF : S → Op Int → S × Res Int) (pr : List Str) (d : S) (r : Json) : Json :=
  obj [("res", r),
       ("items", viewJ (stepF d .items).2),
       ("keys", resJ (stepF d .iter).2),
       ("keys_view", resJ (stepF d .keys).2),
       ("values", viewJ (stepF d .values).2),
       ("bool", resJ (stepF d .truth).2),
       ("len", resJ (stepF d .len).2),
       ("has", arr (pr.map fun k => resJ (stepF d (.contains k)).2)),
       ("repr_ok", Json.bool true)]

def runWith {S : Type} (stepF : S → Op Int → S × Res Int) (pr : List Str) (d : S) : List (Op Int) → List Json
  | [] => []
  | op :: ops => let r := stepF d op; snap stepF pr r.1 (resJ r.2) :: runWith stepF pr r.1 ops

/-- optional request field `tail`: report only the last `tail` snapshots (the exhaustive families check every prefix as a case of its own) -/
def keepTail (j : Json) (l : List Json) : List Json :=
  match j.getObjVal? "tail" with
  | .ok t => match t.getNat? with
    | .ok n => l.drop (l.length - n)
    | .error _ => l
  | .error _ => l

def cimap (j : Json) : Except String Json := do
  let init ← parsePairs (← getArr j "init")
  let ops ← (← getArr j "ops").mapM parseOp
  let pr ← getStrList j "probe"
  let cls ← (← j.getObjVal? "cls").getStr?
  let d := CIDict.ofPairs norm init
  let m := OMap.ofPairs norm init
  if cls == "ddict" then
    -- CaseInsensitiveDefaultDict(int): factory value 0; `init` was written with `d[k] = v`
    let f := CIDict.DD.step norm (0 : Int)
    let g := OMap.stepD norm (0 : Int)
    pure (obj [("out", arr (keepTail j (snap f pr d Json.null :: runWith f pr d ops))),
               ("spec", arr (keepTail j (snap g pr m Json.null :: runWith g pr m ops)))])
  else
    let f := CIDict.step (V := Int) norm
    let g := OMap.step (V := Int) norm
    pure (obj [("out", arr (keepTail j (snap f pr d Json.null :: runWith f pr d ops))),
               ("spec", arr (keepTail j (snap g pr m Json.null :: runWith g pr m ops)))])

/-! set -/
def parseSOp (j : Json) : Except String SOp := do
  let o ← (← j.getObjVal? "o").getStr?
  match o with
  | "add" => pure (.add (← getStr j "k"))
  | "discard" => pure (.discard (← getStr j "k"))
  | "remove" => pure (.remove (← getStr j "k"))
  | "contains" => pure (.contains (← getStr j "k"))
  | "canonical" => pure (.canonical (← getStr j "k"))
  | "lower" => pure .lower
  | "len" => pure .len
  | "iter" => pure .iter
  | "bool" => pure .truth
  | "pop" => pure (.pop (← getStr j "choice"))
  | "clear" => pure .clear
  | "ior" => pure (.ior (← getStrList j "l"))
  | "isub" => pure (.isub (← getStrList j "l"))
  | _ => throw s!"unknown ciset op {o}"

def sresJ : SRes → Json
  | .unit => Json.null
  | .keyError => Json.str "KeyError"
  | .bool b => Json.bool b
  | .str s => strToJson s
  | .nat n => nat n
  | .strs l => strs l
  | .badChoice => Json.str "NOT-A-MEMBER"

def ssnap {S : Type} (stepF : S → SOp → S × SRes) (spell : S → List Str) (pr : List Str) (s : S) (r : Json) : Json :=
  obj [("res", r), ("iter", sresJ (stepF s .iter).2), ("spellings", strs (spell s)), ("len", sresJ (stepF s .len).2),
       ("bool", sresJ (stepF s .truth).2),
       ("has", arr (pr.map fun k => sresJ (stepF s (.contains k)).2)), ("repr_ok", Json.bool true)]

def srunWith {S : Type} (stepF : S → SOp → S × SRes) (spell : S → List Str) (pr : List Str) (s : S) : List SOp → List Json
  | [] => []
  | op :: ops => let r := stepF s op; ssnap stepF spell pr r.1 (sresJ r.2) :: srunWith stepF spell pr r.1 ops

def ciset (j : Json) : Except String Json := do
  let init ← getStrList j "init"
  let ops ← (← getArr j "ops").mapM parseSOp
  let pr ← getStrList j "probe"
  let s := CISet.ofList norm init
  let m : OSet := init.foldl (OSet.add norm) []
  let f := CISet.step norm
  let g := OSet.step norm
  let sp1 : CISet → List Str := CISet.spellings
  let sp2 : OSet → List Str := fun s => s.map (·.2)
  pure (obj [("out", arr (keepTail j (ssnap f sp1 pr s Json.null :: srunWith f sp1 pr s ops))),
             ("spec", arr (keepTail j (ssnap g sp2 pr m Json.null :: srunWith g sp2 pr m ops)))])

/-- `str.lower()` as the model has it (lets the harness compare the normaliser itself with the interpreter) -/
def lowerOp (j : Json) : Except String Json := do
  let l ← getStrList j "ss"
  pure (obj [("out", strs (l.map norm))])

end Pybtex.Drv.C13

namespace Pybtex.Drv.C13
def handlers : List (String × (Json → Except String Json)) := [("cimap", cimap), ("ciset", ciset), ("cilower", lowerOp)]
end Pybtex.Drv.C13
