import PybtexModel.Drv.Json
import PybtexModel.Spec.OrderedMapU
import PybtexModel.Spec.CISetAlgebra
import PybtexModel.Gen.C13Methods
open Lean
namespace Pybtex.Drv.C13
open Pybtex.Uni

/-- the key normaliser the driver runs the model and the reference with: `str.lower()` on whole strings -/
abbrev norm : Str → Str := lowerPy

def parsePairs (l : List Json) : Except String (List (Str × Int)) :=
  l.mapM fun p => do
    let a ← p.getArr?
    let k ← jsonToStr (a[0]!)
    let v ← (a[1]!).getInt?
    pure (k, v)

def parseOp (j : Json) : Except String (Op Int) := do
  let o ← (← j.getObjVal? "o").getStr?
  match o with
  | "set" => pure (.set (← getStr j "k") (← getInt j "v"))
  | "get" => pure (.get (← getStr j "k"))
  | "del" => pure (.del (← getStr j "k"))
  | "contains" => pure (.contains (← getStr j "k"))
  | "len" => pure .len
  | "iter" => pure .iter
  | "items" => pure .items
  | "keys" => pure .keys
  | "values" => pure .values
  | "bool" => pure .truth
  | "getD" => pure (.getD (← getStr j "k") (← getInt j "v"))
  | "setdefault" => pure (.setDefault (← getStr j "k") (← getInt j "v"))
  | "pop" => pure (.pop (← getStr j "k"))
  | "popD" => pure (.popD (← getStr j "k") (← getInt j "v"))
  | "popitem" => pure .popItem
  | "update" => pure (.update (← parsePairs (← getArr j "ps")))
  | "lower" => pure .lower
  | "clear" => pure .clear
  | "incr" => do
    let n ← getInt j "v"
    pure (.modify (← getStr j "k") (· + n))   -- `d[k] += n`
  | _ => throw s!"unknown cimap op {o}"

def itemsJ (l : List (Str × Int)) : Json := arr (l.map fun p => arr [strToJson p.1, int p.2])

def resJ : Res Int → Json
  | .unit => Json.null
  | .val v => obj [("v", int v)]
  | .keyError => Json.str "KeyError"
  | .bool b => Json.bool b
  | .nat n => nat n
  | .keys l => strs l
  | .items l => itemsJ l
  | .vals l => arr (l.map int)
  | .pair k v => arr [strToJson k, int v]

/-- a view that raised `KeyError` is `null` in a snapshot -/
def viewJ : Res Int → Json
  | .keyError => Json.null
  | r => resJ r

/-- the observations taken after every step, each through the corresponding operation of `stepF` -/
def snap {S : Type} (stepF : S → Op Int → S × Res Int) (pr : List Str) (d : S) (r : Json) : Json :=
  obj [("res", r),
       ("items", viewJ (stepF d .items).2),
       ("keys", resJ (stepF d .iter).2),
       ("keys_view", resJ (stepF d .keys).2),
       ("values", viewJ (stepF d .values).2),
       ("bool", resJ (stepF d .truth).2),
       ("len", resJ (stepF d .len).2),
       ("has", arr (pr.map fun k => resJ (stepF d (.contains k)).2)),
       ("repr_ok", Json.bool true)]

def runWith {S : Type} (stepF : S → Op Int → S × Res Int) (pr : List Str) (d : S) : List (Op Int) → List Json
  | [] => []
  | op :: ops => let r := stepF d op; snap stepF pr r.1 (resJ r.2) :: runWith stepF pr r.1 ops

/-- optional request field `tail`: report only the last `tail` snapshots (the exhaustive families check every prefix as a case of its own) -/
def keepTail (j : Json) (l : List Json) : List Json :=
  match j.getObjVal? "tail" with
  | .ok t => match t.getNat? with
    | .ok n => l.drop (l.length - n)
    | .error _ => l
  | .error _ => l

def cimap (j : Json) : Except String Json := do
  let init ← parsePairs (← getArr j "init")
  let ops ← (← getArr j "ops").mapM parseOp
  let pr ← getStrList j "probe"
  let cls ← (← j.getObjVal? "cls").getStr?
  let d := CIDict.ofPairs norm init
  let m := OMap.ofPairs norm init
  if cls == "ddict" then
    -- CaseInsensitiveDefaultDict(int): factory value 0; `init` was written with `d[k] = v`
    let f := CIDict.DD.step norm Gen.c13IntFactory
    let g := OMap.stepD norm Gen.c13IntFactory
    pure (obj [("out", arr (keepTail j (snap f pr d Json.null :: runWith f pr d ops))),
               ("spec", arr (keepTail j (snap g pr m Json.null :: runWith g pr m ops)))])
  else
    let f := CIDict.step (V := Int) norm
    let g := OMap.step (V := Int) norm
    pure (obj [("out", arr (keepTail j (snap f pr d Json.null :: runWith f pr d ops))),
               ("spec", arr (keepTail j (snap g pr m Json.null :: runWith g pr m ops)))])

/-! set -/
def parseSOp (j : Json) : Except String SOp := do
  let o ← (← j.getObjVal? "o").getStr?
  match o with
  | "add" => pure (.add (← getStr j "k"))
  | "discard" => pure (.discard (← getStr j "k"))
  | "remove" => pure (.remove (← getStr j "k"))
  | "contains" => pure (.contains (← getStr j "k"))
  | "canonical" => pure (.canonical (← getStr j "k"))
  | "lower" => pure .lower
  | "len" => pure .len
  | "iter" => pure .iter
  | "bool" => pure .truth
  | "pop" => pure (.pop (← getStr j "choice"))
  | "clear" => pure .clear
  | "ior" => pure (.ior (← getStrList j "l"))
  | "isub" => pure (.isub (← getStrList j "l"))
  | _ => throw s!"unknown ciset op {o}"

def sresJ : SRes → Json
  | .unit => Json.null
  | .keyError => Json.str "KeyError"
  | .bool b => Json.bool b
  | .str s => strToJson s
  | .nat n => nat n
  | .strs l => strs l
  | .badChoice => Json.str "NOT-A-MEMBER"

def ssnap {S : Type} (stepF : S → SOp → S × SRes) (spell : S → List Str) (pr : List Str) (s : S) (r : Json) : Json :=
  obj [("res", r), ("iter", sresJ (stepF s .iter).2), ("spellings", strs (spell s)), ("len", sresJ (stepF s .len).2),
       ("bool", sresJ (stepF s .truth).2),
       ("has", arr (pr.map fun k => sresJ (stepF s (.contains k)).2)), ("repr_ok", Json.bool true)]

def srunWith {S : Type} (stepF : S → SOp → S × SRes) (spell : S → List Str) (pr : List Str) (s : S) : List SOp → List Json
  | [] => []
  | op :: ops => let r := stepF s op; ssnap stepF spell pr r.1 (sresJ r.2) :: srunWith stepF spell pr r.1 ops

def ciset (j : Json) : Except String Json := do
  let init ← getStrList j "init"
  let ops ← (← getArr j "ops").mapM parseSOp
  let pr ← getStrList j "probe"
  let s := CISet.ofList norm init
  let m : OSet := init.foldl (OSet.add norm) []
  let f := CISet.step norm
  let g := OSet.step norm
  let sp1 : CISet → List Str := CISet.spellings
  let sp2 : OSet → List Str := fun s => s.map (·.2)
  pure (obj [("out", arr (keepTail j (ssnap f sp1 pr s Json.null :: srunWith f sp1 pr s ops))),
             ("spec", arr (keepTail j (ssnap g sp2 pr m Json.null :: srunWith g sp2 pr m ops)))])

/-- `str.lower()` as the model has it (lets the harness compare the normaliser itself with the interpreter) -/
def lowerOp (j : Json) : Except String Json := do
  let l ← getStrList j "ss"
  pure (obj [("out", strs (l.map norm))])

end Pybtex.Drv.C13

/-! ### operators inherited from `collections.abc` (`Model/CIMapX.lean`) -/
namespace Pybtex.Drv.C13
open Pybtex.Uni

def parseOther (j : Json) : Except String Other := do
  let b ← j.getObjVal? "b"
  let kind ← (← b.getObjVal? "kind").getStr?
  match kind with
  | "list" => pure (.list (← getStrList b "l"))
  | "ciset" => pure (.ciset (CISet.ofList norm (← getStrList b "l")))
  | "self" => pure .self
  | _ => throw s!"unknown operand kind {kind}"

/-- the other operand seen from the reference: its members do not depend on how it is represented -/
def setSnap (pr : List Str) (s : CISet) : Json := ssnap (CISet.step norm) CISet.spellings pr s Json.null

/-- `cisetbin`: the set `a` (constructor list + history), an operand `b` and one operator `f`.
`out`: result of the operator (`res`: truth value of a predicate, `result`: snapshot of a NEW set), and the snapshot of `a`
afterwards; `spec`: the reference's truth value / members of the result / members of `a` afterwards. -/
def cisetbin (j : Json) : Except String Json := do
  let init ← getStrList j "a"
  let ops ← (← getArr j "aops").mapM parseSOp
  let pr ← getStrList j "probe"
  let o ← parseOther j
  let f ← (← j.getObjVal? "f").getStr?
  let s := (CISet.run norm (CISet.ofList norm init) ops).1
  let m : OSet := (OSet.run norm (init.foldl (OSet.add norm) []) ops).1
  let t : CISet := match o with | .ciset t => t | _ => s
  let tm : OSet := match o with | .ciset t => t.keys | _ => m
  let fresh (r : CISet) (sp : List Str) : Except String Json :=
    pure (obj [("out", obj [("res", Json.null), ("result", setSnap pr r), ("self", setSnap pr s)]),
               ("spec", obj [("res", Json.null), ("members", strs sp), ("self_members", strs (OSet.members m))])])
  let inplace (r : CISet) (sp : List Str) : Except String Json :=
    pure (obj [("out", obj [("res", Json.null), ("result", Json.null), ("self", setSnap pr r)]),
               ("spec", obj [("res", Json.null), ("members", Json.null), ("self_members", strs sp)])])
  let pred (b c : Bool) : Except String Json :=
    pure (obj [("out", obj [("res", Json.bool b), ("result", Json.null), ("self", setSnap pr s)]),
               ("spec", obj [("res", Json.bool c), ("members", Json.null), ("self_members", strs (OSet.members m))])])
  match f with
  | "and" => fresh (CISet.band norm s o) (OSet.specAnd norm m o)
  | "or" => fresh (CISet.bor norm s o) (OSet.specOr norm m o)
  | "sub" => fresh (CISet.bsub norm s o) (OSet.specSub norm m o)
  | "rsub" => fresh (CISet.brsub norm s o) (OSet.specRsub norm m o)
  | "xor" => fresh (CISet.bxor norm s o) (OSet.specXor norm m o)
  | "iand" => inplace (CISet.iand norm s o) (OSet.specAnd norm m o)
  | "ixor" => inplace (CISet.ixor norm s o) (OSet.specXor norm m o)
  | "isub" => inplace (CISet.isubO norm s o) (OSet.specSub norm m o)
  | "ior" => inplace (CISet.iorO norm s o) (OSet.specOr norm m o)
  | "isdisjoint" => pred (CISet.isDisjoint norm s o) (OSet.specDisjoint norm m o)
  | "le" => pred (CISet.le norm s t) (OSet.specLe m tm)
  | "lt" => pred (CISet.lt norm s t) (OSet.specLt m tm)
  | "ge" => pred (CISet.ge norm s t) (OSet.specLe tm m)
  | "gt" => pred (CISet.gt norm s t) (OSet.specLt tm m)
  | "eq" => pred (CISet.eqSet norm s t) (OSet.specEq m tm)
  | "ne" => pred (!CISet.eqSet norm s t) (!OSet.specEq m tm)
  | _ => throw s!"unknown set operator {f}"

/-- the state of a mapping operand: class, constructor pairs, history; `items()` of it as its class computes them
(`none` = `KeyError`), and the reference state -/
def mapOperand (cls : String) (init : List (Str × Int)) (ops : List (Op Int)) : Option (List (Str × Int)) × OMap Int :=
  if cls == "ddict" then
    let d := (CIDict.DD.run norm Gen.c13IntFactory (CIDict.ofPairs norm init) ops).1
    (some (CIDict.DD.items norm Gen.c13IntFactory d), (OMap.runD norm Gen.c13IntFactory (OMap.ofPairs norm init) ops).1)
  else
    let d := (CIDict.run norm (CIDict.ofPairs norm init) ops).1
    (CIDict.items norm d, (OMap.run norm (OMap.ofPairs norm init) ops).1)

/-- `cimapx`: `f` = `eq` / `ne` between two mappings (`bcls` = `plain`: a Python `dict` with the items `b`), or `items_lower` of `a`. -/
def cimapx (j : Json) : Except String Json := do
  let acls ← (← j.getObjVal? "cls").getStr?
  let a ← parsePairs (← getArr j "a")
  let aops ← (← getArr j "aops").mapM parseOp
  let f ← (← j.getObjVal? "f").getStr?
  let (ia, ma) := mapOperand acls a aops
  if f == "items_lower" then
    let out := match ia with
      | some its => itemsJ (its.map fun p => (norm p.1, p.2))
      | none => Json.str "KeyError"
    return obj [("out", out), ("spec", itemsJ (OMap.itemsLower ma))]
  if f == "keys_has" || f == "items_has" || f == "values_has" then
    -- containment in the views; the reference: the map has the key / the look-up gives the value / the value is among the values
    let k ← getStr j "k"
    let v ← getInt j "v"
    let sp : Bool := if f == "keys_has" then OMap.has norm ma k
      else if f == "items_has" then OMap.get norm ma k == some v
      else (OMap.values ma).contains v
    let out : Json :=
      if acls == "ddict" then
        let d := (CIDict.DD.run norm Gen.c13IntFactory (CIDict.ofPairs norm a) aops).1
        Json.bool (if f == "keys_has" then CIDict.keysViewHas norm d k
          else if f == "items_has" then CIDict.DD.itemsViewHas norm Gen.c13IntFactory d k v
          else CIDict.DD.valuesViewHas norm Gen.c13IntFactory d v)
      else
        let d := (CIDict.run norm (CIDict.ofPairs norm a) aops).1
        if f == "keys_has" then Json.bool (CIDict.keysViewHas norm d k)
        else if f == "items_has" then Json.bool (CIDict.itemsViewHas norm d k v)
        else match CIDict.valuesViewHas norm d v with
          | some b => Json.bool b
          | none => Json.str "KeyError"
    return obj [("out", out), ("spec", Json.bool sp)]
  let bcls ← (← j.getObjVal? "bcls").getStr?
  let b ← parsePairs (← getArr j "b")
  let (ib, sb) : Option (List (Str × Int)) × Bool :=
    if bcls == "plain" then
      (some b, ((OMap.items ma).all fun p => b.contains p) && (b.all fun p => (OMap.items ma).contains p))
    else
      let r := mapOperand bcls b []
      (r.1, OMap.specEq ma r.2)
  let res : Option Bool := match ia, ib with
    | some x, some y => some (eqItems x y)
    | _, _ => none
  let neg := f == "ne"
  match res with
  | some r => pure (obj [("out", Json.bool (r != neg)), ("spec", Json.bool (sb != neg))])
  | none => pure (obj [("out", Json.str "KeyError"), ("spec", Json.bool (sb != neg))])

/-- `citables`: the two private tables after a history (`_dict` and `_keys` of a mapping in their dict order; `_set` (order not
modelled) and `_keys` of the set): the state of the model IS the state of the code, so it can be compared directly -/
def citables (j : Json) : Except String Json := do
  let cls ← (← j.getObjVal? "cls").getStr?
  let spJ (l : List (Str × Str)) : Json := arr (l.map fun p => arr [strToJson p.1, strToJson p.2])
  if cls == "set" then
    let init ← getStrList j "init"
    let ops ← (← getArr j "ops").mapM parseSOp
    let s := (CISet.run norm (CISet.ofList norm init) ops).1
    pure (obj [("out", obj [("set", strs s.set), ("keys", spJ s.keys)])])
  else
    let init ← parsePairs (← getArr j "init")
    let ops ← (← getArr j "ops").mapM parseOp
    let d := if cls == "ddict" then (CIDict.DD.run norm Gen.c13IntFactory (CIDict.ofPairs norm init) ops).1
             else (CIDict.run norm (CIDict.ofPairs norm init) ops).1
    pure (obj [("out", obj [("dict", itemsJ d.dict), ("keys", spJ d.keys)])])

end Pybtex.Drv.C13

namespace Pybtex.Drv.C13
def handlers : List (String × (Json → Except String Json)) := [("cimap", cimap), ("ciset", ciset), ("cilower", lowerOp), ("cisetbin", cisetbin), ("cimapx", cimapx), ("citables", citables)]
end Pybtex.Drv.C13
