import PybtexModel.Drv.Json
import PybtexModel.Spec.OrderedMapU
open Lean
namespace Pybtex.Drv.C13
open Pybtex.Uni

def parsePairs (l : List Json) : Except String (List (Str × Int)) :=
  l.mapM fun p => do
    let a ← p.getArr?
    let k ← jsonToStr (a[0]!)
    let v ← (a[1]!).getInt?
    pure (k, v)

def parseOp (j : Json) : Except String (Op Int) := do
  let o ← (← j.getObjVal? "o").getStr?
  match o with
  | "set" => pure (.set (← getStr j "k") (← getInt j "v"))
  | "get" => pure (.get (← getStr j "k"))
  | "del" => pure (.del (← getStr j "k"))
  | "contains" => pure (.contains (← getStr j "k"))
  | "len" => pure .len
  | "iter" => pure .iter
  | "items" => pure .items
  | "getD" => pure (.getD (← getStr j "k") (← getInt j "v"))
  | "setdefault" => pure (.setDefault (← getStr j "k") (← getInt j "v"))
  | "pop" => pure (.pop (← getStr j "k"))
  | "popD" => pure (.popD (← getStr j "k") (← getInt j "v"))
  | "popitem" => pure .popItem
  | "update" => pure (.update (← parsePairs (← getArr j "ps")))
  | "lower" => pure .lower
  | "clear" => pure .clear
  | "getdefault" => pure (.getDefault (← getStr j "k") (← getInt j "v"))
  | _ => throw s!"unknown cimap op {o}"

def itemsJ (l : List (Str × Int)) : Json := arr (l.map fun p => arr [strToJson p.1, int p.2])

def resJ : Res Int → Json
  | .unit => Json.null
  | .val v => obj [("v", int v)]
  | .keyError => Json.str "KeyError"
  | .bool b => Json.bool b
  | .nat n => nat n
  | .keys l => strs l
  | .items l => itemsJ l
  | .pair k v => arr [strToJson k, int v]

def snapModel (pr : List Str) (d : CIDict Int) (r : Json) : Json :=
  obj [("res", r), ("items", optJ itemsJ (CIDict.items d)), ("keys", strs (CIDict.iter d)), ("len", nat (CIDict.len d)),
       ("has", arr (pr.map fun k => Json.bool (CIDict.contains d k))), ("repr_ok", Json.bool true)]

def snapSpec (pr : List Str) (m : OMap Int) (r : Json) : Json :=
  obj [("res", r), ("items", itemsJ (OMap.items m)), ("keys", strs (OMap.keys m)), ("len", nat m.length),
       ("has", arr (pr.map fun k => Json.bool (OMap.has m k))), ("repr_ok", Json.bool true)]

def runModel (pr : List Str) (d : CIDict Int) : List (Op Int) → List Json
  | [] => []
  | op :: ops => let r := CIDict.step d op; snapModel pr r.1 (resJ r.2) :: runModel pr r.1 ops

def runSpec (pr : List Str) (m : OMap Int) : List (Op Int) → List Json
  | [] => []
  | op :: ops => let r := OMap.step m op; snapSpec pr r.1 (resJ r.2) :: runSpec pr r.1 ops

def cimap (j : Json) : Except String Json := do
  let init ← parsePairs (← getArr j "init")
  let ops ← (← getArr j "ops").mapM parseOp
  let pr ← getStrList j "probe"
  let d := CIDict.ofPairs init
  let m := OMap.ofPairs init
  pure (obj [("out", arr (snapModel pr d Json.null :: runModel pr d ops)),
             ("spec", arr (snapSpec pr m Json.null :: runSpec pr m ops))])

/-! set -/
def parseSOp (j : Json) : Except String SOp := do
  let o ← (← j.getObjVal? "o").getStr?
  match o with
  | "add" => pure (.add (← getStr j "k"))
  | "discard" => pure (.discard (← getStr j "k"))
  | "remove" => pure (.remove (← getStr j "k"))
  | "contains" => pure (.contains (← getStr j "k"))
  | "canonical" => pure (.canonical (← getStr j "k"))
  | "lower" => pure .lower
  | _ => throw s!"unknown ciset op {o}"

def sresJ : SRes → Json
  | .unit => Json.null
  | .keyError => Json.str "KeyError"
  | .bool b => Json.bool b
  | .str s => strToJson s

def sstep (s : CISet) (op : SOp) : CISet × Json := let r := s.step op; (r.1, sresJ r.2)
def sstepSpec (s : OSet) (op : SOp) : OSet × Json := let r := s.step op; (r.1, sresJ r.2)

def ssnap (pr : List Str) (s : CISet) (r : Json) : Json :=
  obj [("res", r), ("iter", strs s.iter), ("spellings", strs s.spellings), ("len", nat s.len),
       ("has", arr (pr.map fun k => Json.bool (s.contains k))), ("repr_ok", Json.bool true)]
def ssnapSpec (pr : List Str) (s : OSet) (r : Json) : Json :=
  obj [("res", r), ("iter", strs (s.map (·.1))), ("spellings", strs (s.map (·.2))), ("len", nat s.length),
       ("has", arr (pr.map fun k => Json.bool (s.has k))), ("repr_ok", Json.bool true)]

def srun (pr : List Str) (s : CISet) : List SOp → List Json
  | [] => []
  | op :: ops => let r := sstep s op; ssnap pr r.1 r.2 :: srun pr r.1 ops
def srunSpec (pr : List Str) (s : OSet) : List SOp → List Json
  | [] => []
  | op :: ops => let r := sstepSpec s op; ssnapSpec pr r.1 r.2 :: srunSpec pr r.1 ops

def ciset (j : Json) : Except String Json := do
  let init ← getStrList j "init"
  let ops ← (← getArr j "ops").mapM parseSOp
  let pr ← getStrList j "probe"
  let s := CISet.ofList init
  let m : OSet := init.foldl OSet.add []
  pure (obj [("out", arr (ssnap pr s Json.null :: srun pr s ops)),
             ("spec", arr (ssnapSpec pr m Json.null :: srunSpec pr m ops))])

end Pybtex.Drv.C13

namespace Pybtex.Drv.C13
def handlers : List (String × (Json → Except String Json)) := [("cimap", cimap), ("ciset", ciset)]
end Pybtex.Drv.C13
