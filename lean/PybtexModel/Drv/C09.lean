/-
Driver ops of property C09 (output backends, `LaTeXParser`, `Text.from_latex`).

  render     {"tree": raw tree, "backend": "html"|"markdown"|"latex"|"plaintext", "observed": text|null,
              "encoding": the encoding the LaTeX backend is created with | null}
             out  = {"text": what the model of `build(tree).render(Backend())` returns} | "KeyError" | "EncodeError" |
                    "unmodelled-encoding"
             spec = the string of pairs the tree denotes, its plain text, the token-level rendering (latex, markdown)
                    with the verdict of the token reader, and the spec *readers* applied to `observed` (the text the
                    real backend produced): `htmlChars`, `Md.unescape`-free checks, brace depth
  fromlatex  {"value": v, "decoded": codecs.decode(v, 'ulatex') as computed by the real codec, "observed": text|null,
              "brief": true = do not return the tree (deeply nested values)}
             out  = {"tree": normal-form tree, "latex": its rendering with the LaTeX backend} | {"error": [lineno, pos]}
             spec = where the decoded value stops being balanced, its depth sequence, the depth sequence of `observed`
  document   {"entries": [{"key", "label", "tree"}], "backend", "preamble", "encoding", "php_extra", "via": "stream"|"file"}
             out  = {"text": everything `write_to_stream` writes / the text of the file `write_to_file` wrote} | "KeyError" |
                    "EncodeError" | "unmodelled-encoding" | "unrepresentable" (the file's encoding lacks a character)
             spec = per entry the plain text

  fmt        {"backend", "encoding", "php_extra", "fn": one formatting method, "args"}: that method of that backend on its own
             (`Backends.callMethod`); "fn": "longest_label" | "width" | "escape" for the helpers the backends call
  parse      {"text", "level"}: `LaTeXParser(text).parse(level)` and the scanner afterwards (`LaTeXParser.parseLevel`)
  render_as  {"tree", "name"}: `text.render_as(name)` (`Backends.renderAs`, plug-in lookup over the regenerated entry-point table)

The encoding of `render` / `document` / `fmt` is looked up with `Latex.encodableInX` (three built-in ones + `Gen.extraEncodings`).
Raw trees use the wire format of C08 (`Drv/C08.lean`).
-/
import PybtexModel.Drv.Json
import PybtexModel.Drv.C08
import PybtexModel.Spec.Backends
import PybtexModel.Model.BackendsX
open Lean
namespace Pybtex.Drv.C09
open Pybtex.RT Pybtex.Backends Pybtex.Spec

def encode : Str → Str := Latex.latexcodecEncode

def optStr (j : Json) (k : String) : Except String (Option Str) := do
  match j.getObjVal? k with
  | .error _ => pure none
  | .ok .null => pure none
  | .ok v => pure (some (← jsonToStr v))

def optStrJ : Option Str → Json
  | none => Json.null
  | some s => strToJson s

def backendOf (name : String) : Except String (RT.Backend Str) :=
  match name with
  | "html" => pure html
  | "markdown" => pure markdown
  | "latex" => pure (latex encode)
  | "plaintext" => pure plaintext
  | _ => throw s!"unknown backend {name}"

def tokJ : RTok → Json
  | .opn m o => arr [Json.str "o", C08.markupJ m, strToJson o]
  | .cls m o => arr [Json.str "c", C08.markupJ m, strToJson o]
  | .str s o => arr [Json.str "s", strToJson s, strToJson o]
  | .sym n o => arr [Json.str "y", strToJson n, strToJson o]
  | .lit o => arr [Json.str "l", strToJson o]

def pairsJ (p : List (Char × Nat)) : Json :=
  arr (p.map fun x => arr [strToJson [x.1], nat x.2])

def optPairsJ : Option (List (Char × Nat)) → Json
  | none => Json.null
  | some p => pairsJ p

/-- characters with the elements around them, runs of equal stacks grouped: `[[stack, "chars"], …]` -/
def elemRuns : List (Char × List Str) → Option (List Str × Str) → List Json
  | [], none => []
  | [], some (st, cs) => [arr [strs st, strToJson cs.reverse]]
  | (c, st) :: r, none => elemRuns r (some (st, [c]))
  | (c, st) :: r, some (st', cs) =>
    if st = st' then elemRuns r (some (st', c :: cs))
    else arr [strs st', strToJson cs.reverse] :: elemRuns r (some (st, [c]))

/-- the symbol table the plain text of a rendering is stated with: what the symbols *mean* for HTML (entities are
read back as characters), the fixed plain equivalents for plain text, the fixed LaTeX forms; Markdown: the backend's own
table (the oracle reads the output with a Markdown reader instead) -/
def symTable (name : String) : Str → Option Str :=
  match name with
  | "html" => Spec.symbolText
  | "markdown" => fun n => Gen.mdSymbols.lookup n
  | "latex" => fun n => Spec.latexSymbolSpec.lookup n
  | _ => Spec.plainSymbol

/-- the encoding a backend is created with: the requested one or `pybtex.io.get_default_encoding()` -/
def encodingOf (j : Json) : Except String Str := do
  match ← optStr j "encoding" with
  | some e => pure e
  | none => pure Gen.defaultEncoding

def errJ : Backends.Err → Json
  | .keyError => Json.str "KeyError"
  | .encodeError => Json.str "EncodeError"

def stringParts : RT → List Str
  | t => (go t [])
where
  go : RT → List Str → List Str
    | .str s, acc => s :: acc
    | .sym _, acc => acc
    | .node _ ps, acc => goL ps acc
  goL : List RT → List Str → List Str
    | [], acc => acc
    | p :: ps, acc => go p (goL ps acc)

def urlsOf : RT → List Str
  | t => (go t [])
where
  go : RT → List Str → List Str
    | .str _, acc => acc
    | .sym _, acc => acc
    | .node (.href u _) ps, acc => u :: goL ps acc
    | .node _ ps, acc => goL ps acc
  goL : List RT → List Str → List Str
    | [], acc => acc
    | p :: ps, acc => go p (goL ps acc)

def render (j : Json) : Except String Json := do
  let raw ← C08.tree (← j.getObjVal? "tree")
  let name ← (← j.getObjVal? "backend").getStr?
  let b ← backendOf name
  let observed ← optStr j "observed"
  let t := build raw
  let encName ← encodingOf j
  let E := Latex.encodableInX encName
  let out : Json :=
    if name == "latex" then
      match E with
      | none => Json.str "unmodelled-encoding"
      | some E =>
        match RT.render (latexE (Latex.latexcodecEncodeE E)) t with
        | none => Json.str "KeyError"
        | some (.error e) => errJ e
        | some (.ok r) => obj [("text", strToJson r)]
    else match RT.render b t with
      | none => Json.str "KeyError"
      | some r => obj [("text", strToJson r)]
  -- the total model of the default (UTF-8) LaTeX backend, which the theorems about `latex encode` talk about
  let outTotal : Json := match RT.render b t with
    | none => Json.str "KeyError"
    | some r => obj [("text", strToJson r)]
  let f := sem [] raw
  let toks : Option (List RTok) := match name with
    | "latex" => RT.render (latexTok encode) t
    | "markdown" => RT.render markdownTok t
    | _ => none
  let tokFields : List (String × Json) := match toks with
    | none => []
    | some l => [("tokens", arr (l.map tokJ)), ("tokens_flat", strToJson (RTok.flatten l)),
                 ("tokens_read_ok", Json.bool (decide (RTok.read l = some f)))]
  let obsFields : List (String × Json) := match observed with
    | none => []
    | some o =>
      [("observed_balanced", Json.bool (balanced o)),
       ("observed_encodable", Json.bool (match E with | some E => o.all E | none => true)),
       ("observed_depths_len", optJ nat ((Tex.depths o).map List.length))] ++
      (if name == "html" then
        [("observed_html_chars", optStrJ (htmlChars o)),
         ("observed_html_runs", optJ (fun p => arr (elemRuns p none)) (Html.read o))]
       else [])
  let ss := stringParts t
  pure (obj [("out", out),
    ("spec", obj ([("sem", C08.flatJ f),
      ("plain", optStrJ (plainText (symTable name) f)),
      ("plain_elems", optJ (fun p => arr (elemRuns (p.map fun x => (x.1, x.2.map Html.elem)) none))
          (plainPairs (symTable name) f)),
      ("html_ok", Json.bool (raw.allKinds Html.kindOK)),
      ("empty", Json.bool (len raw == 0)),
      ("out_utf8_total", outTotal),
      ("strings_encodable", Json.bool (match E with
          | some E => ss.all fun s => (Latex.latexcodecEncodeE E s).isSome
          | none => true)),
      ("markup_encodable", Json.bool (match E with
          | some E => (urlsOf t).all (fun u => u.all E) && raw.allKinds (fun k => match k with | .tag n => n.all E | _ => true)
          | none => true)),
      ("strings_balanced", Json.bool (ss.all fun s => balanced (encode s))),
      ("urls_balanced", Json.bool ((urlsOf t).all balanced)),
      ("md_strings", arr (ss.map fun s => arr [strToJson s, strToJson (s.flatMap (Md.escChar Md.escapable)),
          Json.bool (Md.unescape Gen.mdSpecialChars (Markdown.formatStr s) == some s)]))]
      ++ tokFields ++ obsFields))])

def fromlatex (j : Json) : Except String Json := do
  let v ← getStr j "value"
  let d ← getStr j "decoded"
  let observed ← optStr j "observed"
  let brief ← C08.optBool j "brief"
  let r := fromLatex (fun _ => d) v
  let out : Json := match r with
    | .error (.unbalanced ln pos) => obj [("error", arr [nat ln, nat pos])]
    | .ok t => obj ((if brief == some true then [] else [("tree", C08.treeJ t)]) ++
        [("latex", match RT.render (latex encode) t with
          | none => Json.str "KeyError"
          | some s => strToJson s)])
  let at_ := Tex.unbalancedAt d
  let transparent := d.all fun c => c == '{' || c == '}' || (Latex.encodeChar c == ([c], false))
  pure (obj [("out", out),
    ("spec", obj ([("unbalanced_at", optJ nat at_),
      ("lineno", optJ (fun p => nat (1 + Scanner.countNewlines (d.take p))) at_),
      ("depths", optPairsJ (Tex.depths d)),
      ("identity", Json.bool (d == v)),
      ("transparent", Json.bool transparent)] ++
      (match observed with
       | none => []
       | some o => [("observed_depths", optPairsJ (Tex.depths o))])))])

def parseEntry (j : Json) : Except String FormattedEntry := do
  let raw ← C08.tree (← j.getObjVal? "tree")
  pure ⟨← getStr j "key", build raw, ← getStr j "label"⟩

def document (j : Json) : Except String Json := do
  let name ← (← j.getObjVal? "backend").getStr?
  let entriesJ ← getArr j "entries"
  let entries ← entriesJ.mapM parseEntry
  let raws ← entriesJ.mapM fun e => do C08.tree (← e.getObjVal? "tree")
  let preamble ← getStr j "preamble"
  let encoding ← optStr j "encoding"
  let encName ← encodingOf j
  let E := Latex.encodableInX encName
  let php ← C08.optBool j "php_extra"
  let via ← optStr j "via"
  let o ← match name with
    | "html" => pure (htmlOutput (match encoding with | some e => e | none => Gen.defaultEncoding))
    | "markdown" => pure (markdownOutput (php == some true))
    | "latex" => pure (latexOutput encode)
    | "plaintext" => pure plaintextOutput
    | _ => throw s!"unknown backend {name}"
  let bib : FormattedBibliography := ⟨entries, preamble⟩
  let written : Option (Except Backends.Err Str) :=
    if name == "latex" then E.map fun E => writeToStreamE (Latex.latexcodecEncodeE E) bib
    else some (writeToStream o bib)
  let final : Option (Option (Except Backends.Err Str)) :=
    if via == some "file".toList then
      match written, E with
      | some w, some E => some (writeToFile E w)
      | _, _ => none
    else written.map some
  let out : Json := match final with
    | none => Json.str "unmodelled-encoding"
    | some none => Json.str "unrepresentable"
    | some (some (.error e)) => errJ e
    | some (some (.ok s)) => obj [("text", strToJson s)]
  pure (obj [("out", out),
    ("spec", obj [("plain", arr (raws.map fun r => optStrJ (plainText (symTable name) (sem [] r)))),
                  ("html_ok", Json.bool (raws.all fun r => r.allKinds Html.kindOK)),
                  ("sem", arr (raws.map fun r => C08.flatJ (sem [] r))),
                  ("encodable", Json.bool (match final, E with
                      | some (some (.ok s)), some E => s.all E
                      | _, _ => true))])])


/-! ### function-level ops (extension): one method of one backend, `parse(level)`, `render_as` -/

def outputOf (name : String) (encoding : Option Str) (php : Bool) : Except String Output :=
  match name with
  | "html" => pure (htmlOutput (match encoding with | some e => e | none => Gen.defaultEncoding))
  | "markdown" => pure (markdownOutput php)
  | "latex" => pure (latexOutput encode)
  | "plaintext" => pure plaintextOutput
  | _ => throw s!"unknown backend {name}"

def methodOf (fn : String) (a : Json) : Except String Method := do
  match fn with
  | "format_str" => pure (.formatStr (← getStr a "s"))
  | "format_tag" => pure (.formatTag (← getStr a "name") (← getStr a "text"))
  | "format_href" => pure (.formatHref (← getStr a "url") (← getStr a "text") ((← C08.optBool a "external") == some true))
  | "format_protected" => pure (.formatProtected (← getStr a "text"))
  | "render_sequence" => pure (.renderSequence (← getStrList a "list"))
  | "symbol" => pure (.symbol (← getStr a "name"))
  | "write_entry" => pure (.writeEntry (← getStr a "key") (← getStr a "label") (← getStr a "text"))
  | "write_prologue" => pure (.writePrologue (← getStrList a "labels") (← getStr a "preamble"))
  | "write_epilogue" => pure .writeEpilogue
  | _ => throw s!"unknown method {fn}"

/-- `fmt`: {"backend", "encoding", "php_extra", "fn", "args"}; out = {"text"} | "KeyError" | "EncodeError" | "unmodelled-encoding";
also "fn": "longest_label" {"labels"}, "width" {"s"}, "escape" {"s"} (helpers the backends call) -/
def fmt (j : Json) : Except String Json := do
  let fn ← (← j.getObjVal? "fn").getStr?
  let a ← j.getObjVal? "args"
  let txt (s : Str) : Json := obj [("text", strToJson s)]
  match fn with
  | "longest_label" =>
    let ls ← getStrList a "labels"
    pure (obj [("out", txt (longestLabel ls)), ("spec", obj [("widths", arr (ls.map fun l => Json.num (JsonNumber.fromInt (width l))))])])
  | "width" =>
    let s ← getStr a "s"
    pure (obj [("out", obj [("int", Json.num (JsonNumber.fromInt (width s)))]), ("spec", obj [])])
  | "escape" =>
    let s ← getStr a "s"
    pure (obj [("out", txt (escape s)), ("spec", obj [("html_chars", optStrJ (htmlChars (escape s)))])])
  | _ =>
  let name ← (← j.getObjVal? "backend").getStr?
  let encoding ← optStr j "encoding"
  let encName ← encodingOf j
  let php ← C08.optBool j "php_extra"
  let o ← outputOf name encoding (php == some true)
  let m ← methodOf fn a
  let exc (r : Except Backends.Err Str) : Json := match r with | .ok s => txt s | .error e => errJ e
  let out : Json :=
    if name == "latex" then
      match Latex.encodableInX encName with
      | none => Json.str "unmodelled-encoding"
      | some E =>
        let b := latexE (Latex.latexcodecEncodeE E)
        match m with
        | .formatStr s => exc (b.formatStr s)
        | .formatHref u t e => exc (b.formatHref u (.ok t) e)
        | m => match callMethod o m with | some s => txt s | none => Json.str "KeyError"
    else match callMethod o m with | some s => txt s | none => Json.str "KeyError"
  -- spec values for the oracle: the readers of the specification on the model's own arguments
  let spec : List (String × Json) := match m with
    | .formatStr s => [("md_escaped", strToJson (s.flatMap (Md.escChar Md.escapable))),
                       ("encoded_balanced", Json.bool (balanced (encode s) == balanced s))]
    | .formatTag _ t => [("text_balanced", Json.bool (balanced t)), ("text_html", optStrJ (htmlChars t))]
    | .formatHref u t _ => [("text_balanced", Json.bool (balanced t && balanced u)), ("text_html", optStrJ (htmlChars t))]
    | .formatProtected t => [("text_balanced", Json.bool (balanced t)), ("text_html", optStrJ (htmlChars t))]
    | .writeEntry _ l t => [("text_balanced", Json.bool (balanced t && balanced l)), ("text_html", optStrJ (htmlChars t))]
    | _ => []
  pure (obj [("out", out), ("spec", obj spec)])

/-- `parse`: {"text", "level"}; out = {"tree", "pos", "lineno"} | {"error": [lineno, pos]};
spec = where the first closing brace that closes nothing sits, the depth sequence of the text before it -/
def parse (j : Json) : Except String Json := do
  let text ← getStr j "text"
  let level ← getNat j "level"
  let out : Json := match LaTeXParser.parseLevel text level with
    | .error (.unbalanced ln pos) => obj [("error", arr [nat ln, nat pos])]
    | .ok (t, st) => obj [("tree", C08.treeJ t), ("pos", nat st.pos), ("lineno", nat st.lineno)]
  let sp := Tex.splitAtClose 0 text
  pure (obj [("out", out),
    ("spec", obj [("close_at", optJ (fun p => nat p.1.length) sp),
                  ("body_depths", match sp with | some p => optPairsJ (Tex.depths p.1) | none => Json.null),
                  ("depths", optPairsJ (Tex.depths text)),
                  ("unbalanced_at", optJ nat (Tex.unbalancedAt text)),
                  ("last_brace_end", nat (Tex.lastBraceEnd text))])])

/-- `render_as`: {"tree", "name"}; out = {"text"} | "KeyError" | "PluginNotFound"; spec = the backend found -/
def renderAsOp (j : Json) : Except String Json := do
  let raw ← C08.tree (← j.getObjVal? "tree")
  let name ← getStr j "name"
  let out : Json := match renderAs encode name (build raw) with
    | none => Json.str "PluginNotFound"
    | some none => Json.str "KeyError"
    | some (some s) => obj [("text", strToJson s)]
  let idJ : Json := match findBackend name with
    | none => Json.null
    | some .html => Json.str "html"
    | some .markdown => Json.str "markdown"
    | some .latex => Json.str "latex"
    | some .plaintext => Json.str "plaintext"
  pure (obj [("out", out), ("spec", obj [("backend", idJ)])])

/-- driver ops of this property: (op name, handler) -/
def handlers : List (String × (Json → Except String Json)) :=
  [("render", render), ("fromlatex", fromlatex), ("document", document), ("fmt", fmt), ("parse", parse),
   ("render_as", renderAsOp)]

end Pybtex.Drv.C09
