import PybtexModel.Drv.DbJson
open Lean
namespace Pybtex.Drv.C14
open Pybtex.Drv.DbJson

def optStr : Option Str → Json
  | some v => strToJson v
  | none => Json.null

def bstJ : BstValue → Json
  | .str v => strToJson v
  | .missing _ => Json.null

def exJ : Except Str Str → Json
  | .ok v => strToJson v
  | .error _ => Json.null

def rowJ (key : Str) (vals : List Json) : Json := arr [strToJson key, arr vals]

/-- `findfield`: database graph + queried names → what each observation point yields for every
(entry, name): the entry API with and without `bib_data`, the BST field variables, the template
`field` node of the Python engine (model), and the reference lookup (spec). -/
def findfield (j : Json) : Except String Json := do
  let raw ← parseFile j
  let names ← getStrList j "names"
  let file := toModelFile raw
  let cits := raw.map (·.key)
  let sdb := Spec.readAll (toSpecFile raw)
  let api : Json := match BibData.readFile none file with
    | none => Json.str "KeyError"
    | some (db, _) =>
      match CIDict.items db.entries with
      | none => Json.str "KeyError"
      | some its => arr (its.map fun p => rowJ p.2.key (names.map fun n => optStr (p.2.findField n (some db))))
  let apiNoDb : Json := match BibData.readFile none file with
    | none => Json.str "KeyError"
    | some (db, _) =>
      match CIDict.items db.entries with
      | none => Json.str "KeyError"
      | some its => arr (its.map fun p => rowJ p.2.key (names.map fun n => optStr (p.2.findField n none)))
  let bstRead := BibData.readFile (some cits) (file.map fun p => (p.1, p.2.personsAsFields))
  let bst : Json := match bstRead with
    | none => Json.str "KeyError"
    | some (db, _) =>
      let a := db.addExtraCitations cits 2
      let b := db.removeMissing a.1
      arr (b.1.map fun c => match db.entries.getItem c with
        | none => Json.str "KeyError"
        | some e => rowJ c (names.map (fun n => bstJ (bstFieldValue db e n)) ++ [bstJ (bstCrossrefValue db e)]))
  let bstReports : Json := match bstRead with
    | none => Json.str "KeyError"
    | some (db, rep0) =>
      let a := db.addExtraCitations cits 2
      reportsJ (rep0 ++ a.2 ++ (db.removeMissing a.1).2)
  let pyRead := BibData.readFile (some cits) file
  let py : Json := match pyRead with
    | none => Json.str "KeyError"
    | some (db, _) =>
      let a := db.addExtraCitations cits 2
      let b := db.removeMissingPy a.1
      match db.lookupAll b.1 with
      | none => Json.str "KeyError"
      | some es => arr (es.map fun e => rowJ e.key (names.map fun n => exJ (pythonEngineField db e n)))
  let pyReports : Json := match pyRead with
    | none => Json.str "KeyError"
    | some (db, rep0) =>
      let a := db.addExtraCitations cits 2
      reportsJ (rep0 ++ a.2 ++ (db.removeMissingPy a.1).2)
  let spec : Json := arr (sdb.map fun e => rowJ e.key (names.map fun n => optStr (Spec.lookup sdb e n)))
  let specOwn : Json := arr (sdb.map fun e => rowJ e.key (names.map fun n => optStr (e.own n)))
  let specParent : Json := arr (sdb.map fun e => rowJ e.key [optStr ((Spec.parent sdb e).map (·.key))])
  let specDangling : Json := arr ((Spec.dangling sdb (Spec.keys sdb)).map fun p => arr [strToJson p.1, strToJson p.2])
  pure (obj [("out", obj [("api", api), ("api_nodb", apiNoDb), ("bst", bst), ("bst_reports", bstReports),
                          ("py", py), ("py_reports", pyReports)]),
             ("spec", obj [("lookup", spec), ("own", specOwn), ("parent", specParent), ("dangling", specDangling)])])

/-- `findfield_api`: the entry API only, on a database built with `add_entry` from `Entry` objects
(no `.bib` text in between, so an entry may have a field and a role of the same name). -/
def findfieldApi (j : Json) : Except String Json := do
  let raw ← parseFile j
  let names ← getStrList j "names"
  let file := toModelFile raw
  let sdb := Spec.readAll (toSpecFile raw)
  let rows (ctx : Bool) : Json := match BibData.readFile none file with
    | none => Json.str "KeyError"
    | some (db, _) =>
      match CIDict.items db.entries with
      | none => Json.str "KeyError"
      | some its => arr (its.map fun p => rowJ p.2.key (names.map fun n =>
          optStr (p.2.findField n (if ctx then some db else none))))
  let spec : Json := arr (sdb.map fun e => rowJ e.key (names.map fun n => optStr (Spec.lookup sdb e n)))
  let specOwn : Json := arr (sdb.map fun e => rowJ e.key (names.map fun n => optStr (e.own n)))
  pure (obj [("out", obj [("api", rows true), ("api_nodb", rows false)]),
             ("spec", obj [("lookup", spec), ("own", specOwn)])])

/-- driver ops of this property: (op name, handler) -/
def handlers : List (String × (Json → Except String Json)) :=
  [("findfield", findfield), ("findfield_api", findfieldApi)]

end Pybtex.Drv.C14
