import PybtexModel.Drv.DbJson
import PybtexModel.Model.CrossrefLoop
import PybtexModel.Spec.CrossrefU
open Lean
namespace Pybtex.Drv.C14
open Pybtex.Drv.DbJson

def optStr : Option Str → Json
  | some v => strToJson v
  | none => Json.null

def bstJ : BstValue → Json
  | .str v => strToJson v
  | .missing _ => Json.null

def exJ : Except Str Str → Json
  | .ok v => strToJson v
  | .error _ => Json.null

def rowJ (key : Str) (vals : List Json) : Json := arr [strToJson key, arr vals]

/-- the BibTeX engine on `file` with the citations `cits`: one row per emitted entry -/
def bstRows (file : List (Str × Entry)) (names cits : List Str) (m : Int) : Json × Json :=
  match BibData.readFile (some cits) (file.map fun p => (p.1, p.2.personsAsFields)) with
  | none => (Json.str "KeyError", Json.str "KeyError")
  | some (db, rep0) =>
    let a := db.addExtraCitations cits m
    let b := db.removeMissing a.1
    (arr (b.1.map fun c => match db.entries.getItem c with
        | none => Json.str "KeyError"
        | some e => rowJ c (names.map (fun n => bstJ (bstFieldValue db e n)) ++ [bstJ (bstCrossrefValue db e)])),
     reportsJ (rep0 ++ a.2 ++ b.2))

/-- the Python engine (template node `field`) on `file` with the citations `cits` -/
def pyRows (file : List (Str × Entry)) (names cits : List Str) (m : Int) : Json × Json :=
  match BibData.readFile (some cits) file with
  | none => (Json.str "KeyError", Json.str "KeyError")
  | some (db, rep0) =>
    let a := db.addExtraCitations cits m
    let b := db.removeMissingPy a.1
    match db.lookupAll b.1 with
    | none => (Json.str "KeyError", Json.str "KeyError")
    | some es => (arr (es.map fun e => rowJ e.key (names.map fun n => exJ (pythonEngineField db e n))),
                  reportsJ (rep0 ++ a.2 ++ b.2))

/-- `findfield`: database graph + queried names → what each observation point yields for every
(entry, name): the entry API with and without `bib_data`, the BST field variables, the template
`field` node of the Python engine (model), and the reference lookup (spec).  The engines are
observed with every entry cited and — `leaf*` — with ONLY the first entry cited
(`min_crossrefs` 2: its parent is read but not appended; 1: appended). -/
def findfield (j : Json) : Except String Json := do
  let raw ← parseFile j
  let names ← getStrList j "names"
  let file := toModelFile raw
  let cits := raw.map (·.key)
  let leaf := (raw.take 1).map (·.key)
  let sdb := Spec.readAll (toSpecFile raw)
  let api : Json := match BibData.readFile none file with
    | none => Json.str "KeyError"
    | some (db, _) =>
      match CIDict.items db.entries with
      | none => Json.str "KeyError"
      | some its => arr (its.map fun p => rowJ p.2.key (names.map fun n => optStr (p.2.findField n (some db))))
  let apiNoDb : Json := match BibData.readFile none file with
    | none => Json.str "KeyError"
    | some (db, _) =>
      match CIDict.items db.entries with
      | none => Json.str "KeyError"
      | some its => arr (its.map fun p => rowJ p.2.key (names.map fun n => optStr (p.2.findField n none)))
  let bst := bstRows file names cits 2
  let py := pyRows file names cits 2
  let spec : Json := arr (sdb.map fun e => rowJ e.key (names.map fun n => optStr (Spec.lookup sdb e n)))
  let specOwn : Json := arr (sdb.map fun e => rowJ e.key (names.map fun n => optStr (e.own n)))
  let specParent : Json := arr (sdb.map fun e => rowJ e.key [optStr ((Spec.parent sdb e).map (·.key))])
  let specDangling : Json := arr ((Spec.dangling sdb (Spec.keys sdb)).map fun p => arr [strToJson p.1, strToJson p.2])
  pure (obj [("out", obj [("api", api), ("api_nodb", apiNoDb), ("bst", bst.1), ("bst_reports", bst.2),
                          ("py", py.1), ("py_reports", py.2),
                          ("bst_leaf", (bstRows file names leaf 2).1), ("py_leaf", (pyRows file names leaf 2).1),
                          ("bst_leaf1", (bstRows file names leaf 1).1), ("py_leaf1", (pyRows file names leaf 1).1)]),
             ("spec", obj [("lookup", spec), ("own", specOwn), ("parent", specParent), ("dangling", specDangling)])])

/-- `findchain`: a long file (hundreds of entries), looked at from its FIRST entry only: the
entry API, the two engines with only that entry cited, the number of cross-references the lookup
follows (model), and the reference lookup (spec). -/
def findchain (j : Json) : Except String Json := do
  let raw ← parseFile j
  let names ← getStrList j "names"
  let file := toModelFile raw
  let leaf := (raw.take 1).map (·.key)
  let sdb := Spec.readAll (toSpecFile raw)
  let first (f : BibData → Entry → Json) : Json := match BibData.readFile none file with
    | none => Json.str "KeyError"
    | some (db, _) =>
      match leaf with
      | [] => Json.null
      | k :: _ => match db.entries.getItem k with
        | none => Json.null
        | some e => f db e
  let api := first fun db e => arr (names.map fun n => optStr (e.findField n (some db)))
  let hops := first fun db e => arr (names.map fun n => nat (findFieldHops (some db) [] e n).2)
  let spec : Json := match sdb with
    | [] => Json.null
    | e :: _ => arr (names.map fun n => optStr (Spec.lookup sdb e n))
  pure (obj [("out", obj [("api", api), ("bst_leaf", (bstRows file names leaf 2).1), ("py_leaf", (pyRows file names leaf 2).1)]),
             ("spec", obj [("lookup", spec), ("hops", hops), ("entries", nat sdb.length)])])

/-- `findfield_api`: the entry API only, on a database built with `add_entry` from `Entry` objects
(no `.bib` text in between, so an entry may have a field and a role of the same name). -/
def findfieldApi (j : Json) : Except String Json := do
  let raw ← parseFile j
  let names ← getStrList j "names"
  let file := toModelFile raw
  let sdb := Spec.readAll (toSpecFile raw)
  let rows (ctx : Bool) : Json := match BibData.readFile none file with
    | none => Json.str "KeyError"
    | some (db, _) =>
      match CIDict.items db.entries with
      | none => Json.str "KeyError"
      | some its => arr (its.map fun p => rowJ p.2.key (names.map fun n =>
          optStr (p.2.findField n (if ctx then some db else none))))
  let spec : Json := arr (sdb.map fun e => rowJ e.key (names.map fun n => optStr (Spec.lookup sdb e n)))
  let specOwn : Json := arr (sdb.map fun e => rowJ e.key (names.map fun n => optStr (e.own n)))
  pure (obj [("out", obj [("api", rows true), ("api_nodb", rows false)]),
             ("spec", obj [("lookup", spec), ("own", specOwn)])])

def exNamesJ : Except Str (List Str) → Json
  | .ok ps => strToJson (joinWith andSep ps)
  | .error _ => Json.null

/-- `pystyles`: what the nodes of the Python engine's templates yield for every entry of the
database — `names(role)` for the `roles`, `field(name)` for the `names` — and what the label and
sorting styles read (model); the reference lookup of all of them (spec). -/
def pystyles (j : Json) : Except String Json := do
  let raw ← parseFile j
  let names ← getStrList j "names"
  let roles ← getStrList j "roles"
  let file := toModelFile raw
  let sdb := Spec.readAll (toSpecFile raw)
  let nodes : Json := match BibData.readFile none file with
    | none => Json.str "KeyError"
    | some (db, _) =>
      match CIDict.items db.entries with
      | none => Json.str "KeyError"
      | some its => arr (its.map fun p => arr [strToJson p.2.key,
          arr (roles.map fun r => exNamesJ (pythonEngineNames db p.2 r)),
          arr (names.map fun n => exJ (pythonEngineField db p.2 n)),
          arr (names.map fun n => optStr (styleReadsField p.2 n))])
  let spec : Json := arr (sdb.map fun e => arr [strToJson e.key,
      arr (roles.map fun r => optStr (Spec.lookup sdb e r)),
      arr (names.map fun n => optStr (Spec.lookup sdb e n))])
  pure (obj [("out", obj [("nodes", nodes)]), ("spec", obj [("lookup", spec)])])

/-- `findvisited`: the three lookup methods AS THE CODE HAS THEM NOW, called with an explicit
`visited` set, on a database built with `add_entry` from `Entry` objects: for every entry
`_find_crossref_entry(·, bib_data, visited)` (key of the entry returned and the enlarged set, or
null = `KeyError`; also with `bib_data=None`), and for every (entry, name)
`_find_field(name, bib_data, visited)`, `_find_field(name, None, visited)` and
`_find_crossref_field(name, bib_data, visited)` — model: `findCrossrefEntry`, `findFieldLoop`,
`findCrossrefField` (`Model/CrossrefLoop.lean`).  Spec: the reference lookup and own values. -/
def findvisited (j : Json) : Except String Json := do
  let raw ← parseFile j
  let names ← getStrList j "names"
  let visited ← getStrList j "visited"
  let file := toModelFile raw
  let sdb := Spec.readAll (toSpecFile raw)
  let withDb (f : BibData → Entry → Json) : Json := match BibData.readFile none file with
    | none => Json.str "KeyError"
    | some (db, _) =>
      match CIDict.items db.entries with
      | none => Json.str "KeyError"
      | some its => arr (its.map fun p => arr [strToJson p.2.key, f db p.2])
  let stepJ : Option (Entry × List Str) → Json
    | none => Json.null
    | some (p, v) => arr [strToJson p.key, strs v]
  let step := withDb fun db e => stepJ (findCrossrefEntry (some db) visited e)
  let stepNoDb := withDb fun _ e => stepJ (findCrossrefEntry none visited e)
  let field := withDb fun db e => arr (names.map fun n => optStr (findFieldLoop (some db) visited e n))
  let fieldNoDb := withDb fun _ e => arr (names.map fun n => optStr (findFieldLoop none visited e n))
  let xfield := withDb fun db e => arr (names.map fun n => optStr (findCrossrefField (some db) visited e n))
  let person := withDb fun _ e => arr (names.map fun n => optStr (findPersonField e n))
  let spec : Json := arr (sdb.map fun e => rowJ e.key (names.map fun n => optStr (Spec.lookup sdb e n)))
  let specOwn : Json := arr (sdb.map fun e => rowJ e.key (names.map fun n => optStr (e.own n)))
  pure (obj [("out", obj [("step", step), ("step_nodb", stepNoDb), ("field", field), ("field_nodb", fieldNoDb),
                          ("xfield", xfield), ("person", person)]),
             ("spec", obj [("lookup", spec), ("own", specOwn)])])

def exMsgJ : Except Str Str → Json
  | .ok v => strToJson v
  | .error m => obj [("missing", strToJson m)]

/-- `fieldnode`: the template node `field` evaluated directly (no style, no engine) for every
(entry, name) of a database read from `.bib` text: in a context that carries the database and in a
context without one; a `FieldIsMissing` is shown with its message.  Spec: reference lookup. -/
def fieldnode (j : Json) : Except String Json := do
  let raw ← parseFile j
  let names ← getStrList j "names"
  let file := toModelFile raw
  let sdb := Spec.readAll (toSpecFile raw)
  let rows (ctx : Bool) : Json := match BibData.readFile none file with
    | none => Json.str "KeyError"
    | some (db, _) =>
      match CIDict.items db.entries with
      | none => Json.str "KeyError"
      | some its => arr (its.map fun p => rowJ p.2.key (names.map fun n =>
          exMsgJ (templateFieldMsg (if ctx then some db else none) p.2 n)))
  let spec : Json := arr (sdb.map fun e => rowJ e.key (names.map fun n => optStr (Spec.lookup sdb e n)))
  let specOwn : Json := arr (sdb.map fun e => rowJ e.key (names.map fun n => optStr (e.own n)))
  pure (obj [("out", obj [("node_db", rows true), ("node_nodb", rows false)]),
             ("spec", obj [("lookup", spec), ("own", specOwn)])])

/-- `findvisited_u`: as `findvisited`, on the Unicode containers with `norm := lowerPy`
(`Model/CrossrefU.lean`): keys, field names, role names, cross-reference targets and the members of
`visited` may be any text.  Also the keys `add_entry` reported as repeated.  Spec: `lookupU`. -/
def findvisitedU (j : Json) : Except String Json := do
  let raw ← parseFile j
  let names ← getStrList j "names"
  let visited ← getStrList j "visited"
  let built := Uni.addEntries lowerPy Uni.CIDict.empty
    (raw.map fun r => (r.key, Uni.UEntry.ofPairs lowerPy r.fields r.persons))
  let db := built.1
  let withDb (f : Uni.UEntry → Json) : Json :=
    match Uni.CIDict.items lowerPy db with
    | none => Json.str "KeyError"
    | some its => arr (its.map fun p => arr [strToJson p.2.key, f p.2])
  let stepJ : Option (Uni.UEntry × List Str) → Json
    | none => Json.null
    | some (p, v) => arr [strToJson p.key, strs v]
  let rows (f : Uni.UEntry → Str → Option Str) : Json := withDb fun e => arr (names.map fun n => optStr (f e n))
  pure (obj [("out", obj [("step", withDb fun e => stepJ (Uni.findCrossrefEntry lowerPy (some db) visited e)),
                          ("step_nodb", withDb fun e => stepJ (Uni.findCrossrefEntry lowerPy none visited e)),
                          ("field", rows fun e n => Uni.findFieldLoop lowerPy (some db) visited e n),
                          ("field_nodb", rows fun e n => Uni.findFieldLoop lowerPy none visited e n),
                          ("xfield", rows fun e n => Uni.findCrossrefField lowerPy (some db) visited e n),
                          ("person", rows fun e n => Uni.findPersonField lowerPy e n),
                          ("repeated", strs built.2)]),
             ("spec", obj [("lookup", rows fun e n => Uni.lookupU lowerPy db e n),
                           ("own", rows fun e n => e.own lowerPy n)])])

/-- driver ops of this property: (op name, handler) -/
def handlers : List (String × (Json → Except String Json)) :=
  [("findfield", findfield), ("findfield_api", findfieldApi), ("findchain", findchain), ("pystyles", pystyles),
   ("findvisited", findvisited), ("fieldnode", fieldnode),
   ("findvisited_u", findvisitedU)]

end Pybtex.Drv.C14
