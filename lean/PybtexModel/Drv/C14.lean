import PybtexModel.Drv.DbJson
open Lean
namespace Pybtex.Drv.C14
open Pybtex.Drv.DbJson

def optStr : Option Str → Json
  | some v => strToJson v
  | none => Json.null

def bstJ : BstValue → Json
  | .str v => strToJson v
  | .missing _ => Json.null

def exJ : Except Str Str → Json
  | .ok v => strToJson v
  | .error _ => Json.null

def rowJ (key : Str) (vals : List Json) : Json := arr [strToJson key, arr vals]

/-- the BibTeX engine on `file` with the citations `cits`: one row per emitted entry -/
def bstRows (file : List (Str × Entry)) (names cits : List Str) (m : Int) : Json × Json :=
  match BibData.readFile (some cits) (file.map fun p => (p.1, p.2.personsAsFields)) with
  | none => (Json.str "KeyError", Json.str "KeyError")
  | some (db, rep0) =>
    let a := db.addExtraCitations cits m
    let b := db.removeMissing a.1
    (arr (b.1.map fun c => match db.entries.getItem c with
        | none => Json.str "KeyError"
        | some e => rowJ c (names.map (fun n => bstJ (bstFieldValue db e n)) ++ [bstJ (bstCrossrefValue db e)])),
     reportsJ (rep0 ++ a.2 ++ b.2))

/-- the Python engine (template node `field`) on `file` with the citations `cits` -/
def pyRows (file : List (Str × Entry)) (names cits : List Str) (m : Int) : Json × Json :=
  match BibData.readFile (some cits) file with
  | none => (Json.str "KeyError", Json.str "KeyError")
  | some (db, rep0) =>
    let a := db.addExtraCitations cits m
    let b := db.removeMissingPy a.1
    match db.lookupAll b.1 with
    | none => (Json.str "KeyError", Json.str "KeyError")
    | some es => (arr (es.map fun e => rowJ e.key (names.map fun n => exJ (pythonEngineField db e n))),
                  reportsJ (rep0 ++ a.2 ++ b.2))

/-- `findfield`: database graph + queried names → what each observation point yields for every
(entry, name): the entry API with and without `bib_data`, the BST field variables, the template
`field` node of the Python engine (model), and the reference lookup (spec).  The engines are
observed with every entry cited and — `leaf*` — with ONLY the first entry cited
(`min_crossrefs` 2: its parent is read but not appended; 1: appended). -/
def findfield (j : Json) : Except String Json := do
  let raw ← parseFile j
  let names ← getStrList j "names"
  let file := toModelFile raw
  let cits := raw.map (·.key)
  let leaf := (raw.take 1).map (·.key)
  let sdb := Spec.readAll (toSpecFile raw)
  let api : Json := match BibData.readFile none file with
    | none => Json.str "KeyError"
    | some (db, _) =>
      match CIDict.items db.entries with
      | none => Json.str "KeyError"
      | some its => arr (its.map fun p => rowJ p.2.key (names.map fun n => optStr (p.2.findField n (some db))))
  let apiNoDb : Json := match BibData.readFile none file with
    | none => Json.str "KeyError"
    | some (db, _) =>
      match CIDict.items db.entries with
      | none => Json.str "KeyError"
      | some its => arr (its.map fun p => rowJ p.2.key (names.map fun n => optStr (p.2.findField n none)))
  let bst := bstRows file names cits 2
  let py := pyRows file names cits 2
  let spec : Json := arr (sdb.map fun e => rowJ e.key (names.map fun n => optStr (Spec.lookup sdb e n)))
  let specOwn : Json := arr (sdb.map fun e => rowJ e.key (names.map fun n => optStr (e.own n)))
  let specParent : Json := arr (sdb.map fun e => rowJ e.key [optStr ((Spec.parent sdb e).map (·.key))])
  let specDangling : Json := arr ((Spec.dangling sdb (Spec.keys sdb)).map fun p => arr [strToJson p.1, strToJson p.2])
  pure (obj [("out", obj [("api", api), ("api_nodb", apiNoDb), ("bst", bst.1), ("bst_reports", bst.2),
                          ("py", py.1), ("py_reports", py.2),
                          ("bst_leaf", (bstRows file names leaf 2).1), ("py_leaf", (pyRows file names leaf 2).1),
                          ("bst_leaf1", (bstRows file names leaf 1).1), ("py_leaf1", (pyRows file names leaf 1).1)]),
             ("spec", obj [("lookup", spec), ("own", specOwn), ("parent", specParent), ("dangling", specDangling)])])

/-- `findchain`: a long file (hundreds of entries), looked at from its FIRST entry only: the
entry API, the two engines with only that entry cited, the number of cross-references the lookup
follows (model), and the reference lookup (spec). -/
def findchain (j : Json) : Except String Json := do
  let raw ← parseFile j
  let names ← getStrList j "names"
  let file := toModelFile raw
  let leaf := (raw.take 1).map (·.key)
  let sdb := Spec.readAll (toSpecFile raw)
  let first (f : BibData → Entry → Json) : Json := match BibData.readFile none file with
    | none => Json.str "KeyError"
    | some (db, _) =>
      match leaf with
      | [] => Json.null
      | k :: _ => match db.entries.getItem k with
        | none => Json.null
        | some e => f db e
  let api := first fun db e => arr (names.map fun n => optStr (e.findField n (some db)))
  let hops := first fun db e => arr (names.map fun n => nat (findFieldHops (some db) [] e n).2)
  let spec : Json := match sdb with
    | [] => Json.null
    | e :: _ => arr (names.map fun n => optStr (Spec.lookup sdb e n))
  pure (obj [("out", obj [("api", api), ("bst_leaf", (bstRows file names leaf 2).1), ("py_leaf", (pyRows file names leaf 2).1)]),
             ("spec", obj [("lookup", spec), ("hops", hops), ("entries", nat sdb.length)])])

/-- `findfield_api`: the entry API only, on a database built with `add_entry` from `Entry` objects
(no `.bib` text in between, so an entry may have a field and a role of the same name). -/
def findfieldApi (j : Json) : Except String Json := do
  let raw ← parseFile j
  let names ← getStrList j "names"
  let file := toModelFile raw
  let sdb := Spec.readAll (toSpecFile raw)
  let rows (ctx : Bool) : Json := match BibData.readFile none file with
    | none => Json.str "KeyError"
    | some (db, _) =>
      match CIDict.items db.entries with
      | none => Json.str "KeyError"
      | some its => arr (its.map fun p => rowJ p.2.key (names.map fun n =>
          optStr (p.2.findField n (if ctx then some db else none))))
  let spec : Json := arr (sdb.map fun e => rowJ e.key (names.map fun n => optStr (Spec.lookup sdb e n)))
  let specOwn : Json := arr (sdb.map fun e => rowJ e.key (names.map fun n => optStr (e.own n)))
  pure (obj [("out", obj [("api", rows true), ("api_nodb", rows false)]),
             ("spec", obj [("lookup", spec), ("own", specOwn)])])

def exNamesJ : Except Str (List Str) → Json
  | .ok ps => strToJson (joinWith andSep ps)
  | .error _ => Json.null

/-- `pystyles`: what the nodes of the Python engine's templates yield for every entry of the
database — `names(role)` for the `roles`, `field(name)` for the `names` — and what the label and
sorting styles read (model); the reference lookup of all of them (spec). -/
def pystyles (j : Json) : Except String Json := do
  let raw ← parseFile j
  let names ← getStrList j "names"
  let roles ← getStrList j "roles"
  let file := toModelFile raw
  let sdb := Spec.readAll (toSpecFile raw)
  let nodes : Json := match BibData.readFile none file with
    | none => Json.str "KeyError"
    | some (db, _) =>
      match CIDict.items db.entries with
      | none => Json.str "KeyError"
      | some its => arr (its.map fun p => arr [strToJson p.2.key,
          arr (roles.map fun r => exNamesJ (pythonEngineNames db p.2 r)),
          arr (names.map fun n => exJ (pythonEngineField db p.2 n)),
          arr (names.map fun n => optStr (styleReadsField p.2 n))])
  let spec : Json := arr (sdb.map fun e => arr [strToJson e.key,
      arr (roles.map fun r => optStr (Spec.lookup sdb e r)),
      arr (names.map fun n => optStr (Spec.lookup sdb e n))])
  pure (obj [("out", obj [("nodes", nodes)]), ("spec", obj [("lookup", spec)])])

/-- driver ops of this property: (op name, handler) -/
def handlers : List (String × (Json → Except String Json)) :=
  [("findfield", findfield), ("findfield_api", findfieldApi), ("findchain", findchain), ("pystyles", pystyles)]

end Pybtex.Drv.C14
