import PybtexModel.Drv.Json
import PybtexModel.Model.BstParse
import PybtexModel.Model.BstErrorText
open Lean
namespace Pybtex.Drv.C15
open Pybtex.Bst Pybtex.Scanner

/-! canonical JSON of the abstract syntax and of parse outcomes -/

mutual
  def tokJ : Tok → Json
    | .int v => arr [Json.str "Integer", int v]
    | .str s => arr [Json.str "String", strToJson s]
    | .quoted n => arr [Json.str "QuotedVar", strToJson n]
    | .name n => arr [Json.str "Identifier", strToJson n]
    | .fn body => arr [Json.str "F", arr (toksJ body)]
  def toksJ : List Tok → List Json
    | [] => []
    | t :: ts => tokJ t :: toksJ ts
end

def cmdJ (c : Bst.Command) : Json :=
  obj [("c", strToJson c.name), ("g", arr (c.groups.map fun g => arr (toksJ g)))]

def progJ (p : Program) : Json := arr (p.map cmdJ)

/-- the fields of a rejected source: class, `lineno`, `args[0]`, `str(error)`, `error.filename` -/
def errJ (fn : Option Str) : Err → Json
  | .eof => obj [("err", Json.str "EOFError")]
  | .outOfFuel => obj [("err", Json.str "MODEL:outOfFuel")]
  | e =>
    let cls := match e with
      | .prematureEOF _ => "PrematureEOF"
      | .tokenRequired _ _ => "TokenRequired"
      | _ => "PybtexSyntaxError"
    obj [("err", Json.str cls), ("line", optJ nat (errLine e)), ("msg", optJ strToJson (errMessage e)),
         ("str", optJ strToJson (errStr e)), ("filename", optJ strToJson fn)]

def resJF (fn : Option Str) : Except Err Program → Json
  | .ok p => obj [("ok", progJ p)]
  | .error e => errJ fn e

def resJ : Except Err Program → Json := resJF none

/-! flat form of the abstract syntax (no nested JSON, integers as decimal strings): used for very
deep nesting and very long integers, which neither side's JSON library handles -/

mutual
  def tokFlat : Tok → List Json
    | .int v => [arr [Json.str "i", Json.str (toString v)]]
    | .str s => [arr [Json.str "s", strToJson s]]
    | .quoted n => [arr [Json.str "q", strToJson n]]
    | .name n => [arr [Json.str "n", strToJson n]]
    | .fn body => Json.str "{" :: (toksFlat body ++ [Json.str "}"])
  def toksFlat : List Tok → List Json
    | [] => []
    | t :: ts => tokFlat t ++ toksFlat ts
end

def progFlat (p : Program) : Json :=
  arr (p.map fun c => obj [("c", strToJson c.name), ("g", arr (c.groups.map fun g => arr (toksFlat g)))])

def resFlatF (fn : Option Str) : Except Err Program → Json
  | .ok p => obj [("ok_flat", progFlat p), ("depth", nat (Program.depth p))]
  | r => resJF fn r

/-! reading the abstract syntax, lexemes and lay-outs -/

/-- JSON ↦ token; `depth` bounds the nesting the decoder accepts (decoding only, not the model) -/
def tokOfJ : Nat → Json → Except String Tok
  | 0, _ => throw "token nesting too deep for the JSON decoder"
  | depth + 1, j => do
    let a ← j.getArr?
    let tag ← (a[0]!).getStr?
    match tag with
    | "Integer" => pure (.int (← (a[1]!).getInt?))
    | "String" => pure (.str (← jsonToStr a[1]!))
    | "QuotedVar" => pure (.quoted (← jsonToStr a[1]!))
    | "Identifier" => pure (.name (← jsonToStr a[1]!))
    | "F" => do
      let body ← (← (a[1]!).getArr?).toList.mapM (tokOfJ depth)
      pure (.fn body)
    | _ => throw s!"unknown token tag {tag}"

def cmdOfJ (j : Json) : Except String Bst.Command := do
  let name ← getStr j "c"
  let gs ← (← getArr j "g").mapM fun g => do (← g.getArr?).toList.mapM (tokOfJ 10000)
  pure ⟨name, gs⟩

def lexOfJ (j : Json) : Except String Lex := do
  let a ← j.getArr?
  let tag ← (a[0]!).getStr?
  match tag with
  | "w" => pure (.word (← jsonToStr a[1]!))
  | "i" => pure (.int (← (a[1]!).getInt?))
  | "s" => pure (.str (← jsonToStr a[1]!))
  | "{" => pure .lb
  | "}" => pure .rb
  | _ => throw s!"unknown lexeme tag {tag}"

def oneChar (s : Str) : Except String Char :=
  match s with
  | [c] => pure c
  | _ => throw "single character expected"

def commentOfStr (s : Str) : Except String CommentText :=
  if h : s.all (fun c => !isLineSep c) = true then pure ⟨s, h⟩ else throw "line break in comment text"

def itemOfJ (j : Json) : Except String GapItem := do
  let a ← j.getArr?
  let tag ← (a[0]!).getStr?
  match tag with
  | "ws" =>
    let c ← oneChar (← jsonToStr a[1]!)
    if h : isWs c = true then pure (.ws ⟨c, h⟩) else throw "not a white-space character"
  | "cm" =>
    let t ← commentOfStr (← jsonToStr a[1]!)
    let c ← oneChar (← jsonToStr a[2]!)
    if h : isLineSep c = true then pure (.comment t ⟨c, h⟩) else throw "not a line-break character"
  | _ => throw s!"unknown gap item {tag}"

def layoutOfJ (j : Json) : Except String Layout := do
  let gaps ← (← getArr j "gaps").mapM fun g => do (← g.getArr?).toList.mapM itemOfJ
  let tr ← match j.getObjVal? "trailer" with
    | .ok (.null) => pure none
    | .ok t => do pure (some (← commentOfStr (← jsonToStr t)))
    | .error _ => pure none
  pure ⟨gaps, tr⟩

/-- the harness writes the name of its scratch file as `<FILE>` -/
def fileTag : Str := "<FILE>".toList

def outcomes (text : Str) : List (String × Json) :=
  [("string", resJF none (parseString text)),
   ("stream", resJF (some streamDefaultFilename) (parseStream text)),
   ("file", resJF (some fileTag) (parseFile text))]

def outcomesFlat (text : Str) : List (String × Json) :=
  [("string", resFlatF none (parseString text)),
   ("stream", resFlatF (some streamDefaultFilename) (parseStream text)),
   ("file", resFlatF (some fileTag) (parseFile text))]

/-- deepest brace nesting of a text (counted on the characters; for the resource-limit cases) -/
def braceDepth (s : Str) : Nat :=
  (s.foldl (fun (acc : Nat × Nat) c =>
    if c = '{' then (acc.1 + 1, max acc.2 (acc.1 + 1))
    else if c = '}' then (acc.1 - 1, acc.2) else acc) (0, 0)).2

/-- longest run of ASCII digits of a text -/
def digitRun (s : Str) : Nat :=
  (s.foldl (fun (acc : Nat × Nat) c =>
    if isDigit c then (acc.1 + 1, max acc.2 (acc.1 + 1)) else (0, acc.2)) (0, 0)).2

/-- op `bstparse`: source text ↦ outcome of each entry point; per-line `strip_comment` -/
def bstparse (j : Json) : Except String Json := do
  let src ← getStr j "src"
  let flat := (j.getObjValAs? Bool "flat").toOption.getD false
  pure (obj [("out", obj (if flat then outcomesFlat src else outcomes src)),
             ("spec", obj [("lines", strs (splitLines src)),
                           ("stripped", strs ((splitLines src).map stripComment)),
                           ("plain", Json.bool (plainBreaks src)),
                           ("notrail", Json.bool (noTrailingWs src)),
                           ("brace_depth", nat (braceDepth src)),
                           ("digit_run", nat (digitRun src)),
                           ("int_limit", nat intDigitLimit)])])

/-- op `bststrip`: one line ↦ `strip_comment(line)` -/
def bststrip (j : Json) : Except String Json := do
  let l ← getStr j "line"
  pure (obj [("out", strToJson (stripComment l)), ("spec", strToJson (uncommented l))])

/-- op `bstrt`: program + lay-out ↦ the Lean `print`, what the model parses from it, and the
reference (the program itself, whether it is well-formed) -/
def bstrt (j : Json) : Except String Json := do
  let p ← (← getArr j "prog").mapM cmdOfJ
  let L ← layoutOfJ (← j.getObjVal? "layout")
  let text := print p L
  pure (obj [("out", obj (("text", strToJson text) :: outcomes text)),
             ("spec", obj [("prog", progJ p), ("wf", Json.bool (decide (WFProg p))),
                           ("plain", Json.bool (plainBreaks text)),
                           ("depth", nat (Program.depth p))])])

def readingJ (ls : List Lex) (gaps : List Gap) (text : Str) : Reading → Json
  | .lexicalError _ => Json.null   -- `read` never gives it
  | .prog p => obj [("ok", progJ p)]
  | .badCommand i =>
    obj [("err", Json.str "TokenRequired"), ("line", nat (lexLine ls gaps i)), ("msg", Json.str "BST command expected")]
  | .braceExpected i =>
    obj [("err", Json.str "TokenRequired"), ("line", nat (lexLine ls gaps i)), ("msg", Json.str "'{' expected")]
  | .prematureEnd =>
    obj [("err", Json.str "PrematureEOF"), ("line", nat (eofLine text)), ("msg", Json.str "premature end of file")]

/-- a lexeme, or raw text written as it is (`["raw", text]`) -/
inductive XLex where
  | lex (l : Lex)
  | raw (s : Str)

def xlexOfJ (j : Json) : Except String XLex := do
  let a ← j.getArr?
  let tag ← (a[0]!).getStr?
  if tag == "raw" then pure (.raw (← jsonToStr a[1]!)) else pure (.lex (← lexOfJ j))

/-- raw text never asks for a separating blank (it counts as a brace for `needsGap`) -/
def XLex.shadow : XLex → Lex
  | .lex l => l
  | .raw _ => .lb

def XLex.text : XLex → Str
  | .lex l => l.text
  | .raw s => s

/-- `render` with raw pieces -/
def renderX : Option Lex → List XLex → List Gap → Str
  | _, [], gs => gapText (gs.headD [])
  | prev, x :: xs, gs =>
    sepText prev x.shadow (gs.headD []) ++ (x.text ++ renderX (some x.shadow) xs gs.tail)

/-- the lexemes in front of the first raw piece -/
def lexPrefix : List XLex → List Lex
  | .lex l :: xs => l :: lexPrefix xs
  | _ => []

/-- reading of a lexeme sequence followed by text that cannot begin a token, with the line -/
def readingBadJ (ls : List Lex) (gaps : List Gap) : Reading → Json
  | .badCommand i =>
    obj [("err", Json.str "TokenRequired"),
         ("line", nat (if i < ls.length then lexLine ls gaps i else tailLine ls gaps)),
         ("msg", Json.str "BST command expected")]
  | .braceExpected i =>
    obj [("err", Json.str "TokenRequired"),
         ("line", nat (if i < ls.length then lexLine ls gaps i else tailLine ls gaps)),
         ("msg", Json.str "'{' expected")]
  | .lexicalError _ =>
    obj [("err", Json.str "TokenRequired"), ("line", nat (tailLine ls gaps)),
         ("msg", Json.str "name or string or integer or '{' or '}' expected")]
  | _ => Json.null

/-- op `bstlex`: arbitrary lexeme sequence + lay-out ↦ the Lean rendering, what the model parses
from it, and the reference reading of the lexeme sequence with the line of the offending lexeme.
With a raw piece: the text is `render none pre gaps ++ T` (`pre` = the lexemes in front of the
first raw piece, `T` = everything from that piece on); when `T` cannot begin a token (`lexBad`)
the reference is `readBad pre`. -/
def bstlex (j : Json) : Except String Json := do
  let xs ← (← getArr j "lexs").mapM xlexOfJ
  let L ← layoutOfJ (← j.getObjVal? "layout")
  let pre := lexPrefix xs
  match xs.drop pre.length with
  | [] =>
    let ls := pre
    let text := render none ls L.gaps ++ trailerText L.trailer
    pure (obj [("out", obj (("text", strToJson text) :: outcomes text)),
               ("spec", obj [("reading", readingJ ls L.gaps text (read ls)),
                             ("wf", Json.bool (ls.all wfLex)),
                             ("plain", Json.bool (plainBreaks text))])])
  | x :: rest =>
    let T := x.text ++ renderX (some .lb) rest (L.gaps.drop (pre.length + 1)) ++ trailerText L.trailer
    let text := render none pre L.gaps ++ T
    pure (obj [("out", obj (("text", strToJson text) :: outcomes text)),
               ("spec", obj [("reading", readingBadJ pre L.gaps (readBad pre)),
                             ("wf", Json.bool (pre.all wfLex && lexBad T)),
                             ("lexbad", Json.bool (lexBad T)),
                             ("plain", Json.bool (plainBreaks text))])])

/-- op `bsteq`: two programs with their lay-outs ↦ what the model parses from each print-out and
the model of `==` on the two results; reference: whether the two programs are the same -/
def bsteq (j : Json) : Except String Json := do
  let p1 ← (← getArr j "prog").mapM cmdOfJ
  let L1 ← layoutOfJ (← j.getObjVal? "layout")
  let p2 ← (← getArr j "prog2").mapM cmdOfJ
  let L2 ← layoutOfJ (← j.getObjVal? "layout2")
  let t1 := print p1 L1
  let t2 := print p2 L2
  let r1 := parseString t1
  let r2 := parseString t2
  let eqJ : Json := match r1, r2 with
    | .ok a, .ok b => Json.bool (progEq a b)
    | _, _ => Json.null
  let neJ : Json := match r1, r2 with
    | .ok a, .ok b => Json.bool (!progEq a b)
    | _, _ => Json.null
  let selfJ : Json := match r1 with
    | .ok a => Json.bool (progEq a a)
    | _ => Json.null
  pure (obj [("out", obj [("text1", strToJson t1), ("text2", strToJson t2), ("p1", resJ r1),
                          ("p2", resJ r2), ("eq", eqJ), ("ne", neJ), ("eq_self", selfJ)]),
             ("spec", obj [("wf", Json.bool (decide (WFProg p1) && decide (WFProg p2))),
                           ("same", Json.bool ((progJ p1).compress == (progJ p2).compress))])])

/-! ### function-level ops (one function of the code each) -/

def kindName : TokKind → String
  | .name => "name" | .string => "string" | .integer => "integer" | .lbrace => "'{'" | .rbrace => "'}'"

/-- the pattern lists the code hands to `required`, with `description` and `allow_eof` -/
def patsOf (which : String) : Except String (List (TokKind × Pattern) × Option Str × Bool) :=
  match which with
  | "group" => pure (groupPats, none, false)
  | "command" => pure ([(TokKind.name, namePat)], some "BST command".toList, true)
  | "lbrace" => pure ([(TokKind.lbrace, lbracePat)], none, false)
  | _ => throw s!"unknown pattern list {which}"

def stJ (text : Str) (st : St) : List (String × Json) :=
  [("pos", nat (posOf text st)), ("lineno", nat st.line)]

/-- op `bstscan`: a scanner on `text` at (`pos`, `lineno`); `which` = `ws` (`eat_whitespace`),
`upd` (`update_lineno(text)`: the new line number), or a pattern list (`required`): token,
position and line afterwards, or the error and where the scanner stands -/
def bstscan (j : Json) : Except String Json := do
  let text ← getStr j "text"
  let pos ← getNat j "pos"
  let ln ← getNat j "lineno"
  let which ← j.getObjValAs? String "which"
  let st := stAt text pos ln
  if which == "ws" then
    pure (obj [("out", obj (stJ text (eatWs st)))])
  else if which == "upd" then
    pure (obj [("out", obj [("lineno", nat (ln + countNewlines text))])])
  else
    let (pats, d, eof) ← patsOf which
    match required pats d eof st with
    | .ok ((k, v), st1) =>
      pure (obj [("out", obj ([("tok", arr [Json.str (kindName k), strToJson v])] ++ stJ text st1))])
    | .error e =>
      pure (obj [("out", obj ([("error", errJ none e)] ++ stJ text (eatWs st)))])

/-- op `bstgroup`: `list(parser.parse_group())` / `list(parser.parse_command())` of a parser on
`text` at (`pos`, `lineno`), with the position and line afterwards -/
def bstgroup (j : Json) : Except String Json := do
  let text ← getStr j "text"
  let pos ← getNat j "pos"
  let ln ← getNat j "lineno"
  let which ← j.getObjValAs? String "which"
  let st := stAt text pos ln
  if which == "group" then
    match parseGroup st with
    | .ok (ts, st1) => pure (obj [("out", obj ([("toks", arr (toksFlat ts))] ++ stJ text st1))])
    | .error e => pure (obj [("out", obj [("error", errJ none e)])])
  else
    match parseCommand st with
    | .ok (c, st1) => pure (obj [("out", obj ([("cmd", progFlat [c])] ++ stJ text st1))])
    | .error e => pure (obj [("out", obj [("error", errJ none e)])])

/-- op `bstlit`: `LITERAL_TYPES[pattern](value)` for a token value of that pattern
(`process_string_literal` / `process_int_literal` / `process_identifier`); `ValueError` where
`int()` refuses the digits -/
def bstlit (j : Json) : Except String Json := do
  let v ← getStr j "value"
  let kind ← j.getObjValAs? String "kind"
  let k ← match kind with
    | "string" => pure TokKind.string
    | "integer" => pure TokKind.integer
    | "name" => pure TokKind.name
    | _ => throw s!"unknown literal kind {kind}"
  match mkLiteralE k v 1 with
  | .ok t => pure (obj [("out", arr (tokFlat t))])
  | .error _ => pure (obj [("out", obj [("err", Json.str "ValueError")])])

/-- op `bstlines`: the line conventions of the three entry points and the text each hands to
`BstParser` -/
def bstlines (j : Json) : Except String Json := do
  let src ← getStr j "src"
  pure (obj [("out", obj [("splitlines", strs (splitLines src)),
                          ("stream", strs (streamLines src)),
                          ("file", strs (streamLines (universalNewlines src))),
                          ("rstrip", strs ((streamLines src).map rstrip)),
                          ("text_string", strToJson (stringText src)),
                          ("text_stream", strToJson (streamText (streamLines src))),
                          ("text_file", strToJson (fileText src))])])

/-- all code points (surrogates left out) satisfying `p` -/
def codePoints (p : Char → Bool) : List Nat :=
  ((List.range 0x110000).filter fun n =>
    (n < 0xD800 || 0xDFFF < n) && p (Char.ofNat n))

/-- op `bstconst`: the character classes of the token patterns over ALL code points, the pattern
descriptions and the fixed texts of the model -/
def bstconst (_ : Json) : Except String Json := do
  let natsJ (l : List Nat) : Json := arr (l.map nat)
  pure (obj [("out", obj [
    ("not_name", natsJ (codePoints fun c => !isNameChar c)),
    ("digit", natsJ (codePoints isDigit)),
    ("ws", natsJ (codePoints isWs)),
    ("linesep", natsJ (codePoints isLineSep)),
    ("not_string_body", natsJ (codePoints fun c => !(c != '"'))),
    ("descriptions", strs (groupPats.map fun p => p.2.desc)),
    ("group_expected", strToJson (describe groupPats)),
    ("error_type", strToJson errorType),
    ("stream_filename", strToJson streamDefaultFilename),
    ("ascii_upper", strToJson (upper ((List.range 0x250).map Char.ofNat)))])])

/-- driver ops of this property: (op name, handler) -/
def handlers : List (String × (Json → Except String Json)) :=
  [("bstparse", bstparse), ("bststrip", bststrip), ("bstrt", bstrt), ("bstlex", bstlex),
   ("bsteq", bsteq), ("bstscan", bstscan), ("bstgroup", bstgroup), ("bstlit", bstlit),
   ("bstlines", bstlines), ("bstconst", bstconst)]

end Pybtex.Drv.C15
