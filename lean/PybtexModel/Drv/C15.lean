import PybtexModel.Drv.Json
import PybtexModel.Model.BstParse
open Lean
namespace Pybtex.Drv.C15
open Pybtex.Bst Pybtex.Scanner

/-! canonical JSON of the abstract syntax and of parse outcomes -/

mutual
  def tokJ : Tok → Json
    | .int v => arr [Json.str "Integer", int v]
    | .str s => arr [Json.str "String", strToJson s]
    | .quoted n => arr [Json.str "QuotedVar", strToJson n]
    | .name n => arr [Json.str "Identifier", strToJson n]
    | .fn body => arr [Json.str "F", arr (toksJ body)]
  def toksJ : List Tok → List Json
    | [] => []
    | t :: ts => tokJ t :: toksJ ts
end

def cmdJ (c : Bst.Command) : Json :=
  obj [("c", strToJson c.name), ("g", arr (c.groups.map fun g => arr (toksJ g)))]

def progJ (p : Program) : Json := arr (p.map cmdJ)

def resJ : Except Err Program → Json
  | .ok p => obj [("ok", progJ p)]
  | .error .eof => obj [("err", Json.str "EOFError")]
  | .error (.prematureEOF l) =>
    obj [("err", Json.str "PrematureEOF"), ("line", nat l), ("msg", Json.str "premature end of file")]
  | .error (.tokenRequired d l) =>
    obj [("err", Json.str "TokenRequired"), ("line", nat l), ("msg", strToJson (d ++ " expected".toList))]
  | .error .outOfFuel => obj [("err", Json.str "MODEL:outOfFuel")]

/-! reading the abstract syntax, lexemes and lay-outs -/

/-- JSON ↦ token; `depth` bounds the nesting the decoder accepts (decoding only, not the model) -/
def tokOfJ : Nat → Json → Except String Tok
  | 0, _ => throw "token nesting too deep for the JSON decoder"
  | depth + 1, j => do
    let a ← j.getArr?
    let tag ← (a[0]!).getStr?
    match tag with
    | "Integer" => pure (.int (← (a[1]!).getInt?))
    | "String" => pure (.str (← jsonToStr a[1]!))
    | "QuotedVar" => pure (.quoted (← jsonToStr a[1]!))
    | "Identifier" => pure (.name (← jsonToStr a[1]!))
    | "F" => do
      let body ← (← (a[1]!).getArr?).toList.mapM (tokOfJ depth)
      pure (.fn body)
    | _ => throw s!"unknown token tag {tag}"

def cmdOfJ (j : Json) : Except String Bst.Command := do
  let name ← getStr j "c"
  let gs ← (← getArr j "g").mapM fun g => do (← g.getArr?).toList.mapM (tokOfJ 10000)
  pure ⟨name, gs⟩

def lexOfJ (j : Json) : Except String Lex := do
  let a ← j.getArr?
  let tag ← (a[0]!).getStr?
  match tag with
  | "w" => pure (.word (← jsonToStr a[1]!))
  | "i" => pure (.int (← (a[1]!).getInt?))
  | "s" => pure (.str (← jsonToStr a[1]!))
  | "{" => pure .lb
  | "}" => pure .rb
  | _ => throw s!"unknown lexeme tag {tag}"

def oneChar (s : Str) : Except String Char :=
  match s with
  | [c] => pure c
  | _ => throw "single character expected"

def commentOfStr (s : Str) : Except String CommentText :=
  if h : s.all (fun c => !isLineSep c) = true then pure ⟨s, h⟩ else throw "line break in comment text"

def itemOfJ (j : Json) : Except String GapItem := do
  let a ← j.getArr?
  let tag ← (a[0]!).getStr?
  match tag with
  | "ws" =>
    let c ← oneChar (← jsonToStr a[1]!)
    if h : isWs c = true then pure (.ws ⟨c, h⟩) else throw "not a white-space character"
  | "cm" =>
    let t ← commentOfStr (← jsonToStr a[1]!)
    let c ← oneChar (← jsonToStr a[2]!)
    if h : isLineSep c = true then pure (.comment t ⟨c, h⟩) else throw "not a line-break character"
  | _ => throw s!"unknown gap item {tag}"

def layoutOfJ (j : Json) : Except String Layout := do
  let gaps ← (← getArr j "gaps").mapM fun g => do (← g.getArr?).toList.mapM itemOfJ
  let tr ← match j.getObjVal? "trailer" with
    | .ok (.null) => pure none
    | .ok t => do pure (some (← commentOfStr (← jsonToStr t)))
    | .error _ => pure none
  pure ⟨gaps, tr⟩

def outcomes (text : Str) : List (String × Json) :=
  [("string", resJ (parseString text)), ("stream", resJ (parseStream text)),
   ("file", resJ (parseFile text))]

/-- op `bstparse`: source text ↦ outcome of each entry point; per-line `strip_comment` -/
def bstparse (j : Json) : Except String Json := do
  let src ← getStr j "src"
  pure (obj [("out", obj (outcomes src)),
             ("spec", obj [("lines", strs (splitLines src)),
                           ("stripped", strs ((splitLines src).map stripComment)),
                           ("plain", Json.bool (plainBreaks src)),
                           ("notrail", Json.bool (noTrailingWs src))])])

/-- op `bststrip`: one line ↦ `strip_comment(line)` -/
def bststrip (j : Json) : Except String Json := do
  let l ← getStr j "line"
  pure (obj [("out", strToJson (stripComment l)), ("spec", strToJson (uncommented l))])

/-- op `bstrt`: program + lay-out ↦ the Lean `print`, what the model parses from it, and the
reference (the program itself, whether it is well-formed) -/
def bstrt (j : Json) : Except String Json := do
  let p ← (← getArr j "prog").mapM cmdOfJ
  let L ← layoutOfJ (← j.getObjVal? "layout")
  let text := print p L
  pure (obj [("out", obj (("text", strToJson text) :: outcomes text)),
             ("spec", obj [("prog", progJ p), ("wf", Json.bool (decide (WFProg p))),
                           ("plain", Json.bool (plainBreaks text))])])

def readingJ (ls : List Lex) (gaps : List Gap) (text : Str) : Reading → Json
  | .prog p => obj [("ok", progJ p)]
  | .badCommand i =>
    obj [("err", Json.str "TokenRequired"), ("line", nat (lexLine ls gaps i)), ("msg", Json.str "BST command expected")]
  | .braceExpected i =>
    obj [("err", Json.str "TokenRequired"), ("line", nat (lexLine ls gaps i)), ("msg", Json.str "'{' expected")]
  | .prematureEnd =>
    obj [("err", Json.str "PrematureEOF"), ("line", nat (eofLine text)), ("msg", Json.str "premature end of file")]

/-- op `bstlex`: arbitrary lexeme sequence + lay-out ↦ the Lean rendering, what the model parses
from it, and the reference reading of the lexeme sequence with the line of the offending lexeme -/
def bstlex (j : Json) : Except String Json := do
  let ls ← (← getArr j "lexs").mapM lexOfJ
  let L ← layoutOfJ (← j.getObjVal? "layout")
  let text := render none ls L.gaps ++ trailerText L.trailer
  pure (obj [("out", obj (("text", strToJson text) :: outcomes text)),
             ("spec", obj [("reading", readingJ ls L.gaps text (read ls)),
                           ("wf", Json.bool (ls.all wfLex)),
                           ("plain", Json.bool (plainBreaks text))])])

/-- driver ops of this property: (op name, handler) -/
def handlers : List (String × (Json → Except String Json)) :=
  [("bstparse", bstparse), ("bststrip", bststrip), ("bstrt", bstrt), ("bstlex", bstlex)]

end Pybtex.Drv.C15
