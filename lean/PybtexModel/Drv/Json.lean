/-
JSON helpers for the line protocol of the driver.  Strings travel as arrays of code points
so that no escaping convention can blur a disagreement.
-/
import Lean.Data.Json
import PybtexModel.Model.Basic

namespace Pybtex.Drv
open Lean

def strToJson (s : Str) : Json := Json.str (String.ofList s)

def jsonToStr (j : Json) : Except String Str := do
  match j with
  | .str s => pure s.toList
  | .arr a =>
    let l ← a.toList.mapM fun x => do
      let n ← x.getNat?
      pure (Char.ofNat n)
    pure l
  | _ => throw "string expected"

def getStr (j : Json) (k : String) : Except String Str := do
  jsonToStr (← j.getObjVal? k)

def getInt (j : Json) (k : String) : Except String Int := do
  (← j.getObjVal? k).getInt?

def getNat (j : Json) (k : String) : Except String Nat := do
  (← j.getObjVal? k).getNat?

def getBool (j : Json) (k : String) : Except String Bool := do
  (← j.getObjVal? k).getBool?

def getArr (j : Json) (k : String) : Except String (List Json) := do
  pure (← (← j.getObjVal? k).getArr?).toList

def getStrList (j : Json) (k : String) : Except String (List Str) := do
  (← getArr j k).mapM jsonToStr

def strs (l : List Str) : Json := Json.arr (l.toArray.map strToJson)
def int (i : Int) : Json := Json.num (JsonNumber.fromInt i)
def nat (n : Nat) : Json := Json.num (JsonNumber.fromNat n)
def arr (l : List Json) : Json := Json.arr l.toArray
def obj (l : List (String × Json)) : Json := Json.mkObj l
def optJ (f : α → Json) : Option α → Json
  | none => Json.null
  | some a => f a

end Pybtex.Drv
