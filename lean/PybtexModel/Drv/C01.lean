import PybtexModel.Drv.Json
import PybtexModel.Drv.C04
import PybtexModel.Model.BibParse
import PybtexModel.Spec.Bib
open Lean
namespace Pybtex.Drv.C01
open Pybtex.Bib

def errJ (e : Err) : Json :=
  let (cls, msg) : String × Str := match e.kind with
    | .tokenRequired d => ("TokenRequired", (d ++ " expected").toList)
    | .prematureEOF => ("PrematureEOF", "premature end of file".toList)
    | .tooManyBraces => ("PybtexSyntaxError", "too many nested braces".toList)
    | .unbalancedBraces => ("PybtexSyntaxError", "unbalanced braces".toList)
    | .undefinedMacro n => ("UndefinedMacro", n)
    | .duplicateField k f => ("DuplicateField", "entry with key ".toList ++ k ++ " has a duplicate ".toList ++ f ++ " field".toList)
    | .repeatedEntry k => ("BibliographyDataError", "repeated bibliography entry: ".toList ++ k)
    | .invalidName n => ("InvalidNameString", n)
    | .nameTooDeep => ("BibTeXError", "too many nested braces".toList)
    | .internal => ("INTERNAL", [])
  arr [Json.str cls, optJ nat e.line, strToJson msg]

def personJ (p : Person) : Json :=
  arr [strs p.first, strs p.middle, strs p.prelast, strs p.last, strs p.lineage]

def entryJ (e : Bib.Entry) : Json :=
  obj [("key", strToJson e.key), ("type", strToJson e.type), ("orig_type", strToJson e.origType),
       ("fields", arr (e.fields.map fun f => arr [strToJson f.1, strToJson f.2])),
       ("persons", arr (e.persons.map fun r => arr [strToJson r.1, arr (r.2.map personJ)]))]

def resultJ (r : St × Option Err) : Json :=
  obj [("entries", arr (r.1.db.entries.map entryJ)), ("preamble", strs r.1.db.preamble),
       ("errors", arr (r.1.errs.map errJ)), ("raised", optJ errJ r.2)]

/-- position (code points consumed) of a located problem: `len(text) - len(unread text)` -/
def posJ (text : Str) (e : Err) (unread : Str) : Json :=
  if e.line.isSome then nat (text.length - unread.length) else Json.null

/-- `resultJ` plus, for every reported problem and for the raised one, the position at which it was
raised (the ghost `errAt`; `null` for the data errors, which carry no position in the code either) -/
def resultPosJ (text : Str) (r : St × Option Err) : Json :=
  obj [("entries", arr (r.1.db.entries.map entryJ)), ("preamble", strs r.1.db.preamble),
       ("errors", arr (r.1.errs.map errJ)), ("raised", optJ errJ r.2),
       ("errpos", arr ((r.1.errs.zip r.1.errAt).map fun p => posJ text p.1 p.2)),
       ("raisedpos", optJ (fun e => posJ text e r.1.rest) r.2)]

/-- reference value for the person clause: the persons of a (normalised) name-list value according
to the specification `BibSpec.personsOf` (`splitNameList` of C12, `Person()` of C04) -/
def personsSpecJ (v : Str) : Json := arr ((BibSpec.personsOf v).map personJ)

def bibparse (j : Json) : Except String Json := do
  let text ← getStr j "text"
  let strict ← getBool j "strict"
  let wanted ← match j.getObjVal? "wanted" with
    | .ok Json.null => pure none
    | .ok (Json.arr a) => do
      let l ← a.toList.mapM jsonToStr
      pure (some l)
    | _ => pure none
  let both := match j.getObjVal? "both" with | .ok (Json.bool true) => true | _ => false
  let names ← match j.getObjVal? "names" with
    | .ok (Json.arr a) => a.toList.mapM jsonToStr
    | _ => pure []
  let spec := obj [("persons", arr (names.map fun v => arr [strToJson v, personsSpecJ v]))]
  if both then
    pure (obj [("out", obj [("capture", resultPosJ text (parseBib text false wanted)),
                            ("strict", resultPosJ text (parseBib text true wanted))]), ("spec", spec)])
  else
    pure (obj [("out", resultJ (parseBib text strict wanted)), ("spec", spec)])

def handlers : List (String × (Json → Except String Json)) := [("bibparse", bibparse)]

end Pybtex.Drv.C01
