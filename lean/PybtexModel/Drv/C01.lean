import PybtexModel.Drv.Json
open Lean
namespace Pybtex.Drv.C01

/-- driver ops of this property: (op name, handler) -/
def handlers : List (String × (Json → Except String Json)) := []

end Pybtex.Drv.C01
