import PybtexModel.Drv.Json
import PybtexModel.Drv.C04
import PybtexModel.Model.BibParse
import PybtexModel.Model.BibOpts
import PybtexModel.Spec.Bib
open Lean
namespace Pybtex.Drv.C01
open Pybtex.Bib

def errJ (e : Err) : Json :=
  let (cls, msg) : String × Str := match e.kind with
    | .tokenRequired d => ("TokenRequired", (d ++ " expected").toList)
    | .prematureEOF => ("PrematureEOF", "premature end of file".toList)
    | .tooManyBraces => ("PybtexSyntaxError", "too many nested braces".toList)
    | .unbalancedBraces => ("PybtexSyntaxError", "unbalanced braces".toList)
    | .undefinedMacro n => ("UndefinedMacro", n)
    | .duplicateField k f => ("DuplicateField", "entry with key ".toList ++ k ++ " has a duplicate ".toList ++ f ++ " field".toList)
    | .repeatedEntry k => ("BibliographyDataError", "repeated bibliography entry: ".toList ++ k)
    | .invalidName n => ("InvalidNameString", n)
    | .nameTooDeep => ("BibTeXError", "too many nested braces".toList)
    | .internal => ("INTERNAL", [])
  arr [Json.str cls, optJ nat e.line, strToJson msg]

def personJ (p : Person) : Json :=
  arr [strs p.first, strs p.middle, strs p.prelast, strs p.last, strs p.lineage]

def entryJ (e : Bib.Entry) : Json :=
  obj [("key", strToJson e.key), ("type", strToJson e.type), ("orig_type", strToJson e.origType),
       ("fields", arr (e.fields.map fun f => arr [strToJson f.1, strToJson f.2])),
       ("persons", arr (e.persons.map fun r => arr [strToJson r.1, arr (r.2.map personJ)]))]

def resultJ (r : St × Option Err) : Json :=
  obj [("entries", arr (r.1.db.entries.map entryJ)), ("preamble", strs r.1.db.preamble),
       ("errors", arr (r.1.errs.map errJ)), ("raised", optJ errJ r.2)]

/-- position (code points consumed) of a located problem: `len(text) - len(unread text)` -/
def posJ (text : Str) (e : Err) (unread : Str) : Json :=
  if e.line.isSome then nat (text.length - unread.length) else Json.null

/-- `resultJ` plus, for every reported problem and for the raised one, the position at which it was
raised (the ghost `errAt`; `null` for the data errors, which carry no position in the code either) -/
def resultPosJ (text : Str) (r : St × Option Err) : Json :=
  obj [("entries", arr (r.1.db.entries.map entryJ)), ("preamble", strs r.1.db.preamble),
       ("errors", arr (r.1.errs.map errJ)), ("raised", optJ errJ r.2),
       ("errpos", arr ((r.1.errs.zip r.1.errAt).map fun p => posJ text p.1 p.2)),
       ("raisedpos", optJ (fun e => posJ text e r.1.rest) r.2)]

/-- reference value for the person clause: the persons of a (normalised) name-list value according
to the specification `BibSpec.personsOf` (`splitNameList` of C12, `Person()` of C04) -/
def personsSpecJ (v : Str) : Json := arr ((BibSpec.personsOf v).map personJ)

def bibparse (j : Json) : Except String Json := do
  let text ← getStr j "text"
  let strict ← getBool j "strict"
  let wanted ← match j.getObjVal? "wanted" with
    | .ok Json.null => pure none
    | .ok (Json.arr a) => do
      let l ← a.toList.mapM jsonToStr
      pure (some l)
    | _ => pure none
  let both := match j.getObjVal? "both" with | .ok (Json.bool true) => true | _ => false
  let names ← match j.getObjVal? "names" with
    | .ok (Json.arr a) => a.toList.mapM jsonToStr
    | _ => pure []
  let spec := obj [("persons", arr (names.map fun v => arr [strToJson v, personsSpecJ v]))]
  if both then
    pure (obj [("out", obj [("capture", resultPosJ text (parseBib text false wanted)),
                            ("strict", resultPosJ text (parseBib text true wanted))]), ("spec", spec)])
  else
    pure (obj [("out", resultJ (parseBib text strict wanted)), ("spec", spec)])


/-! ### function-level ops and the options of `Parser(...)` (round 2 extension) -/

def pairsOf (j : Json) (k : String) : Except String (List (Str × Str)) := do
  (← getArr j k).mapM fun p => do
    match p with
    | .arr a =>
      if a.size = 2 then pure (← jsonToStr a[0]!, ← jsonToStr a[1]!) else throw "pair expected"
    | _ => throw "pair expected"

def optBool (j : Json) (k : String) : Bool :=
  match j.getObjVal? k with | .ok (Json.bool true) => true | _ => false

def macrosOf (j : Json) : Except String (List (Str × Str)) :=
  match j.getObjVal? "macros" with
  | .ok Json.null => pure Gen.monthMacros
  | .ok _ => pairsOf j "macros"
  | _ => pure Gen.monthMacros

def rolesOf (j : Json) : Except String (List Str) :=
  match j.getObjVal? "roles" with
  | .ok Json.null => pure Gen.personRoles
  | .ok _ => getStrList j "roles"
  | _ => pure Gen.personRoles

/-- `parse_string(text, 'bibtex', macros=…, person_fields=…, keyless_entries=…)`, continue and strict mode -/
def bibopts (j : Json) : Except String Json := do
  let text ← getStr j "text"
  let keyless := optBool j "keyless"
  let macros ← macrosOf j
  let roles ← rolesOf j
  let wanted ← match j.getObjVal? "wanted" with
    | .ok (Json.arr a) => do pure (some (← a.toList.mapM jsonToStr))
    | _ => pure none
  pure (obj [("out", obj [("capture", resultJ (parseBibK keyless text false wanted macros roles)),
                          ("strict", resultJ (parseBibK keyless text true wanted macros roles))])])

/-- one `Parser(...)`, several texts: `for t in texts: parser.parse_string(t)` -/
def bibmany (j : Json) : Except String Json := do
  let texts ← getStrList j "texts"
  let keyless := optBool j "keyless"
  let macros ← macrosOf j
  let roles ← rolesOf j
  pure (obj [("out", obj [("capture", resultJ (parseBibManyK keyless texts false macros roles)),
                          ("strict", resultJ (parseBibManyK keyless texts true macros roles))])])

def abortJ : Abort → Json
  | .syn e => errJ e
  | .raised e => errJ e
  | .skip => arr [Json.str "SkipEntry", Json.null, Json.str ""]

def partsJ (fs : List (Str × List Str)) : Json := arr (fs.map fun f => arr [strToJson f.1, strs f.2])

def lowItemJ (i : LowItem) : Json :=
  match i.cmd with
  | .string => arr [Json.str "string", optJ strToJson i.fieldName, strs i.value]
  | .preamble v => arr [Json.str "preamble", strs v]
  | .entry t k fs => arr [Json.str "entry", strToJson t, optJ strToJson k, partsJ fs]

/-- the macro table as the lookups of the given names -/
def lookupsJ (m : CIDict Str) (names : List Str) : Json := arr (names.map fun n => optJ strToJson (m.getItem n))

/-- `list(LowLevelParser(text, keyless_entries=…, handle_error=…, macros=…))` -/
def lowlevel (j : Json) : Except String Json := do
  let text ← getStr j "text"
  let keyless := optBool j "keyless"
  let strict := optBool j "strict"
  let macros ← macrosOf j
  let probe ← getStrList j "probe"
  let r := lowLevel keyless text strict macros
  pure (obj [("out", obj [("items", arr (r.1.map lowItemJ)), ("errors", arr (r.2.1.errs.map errJ)),
                          ("raised", optJ errJ r.2.2), ("pos", nat (text.length - r.2.1.rest.length)),
                          ("lineno", nat r.2.1.ln), ("macros", lookupsJ r.2.1.macros probe)])])

def cmdOf (c : Json) : Except String Cmd := do
  match c.getObjVal? "preamble" with
  | .ok _ => pure (.preamble (← getStrList c "preamble"))
  | _ =>
    let ty ← getStr c "type"
    let key ← match c.getObjVal? "key" with
      | .ok Json.null => pure none
      | .ok k => pure (some (← jsonToStr k))
      | _ => pure none
    let fs ← (← getArr c "fields").mapM fun f => do
      match f with
      | .arr a => if a.size = 2 then do
                    let ps ← (← a[1]!.getArr?).toList.mapM jsonToStr
                    pure (← jsonToStr a[0]!, ps)
                  else throw "field expected"
      | _ => throw "field expected"
    pure (.entry ty key fs)

/-- `Parser(person_fields=…)`: `process_entry` / `process_preamble` applied to the given commands -/
def process (j : Json) : Except String Json := do
  let cmds ← (← getArr j "cmds").mapM cmdOf
  let roles ← rolesOf j
  let strict := optBool j "strict"
  let s0 : St := { rest := [], macros := CIDict.empty, strict := strict, roles := roles }
  pure (obj [("out", resultJ (processAll cmds s0))])

def patOf (n : Str) : Except String Pat :=
  match String.ofList n with
  | "NAME" => pure .name | "KEY_PAREN" => pure .keyParen | "KEY_BRACE" => pure .keyBrace | "NUMBER" => pure .number
  | "LBRACE" => pure (.lit '{') | "RBRACE" => pure (.lit '}') | "LPAREN" => pure (.lit '(') | "RPAREN" => pure (.lit ')')
  | "QUOTE" => pure (.lit '"') | "COMMA" => pure (.lit ',') | "EQUALS" => pure (.lit '=') | "HASH" => pure (.lit '#')
  | "AT" => pure (.lit '@')
  | x => throw s!"unknown pattern {x}"

def patName : Pat → String
  | .name => "NAME" | .keyParen => "KEY_PAREN" | .keyBrace => "KEY_BRACE" | .number => "NUMBER"
  | .lit '{' => "LBRACE" | .lit '}' => "RBRACE" | .lit '(' => "LPAREN" | .lit ')' => "RPAREN"
  | .lit '"' => "QUOTE" | .lit ',' => "COMMA" | .lit '=' => "EQUALS" | .lit '#' => "HASH" | .lit '@' => "AT"
  | .lit c => String.singleton c

/-- `LowLevelParser(text).get_token(patterns)`: the token (pattern, value), the position and the line behind it -/
def token (j : Json) : Except String Json := do
  let text ← getStr j "text"
  let pats ← (← getStrList j "pats").mapM patOf
  let out := match tokenAt pats text with
    | .ok t s => obj [("token", optJ (fun (p : Pat × Str) => arr [Json.str (patName p.1), strToJson p.2]) t),
                      ("pos", nat (text.length - s.rest.length)), ("lineno", nat s.ln), ("raised", Json.null)]
    | .fail a s => obj [("token", Json.null), ("pos", nat (text.length - s.rest.length)), ("lineno", nat s.ln),
                        ("raised", abortJ a)]
  pure (obj [("out", out), ("desc", Json.str (descOf pats))])

/-- `LowLevelParser(text, macros=…).parse_value()`: `current_value`, position, line, problems -/
def value (j : Json) : Except String Json := do
  let text ← getStr j "text"
  let strict := optBool j "strict"
  let macros ← macrosOf j
  let out := match valueAt text strict macros with
    | .ok _ s => obj [("value", strs s.curValue), ("pos", nat (text.length - s.rest.length)), ("lineno", nat s.ln),
                      ("errors", arr (s.errs.map errJ)), ("raised", Json.null)]
    | .fail a s => obj [("value", Json.null), ("pos", nat (text.length - s.rest.length)), ("lineno", nat s.ln),
                        ("errors", arr (s.errs.map errJ)), ("raised", abortJ a)]
  pure (obj [("out", out)])

/-- `textutils.normalize_whitespace` -/
def normws (j : Json) : Except String Json := do
  pure (obj [("out", strToJson (normalizeWs (← getStr j "text")))])

/-- `split_name_list` and, name by name, `Person(name)` -/
def splitnames (j : Json) : Except String Json := do
  let v ← getStr j "text"
  pure (obj [("out", obj [("names", strs (splitNameList v)), ("persons", personsSpecJ v)])])

/-- the texts the model hard-codes: pattern descriptions and the kinds of problems with their messages -/
def consts (_ : Json) : Except String Json := do
  let pats : List Pat := [.name, .keyParen, .keyBrace, .number, .lit '{', .lit '}', .lit '(', .lit ')', .lit '"',
                          .lit ',', .lit '=', .lit '#', .lit '@']
  let k : Str := "K".toList
  let f : Str := "F".toList
  let errs : List Err := [⟨.tokenRequired "X", some 1⟩, ⟨.prematureEOF, some 1⟩, ⟨.tooManyBraces, some 1⟩,
    ⟨.unbalancedBraces, some 1⟩, ⟨.undefinedMacro k, some 1⟩, ⟨.duplicateField k f, none⟩, ⟨.repeatedEntry k, none⟩]
  pure (obj [("out", obj [("desc", arr (pats.map fun p => arr [Json.str (patName p), Json.str p.desc])),
                          ("errors", arr (errs.map errJ)),
                          ("unnamed", strToJson ("unnamed-".toList ++ natToStr 7)),
                          ("keywords", strs ["string".toList, "preamble".toList, "comment".toList]),
                          ("months", arr (Gen.monthMacros.map fun p => arr [strToJson p.1, strToJson p.2])),
                          ("roles", strs Gen.personRoles)])])

def handlers : List (String × (Json → Except String Json)) :=
  [("bibparse", bibparse), ("c01_bibopts", bibopts), ("c01_bibmany", bibmany), ("c01_lowlevel", lowlevel), ("c01_process", process),
   ("c01_token", token), ("c01_value", value), ("c01_normws", normws), ("c01_splitnames", splitnames),
   ("c01_consts", consts)]

end Pybtex.Drv.C01
