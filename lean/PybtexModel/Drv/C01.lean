import PybtexModel.Drv.Json
import PybtexModel.Drv.C04
import PybtexModel.Model.BibParse
open Lean
namespace Pybtex.Drv.C01
open Pybtex.Bib

def errJ (e : Err) : Json :=
  let (cls, msg) : String × Str := match e.kind with
    | .tokenRequired d => ("TokenRequired", (d ++ " expected").toList)
    | .prematureEOF => ("PrematureEOF", "premature end of file".toList)
    | .tooManyBraces => ("PybtexSyntaxError", "too many nested braces".toList)
    | .unbalancedBraces => ("PybtexSyntaxError", "unbalanced braces".toList)
    | .undefinedMacro n => ("UndefinedMacro", n)
    | .duplicateField k f => ("DuplicateField", "entry with key ".toList ++ k ++ " has a duplicate ".toList ++ f ++ " field".toList)
    | .repeatedEntry k => ("BibliographyDataError", "repeated bibliography entry: ".toList ++ k)
    | .invalidName n => ("InvalidNameString", n)
    | .nameTooDeep => ("BibTeXError", "too many nested braces".toList)
    | .internal => ("INTERNAL", [])
  arr [Json.str cls, optJ nat e.line, strToJson msg]

def personJ (p : Person) : Json :=
  arr [strs p.first, strs p.middle, strs p.prelast, strs p.last, strs p.lineage]

def entryJ (e : Bib.Entry) : Json :=
  obj [("key", strToJson e.key), ("type", strToJson e.type), ("orig_type", strToJson e.origType),
       ("fields", arr (e.fields.map fun f => arr [strToJson f.1, strToJson f.2])),
       ("persons", arr (e.persons.map fun r => arr [strToJson r.1, arr (r.2.map personJ)]))]

def resultJ (r : St × Option Err) : Json :=
  obj [("entries", arr (r.1.db.entries.map entryJ)), ("preamble", strs r.1.db.preamble),
       ("errors", arr (r.1.errs.map errJ)), ("raised", optJ errJ r.2)]

def bibparse (j : Json) : Except String Json := do
  let text ← getStr j "text"
  let strict ← getBool j "strict"
  let wanted ← match j.getObjVal? "wanted" with
    | .ok Json.null => pure none
    | .ok (Json.arr a) => do
      let l ← a.toList.mapM jsonToStr
      pure (some l)
    | _ => pure none
  let both := match j.getObjVal? "both" with | .ok (Json.bool true) => true | _ => false
  if both then
    pure (obj [("out", obj [("capture", resultJ (parseBib text false wanted)), ("strict", resultJ (parseBib text true wanted))])])
  else
    pure (obj [("out", resultJ (parseBib text strict wanted))])

def handlers : List (String × (Json → Except String Json)) := [("bibparse", bibparse)]

end Pybtex.Drv.C01
