/-
C19, extension (round 2) — property theorems only.

* the helper `pybtex.utils.pairwise` refines `zip_longest(a, a[1:])`;
* the decision logic of `find_break` as an equivalence with the specification `FirstBreak`
  (`Spec/WrapPhys.lean`);
* the default arguments of `wrap` as read from the source on every run (`Gen/WrapDefaults.lean`);
* the call-by-call trace of `find_break` inside `iter_lines` (`iterCalls`) determines the yielded lines;
* `Interpreter.output` / `Interpreter.newline` call after call, from any state (`emit`, `Spec/BstSem.lean`);
* the PHYSICAL lines (`split('\n')`) of BibTeX-engine output, for the buffer fold and for every finished run of
  the interpreter model.
-/
import PybtexModel.Props.EngineC19
import PybtexModel.Lemmas.WrapPhys
import PybtexModel.Gen.WrapDefaults

namespace Pybtex.Props
open Pybtex Pybtex.Wrap Pybtex.Interp Pybtex.BstSem

/-! ### `pybtex.utils.pairwise` -/

/-- `pairwise(l)` is `zip_longest(l, l[1:])`: every element paired with its successor, the last one with
`None`; nothing for the empty list. -/
theorem C19_pairwise_spec {α : Type} : ∀ (l : List α),
    pairwise l = l.zip (l.tail.map some ++ [none])
  | [] => rfl
  | [_] => rfl
  | a :: b :: r => by
    have ih := C19_pairwise_spec (b :: r)
    simp only [pairwise, ih, List.tail_cons, List.map_cons, List.cons_append, List.zip_cons_cons]

theorem C19_pairwise_spec_nonvacuous :
    pairwise [3, 7, 12] = [(3, some 7), (7, some 12), (12, none)] ∧ pairwise ([] : List Nat) = [] := by
  decide

/-! ### the break candidates -/

/-- `[m.start() for m in whitespace_re.finditer(s)]` (model: `wsPositions`) is THE strictly increasing list of the
positions that hold a white-space character: membership is `WsAt`, the order is strict — which determines the
list.  (What the op `ws_positions` compares with the module's own regular expression on every code point.) -/
theorem C19_ws_positions_spec (s : Str) :
    (∀ q, q ∈ wsPositions s ↔ WsAt s q) ∧ (wsPositions s).Pairwise (· < ·) :=
  ⟨fun _ => mem_wsPositions, wsPositionsFrom_sorted s 0⟩

theorem C19_ws_positions_spec_nonvacuous :
    wsPositions " a\tb\u3000 ".toList = [0, 2, 4, 5] := by decide +kernel

/-! ### the decision `find_break` makes -/

/-- `find_break(s)` returns `p` EXACTLY when `p` is the position the specification `FirstBreak` describes
(white space strictly behind the indent; every later white space beyond the width; within the width unless
it is the first white space behind the indent), and returns `None` EXACTLY when there is no white space
behind the indent at all.  For every text, every integer width and every indent string. -/
theorem C19_find_break_decision (width : Int) (indent s : Str) :
    (∀ p, findBreak width indent s = some p ↔ FirstBreak width indent s p) ∧
    (findBreak width indent s = none ↔ ∀ q, WsAt s q → q ≤ indent.length) := by
  have hnone : findBreak width indent s = none ↔ ∀ q, WsAt s q → q ≤ indent.length := by
    constructor
    · exact findBreak_none
    · intro h
      cases hb : findBreak width indent s with
      | none => rfl
      | some p =>
        obtain ⟨h1, h2, _, _⟩ := findBreak_some hb
        have := h p h2
        omega
  refine ⟨fun p => ⟨?_, ?_⟩, hnone⟩
  · intro h
    obtain ⟨h1, h2, h3, h4⟩ := findBreak_some h
    exact ⟨h1, h2, h4, h3⟩
  · intro ⟨h1, h2, h3, h4⟩
    cases hb : findBreak width indent s with
    | none =>
      have := hnone.1 hb p h2
      omega
    | some p0 =>
      obtain ⟨g1, g2, g3, g4⟩ := findBreak_some hb
      rcases Nat.lt_trichotomy p0 p with hlt | heq | hgt
      · have a := h4 p0 g1 hlt g2
        have b := g4 p hlt h2
        omega
      · rw [heq]
      · have a := g3 p h1 hgt h2
        have b := h3 p0 hgt g2
        omega

/-- the three outcomes: a break inside the width, the fallback behind an over-long word, `None` -/
theorem C19_find_break_decision_nonvacuous :
    findBreak 11 "  ".toList "01234 6789 12345".toList = some 10 ∧
    findBreak 3 "  ".toList "aaaa b c".toList = some 4 ∧
    findBreak 3 "  ".toList "aa bbbb".toList = none := by
  decide +kernel

/-- **Refinement to the specification.**  The lines `iter_lines` yields are THE wrapping `IsWrapping` describes
(`Spec/WrapPhys.lean`: stated through `FirstBreak`, without `find_break`, `pairwise` or the loop): the relation holds of
`iterLines`, and of nothing else — for every text, every integer width and every indent string. -/
theorem C19_wrap_refines_spec (width : Int) (indent s : Str) (L : List Str) :
    IsWrapping width indent s L ↔ L = iterLines width indent s := by
  constructor
  · intro h
    induction h with
    | short s hs => rw [iterLines_short hs]
    | nobreak s hl hno => rw [iterLines_none hl ((C19_find_break_decision width indent s).2.2 hno)]
    | step s p L hl hfb _ ih =>
      rw [iterLines_some hl (((C19_find_break_decision width indent s).1 p).2 hfb), ih]
  · intro h
    subst h
    refine iterLines_induct (w := width) (ind := indent) (fun s L => IsWrapping width indent s L) ?_ ?_ ?_ s
    · intro s hs; exact .short s hs
    · intro s hl hb; exact .nobreak s hl (findBreak_none hb)
    · intro s p hl hb ih
      exact .step s p _ hl (((C19_find_break_decision width indent s).1 p).1 hb) ih

/-- the specification derives the doctest `wrap('aa bb c', 3)`: the blank at column 2 is inside the indent region, the
first line ends at the first white space behind it although that lies beyond the width -/
theorem C19_wrap_refines_spec_nonvacuous :
    IsWrapping 3 "  ".toList "aa bb c".toList ["aa bb".toList, "  c".toList] :=
  (C19_wrap_refines_spec _ _ _ _).2 (by decide +kernel)

/-! ### the default arguments -/

/-- The call `Interpreter.newline` makes, `wrap(text)`, is `wrap` at the width and with the indent that the
signature of `pybtex.bibtex.utils.wrap` declares TODAY (`Gen/WrapDefaults.lean`, regenerated from
`inspect.signature` on every run), and these are 79 and two blanks (what the property states).  (The pattern of
`whitespace_re` is deliberately NOT compared as text — `(\s)` and `\s` behave alike; it is compared by behaviour on every
code point, op `ws_positions`.) -/
theorem C19_defaults_from_source :
    (∀ T, wrapDefault T = wrap Gen.wrapDefaultWidth Gen.wrapDefaultIndent T) ∧
    Gen.wrapDefaultWidth = 79 ∧ Gen.wrapDefaultIndent = [' ', ' '] ∧
    defaultWidth = Gen.wrapDefaultWidth ∧ defaultIndent = Gen.wrapDefaultIndent := by
  refine ⟨fun _ => rfl, by decide, by decide, by decide, by decide⟩

/-! ### `find_break` call by call -/

/-- [model wiring + invariant] The lines `iter_lines` yields are determined by the sequence of `find_break`
calls of the loop (`iterCalls`: argument and result of every call): `linesOfCalls` replays them; every call
has an argument longer than the width and returns `find_break` of that argument. -/
theorem C19_calls_lines (width : Int) (indent s : Str) :
    iterLines width indent s = linesOfCalls indent s (iterCalls width indent s) ∧
    (∀ c ∈ iterCalls width indent s, (c.1.length : Int) > width ∧ c.2 = findBreak width indent c.1) :=
  ⟨iterLines_eq_linesOfCalls width indent s, iterCalls_spec width indent s⟩

theorem C19_calls_lines_nonvacuous :
    iterCalls 3 "  ".toList "aaaa b c".toList =
      [("aaaa b c".toList, some 4), ("  b c".toList, some 3)] ∧
    iterCalls 3 "  ".toList "aa bbbb".toList = [("aa bbbb".toList, none)] := by
  decide +kernel

/-! ### `Interpreter.output` / `Interpreter.newline`, call after call -/

/-- ANY sequence of `output(x)` / `newline()` calls from ANY state `(output_lines, output_buffer)`: the
lines gain, for every `newline` call in order, `wrap(concatenation of the pieces buffered since the previous
one)` and a line feed (the first group starts with what the buffer already held); the buffer ends up holding
exactly the pieces written after the last `newline` — nothing of it is in the output, nothing leaks from one
group into the next.  Consequently `''.join(output_lines)` of a fresh interpreter is `engineOutput` of the
groups (`C19_engine_output` applies). -/
theorem C19_engine_calls (evs : List OutEv) (ls buf : List Str) :
    evs.foldl emit (ls, buf) =
      (ls ++ ((traceGroups buf evs).map fun g => [wrapDefault g.flatten, ['\n']]).flatten,
       tracePending buf evs) ∧
    (evs.foldl emit ([], [])).1.flatten = engineOutput (traceGroups [] evs) := by
  refine ⟨foldl_emit evs ls buf, ?_⟩
  have h := render_spec evs [] []
  have h2 := render_eq_engineOutput evs []
  simp only [List.flatten_nil, List.nil_append] at h h2
  rw [h, h2]

theorem C19_engine_calls_nonvacuous :
    [OutEv.write "b".toList, .newline, .write "c d".toList, .newline, .write "e".toList].foldl emit
        (["x".toList], ["a ".toList]) =
      (["x".toList, "a b".toList, ['\n'], "c d".toList, ['\n']], ["e".toList]) := by
  decide +kernel

/-! ### physical lines of the engine output -/

/-- **The physical lines of BibTeX-engine output** (`observe_at`).  For `newline$` groups whose pieces hold
no line feed: `bbl.split('\n')` is, group after group, the emitted lines of `wrap(concatenation of the
group)` — ONE EMPTY line for a group that wraps to nothing (empty buffer) — followed by the empty string
behind the last line feed.  Hence EVERY physical line of the file ends in no white space, and a physical line
longer than 79 columns has no white space behind column 2 (no legal break point); within a group every physical
line after the first starts with two blanks or is empty (the recorded finding C19-blank-continuation-line). -/
theorem C19_physical_lines (ls : List (List Str)) (hnl : ∀ p ∈ ls, '\n' ∉ p.flatten) :
    splitNl (engineOutput ls) = (ls.map fun p => groupPhysLines p.flatten).flatten ++ [[]] ∧
    (∀ e ∈ splitNl (engineOutput ls),
      NoTrailingWs e ∧ (e.length > 79 → ∀ q, 2 < q → ¬ WsAt e q)) ∧
    (∀ p ∈ ls, ∀ e ∈ (groupPhysLines p.flatten).tail, [' ', ' '] <+: e ∨ e = []) := by
  have h1 := splitNl_engineOutput ls hnl
  refine ⟨h1, ?_, ?_⟩
  rotate_left
  · intro p _ e he
    have hd := (C19_default_lines p.flatten).2.2.2.2.1
    unfold groupPhysLines at he
    split at he
    · simp at he
    · exact hd e he
  intro e he
  rw [h1] at he
  have hnil : NoTrailingWs ([] : Str) ∧ (([] : Str).length > 79 → ∀ q, 2 < q → ¬ WsAt ([] : Str) q) :=
    ⟨fun c hc => by simp at hc, fun h => by simp at h⟩
  rcases List.mem_append.1 he with he | he
  · obtain ⟨L, hL, heL⟩ := List.mem_flatten.1 he
    obtain ⟨p, _, rfl⟩ := List.mem_map.1 hL
    have hd := C19_default_lines p.flatten
    unfold groupPhysLines at heL
    split at heL
    · simp only [List.mem_singleton] at heL; subst heL; exact hnil
    · rename_i hne
      exact ⟨hd.2.2.2.2.2.2 e heL, hd.2.2.2.2.2.1 e heL⟩
  · simp only [List.mem_singleton] at he; subst he; exact hnil

/-- two groups (the second one empty) and an 84-column group that is wrapped -/
theorem C19_physical_lines_nonvacuous :
    splitNl (engineOutput [["ab".toList, " c ".toList], [], [List.replicate 78 'a', " bbb ".toList, "cc".toList]]) =
      ["ab c".toList, [], List.replicate 78 'a', "  bbb cc".toList, []] := by
  decide +kernel

/-- The same for EVERY finished run of the interpreter model (`Interp.run`, any `.bst` program, input and
fuel) in which no `write$` group contains a line feed: the physical lines of the returned `.bbl` text are the
emitted lines of the groups of its trace; each ends in no white space and, when longer than 79 columns, has
no white space behind column 2. -/
theorem C19_engine_run_physical (fuel : Nat) (prog : Bst.Program) (inp : Interp.Input) (out : Interp.Output)
    (h : Interp.run fuel prog inp = .ok out) :
    ∃ s, Interp.runProgram fuel inp prog { vars := Interp.initVars, citations := inp.citations } = .ok s ∧
      ((∀ p ∈ traceGroups [] s.trace, '\n' ∉ p.flatten) →
        splitNl out.bbl = ((traceGroups [] s.trace).map fun p => groupPhysLines p.flatten).flatten ++ [[]] ∧
        (∀ e ∈ splitNl out.bbl, NoTrailingWs e ∧ (e.length > 79 → ∀ q, 2 < q → ¬ WsAt e q)) ∧
        (∀ p ∈ traceGroups [] s.trace, ∀ e ∈ (groupPhysLines p.flatten).tail, [' ', ' '] <+: e ∨ e = [])) := by
  obtain ⟨s, hs, hb, _⟩ := C19_engine_run fuel prog inp out h
  refine ⟨s, hs, fun hnl => ?_⟩
  rw [hb]
  exact C19_physical_lines _ hnl

end Pybtex.Props
