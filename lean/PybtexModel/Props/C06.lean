import PybtexModel.Model.Engine
namespace Pybtex.Props
end Pybtex.Props
