/-
C06 — BibTeX-engine output depends only on the cited entries and the style.

Property theorems only.  Model of the code: `Model/Engine.lean` (`makeBibliography`,
`formatFromFiles`) on top of `Model/Interp.lean` (the interpreter), `Model/AuxFile.lean` (the
`.aux` reader, C20), `Model/Citations.lean` / `Model/Crossref.lean` (C05, C14); helper lemmas:
`Lemmas/Engine.lean`, `Lemmas/EngineRun.lean`, `Lemmas/EngineItems.lean`, `Lemmas/EngineSwap.lean`.
-/
import PybtexModel.Lemmas.EngineSwap

namespace Pybtex.Props
open Pybtex Pybtex.Interp Pybtex.Engine

/-! ### examples used by the non-vacuity theorems -/
namespace C06Ex
/-- string literal as model string -/
def s (x : String) : Str := x.toList

/-- unsorted, reversed and sorting tiny styles: one line per entry, the key -/
def bst : Str := s "ENTRY {title}{}{} FUNCTION {f} {cite$ write$ newline$} READ ITERATE {f}"
def bstRev : Str := s "ENTRY {title}{}{} FUNCTION {f} {cite$ write$ newline$} READ REVERSE {f}"
def bstSorted : Str :=
  s "ENTRY {title}{}{} FUNCTION {k} {title 'sort.key$ :=} FUNCTION {f} {cite$ write$ newline$} READ ITERATE {k} SORT ITERATE {f}"
/-- two entries; the same two in the other order after an uncited one -/
def bib : Str := s "@misc{a, title = {Z}}\n@misc{b, title = {Y}}\n"
def bib2 : Str := s "@misc{noise, title = {N}}\n@misc{b, title = {Y}}\n@misc{a, title = {Z}}\n"

def files : Files :=
  { aux := fun p =>
      if p = s "/D/doc.aux" then some [s "\\citation{a,b}", s "\\bibstyle{/D/s}", s "\\bibdata{/D/refs}"] else none,
    text := fun p =>
      if p = s "/D/s.bst" then some bst
      else if p = s "/D/r.bst" then some bstRev
      else if p = s "/D/t.bst" then some bstSorted
      else if p = s "/D/refs.bib" then some bib
      else if p = s "/D/refs2.bib" then some bib2
      else none }

/-- what a YAML reader would deliver for `bib` -/
def altDb : List (Str × Bib.Entry) × List Str :=
  ([(s "a", { key := s "a", type := s "misc", origType := s "misc", fields := [(s "title", s "Z")], persons := [] }),
    (s "b", { key := s "b", type := s "misc", origType := s "misc", fields := [(s "title", s "Y")], persons := [] })], [])

/-- the `.bbl` text, `none` on error -/
def bbl {α : Type} (r : Except Err α) (f : α → Result) : Option Str :=
  match r with
  | .ok x => some (f x).bbl
  | .error _ => none

def auxFatal {α : Type} (r : Except Err α) : Option Aux.Fatal :=
  match r with
  | .error (.aux a) => some a.fatal
  | _ => none

def cannotOpen {α : Type} (r : Except Err α) : Option Str :=
  match r with
  | .error (.cannotOpen p) => some p
  | _ => none

def auxView (r : Except Aux.Abort Aux.St) : Option (Option Str × Option (List Str) × List Str) :=
  match r with
  | .ok st => some (st.style, st.data, st.citations)
  | .error _ => none

/-- `FUNCTION {f} {cite$ write$ newline$}` -/
def fEx : VarObj := .func [.name (s "cite$"), .name (s "write$"), .name (s "newline$")]
/-- the three built-ins are what they are and the output buffer is empty between items -/
def InvEx (st : St) : Prop :=
  st.vars.getItem (s "cite$") = some (.builtin .cite) ∧ st.vars.getItem (s "write$") = some (.builtin .write) ∧
  st.vars.getItem (s "newline$") = some (.builtin .newline) ∧ st.buffer = []
/-- one line: the key -/
def itemEx (k : Str) : List Str := [Wrap.wrapDefault [k].flatten, ['\n']]

/-- the style `READ FUNCTION {f} {cite$ write$ newline$} ITERATE {f}`, parsed -/
def rdEx : Bst.Command := ⟨s "READ", []⟩
def postEx : Bst.Program :=
  [⟨s "FUNCTION", [[.name (s "f")], [.name (s "cite$"), .name (s "write$"), .name (s "newline$")]]⟩,
   ⟨s "ITERATE", [[.name (s "f")]]⟩]

def ent (k t : String) : Str × Bib.Entry :=
  (s k, { key := s k, type := s "misc", origType := s "misc", fields := [(s "title", s t)], persons := [] })
/-- two readers' databases: the same two cited entries, in the other order after an uncited one -/
def inp1 : Input := { bibTexts := [], citations := [s "a", s "b"], alt := some ([ent "a" "Z", ent "b" "Y"], []) }
def inp2 : Input := { bibTexts := [], citations := [s "a", s "b"], alt := some ([ent "noise" "N", ent "b" "Y", ent "a" "Z"], []) }

/-- the state in which `READ` runs -/
def S0 : St := { vars := initVars, citations := [s "a", s "b"] }
def db1 : BibData := convertDb (readParsed inp1 S0).db
def db2 : BibData := convertDb (readParsed inp2 S0).db

/-- an entry as plain lists (to compare entries by evaluation) -/
structure EntV where
  key : Str
  type : Str
  fd : List (Str × Str)
  fk : List (Str × Str)
  pd : List (Str × List Str)
  pk : List (Str × Str)
deriving DecidableEq

def entView (e : Entry) : EntV :=
  ⟨e.key, e.type, e.fields.dict, e.fields.keys, e.persons.dict, e.persons.keys⟩

theorem entView_inj {a b : Option Entry} (h : a.map entView = b.map entView) : a = b := by
  cases a with
  | none => cases b with
    | none => rfl
    | some y => cases h
  | some x => cases b with
    | none => cases h
    | some y =>
      obtain ⟨k1, t1, ⟨fd1, fk1⟩, ⟨pd1, pk1⟩⟩ := x
      obtain ⟨k2, t2, ⟨fd2, fk2⟩, ⟨pd2, pk2⟩⟩ := y
      simp only [Option.map_some, Option.some.injEq, entView, EntV.mk.injEq] at h
      obtain ⟨rfl, rfl, rfl, rfl, rfl, rfl⟩ := h
      rfl
end C06Ex
open C06Ex

/-! ### 1. entry-point equivalence and overrides -/

/-- Driving the engine through an `.aux` file is the explicit call with what the `.aux` reader
returns, byte for byte (`.bbl`, the interpreter's reports, printed output) and with the reader's
own reports attached; a failure of the reader (fatal `AuxDataError`, unreadable file) is the
failure of the run; a failure of the explicit call is the failure of the run. -/
theorem C06_aux_equiv (files : Files) (aux : Str) (fuel : Nat) (mc : Int) :
    (∀ a, Aux.parse files.aux fuel aux = .error a →
        makeBibliography files aux fuel none none mc = .error (.aux a)) ∧
    (∀ st, Aux.parse files.aux fuel aux = .ok st →
        ∃ style data, st.style = some style ∧ st.data = some data ∧
          makeBibliography files aux fuel none none mc =
            (formatFromFiles files (data.map fun d => .file (d ++ ".bib".toList)) style st.citations mc none).map
              (fun r => (r, st.reports))) := by
  constructor
  · intro a h
    simp only [makeBibliography, h]
  · intro st h
    obtain ⟨⟨style, hs⟩, ⟨data, hd⟩⟩ := parse_ok_style_data _ _ _ _ h
    refine ⟨style, data, hs, hd, ?_⟩
    simp only [makeBibliography, h, hs, hd, Option.getD_none, bibtexFormat, bibSrcs]
    cases formatFromFiles files (data.map fun d => Src.file (d ++ ".bib".toList)) style st.citations mc none <;> rfl

theorem C06_aux_equiv_nonvacuous :
    auxView (Aux.parse files.aux 3 (s "/D/doc.aux")) = some (some (s "/D/s"), some [s "/D/refs"], [s "a", s "b"]) ∧
    bbl (makeBibliography files (s "/D/doc.aux") 3 none none 2) (·.1) = some (s "a\nb\n") ∧
    bbl (formatFromFiles files [.file (s "/D/refs.bib")] (s "/D/s") [s "a", s "b"] 2 none) id = some (s "a\nb\n") ∧
    -- an unreadable `.aux` file is the error of the run
    auxFatal (makeBibliography files (s "/D/nope.aux") 3 none none 2) = some (.cannotOpen (s "/D/nope.aux")) := by
  decide +kernel

/-- An explicitly requested style or database format overrides what the `.aux` file or the
default says.
(1) With `style = s'` the run is the explicit call with style `s'`, whatever `\bibstyle` says
(the right-hand side does not mention the style of the `.aux` file); the reader's suffix and
database are passed on.
(2) With a `bib_format` reader (database `db`) the explicit call does not depend on the names or
the contents of the `.bib` files (no source is opened; only the `.bst` file is read) …
(3) … nor does the interpreter look at `.bib` texts, whatever they are …
(4) … because `READ` stores the reader's database. -/
theorem C06_overrides (files : Files) (aux : Str) (fuel : Nat) (mc : Int) :
    (∀ st, Aux.parse files.aux fuel aux = .ok st →
        ∃ data, st.data = some data ∧ ∀ s' (fmt : Format),
          makeBibliography files aux fuel (some s') (some fmt) mc =
            (formatFromFiles files (data.map fun d => .file (d ++ fmt.suffix)) s' st.citations mc fmt.alt).map
              (fun r => (r, st.reports))) ∧
    (∀ (files' : Files) srcs srcs' style cites db,
        files'.text (style ++ ".bst".toList) = files.text (style ++ ".bst".toList) →
        formatFromFiles files srcs style cites mc (some db) =
          formatFromFiles files' srcs' style cites mc (some db)) ∧
    (∀ rfuel prog ts ts' cites db,
        run rfuel prog { bibTexts := ts, citations := cites, minCrossrefs := mc, alt := some db } =
          run rfuel prog { bibTexts := ts', citations := cites, minCrossrefs := mc, alt := some db }) ∧
    (∀ rfuel (inp : Input) (c : Bst.Command) (s : St) es pre, upper c.name = "READ".toList →
        inp.alt = some (es, pre) → runCommand rfuel inp c s = .ok (readAlt inp s es pre)) := by
  refine ⟨?_, ?_, ?_, ?_⟩
  · intro st h
    obtain ⟨⟨style, hs⟩, ⟨data, hd⟩⟩ := parse_ok_style_data _ _ _ _ h
    refine ⟨data, hd, ?_⟩
    intro s' fmt
    simp only [makeBibliography, h, hs, hd, Option.getD_some, bibSrcs]
    cases formatFromFiles files (data.map fun d => Src.file (d ++ fmt.suffix)) s' st.citations mc fmt.alt <;> rfl
  · intro files' srcs srcs' style cites db ht
    simp only [formatFromFiles, interpreterRun, ht, runProgramF_alt runFuel files files' srcs srcs' cites mc db]
  · intro rfuel prog ts ts' cites db
    exact run_alt rfuel ts ts' cites mc db prog
  · intro rfuel inp c s es pre hc ha
    rw [runCommand_read rfuel inp c s hc]
    simp only [readFinish, readParsed, ha, readAlt, readSt0, foldl_addStep_preamble]

theorem C06_overrides_nonvacuous :
    -- `\bibstyle{/D/s}` (citation order) overridden by the sorting style `/D/t`
    bbl (makeBibliography files (s "/D/doc.aux") 3 (some (s "/D/t")) none 2) (·.1) = some (s "b\na\n") ∧
    bbl (formatFromFiles files [.file (s "/D/refs.bib")] (s "/D/t") [s "a", s "b"] 2 none) id = some (s "b\na\n") ∧
    -- a `bib_format` reader: `/D/refs.yaml` is not among the texts, the reader's database is used
    bbl (makeBibliography files (s "/D/doc.aux") 3 none (some ⟨s ".yaml", some altDb⟩) 2) (·.1) = some (s "a\nb\n") ∧
    cannotOpen (makeBibliography files (s "/D/doc.aux") 3 none (some ⟨s ".yaml", none⟩) 2) = some (s "/D/refs.yaml") := by
  decide +kernel

/-! ### 2. frame: after `READ` the database matters only through the view of the cited keys

`Agree K db₁ db₂` (`Lemmas/Engine.lean`): for every key of `K` both databases have an entry, of
the same type, with the same value for every field name — own or inherited along the `crossref`
chain (`bstFieldValue`, C14) — and the same `crossref` value (`bstCrossrefValue`).
`Good K db₁ s`: `s` is a state of the run on `db₁` (`s.db = some db₁`) whose current entry (if
any) and citations are keys of `K`.  `setDb db₂ pfx s` is `s` with the database replaced by `db₂`
and the reports `pfx` put in front of its reports (`pfx = []`: only the database differs).
`SimR K db₁ db₂ pfx r₁ r₂`: both results are the same error, or `r₁ = ok s₁`,
`r₂ = ok (setDb db₂ pfx s₁)` with `Good K db₁ s₁` — same stack, variables, entry variables,
buffer, output lines, citations, current entry, preamble and printed text, the same reports after
the prefix; only the database (and the prefix) differs. -/

/-- THE frame theorem.  If two databases agree on the keys `K`, then from two states that differ
in the database only (and in reports made earlier, `pfx`), every piece of the interpreter — a popped value, a variable, a token, a
function body, a `while$` loop, every built-in (for every amount of fuel), `ITERATE`/`REVERSE`
over keys of `K`, every command except `READ`, every `READ`-free program — produces results that
again differ in the database only (or the same error). -/
theorem C06_frame (K : List Str) (db₁ db₂ : BibData) (hA : Agree K db₁ db₂) (pfx : List Interp.Report)
    (fuel : Nat) :
    (∀ v s, Good K db₁ s → SimR K db₁ db₂ pfx (execVal fuel v s) (execVal fuel v (setDb db₂ pfx s))) ∧
    (∀ o s, Good K db₁ s → SimR K db₁ db₂ pfx (execObj fuel o s) (execObj fuel o (setDb db₂ pfx s))) ∧
    (∀ t s, Good K db₁ s → SimR K db₁ db₂ pfx (execTok fuel t s) (execTok fuel t (setDb db₂ pfx s))) ∧
    (∀ ts s, Good K db₁ s → SimR K db₁ db₂ pfx (execBody fuel ts s) (execBody fuel ts (setDb db₂ pfx s))) ∧
    (∀ p f s, Good K db₁ s → SimR K db₁ db₂ pfx (whileLoop fuel p f s) (whileLoop fuel p f (setDb db₂ pfx s))) ∧
    (∀ b s, Good K db₁ s → SimR K db₁ db₂ pfx (runBuiltin fuel b s) (runBuiltin fuel b (setDb db₂ pfx s))) ∧
    (∀ f keys s, (∀ k ∈ keys, k ∈ K) → Good K db₁ s →
        SimR K db₁ db₂ pfx (iterate fuel f keys s) (iterate fuel f keys (setDb db₂ pfx s))) ∧
    (∀ (inp₁ inp₂ : Input) c s, upper c.name ≠ "READ".toList → Good K db₁ s →
        SimR K db₁ db₂ pfx (runCommand fuel inp₁ c s) (runCommand fuel inp₂ c (setDb db₂ pfx s))) ∧
    (∀ (inp₁ inp₂ : Input) prog s, (∀ c ∈ prog, upper c.name ≠ "READ".toList) → Good K db₁ s →
        SimR K db₁ db₂ pfx (runProgram fuel inp₁ prog s) (runProgram fuel inp₂ prog (setDb db₂ pfx s))) := by
  obtain ⟨h1, h2, h3, h4, h5, h6⟩ := frame_all (pfx := pfx) hA fuel
  exact ⟨h1, h2, h3, h4, h5, h6,
    fun f keys s hk g => iterate_sim hA fuel f keys hk s g,
    fun inp₁ inp₂ c s hc g => runCommand_sim hA fuel inp₁ inp₂ c hc s g,
    fun inp₁ inp₂ prog s hp g => runProgram_sim hA fuel inp₁ inp₂ prog hp s g⟩

/-- The view of a key is determined by its cross-reference closure (with C14): if the two
databases have the same entries on a set `C` of keys that is closed under following `crossref`
fields, they agree — in the sense the frame theorem needs — on every key of `C` that has an
entry.  Entries outside `C` (uncited, unreferenced) and the order of the entries are irrelevant. -/
theorem C06_frame_closure (C : Str → Prop) (db₁ db₂ : BibData) (K : List Str)
    (hget : ∀ k, C k → db₁.entries.getItem k = db₂.entries.getItem k)
    (hcl : ∀ k e x, C k → db₁.entries.getItem k = some e → e.fields.getItem xrefName = some x → C x)
    (hK : ∀ k ∈ K, C k ∧ (db₁.entries.getItem k).isSome = true) :
    Agree K db₁ db₂ :=
  agree_of_closed ⟨hget, hcl⟩ K hK

/-- the two example databases (they differ in the order of the entries) satisfy the hypotheses with
`C` = the two cited keys in any letter case -/
theorem C06_frame_closure_nonvacuous : Agree [s "a", s "b"] db1 db2 := by
  refine C06_frame_closure (fun k => lower k = s "a" ∨ lower k = s "b") db1 db2 _ ?_ ?_ ?_
  · intro k hk
    rcases hk with hk | hk
    · rw [getItem_lower_congr _ (show lower k = lower (s "a") from hk.trans (by decide)),
        getItem_lower_congr db2.entries (show lower k = lower (s "a") from hk.trans (by decide))]
      exact entView_inj (by decide +kernel)
    · rw [getItem_lower_congr _ (show lower k = lower (s "b") from hk.trans (by decide)),
        getItem_lower_congr db2.entries (show lower k = lower (s "b") from hk.trans (by decide))]
      exact entView_inj (by decide +kernel)
  · intro k e x hk he hx
    exfalso
    rcases hk with hk | hk
    · rw [getItem_lower_congr _ (show lower k = lower (s "a") from hk.trans (by decide))] at he
      have : (db1.entries.getItem (s "a")).bind (fun e => e.fields.getItem xrefName) = none := by decide +kernel
      rw [he] at this
      simp [hx] at this
    · rw [getItem_lower_congr _ (show lower k = lower (s "b") from hk.trans (by decide))] at he
      have : (db1.entries.getItem (s "b")).bind (fun e => e.fields.getItem xrefName) = none := by decide +kernel
      rw [he] at this
      simp [hx] at this
  · decide +kernel

theorem C06_frame_nonvacuous :
    Agree [s "a", s "b"] db1 db2 ∧ CIDict.iter db1.entries ≠ CIDict.iter db2.entries ∧
    Good [s "a", s "b"] db1 (readFinish inp1 S0 (readParsed inp1 S0)) :=
  ⟨C06_frame_closure_nonvacuous, by decide +kernel, ⟨rfl, (fun k hk => nomatch hk), by decide +kernel⟩⟩

/-- The `READ` hypothesis of `C06_frame_run`, reduced to the two readers' results.  With
`P₁ P₂` the parser states after reading (`readParsed`: the `.bib` texts, or the entries of
another reader) and `dbᵢ = convertDb Pᵢ.db`: if preamble and reader reports coincide, citation
resolution (C05: `addExtraCitations`, `removeMissing`) gives the same keys and reports on both
databases, and the databases agree on the resolved citations, then the two `READ` steps leave
states that differ in the database only.  (That resolution coincides when the files differ in
uncited, unreferenced entries or in order is C05's filtered-reading theorem with its ordering
proviso; `C06_frame_uncited_alt` proves the insertion case for a reader's entry list.) -/
theorem C06_frame_read (fuel : Nat) (inp₁ inp₂ : Input) (rd : Bst.Command) (s : St)
    (hrd : upper rd.name = "READ".toList)
    (hpre : (readParsed inp₂ s).db.preamble.flatten = (readParsed inp₁ s).db.preamble.flatten)
    (herr : (readParsed inp₂ s).errs.map Report.bib = (readParsed inp₁ s).errs.map Report.bib)
    (hx : (convertDb (readParsed inp₂ s).db).addExtraCitations s.citations inp₂.minCrossrefs =
      (convertDb (readParsed inp₁ s).db).addExtraCitations s.citations inp₁.minCrossrefs)
    (hm : (convertDb (readParsed inp₂ s).db).removeMissing
        ((convertDb (readParsed inp₁ s).db).addExtraCitations s.citations inp₁.minCrossrefs).1 =
      (convertDb (readParsed inp₁ s).db).removeMissing
        ((convertDb (readParsed inp₁ s).db).addExtraCitations s.citations inp₁.minCrossrefs).1)
    (hA : Agree ((convertDb (readParsed inp₁ s).db).removeMissing
        ((convertDb (readParsed inp₁ s).db).addExtraCitations s.citations inp₁.minCrossrefs).1).1
      (convertDb (readParsed inp₁ s).db) (convertDb (readParsed inp₂ s).db)) :
    ∃ s₁ db₁ db₂, runCommand fuel inp₁ rd s = .ok s₁ ∧ s₁.db = some db₁ ∧
      runCommand fuel inp₂ rd s = .ok (setDb db₂ [] s₁) ∧ Agree s₁.citations db₁ db₂ := by
  refine ⟨readFinish inp₁ s (readParsed inp₁ s), convertDb (readParsed inp₁ s).db,
    convertDb (readParsed inp₂ s).db, runCommand_read fuel inp₁ rd s hrd, rfl, ?_, hA⟩
  rw [runCommand_read fuel inp₂ rd s hrd, readFinish_setDb inp₁ inp₂ s _ _ hpre herr hx hm]

theorem C06_frame_read_nonvacuous :
    (readParsed inp2 S0).db.preamble.flatten = (readParsed inp1 S0).db.preamble.flatten ∧
    (readParsed inp1 S0).errs.isEmpty = true ∧ (readParsed inp2 S0).errs.isEmpty = true ∧
    (convertDb (readParsed inp2 S0).db).addExtraCitations S0.citations inp2.minCrossrefs =
      (convertDb (readParsed inp1 S0).db).addExtraCitations S0.citations inp1.minCrossrefs ∧
    ((convertDb (readParsed inp1 S0).db).removeMissing
      ((convertDb (readParsed inp1 S0).db).addExtraCitations S0.citations inp1.minCrossrefs).1).1 = [s "a", s "b"] := by
  decide +kernel

/-- Two whole runs of a style `pre; READ; post` (no other `READ`) on two inputs with the same
citation list: if the two `READ` steps — whatever the `.bib` texts or reader databases are —
leave states that differ in the database only (same resolved citations, preamble, reports) and
the two databases agree on the resolved citations, then the runs are equal: same `.bbl` text,
same reports, same printed output, or the same error. -/
theorem C06_frame_run (fuel : Nat) (inp₁ inp₂ : Input) (pre post : Bst.Program) (rd : Bst.Command)
    (hcit : inp₁.citations = inp₂.citations)
    (hpre : ∀ c ∈ pre, upper c.name ≠ "READ".toList) (hrd : upper rd.name = "READ".toList)
    (hpost : ∀ c ∈ post, upper c.name ≠ "READ".toList)
    (hread : ∀ s, runProgram fuel inp₁ pre { vars := initVars, citations := inp₁.citations } = .ok s →
      ∃ s₁ db₁ db₂, runCommand fuel inp₁ rd s = .ok s₁ ∧ s₁.db = some db₁ ∧
        runCommand fuel inp₂ rd s = .ok (setDb db₂ [] s₁) ∧ Agree s₁.citations db₁ db₂) :
    run fuel (pre ++ rd :: post) inp₁ = run fuel (pre ++ rd :: post) inp₂ := by
  simp only [run, ← hcit, runProgram_append]
  rw [← runProgram_inp fuel inp₁ inp₂ pre _ hpre]
  have hk := runProgram_keep fuel inp₁ pre hpre { vars := initVars, citations := inp₁.citations } rfl
  cases hp : runProgram fuel inp₁ pre { vars := initVars, citations := inp₁.citations } with
  | error e => rfl
  | ok s =>
    rw [hp] at hk
    obtain ⟨s₁, db₁, db₂, h1, hdb, h2, hA⟩ := hread s hp
    simp only [runProgram, h1, h2]
    have hcur : s₁.cur = none := by
      rw [runCommand_read fuel inp₁ rd s hrd] at h1
      injection h1 with h1
      rw [← h1]
      exact hk.1
    have g : Good s₁.citations db₁ s₁ :=
      ⟨hdb, fun k hk' => (by rw [hcur] at hk'; exact nomatch hk'), fun c hc => hc⟩
    rcases (runProgram_sim (pfx := []) hA fuel inp₁ inp₂ post hpost s₁ g).cases with ⟨e, h3, h4⟩ | ⟨s', h3, h4, -⟩ <;>
      simp only [h3, h4]
    rfl

set_option maxRecDepth 10000 in
theorem C06_frame_run_nonvacuous :
    -- the hypotheses of `C06_frame_read` / `C06_frame_run` hold for the two readers …
    (∃ s₁ d₁ d₂, runCommand 100 inp1 rdEx S0 = .ok s₁ ∧ s₁.db = some d₁ ∧
      runCommand 100 inp2 rdEx S0 = .ok (setDb d₂ [] s₁) ∧ Agree s₁.citations d₁ d₂) ∧
    -- … and the runs are equal
    run 100 ([] ++ rdEx :: postEx) inp1 = run 100 ([] ++ rdEx :: postEx) inp2 ∧
    (match run 100 ([] ++ rdEx :: postEx) inp1 with | .ok o => some o.bbl | .error _ => none) = some (s "a\nb\n") ∧
    -- the same on `.bib` text: an uncited entry added, the cited ones in the other order
    bbl (formatFromFiles files [.file (s "/D/refs2.bib")] (s "/D/s") [s "a", s "b"] 2 none) id =
      bbl (formatFromFiles files [.file (s "/D/refs.bib")] (s "/D/s") [s "a", s "b"] 2 none) id := by
  have hres : ((convertDb (readParsed inp1 S0).db).removeMissing
      ((convertDb (readParsed inp1 S0).db).addExtraCitations S0.citations inp1.minCrossrefs).1).1 = [s "a", s "b"] := by
    decide +kernel
  have hread : ∃ s₁ d₁ d₂, runCommand 100 inp1 rdEx S0 = .ok s₁ ∧ s₁.db = some d₁ ∧
      runCommand 100 inp2 rdEx S0 = .ok (setDb d₂ [] s₁) ∧ Agree s₁.citations d₁ d₂ := by
    refine C06_frame_read 100 inp1 inp2 rdEx S0 rfl (by decide +kernel) ?_ (by decide +kernel) (by decide +kernel) ?_
    · have h1 : (readParsed inp1 S0).errs = [] := List.isEmpty_iff.1 (by decide +kernel)
      have h2 : (readParsed inp2 S0).errs = [] := List.isEmpty_iff.1 (by decide +kernel)
      rw [h1, h2]
    · rw [hres]; exact C06_frame_closure_nonvacuous
  refine ⟨hread, ?_, by decide +kernel, by decide +kernel⟩
  refine C06_frame_run 100 inp1 inp2 [] postEx rdEx rfl (fun c hc => nomatch hc) rfl (by decide) ?_
  intro s hs
  cases hs
  exact hread

/-- Reports made before (e.g. by `READ`: a syntax error in an uncited entry) do not matter either.
From a state `s₁` of the run on `db₁` and the state that differs from it in the database (`db₂`)
and in the reports made so far (`r₂` instead of `s₁.reports`), a `READ`-free program gives the
same error, or final states that again differ only in the database and in that prefix: both
append the same reports `R`; output lines, printed text and everything else are equal. -/
theorem C06_frame_reports (K : List Str) (db₁ db₂ : BibData) (hA : Agree K db₁ db₂) (fuel : Nat)
    (inp₁ inp₂ : Input) (post : Bst.Program) (hpost : ∀ c ∈ post, upper c.name ≠ "READ".toList)
    (s₁ : St) (g : Good K db₁ s₁) (r₂ : List Interp.Report) :
    (∃ e, runProgram fuel inp₁ post s₁ = .error e ∧
      runProgram fuel inp₂ post { s₁ with db := some db₂, reports := r₂ } = .error e) ∨
    (∃ t₁ R, runProgram fuel inp₁ post s₁ = .ok t₁ ∧ t₁.reports = s₁.reports ++ R ∧
      runProgram fuel inp₂ post { s₁ with db := some db₂, reports := r₂ } =
        .ok { t₁ with db := some db₂, reports := r₂ ++ R }) :=
  runProgram_reports' hA fuel inp₁ inp₂ post hpost s₁ g r₂

/-- `C06_frame_run` when the two `READ` steps also report different things: the two runs fail with
the same error, or produce the same `.bbl` text and printed output, and the same reports after
`READ` (`R`) behind the reports each run had made up to and including `READ`. -/
theorem C06_frame_run_reports (fuel : Nat) (inp₁ inp₂ : Input) (pre post : Bst.Program) (rd : Bst.Command)
    (hcit : inp₁.citations = inp₂.citations)
    (hpre : ∀ c ∈ pre, upper c.name ≠ "READ".toList) (hrd : upper rd.name = "READ".toList)
    (hpost : ∀ c ∈ post, upper c.name ≠ "READ".toList)
    (hread : ∀ s, runProgram fuel inp₁ pre { vars := initVars, citations := inp₁.citations } = .ok s →
      ∃ s₁ db₁ db₂ r₂, runCommand fuel inp₁ rd s = .ok s₁ ∧ s₁.db = some db₁ ∧
        runCommand fuel inp₂ rd s = .ok { s₁ with db := some db₂, reports := r₂ } ∧
        Agree s₁.citations db₁ db₂) :
    (∃ e, run fuel (pre ++ rd :: post) inp₁ = .error (e, []) ∧ run fuel (pre ++ rd :: post) inp₂ = .error (e, [])) ∨
    (∃ o₁ o₂, run fuel (pre ++ rd :: post) inp₁ = .ok o₁ ∧ run fuel (pre ++ rd :: post) inp₂ = .ok o₂ ∧
      o₁.bbl = o₂.bbl ∧ o₁.printed = o₂.printed ∧
      ∃ s s₁ s₂ R, runProgram fuel inp₁ pre { vars := initVars, citations := inp₁.citations } = .ok s ∧
        runCommand fuel inp₁ rd s = .ok s₁ ∧ runCommand fuel inp₂ rd s = .ok s₂ ∧
        o₁.reports = s₁.reports ++ R ∧ o₂.reports = s₂.reports ++ R) :=
  run_frame_reports fuel inp₁ inp₂ pre post rd hcit hpre hrd hpost hread

/-- the example readers satisfy the hypotheses (with `r₂` = the reports of the first `READ` state) -/
theorem C06_frame_run_reports_nonvacuous :
    ∃ s₁ d₁ d₂ r₂, runCommand 100 inp1 rdEx S0 = .ok s₁ ∧ s₁.db = some d₁ ∧
      runCommand 100 inp2 rdEx S0 = .ok { s₁ with db := some d₂, reports := r₂ } ∧ Agree s₁.citations d₁ d₂ ∧
      Good s₁.citations d₁ s₁ := by
  obtain ⟨s₁, d₁, d₂, h1, h2, h3, h4⟩ := C06_frame_run_nonvacuous.1
  refine ⟨s₁, d₁, d₂, s₁.reports, h1, h2, ?_, h4, ?_⟩
  · rw [h3]; simp only [setDb, List.nil_append]
  · rw [runCommand_read 100 inp1 rdEx S0 rfl] at h1
    injection h1 with h1
    subst h1
    exact ⟨h2, (fun k hk => nomatch hk), fun c hc => hc⟩

/-- Adding or removing an uncited, not-yet-referenced entry in the list a `bib_format` reader
delivers changes nothing: if the key of the entry `ke` is, up to case, neither cited nor the
`crossref` value of an entry standing before it (and no `*` is cited or referenced), then for a
style `pre; READ; post` (no other `READ`) the whole run — `.bbl`, reports, printed output, or the
error — is the same with and without it (`READ` leaves the very same state; the `.bib` texts
play no role). -/
theorem C06_frame_uncited_alt (fuel : Nat) (pre post : Bst.Program) (rd : Bst.Command)
    (hpre : ∀ c ∈ pre, upper c.name ≠ "READ".toList) (hrd : upper rd.name = "READ".toList)
    (hpost : ∀ c ∈ post, upper c.name ≠ "READ".toList)
    (cits : List Str) (mc : Int) (ts ts' : List Str)
    (epre epost : List (Str × Bib.Entry)) (ke : Str × Bib.Entry) (pream : List Str)
    (hk : ∀ x ∈ cits ++ xrefsOf epre, Spec.keq ke.1 x = false ∧ Spec.keq ['*'] x = false) :
    run fuel (pre ++ rd :: post)
        { bibTexts := ts, citations := cits, minCrossrefs := mc, alt := some (epre ++ ke :: epost, pream) } =
      run fuel (pre ++ rd :: post)
        { bibTexts := ts', citations := cits, minCrossrefs := mc, alt := some (epre ++ epost, pream) } :=
  run_uncited_alt fuel pre post rd hpre hrd hpost cits mc ts ts' epre epost ke pream hk

theorem C06_frame_uncited_alt_nonvacuous :
    ∀ x ∈ [s "a", s "b"] ++ xrefsOf [ent "b" "Y"],
      Spec.keq (ent "noise" "N").1 x = false ∧ Spec.keq ['*'] x = false := by
  decide +kernel

/-! ### 3. one item per resolved citation, in citation / reverse / stable sort-key order -/

/-- The style schema `READ; [SORT;] ITERATE {f}` (and `REVERSE {f}`).  Let `f` be a function that,
called for the entry `k` in any state satisfying an invariant `Inv` it maintains (between two
calls no entry is current), appends exactly the line group `item k` to the output.  Then, from any state `s` satisfying `Inv` (e.g. the state
after `READ`, where `s.citations` are the resolved citations):
* `ITERATE {f}` appends `item k` for each resolved citation `k`, in citation order;
* `REVERSE {f}` does so in reverse citation order;
* `SORT` followed by `ITERATE {f}` does so in the order of `sortByKey` applied to the citations
  paired with their `sort.key$` — a permutation of the citations, ascending by key (code-point
  order), in which the citations with the same key keep their citation order (stability);
  `strLt` is a strict total order (`strLt_total`), so ties are exactly equal keys. -/
theorem C06_one_item_per_citation (fuel : Nat) (inp : Input) (f : VarObj) (Inv : St → Prop)
    (item : Str → List Str)
    (hf : ∀ s k s', Inv s → execObj fuel f { s with cur := some k } = .ok s' →
      Inv { s' with cur := none } ∧ s'.lines = s.lines ++ item k)
    (hcit : ∀ s cits, Inv s → Inv { s with citations := cits })
    (c : Bst.Command) (t : BTok) (rest : List BTok) (fname : Str)
    (hg : c.groups = [t :: rest]) (ht : tokName t = .ok fname)
    (s : St) (hs : Inv s) (hv : s.vars.getItem fname = some f) :
    (upper c.name = "ITERATE".toList → ∀ s', runCommand fuel inp c s = .ok s' →
        s'.lines = s.lines ++ s.citations.flatMap item) ∧
    (upper c.name = "REVERSE".toList → ∀ s', runCommand fuel inp c s = .ok s' →
        s'.lines = s.lines ++ s.citations.reverse.flatMap item) ∧
    (upper c.name = "ITERATE".toList → ∀ sortc : Bst.Command, upper sortc.name = "SORT".toList →
      ∀ s', runProgram fuel inp [sortc, c] s = .ok s' →
        ∃ l : List (Str × Str), l.map (·.2) = s.citations ∧ (∀ p ∈ l, sortKeyOf s p.2 = some p.1) ∧
          s'.lines = s.lines ++ ((sortByKey l).map (·.2)).flatMap item ∧
          (sortByKey l).Perm l ∧
          (sortByKey l).Pairwise (fun a b => strLt b.1 a.1 = false) ∧
          (∀ κ, (sortByKey l).filter (fun p => p.1 = κ) = l.filter (fun p => p.1 = κ))) := by
  have hstep : ∀ (s : St) (cits : List Str) s', Inv s → s.vars.getItem fname = some f →
      iterStep fuel cits c s = .ok s' → s'.lines = s.lines ++ cits.flatMap item := by
    intro s cits s' hs hv h
    simp only [iterStep, hg, ht, hv] at h
    exact (iterate_items fuel f Inv item hf cits s s' hs h).2
  refine ⟨?_, ?_, ?_⟩
  · intro hc s' h
    rw [runCommand_iterate fuel inp c s hc] at h
    exact hstep s _ s' hs hv h
  · intro hc s' h
    rw [runCommand_reverse fuel inp c s hc] at h
    exact hstep s _ s' hs hv h
  · intro hc sortc hsc s' h
    simp only [runProgram] at h
    split at h
    · cases h
    · rename_i s1 h1
      obtain ⟨l, hl1, hl2, rfl⟩ := runCommand_sort_ok fuel inp sortc s s1 hsc h1
      split at h
      · cases h
      · rename_i s2 h2
        have e : s2 = s' := by injection h
        subst e
        rw [runCommand_iterate fuel inp c _ hc] at h2
        have := hstep { s with citations := (sortByKey l).map (·.2) } _ s2 (hcit s _ hs) hv h2
        obtain ⟨p1, p2, p3⟩ := sortByKey_spec l
        exact ⟨l, hl1, hl2, this, p1, p2, p3⟩

/-- `f = {cite$ write$ newline$}` satisfies the hypotheses (for every state and key), and the three
tiny styles give the keys in citation, reverse and sort-key order (`a` has title `Z`, `b` has `Y`). -/
theorem C06_one_item_per_citation_nonvacuous :
    (∀ st k st', InvEx st → execObj 10 fEx { st with cur := some k } = .ok st' →
      InvEx { st' with cur := none } ∧ st'.lines = st.lines ++ itemEx k) ∧
    (∀ st cits, InvEx st → InvEx { st with citations := cits }) ∧
    bbl (formatFromFiles files [.file (s "/D/refs.bib")] (s "/D/s") [s "a", s "b"] 2 none) id = some (s "a\nb\n") ∧
    bbl (formatFromFiles files [.file (s "/D/refs.bib")] (s "/D/r") [s "a", s "b"] 2 none) id = some (s "b\na\n") ∧
    bbl (formatFromFiles files [.file (s "/D/refs.bib")] (s "/D/t") [s "a", s "b"] 2 none) id = some (s "b\na\n") ∧
    sortByKey [(s "Z", s "a"), (s "Y", s "b"), (s "Z", s "c")] = [(s "Y", s "b"), (s "Z", s "a"), (s "Z", s "c")] := by
  refine ⟨?_, fun st cits h => h, by decide +kernel, by decide +kernel, by decide +kernel, by decide +kernel⟩
  intro st k st' h hrun
  obtain ⟨h1, h2, h3, h4⟩ := h
  simp only [fEx, execObj, execBody, execTok, runBuiltin, h1, h2, h3, h4, push, pop] at hrun
  cases hrun
  exact ⟨⟨h1, h2, h3, rfl⟩, by simp [itemEx]⟩

namespace C06Ex
/-- `FUNCTION {f} {cite$ write$ newline$}` and `ITERATE {f}`, `REVERSE {f}`, `SORT` as parsed commands -/
def funEx : Bst.Command :=
  ⟨s "FUNCTION", [[.name (s "f")], [.name (s "cite$"), .name (s "write$"), .name (s "newline$")]]⟩
def iterEx : Bst.Command := ⟨s "ITERATE", [[.name (s "f")]]⟩
def revEx : Bst.Command := ⟨s "REVERSE", [[.name (s "f")]]⟩
def sortEx : Bst.Command := ⟨s "SORT", []⟩

/-- Boolean form of `InvEx st ∧ st.vars.getItem "f" = some fEx` (`VarObj` has no decidable equality) -/
def invExB (st : St) : Bool :=
  (match st.vars.getItem (s "cite$") with | some (.builtin .cite) => true | _ => false) &&
  (match st.vars.getItem (s "write$") with | some (.builtin .write) => true | _ => false) &&
  (match st.vars.getItem (s "newline$") with | some (.builtin .newline) => true | _ => false) &&
  st.buffer.isEmpty &&
  (match st.vars.getItem (s "f") with
   | some (.func [.name a, .name b, .name c]) => a == s "cite$" && b == s "write$" && c == s "newline$"
   | _ => false)

theorem invExB_sound {st : St} (h : invExB st = true) : InvEx st ∧ st.vars.getItem (s "f") = some fEx := by
  simp only [invExB, Bool.and_eq_true] at h
  obtain ⟨⟨⟨⟨h1, h2⟩, h3⟩, h4⟩, h5⟩ := h
  refine ⟨⟨?_, ?_, ?_, List.isEmpty_iff.1 h4⟩, ?_⟩
  · split at h1
    · rename_i e; exact e
    · cases h1
  · split at h2
    · rename_i e; exact e
    · cases h2
  · split at h3
    · rename_i e; exact e
    · cases h3
  · split at h5
    · rename_i a b c e
      simp only [Bool.and_eq_true, beq_iff_eq] at h5
      obtain ⟨⟨rfl, rfl⟩, rfl⟩ := h5
      exact e
    · cases h5

/-- lines of a result, `none` on error -/
def linesOf (r : Except IErr St) : Option (List Str) :=
  match r with
  | .ok st => some st.lines
  | .error _ => none
end C06Ex

/-- `C06_one_item_per_citation` INSTANTIATED: the state `st` the interpreter is in after
`READ FUNCTION {f} {cite$ write$ newline$}` on the example database (a real state of a run, with
resolved citations `a b`) satisfies `InvEx st` (`hs`) and binds `f` to `fEx` (`hv`); `hg`, `ht`, `hf`,
`hcit` hold; so the three conclusions of the theorem apply to `ITERATE {f}`, `REVERSE {f}` and
`SORT ITERATE {f}` from `st` — and these commands do succeed from `st`, with the lines the theorem
predicts (all sort keys are missing here = equal keys: the sort keeps citation order). -/
theorem C06_one_item_per_citation_instance :
    ∃ st, runProgram 100 inp1 [rdEx, funEx] S0 = .ok st ∧
      -- the hypotheses `hs`, `hv` of the theorem, and the resolved citations
      InvEx st ∧ st.vars.getItem (s "f") = some fEx ∧ st.citations = [s "a", s "b"] ∧ st.lines = [] ∧
      -- its conclusions for this state (fuel 10)
      (∀ st', runCommand 10 inp1 iterEx st = .ok st' → st'.lines = st.lines ++ st.citations.flatMap itemEx) ∧
      (∀ st', runCommand 10 inp1 revEx st = .ok st' → st'.lines = st.lines ++ st.citations.reverse.flatMap itemEx) ∧
      (∀ st', runProgram 10 inp1 [sortEx, iterEx] st = .ok st' →
        ∃ l : List (Str × Str), l.map (·.2) = st.citations ∧
          st'.lines = st.lines ++ ((sortByKey l).map (·.2)).flatMap itemEx) ∧
      -- the commands succeed from `st`, so the conclusions are not vacuous either
      linesOf (runCommand 10 inp1 iterEx st) = some [s "a", s "\n", s "b", s "\n"] ∧
      linesOf (runCommand 10 inp1 revEx st) = some [s "b", s "\n", s "a", s "\n"] ∧
      linesOf (runProgram 10 inp1 [sortEx, iterEx] st) = some [s "a", s "\n", s "b", s "\n"] := by
  have hchk : (match runProgram 100 inp1 [rdEx, funEx] S0 with
      | .ok st => invExB st && decide (st.citations = [s "a", s "b"]) && st.lines.isEmpty &&
          decide (linesOf (runCommand 10 inp1 iterEx st) = some [s "a", s "\n", s "b", s "\n"]) &&
          decide (linesOf (runCommand 10 inp1 revEx st) = some [s "b", s "\n", s "a", s "\n"]) &&
          decide (linesOf (runProgram 10 inp1 [sortEx, iterEx] st) = some [s "a", s "\n", s "b", s "\n"])
      | .error _ => false) = true := by decide +kernel
  cases hrun : runProgram 100 inp1 [rdEx, funEx] S0 with
  | error e => rw [hrun] at hchk; cases hchk
  | ok st =>
    rw [hrun] at hchk
    simp only [Bool.and_eq_true, decide_eq_true_eq] at hchk
    obtain ⟨⟨⟨⟨⟨hinv, hc⟩, hl⟩, r1⟩, r2⟩, r3⟩ := hchk
    obtain ⟨hs, hv⟩ := invExB_sound hinv
    obtain ⟨hf, hcit, -⟩ := C06_one_item_per_citation_nonvacuous
    obtain ⟨c1, -, c3⟩ := C06_one_item_per_citation 10 inp1 fEx InvEx itemEx hf hcit iterEx
      (.name (s "f")) [] (s "f") rfl rfl st hs hv
    obtain ⟨-, c2, -⟩ := C06_one_item_per_citation 10 inp1 fEx InvEx itemEx hf hcit revEx
      (.name (s "f")) [] (s "f") rfl rfl st hs hv
    refine ⟨st, rfl, hs, hv, hc, List.isEmpty_iff.1 hl, c1 (by decide), c2 (by decide), ?_, r1, r2, r3⟩
    intro st' h
    obtain ⟨l, h1, -, h3, -⟩ := c3 (by decide) sortEx (by decide) st' h
    exact ⟨l, h1, h3⟩

/-- `strLt` (Python's `<` on `str`) is a strict total order: ties of the sort are equal keys. -/
theorem C06_sort_order_total (a b c : Str) :
    strLt a a = false ∧ (strLt a b = true → strLt b c = true → strLt a c = true) ∧
    (strLt a b = false → strLt b a = false → a = b) :=
  ⟨strLt_irrefl a, strLt_trans, strLt_total⟩

/-! ### 4. the reader plug-in, the entry points, and when the outside world is touched -/

/-- `bib_format` selects the suffix AND the reader, together: for every reader plug-in `fmt` the
run is the explicit call on the `\bibdata` names with `fmt`'s suffix, with `fmt`'s reader (its
database `fmt.alt`; `none` = the BibTeX reader working on the text); without `bib_format` it is
the run with the BibTeX reader (suffix `.bib`).  There is no way to get the suffix of one reader
and the database of another. -/
theorem C06_bib_format_selects (files : Files) (aux : Str) (fuel : Nat) (mc : Int) (so : Option Str) :
    (∀ st, Aux.parse files.aux fuel aux = .ok st →
      ∃ style data, st.style = some style ∧ st.data = some data ∧
        ∀ fmt : Format, makeBibliography files aux fuel so (some fmt) mc =
          (formatFromFiles files (data.map fun d => .file (d ++ fmt.suffix)) (so.getD style) st.citations mc fmt.alt).map
            (fun r => (r, st.reports))) ∧
    makeBibliography files aux fuel so none mc = makeBibliography files aux fuel so (some bibtexFormat) mc ∧
    bibtexFormat.suffix = ".bib".toList ∧ bibtexFormat.alt = none := by
  refine ⟨?_, rfl, rfl, rfl⟩
  intro st h
  obtain ⟨⟨style, hs⟩, ⟨data, hd⟩⟩ := parse_ok_style_data _ _ _ _ h
  refine ⟨style, data, hs, hd, ?_⟩
  intro fmt
  simp only [makeBibliography, h, hs, hd, Option.getD_some, bibSrcs]
  cases formatFromFiles files (data.map fun d => Src.file (d ++ fmt.suffix)) (so.getD style) st.citations mc fmt.alt <;> rfl

/-- a reader that delivers only the entry `b`: its database is used, although `/D/refs.bib`
exists and holds both entries; with the same suffix and no reader database the file is missing -/
theorem C06_bib_format_selects_nonvacuous :
    bbl (makeBibliography files (s "/D/doc.aux") 3 none (some ⟨s ".yaml", some ([ent "b" "Y"], [])⟩) 2) (·.1) = some (s "b\n") ∧
    bbl (makeBibliography files (s "/D/doc.aux") 3 none (some ⟨s ".bib", none⟩) 2) (·.1) = some (s "a\nb\n") ∧
    cannotOpen (makeBibliography files (s "/D/doc.aux") 3 none (some ⟨s ".yaml", none⟩) 2) = some (s "/D/refs.yaml") := by
  decide +kernel

/-- The entry points named in the quantifier are one function.  `format_from_files` on file names
whose files hold the texts `texts` is `format_from_strings(texts)` (same `.bbl`, reports, printed
output, or the same error); `format_from_string(t)` is `format_from_strings([t])`;
`format_from_file(n)` is `format_from_string` of the text of `n`. -/
theorem C06_entry_points (files : Files) (style : Str) (cits : List Str) (mc : Int)
    (alt : Option (List (Str × Bib.Entry) × List Str)) :
    (∀ names texts, List.Forall₂ (fun n t => files.text n = some t) names texts →
      formatFromFiles files (names.map .file) style cits mc alt = formatFromStrings files texts style cits mc alt) ∧
    (∀ t, formatFromString files t style cits mc alt = formatFromStrings files [t] style cits mc alt) ∧
    (∀ n t, files.text n = some t →
      formatFromFile files n style cits mc alt = formatFromString files t style cits mc alt) := by
  refine ⟨?_, fun _ => rfl, ?_⟩
  · intro names texts h
    exact formatFromFiles_srcs files _ _ style cits mc alt ((readSrcs_file files names texts h).trans (readSrcs_text files texts).symm)
  · intro n t h
    have h2 : List.Forall₂ (fun n t => files.text n = some t) [n] [t] := .cons h .nil
    exact formatFromFiles_srcs files _ _ style cits mc alt ((readSrcs_file files [n] [t] h2).trans (readSrcs_text files [t]).symm)

theorem C06_entry_points_nonvacuous :
    files.text (s "/D/refs.bib") = some bib ∧
    bbl (formatFromString files bib (s "/D/t") [s "a", s "b"] 2 none) id = some (s "b\na\n") ∧
    bbl (formatFromFile files (s "/D/refs.bib") (s "/D/t") [s "a", s "b"] 2 none) id = some (s "b\na\n") ∧
    -- two strings: one database
    bbl (formatFromStrings files [s "@misc{b, title = {Y}}\n", s "@misc{a, title = {Z}}\n"] (s "/D/s") [s "a", s "b"] 2 none) id =
      some (s "a\nb\n") := by
  decide +kernel

namespace C06Ex
/-- styles that never read, raise before `READ`, or have a syntax error behind executed commands -/
def files2 : Files :=
  { aux := fun _ => none,
    text := fun p =>
      if p = s "/D/n.bst" then some (s "ENTRY {}{}{} FUNCTION {f} {\"x\" write$ newline$} EXECUTE {f}")
      else if p = s "/D/x.bst" then some (s "ENTRY {}{}{} FUNCTION {f} {pop$} EXECUTE {f} READ")
      else if p = s "/D/y.bst" then some (s "ENTRY {}{}{} FUNCTION {f} {\"x\" write$ newline$} EXECUTE {f} BOGUS {x}")
      else if p = s "/D/z.bst" then some (s "ENTRY {}{}{} FUNCTION {f} {pop$} EXECUTE {f} BOGUS {x}")
      else if p = s "/D/s.bst" then some bst
      else none }

def errView (r : Except Err Result) : Option String :=
  match r with
  | .ok _ => none
  | .error (.run (.bibtex m)) => some m
  | .error (.cannotOpen _) => some "cannot open"
  | .error .bstSyntax => some "bst syntax"
  | .error _ => some "other"

def okView {α : Type} (r : Except Err α) : Option α :=
  match r with
  | .ok x => some x
  | .error _ => none

def jobEx : Job := ⟨files2, [.file (s "/D/none.bib")], [], 2, none⟩
end C06Ex

/-- The outside world is touched when the code touches it.
(1) Nothing is opened before `READ`: a `READ`-free stretch `pre` of the script runs as in the
interpreter, whatever the database sources are — so a style without `READ` never needs them, and
an error raised before `READ` is the error of the run even when the files are missing.
(2) `READ` opens the sources: a missing file is the error of the run (`cannotOpen`), otherwise
`READ` runs on the texts.
(3) A command without a `command_…` method is printed (`Unknown command <name>`) and skipped. -/
theorem C06_files_opened_by_read (fuel : Nat) (j : Job) :
    (∀ (inp : Input) (pre rest : Bst.Program) (st : St),
      (∀ c ∈ pre, upper c.name ≠ "READ".toList) → (∀ c ∈ pre, knownCommand c.name = true) →
      runProgramF fuel j (pre ++ rest) st =
        match runProgram fuel inp pre st with
        | .error e => .error (.run e)
        | .ok st' => runProgramF fuel j rest st') ∧
    (∀ (c : Bst.Command) (st : St), upper c.name = "READ".toList →
      stepF fuel j c st =
        match readInput j with
        | .error e => .error e
        | .ok ts => liftRun (runCommand fuel (j.input ts) c st)) ∧
    (∀ (c : Bst.Command) (st : St), knownCommand c.name = false →
      stepF fuel j c st = .ok { st with printed := st.printed ++ ["Unknown command ".toList ++ c.name] }) := by
  refine ⟨?_, ?_, ?_⟩
  · intro inp pre rest st hn hk
    exact runProgramF_append_noread fuel j inp pre rest st hn hk
  · intro c st h
    simp only [stepF, h, if_true]
    cases readInput j <;> rfl
  · intro c st h
    have h1 : upper c.name ≠ "READ".toList := fun hr => by rw [known_of_read hr] at h; cases h
    simp only [stepF, h1, h, if_false, Bool.false_eq_true]

/-- the four miniature styles on a MISSING database file: no `READ` — output; an error before
`READ` — that error; a syntax error behind executed commands — it surfaces after they ran (the
script is parsed lazily), unless they raised first; a style with `READ` — cannot open; an unknown
command is printed and skipped -/
theorem C06_files_opened_by_read_nonvacuous :
    bbl (formatFromFiles files2 [.file (s "/D/none.bib")] (s "/D/n") [] 2 none) id = some (s "x\n") ∧
    errView (formatFromFiles files2 [.file (s "/D/none.bib")] (s "/D/x") [] 2 none) = some "pop from empty stack" ∧
    errView (formatFromFiles files2 [.file (s "/D/none.bib")] (s "/D/y") [] 2 none) = some "bst syntax" ∧
    errView (formatFromFiles files2 [.file (s "/D/none.bib")] (s "/D/z") [] 2 none) = some "pop from empty stack" ∧
    errView (formatFromFiles files2 [.file (s "/D/none.bib")] (s "/D/s") [] 2 none) = some "cannot open" ∧
    (match interpreterRun 100 jobEx [⟨s "Frobnicate", []⟩] with | .ok r => some r.printed | .error _ => none) =
      some [s "Unknown command Frobnicate"] := by
  decide +kernel

/-- The frame theorem at the level of the entry point (`C06_frame_run` through the bridge
`formatFromFiles_eq_run`): two explicit calls with the same style (which parses to
`pre; READ; post`, no other `READ`), citations and `min_crossrefs` on two file systems / source
lists whose texts are `ts₁`, `ts₂`: if the two `READ` steps leave states that differ in the
database only and the databases agree on the resolved citations, the calls return the same
`.bbl`, reports and printed output, or the same error. -/
theorem C06_frame_files (files₁ files₂ : Files) (srcs₁ srcs₂ : List Src) (style : Str) (cits : List Str) (mc : Int)
    (bstText : Str) (ts₁ ts₂ : List Str) (pre post : Bst.Program) (rd : Bst.Command)
    (hb₁ : files₁.text (style ++ ".bst".toList) = some bstText) (hb₂ : files₂.text (style ++ ".bst".toList) = some bstText)
    (hp : Bst.parseFile bstText = .ok (pre ++ rd :: post))
    (hr₁ : readSrcs files₁ srcs₁ = .ok ts₁) (hr₂ : readSrcs files₂ srcs₂ = .ok ts₂)
    (hpre : ∀ c ∈ pre, upper c.name ≠ "READ".toList) (hrd : upper rd.name = "READ".toList)
    (hpost : ∀ c ∈ post, upper c.name ≠ "READ".toList)
    (hread : ∀ st, runProgram runFuel { bibTexts := ts₁, citations := cits, minCrossrefs := mc } pre
          { vars := initVars, citations := cits } = .ok st →
      ∃ s₁ db₁ db₂, runCommand runFuel { bibTexts := ts₁, citations := cits, minCrossrefs := mc } rd st = .ok s₁ ∧
        s₁.db = some db₁ ∧
        runCommand runFuel { bibTexts := ts₂, citations := cits, minCrossrefs := mc } rd st = .ok (setDb db₂ [] s₁) ∧
        Agree s₁.citations db₁ db₂) :
    formatFromFiles files₁ srcs₁ style cits mc none = formatFromFiles files₂ srcs₂ style cits mc none := by
  rw [formatFromFiles_eq_run files₁ srcs₁ style cits mc none bstText _ ts₁ hb₁ hp (by simpa [readInput] using hr₁),
    formatFromFiles_eq_run files₂ srcs₂ style cits mc none bstText _ ts₂ hb₂ hp (by simpa [readInput] using hr₂)]
  exact congrArg ofRun (C06_frame_run runFuel _ _ pre post rd rfl hpre hrd hpost hread)

/-- the tiny style on the two `.bib` files of the examples (an uncited entry added, the cited ones
in the other order): the texts are read, the style parses to `[] ++ READ :: post`-shape -/
theorem C06_frame_files_nonvacuous :
    okView (readSrcs files [.file (s "/D/refs.bib")]) = some [bib] ∧
    okView (readSrcs files [.file (s "/D/refs2.bib")]) = some [bib2] ∧
    (match Bst.parseFile C06Ex.bst with | .ok p => p.map (fun c => upper c.name) | .error _ => []) =
      [s "ENTRY", s "FUNCTION", s "READ", s "ITERATE"] ∧
    bbl (formatFromFiles files [.file (s "/D/refs2.bib")] (s "/D/s") [s "a", s "b"] 2 none) id =
      bbl (formatFromFiles files [.file (s "/D/refs.bib")] (s "/D/s") [s "a", s "b"] 2 none) id := by
  decide +kernel

/-! ### 5. the order clauses for the shape of the shipped styles -/

/-- The order clauses for the command skeleton of the real styles: between `READ` / `SORT` and the
`ITERATE` that writes the items there are other commands (`STRINGS`, `INTEGERS`, `FUNCTION`,
`EXECUTE {begin.bib}`, `ITERATE {longest.label.pass}`, `REVERSE {reverse.pass}` …).  Let `mid`
contain neither `READ` nor `SORT`, let `c = ITERATE {f}` and `f` append exactly `item k` per call
under an invariant `Inv` (as in `C06_one_item_per_citation`).
(1) Every command other than `READ` and `SORT` — in particular `ITERATE` and `REVERSE` over any
function — leaves the citation list and the database as they are.
(2) `mid; ITERATE {f}` from a state `st`: `mid` ends in a state `sm` with the citations of `st`, and
the items are appended to the output of `mid` in citation order.
(3) `SORT; mid; ITERATE {f}`: the items are appended in the order of `sortByKey` applied to the
citations of `st` paired with their `sort.key$` at the time of the `SORT` — a permutation, ascending
by key, ties in the order they had before the `SORT` (for the first `SORT` after `READ`: citation
order).  A style with several `SORT`s (jurabib, apacite) is covered by applying (3) to its last
`SORT` and (1)/(3) to what precedes. -/
theorem C06_order_general (fuel : Nat) (inp : Input) (f : VarObj) (Inv : St → Prop)
    (item : Str → List Str)
    (hf : ∀ s k s', Inv s → execObj fuel f { s with cur := some k } = .ok s' →
      Inv { s' with cur := none } ∧ s'.lines = s.lines ++ item k)
    (mid : Bst.Program) (hmid : ∀ m ∈ mid, upper m.name ≠ "READ".toList ∧ upper m.name ≠ "SORT".toList)
    (c : Bst.Command) (t : BTok) (rest : List BTok) (fname : Str)
    (hc : upper c.name = "ITERATE".toList) (hg : c.groups = [t :: rest]) (ht : tokName t = .ok fname) :
    (∀ (m : Bst.Command) (st st' : St), upper m.name ≠ "READ".toList → upper m.name ≠ "SORT".toList →
      runCommand fuel inp m st = .ok st' → st'.citations = st.citations ∧ st'.db = st.db) ∧
    (∀ st st', runProgram fuel inp (mid ++ [c]) st = .ok st' →
      ∃ sm, runProgram fuel inp mid st = .ok sm ∧ sm.citations = st.citations ∧
        (Inv sm → sm.vars.getItem fname = some f → st'.lines = sm.lines ++ st.citations.flatMap item)) ∧
    (∀ (sortc : Bst.Command) st st', upper sortc.name = "SORT".toList →
      runProgram fuel inp (sortc :: mid ++ [c]) st = .ok st' →
      ∃ (l : List (Str × Str)) (sm : St), l.map (·.2) = st.citations ∧ (∀ p ∈ l, sortKeyOf st p.2 = some p.1) ∧
        runProgram fuel inp (sortc :: mid) st = .ok sm ∧ sm.citations = (sortByKey l).map (·.2) ∧
        (Inv sm → sm.vars.getItem fname = some f →
          st'.lines = sm.lines ++ ((sortByKey l).map (·.2)).flatMap item) ∧
        (sortByKey l).Perm l ∧
        (sortByKey l).Pairwise (fun a b => strLt b.1 a.1 = false) ∧
        (∀ κ, (sortByKey l).filter (fun p => p.1 = κ) = l.filter (fun p => p.1 = κ))) := by
  have hstep : ∀ (sm st' : St), runCommand fuel inp c sm = .ok st' → Inv sm → sm.vars.getItem fname = some f →
      st'.lines = sm.lines ++ sm.citations.flatMap item := by
    intro sm st' h hi hv
    rw [runCommand_iterate fuel inp c sm hc] at h
    simp only [iterStep, hg, ht, hv] at h
    exact (iterate_items fuel f Inv item hf _ sm st' hi h).2
  refine ⟨?_, ?_, ?_⟩
  · intro m st st' h1 h2 h
    have := runCommand_keepC fuel inp m st h1 h2
    rw [h] at this
    exact ⟨this.2, this.1⟩
  · intro st st' h
    obtain ⟨sm, h1, h2⟩ := runProgram_snoc_ok fuel inp mid c st st' h
    have hk := runProgram_keepC fuel inp mid st hmid
    rw [h1] at hk
    refine ⟨sm, h1, hk.2, ?_⟩
    intro hi hv
    rw [← hk.2]
    exact hstep sm st' h2 hi hv
  · intro sortc st st' hs h
    rw [show sortc :: mid ++ [c] = (sortc :: mid) ++ [c] from rfl] at h
    obtain ⟨sm, h1, h2⟩ := runProgram_snoc_ok fuel inp (sortc :: mid) c st st' h
    have h1' := h1
    simp only [runProgram] at h1
    cases hsr : runCommand fuel inp sortc st with
    | error e => rw [hsr] at h1; cases h1
    | ok s1 =>
      rw [hsr] at h1
      obtain ⟨l, hl1, hl2, rfl⟩ := runCommand_sort_ok fuel inp sortc st s1 hs hsr
      dsimp only at h1
      have hk := runProgram_keepC fuel inp mid { st with citations := (sortByKey l).map (·.2) } hmid
      rw [h1] at hk
      obtain ⟨p1, p2, p3⟩ := sortByKey_spec l
      refine ⟨l, sm, hl1, hl2, h1', hk.2, ?_, p1, p2, p3⟩
      intro hi hv
      have := hstep sm st' h2 hi hv
      rw [hk.2] at this
      exact this

/-- a sorting style with commands between `SORT` and the writing `ITERATE`, as plain.bst has:
`READ ITERATE {k} SORT STRINGS {x} ITERATE {k} REVERSE {k} ITERATE {f}` gives the keys in sort-key
order; its `mid` satisfies the hypothesis -/
theorem C06_order_general_nonvacuous :
    (match Bst.parseFile (s "ENTRY {title}{}{} FUNCTION {k} {title 'sort.key$ :=} FUNCTION {f} {cite$ write$ newline$} READ ITERATE {k} SORT STRINGS {x} ITERATE {k} REVERSE {k} ITERATE {f}") with
     | .ok p => (p.drop 6).dropLast.all (fun m => upper m.name ≠ s "READ" ∧ upper m.name ≠ s "SORT") && (p.drop 6).length == 4
     | .error _ => false) = true ∧
    (match run 1000 (match Bst.parseFile (s "ENTRY {title}{}{} FUNCTION {k} {title 'sort.key$ :=} FUNCTION {f} {cite$ write$ newline$} READ ITERATE {k} SORT STRINGS {x} ITERATE {k} REVERSE {k} ITERATE {f}") with | .ok p => p | .error _ => [])
        { bibTexts := [bib], citations := [s "a", s "b"] } with
     | .ok o => some o.bbl
     | .error _ => none) = some (s "b\na\n") := by
  decide +kernel

/-- Instantiation of "one item per citation" for the `output.bibitem … fin.entry` skeleton of
unsrt.bst / plain.bst (every entry-type function begins with `output.bibitem`, whose body begins
`newline$ "\bibitem{" write$ cite$ write$ "}" write$ newline$`).
(1) One call: if `newline$`, `write$`, `cite$` are the built-ins and `output.bibitem` is bound to a
function beginning with that prologue, a function body `output.bibitem rest…` run for the entry
`k` appends lines that START with the pending output line and `\bibitem{k}`, whatever `rest`
does (the output only grows).
(2) `ITERATE` over such a function `f`, under an invariant the style maintains (the bindings stay,
every entry ends with `newline$`, i.e. an empty buffer; between two calls no entry is current): the output is the old output followed, for
each resolved citation in order, by `\bibitem{k}` and that entry's further lines — as many blocks
as citations, in citation order, each BEGINNING with `\bibitem{k}`.  The further lines (`mores`) are
unconstrained: they are whatever the rest of the entry function writes, and nothing here excludes
that they contain `\bibitem` text again. -/
theorem C06_item_starts_with_bibitem (fuel : Nat) (obTail rest : List BTok) :
    (∀ (st st' : St) (k : Str), StdOut st.vars →
      st.vars.getItem "output.bibitem".toList = some (.func (bibitemHead ++ obTail)) → st.cur = some k →
      execBody fuel (.name "output.bibitem".toList :: rest) st = .ok st' →
      ∃ more, st'.lines = st.lines ++ bibitemLines st.buffer k ++ more) ∧
    (∀ (Inv : St → Prop),
      (∀ st, Inv st → StdOut st.vars ∧
        st.vars.getItem "output.bibitem".toList = some (.func (bibitemHead ++ obTail)) ∧ st.buffer = []) →
      (∀ st k st', Inv st →
        execObj fuel (.func (.name "output.bibitem".toList :: rest)) { st with cur := some k } = .ok st' →
        Inv { st' with cur := none }) →
      ∀ (keys : List Str) (st st' : St), Inv st →
        iterate fuel (.func (.name "output.bibitem".toList :: rest)) keys st = .ok st' →
        ∃ mores : List (List Str), mores.length = keys.length ∧
          st'.lines = st.lines ++ (List.zipWith (fun k more => bibitemLines [] k ++ more) keys mores).flatten) := by
  have one : ∀ (n : Nat) (st st' : St) (k : Str), StdOut st.vars →
      st.vars.getItem "output.bibitem".toList = some (.func (bibitemHead ++ obTail)) → st.cur = some k →
      execBody n (.name "output.bibitem".toList :: rest) st = .ok st' →
      ∃ more, st'.lines = st.lines ++ bibitemLines st.buffer k ++ more := by
    intro n st st' k hv hob hcur h
    obtain ⟨n1, s1, -, t1, h⟩ := execBody_cons_ok h
    obtain ⟨m, -, t1⟩ := execTok_name_ok hob t1
    cases m with
    | zero => cases t1
    | succ m' =>
      have t1' : execBody m' (bibitemHead ++ obTail) st = .ok s1 := t1
      obtain ⟨n2, t2⟩ := bibitemHead_run m' obTail st s1 k hv hcur t1'
      obtain ⟨m1, q1⟩ := execBody_ext t2
      obtain ⟨m2, q2⟩ := execBody_ext h
      exact ⟨m1 ++ m2, by rw [q2, q1, List.append_assoc]⟩
  refine ⟨fun st st' k => one fuel st st' k, ?_⟩
  intro Inv hInv hkeep keys
  induction keys with
  | nil =>
    intro st st' _ h
    simp only [iterate] at h
    cases h
    exact ⟨[], rfl, by simp⟩
  | cons k ks ih =>
    intro st st' hi h
    simp only [iterate] at h
    split at h
    · cases h
    · split at h
      · cases h
      · split at h
        · cases h
        · rename_i s1 h1
          obtain ⟨hv, hob, hbuf⟩ := hInv st hi
          have hi1 := hkeep st k s1 hi h1
          obtain ⟨mores, hlen, hl⟩ := ih { s1 with cur := none } st' hi1 h
          cases fuel with
          | zero => cases h1
          | succ n =>
            have h1' : execBody n (.name "output.bibitem".toList :: rest) { st with cur := some k } = .ok s1 := h1
            obtain ⟨more, hm⟩ := one n { st with cur := some k } s1 k hv hob rfl h1'
            refine ⟨more :: mores, by simp [hlen], ?_⟩
            rw [hl]
            show s1.lines ++ _ = _
            rw [hm]
            simp only [hbuf, List.zipWith_cons_cons, List.flatten_cons, List.append_assoc]

/-- the hypotheses of (1) hold in the state the interpreter is in when a style with the standard
`output.bibitem` calls an entry function; the appended lines start with `\bibitem{a}` -/
theorem C06_item_starts_with_bibitem_nonvacuous :
    (match run 1000 (match Bst.parseFile (s "ENTRY {title}{}{} INTEGERS {output.state before.all} FUNCTION {output.bibitem} {newline$ \"\\bibitem{\" write$ cite$ write$ \"}\" write$ newline$ \"\" before.all 'output.state :=} FUNCTION {misc} {output.bibitem title write$ newline$} READ ITERATE {call.type$}") with | .ok p => p | .error _ => [])
        { bibTexts := [bib], citations := [s "a", s "b"] } with
     | .ok o => some o.bbl
     | .error _ => none) = some (s "\n\\bibitem{a}\nZ\n\n\\bibitem{b}\nY\n") ∧
    bibitemLines [] (s "a") = [[], ['\n'], s "\\bibitem{a}", ['\n']] := by
  decide +kernel

/-! ### 6. the database file is reordered -/

/-- "The output does not change when the database file is reordered", at the `READ` step.  Two
readings (two `.bib` texts, two reader entry lists, …) that deliver databases holding THE SAME
ENTRY UNDER EVERY KEY — in whatever order the entries were met — with the same preamble and reader
reports: if no `*` is cited (with `*` the order of the file IS the citation order), the two `READ`
steps resolve the same citations with the same reports and leave states that differ in the
database only, and the databases agree on the resolved citations: the hypothesis `hread` of
`C06_frame_run` / `C06_frame_files`, hence equal runs.  (That a reordered file delivers the same
entry under every key needs the ordering proviso of C05 — a cross-referenced parent that is not
cited must follow its children, or it is filtered out — which is why it is a hypothesis here.) -/
theorem C06_frame_reordered (fuel : Nat) (inp₁ inp₂ : Input) (rd : Bst.Command) (st : St)
    (hrd : upper rd.name = "READ".toList) (hmc : inp₂.minCrossrefs = inp₁.minCrossrefs)
    (hpre : (readParsed inp₂ st).db.preamble.flatten = (readParsed inp₁ st).db.preamble.flatten)
    (herr : (readParsed inp₂ st).errs.map Report.bib = (readParsed inp₁ st).errs.map Report.bib)
    (hget : ∀ k, (convertDb (readParsed inp₁ st).db).entries.getItem k =
      (convertDb (readParsed inp₂ st).db).entries.getItem k)
    (hns : ∀ c ∈ st.citations, c ≠ star) :
    ∃ s₁ db₁ db₂, runCommand fuel inp₁ rd st = .ok s₁ ∧ s₁.db = some db₁ ∧
      runCommand fuel inp₂ rd st = .ok (setDb db₂ [] s₁) ∧ Agree s₁.citations db₁ db₂ := by
  have hx := addExtraCitations_congr _ _ hget st.citations inp₁.minCrossrefs hns
  refine C06_frame_read fuel inp₁ inp₂ rd st hrd hpre herr (by rw [hmc, hx]) ?_ ?_
  · exact (removeMissing_congr _ _ hget _).symm
  · refine C06_frame_closure (fun _ => True) _ _ _ (fun k _ => hget k) (fun _ _ _ _ _ _ => trivial) ?_
    intro k hk
    exact ⟨trivial, removeMissing_mem _ _ k hk⟩

/-- the two example readers (entries `a b` resp. `noise b a`, `noise` uncited) deliver the same
entry under every key, in different orders -/
theorem C06_frame_reordered_nonvacuous :
    (∀ k, db1.entries.getItem k = db2.entries.getItem k) ∧ CIDict.iter db1.entries ≠ CIDict.iter db2.entries ∧
    (∀ c ∈ S0.citations, c ≠ star) := by
  refine ⟨?_, by decide +kernel, by decide +kernel⟩
  intro k
  by_cases ha : lower k = s "a"
  · rw [getItem_lower_congr _ (show lower k = lower (s "a") from ha.trans (by decide)),
      getItem_lower_congr db2.entries (show lower k = lower (s "a") from ha.trans (by decide))]
    exact entView_inj (by decide +kernel)
  by_cases hb : lower k = s "b"
  · rw [getItem_lower_congr _ (show lower k = lower (s "b") from hb.trans (by decide)),
      getItem_lower_congr db2.entries (show lower k = lower (s "b") from hb.trans (by decide))]
    exact entView_inj (by decide +kernel)
  have none_of : ∀ d : CIDict Entry, (d.dict.map Prod.fst).all (fun x => x = s "a" || x = s "b") = true →
      d.getItem k = none := by
    intro d hd
    cases hg : d.getItem k with
    | none => rfl
    | some e =>
      exfalso
      have h1 : dhas d.dict (lower k) = true := by
        show (d.getItem k).isSome = true
        rw [hg]; rfl
      have h2 := List.all_eq_true.1 hd _ ((dhas_iff_mem _ _).1 h1)
      simp only [Bool.or_eq_true, decide_eq_true_eq] at h2
      rcases h2 with h2 | h2
      · exact ha h2
      · exact hb h2
  rw [none_of db1.entries (by decide +kernel), none_of db2.entries (by decide +kernel)]

/-- Reordering the entry list a `bib_format` reader delivers: two NEIGHBOURS `a`, `b` change
places.  If their keys differ up to case (`Bib.keyFold` = `str.lower()`, the folding `add_entry`
compares keys with), neither is the `crossref` target of the other (the
parent-after-child proviso of C05: exchanging a child with its uncited parent would put the parent
where it is not wanted yet) nor refers to `*`, at most one of them repeats a key occurring earlier
in the list, and no `*` is cited (with `*` the order of the list IS the citation order), then for a
style `pre; READ; post` (no other `READ`) the whole run — `.bbl`, reports, printed output, or the
error — is the same for both orders.  Every reordering that respects these conditions at each step
is a composition of such exchanges.  (Proof: the two parser states are equivalent — same reports
and preamble, the same entries in another order, wanted sets accepting the same keys — and stay
so while the rest of the list is added; equivalent states give databases with the same entry under
every key; `C06_frame_reordered`; `C06_frame_run`.) -/
theorem C06_frame_swap_alt (fuel : Nat) (pre post : Bst.Program) (rd : Bst.Command)
    (hpre : ∀ c ∈ pre, upper c.name ≠ "READ".toList) (hrd : upper rd.name = "READ".toList)
    (hpost : ∀ c ∈ post, upper c.name ≠ "READ".toList)
    (cits : List Str) (mc : Int) (ts ts' : List Str)
    (epre epost : List (Str × Bib.Entry)) (a b : Str × Bib.Entry) (pream : List Str)
    (hns : ∀ c ∈ cits, c ≠ star)
    (h1 : Bib.keyFold a.1 ≠ Bib.keyFold b.1) (h2a : NoRefD a b.1) (h2b : NoRefD b a.1)
    (h3 : (∀ ke ∈ epre, Bib.keyFold ke.1 ≠ Bib.keyFold a.1) ∨ (∀ ke ∈ epre, Bib.keyFold ke.1 ≠ Bib.keyFold b.1)) :
    run fuel (pre ++ rd :: post)
        { bibTexts := ts, citations := cits, minCrossrefs := mc, alt := some (epre ++ a :: b :: epost, pream) } =
      run fuel (pre ++ rd :: post)
        { bibTexts := ts', citations := cits, minCrossrefs := mc, alt := some (epre ++ b :: a :: epost, pream) } := by
  refine C06_frame_run fuel _ _ pre post rd rfl hpre hrd hpost ?_
  intro st hst
  have hk := runProgram_keep fuel
    { bibTexts := ts, citations := cits, minCrossrefs := mc, alt := some (epre ++ a :: b :: epost, pream) } pre hpre
    { vars := initVars, citations := cits } rfl
  rw [hst] at hk
  have hns' : ∀ c ∈ st.citations, c ≠ star := fun c hc => hns c (hk.2.2.mem_iff.1 hc)
  obtain ⟨he, hn⟩ := altParsed_swap st epre epost a b pream h1 h2a h2b h3
  refine C06_frame_reordered fuel _ _ rd st hrd rfl ?_ ?_ ?_ hns'
  · rw [readParsed_alt, readParsed_alt, he.pre]
  · rw [readParsed_alt, readParsed_alt, he.errs]
  · intro k
    rw [readParsed_alt, readParsed_alt]
    exact convertDb_getItem_perm _ _ hn he.ents k

/-- the example list `noise b a` with `b` and `a` exchanged satisfies the conditions, and the two
runs give the same `.bbl` -/
theorem C06_frame_swap_alt_nonvacuous :
    Bib.keyFold (ent "b" "Y").1 ≠ Bib.keyFold (ent "a" "Z").1 ∧ NoRefD (ent "b" "Y") (ent "a" "Z").1 ∧
    NoRefD (ent "a" "Z") (ent "b" "Y").1 ∧
    (∀ ke ∈ [ent "noise" "N"], Bib.keyFold ke.1 ≠ Bib.keyFold (ent "b" "Y").1) ∧ (∀ c ∈ [s "a", s "b"], c ≠ star) ∧
    (match run 100 ([] ++ rdEx :: postEx)
        { bibTexts := [], citations := [s "a", s "b"], alt := some ([ent "noise" "N"] ++ ent "a" "Z" :: ent "b" "Y" :: [], []) } with
      | .ok o => some o.bbl | .error _ => none) = some (s "a\nb\n") := by
  decide +kernel

/-- The same for alpha.bst, whose `output.bibitem` begins
`newline$ "\bibitem[" write$ label write$ "]{" write$ cite$ write$ "}" write$ newline$` (`label` an
entry string variable): an entry function `output.bibitem rest…` run for the entry `k` appends
lines that start with the pending output line and `\bibitem[L]{k}`, `L` the text of `k`'s `label`
variable at that moment, whatever `rest` does. -/
theorem C06_item_starts_with_bibitem_alpha (fuel : Nat) (obTail rest : List BTok) (st st' : St) (k : Str)
    (hv : StdOut st.vars) (hl : st.vars.getItem "label".toList = some (.estr "label".toList))
    (hob : st.vars.getItem "output.bibitem".toList = some (.func (bibitemHeadAlpha ++ obTail)))
    (hcur : st.cur = some k)
    (h : execBody fuel (.name "output.bibitem".toList :: rest) st = .ok st') :
    ∃ L more, labelText st k = some L ∧ st'.lines = st.lines ++ bibitemLinesAlpha st.buffer L k ++ more := by
  obtain ⟨n1, s1, -, t1, h⟩ := execBody_cons_ok h
  obtain ⟨m, -, t1⟩ := execTok_name_ok hob t1
  cases m with
  | zero => cases t1
  | succ m' =>
    have t1' : execBody m' (bibitemHeadAlpha ++ obTail) st = .ok s1 := t1
    obtain ⟨n2, L, hL, t2⟩ := bibitemHeadAlpha_run m' obTail st s1 k hv hl hcur t1'
    obtain ⟨m1, q1⟩ := execBody_ext t2
    obtain ⟨m2, q2⟩ := execBody_ext h
    exact ⟨L, m1 ++ m2, hL, by rw [q2, q1, List.append_assoc]⟩

/-- a style with alpha.bst's `output.bibitem` and labels computed in an earlier pass -/
theorem C06_item_starts_with_bibitem_alpha_nonvacuous :
    (match run 1000 (match Bst.parseFile (s "ENTRY {title}{}{label} FUNCTION {output.bibitem} {newline$ \"\\bibitem[\" write$ label write$ \"]{\" write$ cite$ write$ \"}\" write$ newline$} FUNCTION {mk} {title 'label :=} FUNCTION {misc} {output.bibitem} READ ITERATE {mk} ITERATE {call.type$}") with | .ok p => p | .error _ => [])
        { bibTexts := [bib], citations := [s "a", s "b"] } with
     | .ok o => some o.bbl
     | .error _ => none) = some (s "\n\\bibitem[Z]{a}\n\n\\bibitem[Y]{b}\n") ∧
    bibitemLinesAlpha [] (s "Z") (s "a") = [[], ['\n'], s "\\bibitem[Z]{a}", ['\n']] := by
  decide +kernel

end Pybtex.Props
