/-
C18 — no state leaks between runs; results deterministic; inputs never modified.

Property theorems only.  The model of the process-global state and of the public calls is
`Model/World.lean`; helper lemmas (invariant of `memoize`, simulation, frame) are in
`Lemmas/World.lean`.

What is modelled: the module-level month table with its aliasing, the two `memoize` closures of
`pybtex/bibtex/builtins.py` and the `format.name$` built-in in front of them, `errors.strict /
error_code / captured_errors`, `_RUNTIME_PLUGINS`, `CommandLine.main` (the entry point that writes
`strict` and reads `error_code`), and a reader's own state (macro copy, database, wanted keys,
unnamed-entry counter).  The model follows proposed_fixes/C18-1 … C18-4; for each repaired behaviour
the pinned one stays expressible and its failure is proved (`…_neg_aliased`, `…_neg_pinned`).
What is assumed: every other piece of pybtex reaches that state only through `report_error`,
`format.name$`, `find_plugin` and a fresh `.bib` reader (`Fns`, `Prog`).  "Inputs never modified" is a
claim about Python object identity that a pure model cannot state: it is checked on the
implementation only (harness: databases are deep-frozen before and after formatting / writing).
-/
import PybtexModel.Lemmas.World

namespace Pybtex.Props
open Pybtex Pybtex.Proc

/-! ## `memoize` -/

/-- The closure of `memoize(f, capacity)` satisfies its invariant after EVERY sequence of calls —
cache ⊆ graph of `f` (values only), at most `capacity` entries, `history` = the keys of the cache,
oldest first, without duplicates — and therefore the next call returns `f k` whatever was called
before, in particular after more than `capacity` distinct arguments. -/
theorem C18_memo_transparent {K V E : Type} [DecidableEq K] (cap : Nat) (hcap : 0 < cap)
    (f : K → MRes E V) (ks : List K) (k : K) :
    Memo.Inv cap f (Memo.run cap f Memo.empty ks) ∧
    (Memo.call cap f (Memo.run cap f Memo.empty ks) k).1 = f k ∧
    (Memo.trace cap f Memo.empty ks).map Prod.fst = ks.map f := by
  have hinv := Memo.run_inv hcap f (Memo.inv_empty cap f) ks
  exact ⟨hinv, (Memo.call_spec hcap f hinv k).1, Memo.trace_results hcap f (Memo.inv_empty cap f) ks⟩

/-- capacity 2, four distinct arguments, one of them raising: the oldest entry is evicted (also
when `f` then raises and nothing is stored), a re-computed argument is a miss again, results are
those of `f` throughout -/
theorem C18_memo_transparent_nonvacuous :
    let f : Nat → MRes Unit Nat := fun n => if n = 9 then .raised () else .val (10 * n)
    Memo.trace 2 f Memo.empty [1, 2, 1, 3, 1, 9, 3, 1] =
      [(.val 10, true), (.val 20, true), (.val 10, false), (.val 30, true), (.val 10, true),
       (.raised (), true), (.val 30, true), (.val 10, false)] ∧
    Memo.run 2 f Memo.empty [1, 2, 1, 3, 1, 9, 3, 1] = ⟨[(1, 10), (3, 30)], [1, 3]⟩ := by
  decide

/-- The same for a memoised function that itself uses other state (as `_format_name` uses the cache
of `_split_names`): if `f` computes `g` in every state satisfying `P` and keeps `P`, a memoised
call returns `g k` from any closure satisfying the invariant, and keeps invariant and `P`. -/
theorem C18_memo_transparent_nested {K V E σ : Type} [DecidableEq K] (cap : Nat) (hcap : 0 < cap)
    (f : K → σ → MRes E V × σ) (g : K → MRes E V) (P : σ → Prop)
    (hf : ∀ k s, P s → (f k s).1 = g k ∧ P (f k s).2)
    (c : Memo K V) (hc : Memo.Inv cap g c) (s : σ) (hs : P s) (k : K) :
    (Memo.callS cap f c k s).1 = g k ∧ Memo.Inv cap g (Memo.callS cap f c k s).2.1 ∧
    P (Memo.callS cap f c k s).2.2 :=
  Memo.callS_spec hcap hf hc hs k

/-- Both caches of `pybtex/bibtex/builtins.py` satisfy the invariant (with the regenerated
capacity) in a fresh interpreter and after every history of calls whatsoever; the memoising
wrapper's own bookkeeping (`popleft`, `del`) never fails. -/
theorem C18_caches_invariant (F : Fns) (h : List Call) :
    CachesInv F (run F World.fresh h) ∧
    ((∀ n f, F.formatOne n f ≠ .internal) →
      ∀ key, (formatNameBuiltin F (run F World.fresh h) key).2 ≠ .internal ∧
             (formatNameCall F (run F World.fresh h) key).2 ≠ .internal) :=
  ⟨run_inv (cachesInv_fresh F) h,
   fun hF key => ⟨formatNameBuiltin_not_internal F hF (run_inv (cachesInv_fresh F) h) key,
                  formatNameCall_not_internal F hF (run_inv (cachesInv_fresh F) h) key⟩⟩

/-! ## the month table -/

/-- No history of public calls — reading `.bib` input that redefines `jan`, direct use of
`LowLevelParser` with its default or the caller's own table, engine runs, failing runs — changes
`month_names`; nor `errors.strict`, nor the plug-in registry; `captured_errors` is `None` again
after every call. -/
theorem C18_months_constant (F : Fns) (w : World) (h : List Call)
    (hh : ∀ c ∈ h, c.isPublic = true) :
    (run F w h).months = w.months ∧ (run F w h).strict = w.strict ∧
    (run F w h).plugins = w.plugins ∧ (w.captured = none → (run F w h).captured = none) :=
  let f := run_frame F w h hh
  ⟨f.months, f.strict, f.plugins, f.capNone⟩

/-- a history that satisfies the hypothesis and does redefine a month macro, in a reader and in a
direct `LowLevelParser`: both see their own `jan`, the module table keeps the source literal -/
theorem C18_months_constant_nonvacuous :
    let doc : Doc := [.string "jan".toList [.lit "X".toList],
                      .entry "misc".toList "k".toList [("month".toList, [.ref "jan".toList])]]
    let h : List Call := [.parse [doc], .lowLevel .default doc, .capture (.bibtexRun "s".toList [doc])]
    (∀ c ∈ h, c.isPublic = true) ∧
    (run toyFns World.fresh h).months = Gen.monthMacros ∧
    ((step toyFns World.fresh (.parse [doc])).2.reader?.map fun r => r.entries.map (·.fields))
      = some [[("month".toList, "X".toList)]] ∧
    ((step toyFns World.fresh (.lowLevel .default doc)).2.lowTable?.map fun t => dget t "jan".toList)
      = some (some "X".toList) := by
  decide

/-- What the pinned tree did (default `macros` = the module dict itself, here: a caller passing
that dict explicitly): the `@string` lands in the module table and the NEXT reader sees it.
The model can express — and fail — the property. -/
theorem C18_months_constant_neg_aliased :
    let doc : Doc := [.string "jan".toList [.lit "X".toList], .string "foo".toList [.lit "Y".toList]]
    let probe : Call := .capture (.parse [[.entry "misc".toList "k".toList
                          [("month".toList, [.ref "jan".toList]), ("note".toList, [.ref "foo".toList])]]])
    let w := (step toyFns World.fresh (.lowLevel .moduleTable doc)).1
    w.months ≠ World.fresh.months ∧
    (step toyFns w probe).2 ≠ (step toyFns World.fresh probe).2 ∧
    (step toyFns (step toyFns World.fresh (.lowLevel .default doc)).1 probe).2
      = (step toyFns World.fresh probe).2 := by
  decide

/-! ## readers -/

/-- Two readers never observe each other: whatever files a first reader (or engine run) went
through, a second reader returns what it returns in the initial world — its macros start from a
copy of the month table, its database and preamble are empty.  The files of ONE reader accumulate:
reading `ds1 ++ ds2` is reading `ds2` with the reader state (macros, entries, preamble) that
reading `ds1` left. -/
theorem C18_readers_independent (F : Fns) (w : World) (hw : CachesInv F w) (hcap : w.captured = none)
    (fs1 fs2 : List Doc) :
    (step F (step F w (.parse fs1)).1 (.parse fs2)).2 = (step F w (.parse fs2)).2 ∧
    (step F (step F w (.capture (.parse fs1))).1 (.capture (.parse fs2))).2
      = (step F w (.capture (.parse fs2))).2 ∧
    (∀ persons w' r, readFiles F persons w' r (fs1 ++ fs2) =
      bindE (readFiles F persons w' r fs1) (fun w1 r1 => readFiles F persons w1 r1 fs2)) := by
  refine ⟨?_, ?_, fun persons w' r => readFiles_append F persons w' r fs1 fs2⟩
  · have hs := run_sim hw hcap [.parse fs1] (by intro c hc; simp at hc; subst hc; rfl)
    exact (step_sim hs (.parse fs2)).1
  · have hs := run_sim hw hcap [.capture (.parse fs1)] (by intro c hc; simp at hc; subst hc; rfl)
    exact (step_sim hs (.capture (.parse fs2))).1

/-- one reader over two files resolves a macro defined in the first file inside the second; a
second reader reports it as undefined (and still knows the month macros) -/
theorem C18_readers_independent_nonvacuous :
    let f1 : Doc := [.string "foo".toList [.lit "Foo".toList], .preamble [.lit "P".toList]]
    let f2 : Doc := [.entry "misc".toList "k".toList
                      [("note".toList, [.ref "foo".toList, .ref "feb".toList])]]
    let one := (step toyFns World.fresh (.capture (.parse [f1, f2]))).2
    let two := (step toyFns (step toyFns World.fresh (.capture (.parse [f1]))).1 (.capture (.parse [f2]))).2
    (one.reader?.map fun r => (r.entries.map (·.fields), r.preamble))
      = some ([[("note".toList, "FooFebruary".toList)]], ["P".toList]) ∧
    one.errors? = some [] ∧
    (two.reader?.map fun r => (r.entries.map (·.fields), r.preamble))
      = some ([[("note".toList, "February".toList)]], []) ∧
    two.errors? = some [.undefinedMacro "foo".toList] := by
  intro f1 f2 one two
  refine ⟨?_, ?_, ?_, ?_⟩ <;> decide

/-! ## histories -/

/-- DETERMINISM: the result of a call is a function of the call and of the constant part of the
world (month table, `strict`, `captured_errors`, registry).  Two worlds that agree on that part and
whose caches satisfy the invariant — whatever the caches contain, whatever `error_code` is — give
the same result and again two such worlds. -/
theorem C18_deterministic (F : Fns) (w1 w2 : World) (c : Call)
    (hm : w1.months = w2.months) (hst : w1.strict = w2.strict) (hc : w1.captured = w2.captured)
    (hp : w1.plugins = w2.plugins) (h1 : CachesInv F w1) (h2 : CachesInv F w2) :
    (step F w1 c).2 = (step F w2 c).2 ∧
    (step F w1 c).1.months = (step F w2 c).1.months ∧ (step F w1 c).1.strict = (step F w2 c).1.strict ∧
    (step F w1 c).1.captured = (step F w2 c).1.captured ∧ (step F w1 c).1.plugins = (step F w2 c).1.plugins ∧
    CachesInv F (step F w1 c).1 ∧ CachesInv F (step F w2 c).1 := by
  obtain ⟨hr, hs⟩ := step_sim (F := F) (ec := false) ⟨hm, hst, hc, hp, h1, h2, fun h => nomatch h⟩ c
  exact ⟨hr, hs.months, hs.strict, hs.captured, hs.plugins, hs.inv1, hs.inv2⟩

/-- the hypotheses of `C18_deterministic` hold of a fresh world and the world after a history that
filled the caches and set `error_code`, and these two worlds do differ -/
theorem C18_deterministic_nonvacuous :
    let h : List Call := [.formatName ⟨"A, B".toList, 1, "{ll}".toList⟩,
                          .nonstrict (.formatName ⟨"A, B".toList, 1, "{ll}".toList⟩)]
    let w := run toyFns World.fresh h
    w.months = World.fresh.months ∧ w.strict = World.fresh.strict ∧ w.captured = World.fresh.captured ∧
    w.plugins = World.fresh.plugins ∧ w.errorCode = 2 ∧ w.fmtCache.history.length = 1 ∧
    w.splitCache.history.length = 1 := by
  decide

/-- HISTORY INDEPENDENCE: for every finite history `h` of public calls (reading, writing, engine
runs, `format.name$` calls — any number of distinct ones —, failing runs, captured or non-strict)
made at top level and every probe `p`, the probe returns after `h` exactly what it returns in the
initial world. -/
theorem C18_history_independent (F : Fns) (w0 : World) (hw : CachesInv F w0)
    (hcap : w0.captured = none) (h : List Call) (hh : ∀ c ∈ h, c.isPublic = true) (p : Call) :
    (step F (run F w0 h) p).2 = (step F w0 p).2 :=
  (step_sim (run_sim hw hcap h hh) p).1

/-- … in particular against a fresh interpreter -/
theorem C18_history_independent_fresh (F : Fns) (h : List Call) (hh : ∀ c ∈ h, c.isPublic = true)
    (p : Call) : (step F (run F World.fresh h) p).2 = (step F World.fresh p).2 :=
  C18_history_independent F World.fresh (cachesInv_fresh F) rfl h hh p

/-- a history that satisfies the hypotheses, contains a failing run, a cached report and an
`@string`, and a probe whose result is not trivial: the name problem is reported on the cache HIT
exactly as on the miss (C18-2) -/
theorem C18_history_independent_nonvacuous :
    let doc : Doc := [.string "foo".toList [.lit "A, B".toList],
                      .entry "misc".toList "k".toList [("author".toList, [.ref "foo".toList])]]
    let h : List Call := [.parse [[.entry "misc".toList "k".toList [("note".toList, [.ref "nope".toList])]]],
                          .capture (.bibtexRun "s".toList [doc]), .lowLevel .default doc,
                          .nonstrict (.pythonRun "unsrt".toList [doc])]
    let p : Call := .capture (.bibtexRun "s".toList [doc])
    (∀ c ∈ h, c.isPublic = true) ∧
    results toyFns World.fresh h =
      [.raised (.undefinedMacro "nope".toList),
       .captured (.str "A, B{ll}".toList) [.invalidName "A, B".toList],
       .low [.string "foo".toList ["A, B".toList], .entry "misc".toList "k".toList [("author".toList, ["A, B".toList])]]
            (Gen.monthMacros ++ [("foo".toList, "A, B".toList)]),
       .raised (.pluginNotFound "pybtex.style.formatting".toList "unsrt".toList)] ∧
    (step toyFns (run toyFns World.fresh h) p).2 = .captured (.str "A, B{ll}".toList) [.invalidName "A, B".toList] := by
  decide

/-! ## `format.name$` with a name number outside `1..count` (repair a9f9a7a) -/

/-- A name number outside `1 .. number of names` never reaches the memoised formatter: whatever the
two caches hold, the built-in reports `there is no name number n` through `report_error` and the
result is the empty string — collected under `capture()`, raised in strict mode, a warning (and
`error_code = 2`) otherwise; the formatter's cache and the month table are untouched.  A name number
inside the range always finds its name: the indexing `_split_names(names)[n - 1]` in the memoised
body cannot raise `IndexError`, for any integer `n` (also `n ≤ 0`, which Python would read from the
end of the list). -/
theorem C18_format_name_out_of_range (F : Fns) (w : World) (hw : CachesInv F w) (key : FmtKey) :
    (¬ (1 ≤ key.n ∧ key.n ≤ ((F.splitNames key.names).length : Int)) →
      (formatNameBuiltin F w key).1.fmtCache = w.fmtCache ∧
      (formatNameBuiltin F w key).1.months = w.months ∧
      (∀ l, w.captured = some l →
        (formatNameBuiltin F w key).2 = .val [] ∧
        (formatNameBuiltin F w key).1.captured = some (l ++ [.noSuchName key.n key.names])) ∧
      (w.captured = none → w.strict = true →
        (formatNameBuiltin F w key).2 = .raised (.noSuchName key.n key.names)) ∧
      (w.captured = none → w.strict = false →
        (formatNameBuiltin F w key).2 = .val [] ∧ (formatNameBuiltin F w key).1.errorCode = 2)) ∧
    ((1 ≤ key.n ∧ key.n ≤ ((F.splitNames key.names).length : Int)) →
      ∃ name, pyIndex (F.splitNames key.names) (key.n - 1) = some name ∧
        (F.splitNames key.names)[(key.n - 1).toNat]? = some name ∧
        gFmt F key = F.formatOne name key.fmt) := by
  constructor
  · intro hn
    obtain ⟨sc, _, e⟩ := formatNameBuiltin_eq F hw key
    rw [e]
    simp only [builtinAfterSplit, if_neg hn, reportK, report]
    cases hc : w.captured with
    | some l =>
      refine ⟨by first | rfl | trivial, by first | rfl | trivial, ?_, ?_, ?_⟩
      · intro l' hl'
        cases hl'
        exact ⟨by first | rfl | trivial, by first | rfl | trivial⟩
      · intro h; cases h
      · intro h; cases h
    | none =>
      cases hs : w.strict with
      | true =>
        simp only [if_true]
        refine ⟨by first | rfl | trivial, by first | rfl | trivial, ?_, ?_, ?_⟩
        · intro l' hl'; cases hl'
        · intro _ _; first | rfl | trivial
        · intro _ h; cases h
      | false =>
        simp only [Bool.false_eq_true, if_false]
        refine ⟨by first | rfl | trivial, by first | rfl | trivial, ?_, ?_, ?_⟩
        · intro l' hl'; cases hl'
        · intro _ h; cases h
        · intro _ _; exact ⟨by first | rfl | trivial, by first | rfl | trivial⟩
  · intro ⟨h1, h2⟩
    have hlt : (key.n - 1).toNat < (F.splitNames key.names).length := by omega
    have hnn : ¬ (key.n - 1 < 0) := by omega
    refine ⟨(F.splitNames key.names)[(key.n - 1).toNat], ?_, ?_, ?_⟩
    · simp only [pyIndex, if_neg hnn]
      exact List.getElem?_eq_getElem hlt
    · exact List.getElem?_eq_getElem hlt
    · simp only [gFmt, pyIndex, if_neg hnn, List.getElem?_eq_getElem hlt]

/-- name numbers 0, -1 and count+1 of a two-name list: empty string plus one report each, under
`capture()`; number 2 is the second name -/
theorem C18_format_name_out_of_range_nonvacuous :
    let names : Str := "A;B".toList
    let F : Fns := { toyFns with splitNames := fun s => s.splitOn ';' }
    let call (n : Int) : Call := .capture (.formatName ⟨names, n, "{ll}".toList⟩)
    (step F World.fresh (call 0)).2 = .captured (.str []) [.noSuchName 0 names] ∧
    (step F World.fresh (call (-1))).2 = .captured (.str []) [.noSuchName (-1) names] ∧
    (step F World.fresh (call 3)).2 = .captured (.str []) [.noSuchName 3 names] ∧
    (step F World.fresh (call 2)).2 = .captured (.str "B{ll}".toList) [] ∧
    (step F World.fresh (.formatName ⟨names, 0, "{ll}".toList⟩)).2 = .raised (.noSuchName 0 names) := by
  decide +kernel

/-! ## command-line entry points called in-process (`CommandLine.main`, proposed fix C18-3) -/

/-- `main()` of a command-line tool (`pybtex-convert`, `pybtex-format`, `pybtex`) called from Python:
its exit status after ANY history of public calls — earlier `main()` runs that produced warnings
included — is its exit status in the initial world; it does not depend on the `error_code` the
process has accumulated; and it leaves `errors.strict` as it found it, whether or not `--strict` was
given (so that a later API call reports problems exactly as in a fresh interpreter: instance of
`C18_history_independent`). -/
theorem C18_cli_main_independent (F : Fns) (w0 : World) (hw : CachesInv F w0) (hcap : w0.captured = none)
    (h : List Call) (hh : ∀ c ∈ h, c.isPublic = true) (strictOpt : Bool) (c : Call) :
    (step F (run F w0 h) (.cliMain strictOpt c)).2 = (step F w0 (.cliMain strictOpt c)).2 ∧
    (∀ n, (step F { w0 with errorCode := n } (.cliMain strictOpt c)).2 = (step F w0 (.cliMain strictOpt c)).2) ∧
    (c.isPublic = true → (step F w0 (.cliMain strictOpt c)).1.strict = w0.strict ∧
      (step F w0 (.cliMain strictOpt c)).1.months = w0.months) ∧
    (∀ p, c.isPublic = true →
      (step F (run F w0 (h ++ [.cliMain strictOpt c])) p).2 = (step F w0 p).2) := by
  refine ⟨(step_sim (run_sim hw hcap h hh) _).1, fun n => rfl, fun hc => ?_, fun p hc => ?_⟩
  · have hf := step_frame F w0 (.cliMain strictOpt c) hc
    exact ⟨hf.strict, hf.months⟩
  · refine (step_sim (run_sim hw hcap (h ++ [.cliMain strictOpt c]) ?_) p).1
    intro c' hc'
    rcases List.mem_append.1 hc' with hc' | hc'
    · exact hh c' hc'
    · simp only [List.mem_singleton] at hc'
      subst hc'
      exact hc

/-- three runs of a converter `main()` in one process — clean input, input with an undefined
macro (a warning: status 2), the clean input again — give the statuses 0, 2, 0; with `--strict` the
undefined macro is an error (status 1); afterwards `strict` is `True` as in a fresh interpreter and
an API parse of the undefined macro raises -/
theorem C18_cli_main_independent_nonvacuous :
    let good : Doc := [.entry "misc".toList "a".toList [("title".toList, [.lit "T".toList])]]
    let warn : Doc := [.entry "misc".toList "a".toList [("title".toList, [.ref "nope".toList])]]
    let h : List Call := [.cliMain false (.parse [good]), .cliMain false (.parse [warn]),
                          .cliMain false (.parse [good]), .cliMain true (.parse [warn])]
    (∀ c ∈ h, c.isPublic = true) ∧
    results toyFns World.fresh h = [.exit 0, .exit 2, .exit 0, .exit 1] ∧
    (run toyFns World.fresh h).strict = true ∧ (run toyFns World.fresh h).errorCode = 0 ∧
    (run toyFns World.fresh (h.take 2)).errorCode = 2 ∧
    (step toyFns (run toyFns World.fresh h) (.parse [warn])).2 = .raised (.undefinedMacro "nope".toList) := by
  decide +kernel

/-- What the PINNED tree did (`cliMainPinned`: strict mode never put back, exit status = the sticky
process-wide `error_code`): the same three runs give 0, 2, 2, `strict` stays `False`, and a later API
parse of the undefined macro warns instead of raising — the result of a public call depended on the
history.  The model can express, and fail, the property. -/
theorem C18_cli_main_neg_pinned :
    let good : Doc := [.entry "misc".toList "a".toList [("title".toList, [.lit "T".toList])]]
    let warn : Doc := [.entry "misc".toList "a".toList [("title".toList, [.ref "nope".toList])]]
    let r1 := cliMainPinned toyFns World.fresh false (.parse [good])
    let r2 := cliMainPinned toyFns r1.1 false (.parse [warn])
    let r3 := cliMainPinned toyFns r2.1 false (.parse [good])
    [r1.2, r2.2, r3.2] = [.exit 0, .exit 2, .exit 2] ∧
    r3.2 ≠ (cliMainPinned toyFns World.fresh false (.parse [good])).2 ∧
    r3.1.strict = false ∧
    (step toyFns r3.1 (.parse [warn])).2 ≠ (step toyFns World.fresh (.parse [warn])).2 := by
  decide +kernel

/-! ## reading filtered by a citation list (`wanted_entries`) -/

/-- A reader that reads filtered by the caller's citation list keeps its OWN set of wanted keys: the
keys that become wanted while it reads (targets of cross-references of entries it kept) never reach
another reader — whatever a first filtered (or unfiltered) reader went through, a second one returns
what it returns in the initial world; the files of one filtered reader accumulate as for every reader. -/
theorem C18_readers_independent_wanted (F : Fns) (w : World) (hw : CachesInv F w) (hcap : w.captured = none)
    (c1 c2 : List Str) (fs1 fs2 : List Doc) :
    (step F (step F w (.parseWanted c1 fs1)).1 (.parseWanted c2 fs2)).2 = (step F w (.parseWanted c2 fs2)).2 ∧
    (step F (step F w (.parseWanted c1 fs1)).1 (.parse fs2)).2 = (step F w (.parse fs2)).2 ∧
    (step F (step F w (.capture (.parseWanted c1 fs1))).1 (.capture (.parseWanted c2 fs2))).2
      = (step F w (.capture (.parseWanted c2 fs2))).2 := by
  have h1 := run_sim hw hcap [.parseWanted c1 fs1] (by intro c hc; simp at hc; subst hc; rfl)
  have h2 := run_sim hw hcap [.capture (.parseWanted c1 fs1)] (by intro c hc; simp at hc; subst hc; rfl)
  exact ⟨(step_sim h1 _).1, (step_sim h1 _).1, (step_sim h2 _).1⟩

/-- cited: only the child `c`.  The reader keeps `c` under the caller's spelling `C`, its parent `p`
(wanted because `c` refers to it, and it follows `c`) and drops `x`; a second reader with the SAME
citation list over the parent alone drops it: the first reader's enlarged set did not reach it;
the undefined macro of the unwanted entry `x` is not reported -/
theorem C18_readers_independent_wanted_nonvacuous :
    let child : Cmd := .entry "misc".toList "c".toList [("crossref".toList, [.lit "p".toList])]
    let parent : Cmd := .entry "misc".toList "p".toList [("note".toList, [.lit "N".toList])]
    let other : Cmd := .entry "misc".toList "x".toList [("note".toList, [.ref "nope".toList])]
    let one := (step toyFns World.fresh (.capture (.parseWanted ["C".toList] [[child, other, parent]]))).2
    let two := (step toyFns (step toyFns World.fresh (.capture (.parseWanted ["C".toList] [[child, other, parent]]))).1
                 (.capture (.parseWanted ["C".toList] [[parent]]))).2
    (one.reader?.map fun r => (r.entries.map (·.key), r.wanted)) =
      some (["C".toList, "p".toList], some ["c".toList, "p".toList]) ∧
    one.errors? = some [] ∧
    (two.reader?.map fun r => (r.entries.map (·.key), r.wanted)) = some ([], some ["c".toList]) := by
  decide +kernel

/-! ## entries accumulate across the files of one reader; key-less entries (proposed fix C18-4) -/

/-- ENTRIES ACCUMULATE: whatever files a reader — ordinary, filtered by citations, or key-less — goes
through without raising, everything it held before is still there and in the same order (entries,
preamble), the set of wanted keys only grows, the citation spellings stay, and the number the next
key-less entry gets never goes back: a key-less entry of a later file is not given the number of a
key-less entry of an earlier file of the same reader. -/
theorem C18_reader_accumulates (F : Fns) (persons : Bool) (w w' : World) (r r' : Reader) (ds : List Doc)
    (h : readFiles F persons w r ds = (w', .ok r')) :
    r.entries <+: r'.entries ∧ r.preamble <+: r'.preamble ∧ r.unnamed ≤ r'.unnamed ∧
    (r.wanted = none → r'.wanted = none) ∧
    (∀ s, r.wanted = some s → ∃ s', r'.wanted = some s' ∧ s <+: s') ∧ r'.citations = r.citations :=
  let g := readFiles_grows h
  ⟨g.entries, g.preamble, g.unnamed, g.wantedNone, g.wantedSome, g.citations⟩

/-- a key-less reader over two files (two entries, then one): three entries `unnamed-1 .. unnamed-3`,
nothing reported -/
theorem C18_reader_accumulates_nonvacuous :
    let e (t : String) : Cmd := .keyless "misc".toList [("title".toList, [.lit t.toList])]
    let one := (step toyFns World.fresh (.capture (.parse [[e "A", e "B"], [e "C"]]))).2
    (one.reader?.map fun r => (r.entries.map (·.key), r.unnamed)) =
      some (["unnamed-1".toList, "unnamed-2".toList, "unnamed-3".toList], 4) ∧
    one.errors? = some [] ∧
    (∃ w' r', readFiles toyFns true World.fresh (newReader World.fresh) [[e "A", e "B"], [e "C"]] = (w', .ok r') ∧
      r'.entries.length = 3) := by
  refine ⟨by decide +kernel, by decide +kernel, _, _, rfl, by decide +kernel⟩

/-- What the PINNED tree did (`Parser.parse_string` set the counter back to 1 for every file): the
entry of the second file is named `unnamed-1` again, reported as a repeated entry and LOST — the
entries of the files of one reader did not accumulate. -/
theorem C18_reader_accumulates_neg_pinned :
    let e (t : String) : Cmd := .keyless "misc".toList [("title".toList, [.lit t.toList])]
    let x := readFilesPinned toyFns true { World.fresh with captured := some [] } (newReader World.fresh)
               [[e "A", e "B"], [e "C"]]
    x.1.captured = some [.duplicateEntry "unnamed-1".toList] ∧
    (match x.2 with | .ok r => some (r.entries.map (·.key)) | .error _ => none) =
      some ["unnamed-1".toList, "unnamed-2".toList] := by
  decide +kernel

end Pybtex.Props
