/-
C16 — every problem is a renderable pybtex error, the same in all reporting modes.

Property theorems only.  Model of the code: `Model/Errors.lean` (`pybtex/errors.py` as a state
machine, the rendering of every error class, `CommandLine.__call__`); reference semantics a
reader has to agree with: `Spec/Reporting.lean`; helper lemmas: `Lemmas/Errors.lean`.

The model follows the code AFTER proposed_fixes/C16-1.diff (`capture()` restores the previous
value), C16-2.diff (`PluginNotFound.__init__` without `assert`), C20-1/2.diff (`AuxDataError`)
and the C11 fix of `NamePart.__init__` (format letters lower-cased).
-/
import PybtexModel.Lemmas.Errors

namespace Pybtex.Props
open Pybtex Pybtex.Errors
variable {E : Type}

/-! ## rendering -/

/-- `format_error` is defined for every error value of every class (for `TokenRequired`: built
from a parser state in which `get_error_context` does not index out of range) and has the shape
context lines ++ [prefix ++ str(error)], every line prefixed by the file name when there is one;
`format_error` itself is those lines joined by newlines. -/
theorem C16_render_total (e : Err) (hwf : e.WF = true) (pre : Str) :
    ∃ ctx : List Str,
      e.contextLines = .ok ctx ∧
      formatErrorLines e pre = .ok ((ctx ++ [pre ++ e.str]).map (withFile e.getFilename)) ∧
      formatError e pre = .ok (joinWith ['\n'] ((ctx ++ [pre ++ e.str]).map (withFile e.getFilename))) := by
  obtain ⟨ctx, h⟩ := Errors.contextLines_ok e hwf
  refine ⟨ctx, h, ?_, ?_⟩
  · simp [formatErrorLines, h, bind, Except.bind, pure, Except.pure]
  · simp [formatError, formatErrorLines, h, bind, Except.bind, pure, Except.pure, Except.map]

/-- a `TokenRequired` from a real-looking parser state satisfies the hypothesis and renders with
the offending line, the marker under the error column, and the located message -/
theorem C16_render_total_nonvacuous :
    (Err.tokenRequired "'='".toList (some "a.bib".toList)
      { kind := .lowLevel, text := "@article{k,\n  title x\n}\n".toList, start := some 0,
        lineno := some 2, pos := 20 }).WF = true ∧
    formatErrorLines (Err.tokenRequired "'='".toList (some "a.bib".toList)
      { kind := .lowLevel, text := "@article{k,\n  title x\n}\n".toList, start := some 0,
        lineno := some 2, pos := 20 }) errorPrefix
      = .ok ["a.bib: @article{k,".toList, "a.bib:   title x".toList, "a.bib:        ^^^".toList,
             "a.bib: ERROR: syntax error in line 2: '=' expected".toList] := by
  decide +kernel

/-- only `TokenRequired` carries a condition: every other class renders unconditionally -/
theorem C16_render_total_other_classes (e : Err)
    (h : ∀ d f i, e ≠ .tokenRequired d f i) : e.WF = true := by
  cases e <;> first | rfl | exact absurd rfl (h _ _ _)

/-- with a (non-empty) file name every rendered line starts with `<file name>: `; the last line
is the prefixed message -/
theorem C16_render_filename (e : Err) (hwf : e.WF = true) (pre f : Str)
    (hf : e.getFilename = some f) (hne : f ≠ []) :
    ∃ lines : List Str, formatErrorLines e pre = .ok lines ∧
      (∀ l ∈ lines, (f ++ [':', ' ']).isPrefixOf l = true) ∧
      lines.getLast? = some (f ++ [':', ' '] ++ (pre ++ e.str)) := by
  obtain ⟨ctx, _, h2, _⟩ := C16_render_total e hwf pre
  refine ⟨_, h2, ?_, ?_⟩
  · intro l hl
    obtain ⟨x, _, rfl⟩ := List.mem_map.mp hl
    have : f.isEmpty = false := by cases f <;> simp_all
    simp [withFile, hf, this]
  · have : f.isEmpty = false := by cases f <;> simp_all
    simp [List.map_append, withFile, hf, this]

/-- without a file name (or with an empty one) the lines are not prefixed -/
theorem C16_render_no_filename (e : Err) (hwf : e.WF = true) (pre : Str)
    (hf : e.getFilename = none ∨ e.getFilename = some []) :
    ∃ ctx : List Str, e.contextLines = .ok ctx ∧ formatErrorLines e pre = .ok (ctx ++ [pre ++ e.str]) := by
  obtain ⟨ctx, h1, h2, _⟩ := C16_render_total e hwf pre
  refine ⟨ctx, h1, ?_⟩
  rw [h2]
  have : withFile e.getFilename = id := by
    funext l
    rcases hf with h | h <;> simp [withFile, h]
  simp [this]

/-- instances with and without a file name (the hypotheses of the two theorems above) -/
theorem C16_render_filename_nonvacuous :
    (Err.auxData "m".toList (some "x.aux".toList) (some 3) (some "\\foo".toList)).WF = true ∧
    (Err.auxData "m".toList (some "x.aux".toList) (some 3) (some "\\foo".toList)).getFilename = some "x.aux".toList ∧
    formatErrorLines (Err.auxData "m".toList (some "x.aux".toList) (some 3) (some "\\foo".toList)) warningPrefix
      = .ok ["x.aux: \\foo".toList, "x.aux: ^^^^".toList, "x.aux: WARNING: in line 3: m".toList] ∧
    (Err.duplicateField "k".toList "title".toList).getFilename = none ∧
    formatErrorLines (Err.duplicateField "k".toList "title".toList) errorPrefix
      = .ok ["ERROR: entry with key k has a duplicate title field".toList] := by
  decide +kernel

/-- every error value belongs to one of the classes the model lists (the list the harness
compares with the classes enumerated from the source) -/
theorem C16_every_class_listed (e : Err) : e.className ∈ classNames := by
  cases e with
  | plain c _ _ => cases c <;> simp [Err.className, PlainClass.name, classNames]
  | syntaxErr c _ _ _ => cases c <;> simp [Err.className, SyntaxClass.name, classNames]
  | _ => simp [Err.className, classNames]

/-! ## the three reporting modes -/

/-- Mode independence.  For a computation that performs the reports `e₁ … eₙ` (and then possibly
fails with a fatal error):
* capture mode (entered from ANY state, also inside another capture, strict or not) collects
  exactly `[e₁ … eₙ]`, prints and raises nothing, and leaves the module state as it was;
* non-strict mode prints the same `n` warnings in the same order and `error_code` is 2 iff
  `n > 0` (otherwise unchanged);
* strict mode raises `e₁` before anything else happens and changes nothing;
the fatal error surfaces in every mode that gets to it.  All three are the `Spec.modes`. -/
theorem C16_mode_independent (s : State E) (c : Comp E) :
    (execCaptured s c = (s, some (Spec.modes c).collected, c.fatal)) ∧
    (s.captured = none → s.strict = false →
      exec s c = ({ s with errorCode := if c.reports.isEmpty then s.errorCode else 2 },
                  (Spec.modes c).printed.map Obs.printed, c.fatal)) ∧
    (s.captured = none → s.strict = true →
      (exec s c).1 = s ∧ (exec s c).2.2 = (Spec.modes c).strictRaises ∧
      printedOf (exec s c).2.1 = [] ∧ raisedOf (exec s c).2.1 = c.reports.take 1 ∧
      raisedOf (exec s c).2.1 <+: (Spec.modes c).collected) := by
  refine ⟨?_, ?_, ?_⟩
  · simp only [execCaptured, exec, captureEnter, captureExit]
    rw [execReports_captured c.reports _ [] rfl]
    cases s
    simp [Spec.modes]
  · intro h1 h2
    simp only [exec]
    rw [execReports_nonstrict c.reports s h1 h2]
    simp [Spec.modes]
  · intro h1 h2
    cases hr : c.reports with
    | nil => simp [exec, hr, execReports, Spec.modes, printedOf, raisedOf]
    | cons e es =>
      simp only [exec, hr]
      rw [execReports_strict e es s h1 h2]
      simp [Spec.modes, hr, printedOf, raisedOf]

/-- on a concrete computation with two problems: collected, printed, raised -/
theorem C16_mode_independent_nonvacuous :
    execCaptured (State.init : State Nat) { reports := [7, 8], fatal := none }
      = (State.init, some [7, 8], none) ∧
    exec ({ strict := false, errorCode := 0, captured := none } : State Nat) { reports := [7, 8], fatal := none }
      = ({ strict := false, errorCode := 2, captured := none }, [.printed 7, .printed 8], none) ∧
    exec (State.init : State Nat) { reports := [7, 8], fatal := none }
      = (State.init, [.raised 7], some 7) := by decide

/-- in non-strict mode the text that reaches stderr for each problem is its rendering with the
`WARNING: ` prefix: defined for every (well-formed) error, ending in `WARNING: ` ++ `str(error)` -/
theorem C16_warning_text (e : Err) (hwf : e.WF = true) :
    ∃ ctx, formatErrorLines e warningPrefix
      = .ok ((ctx ++ [warningPrefix ++ e.str]).map (withFile e.getFilename)) := by
  obtain ⟨ctx, _, h, _⟩ := C16_render_total e hwf warningPrefix
  exact ⟨ctx, h⟩

/-- Exit status of the command line (`CommandLine.__call__`, run from a fresh module state):
0 iff nothing was reported, 2 iff there were only warnings, 1 iff a pybtex error escaped; stderr
carries one warning per report, in order, then the fatal error with the `ERROR: ` prefix. -/
theorem C16_exit_status (s : State E) (c : Comp E) (h1 : s.captured = none) (h2 : s.errorCode = 0) :
    (commandLine s c).2.2 = (Spec.modes c).status ∧
    (commandLine s c).2.1 = c.reports.map (fun e => (false, e)) ++
      (match c.fatal with
       | some f => [(true, f)]
       | none => []) := by
  have h := (C16_mode_independent (setStrict s false) c).2.1 (by simp [setStrict, h1]) (by simp [setStrict])
  have hp : ∀ l : List E, printedOf (l.map Obs.printed) = l := by
    intro l
    induction l with
    | nil => rfl
    | cons a l ih => simp [printedOf, ih]
  simp only [commandLine]
  rw [h]
  cases hf : c.fatal with
  | some f => simp [Spec.modes, hf, hp]
  | none =>
    simp only [Spec.modes, hf, hp, setStrict, h2]
    cases c.reports <;> simp

theorem C16_exit_status_nonvacuous :
    (commandLine (State.init : State Nat) { reports := [], fatal := none }).2.2 = 0 ∧
    (commandLine (State.init : State Nat) { reports := [1], fatal := none }).2.2 = 2 ∧
    (commandLine (State.init : State Nat) { reports := [1], fatal := some 5 }).2
      = ([(false, 1), (true, 5)], 1) := by decide

/-! ## capture contexts -/

/-- Leaving capture contexts restores reporting.  For every history `ops` in which each exit
(normal or by an exception) matches an enter and every context is closed at the end — any nesting,
any mixture of normal exits and aborts — run from ANY configuration (inside or outside other
contexts):
* the frames of the enclosing contexts are untouched;
* `captured_errors` is back to what it was, extended (when it is a list) by exactly the reports
  made directly at the level of the history, i.e. outside all of its own contexts: an enclosing
  context goes on collecting, and outside any context `captured_errors` is `None` again;
* `strict` is what the `set_strict_mode` calls made it, `error_code` is unchanged unless a
  warning was printed (then 2). -/
theorem C16_capture_restores (ops : List (Op E)) (hb : balanced ops = true) (c : Config E) :
    (run c ops).1.saved = c.saved ∧
    (run c ops).1.st.captured = extend c.st.captured (baseReports 0 ops) ∧
    (run c ops).1.st.strict = finalStrict c.st.strict ops ∧
    (run c ops).1.st.errorCode = (if (printedOf (run c ops).2).isEmpty then c.st.errorCode else 2) := by
  have hd : depthAfter 0 ops = some 0 := by simpa [balanced] using hb
  obtain ⟨top', h1, h2⟩ := run_stack ops 0 0 c [] c.st.captured c.saved hd rfl rfl
  have : top' = [] := List.eq_nil_of_length_eq_zero h2
  subst this
  simp only [Config.full, List.nil_append, List.cons.injEq] at h1
  exact ⟨h1.2, h1.1, run_strict ops c, run_errorCode ops c⟩

theorem C16_capture_restores_nonvacuous :
    balanced ([.enter, .report 1, .enter, .report 2, .abort, .report 3, .exit] : List (Op Nat)) = true ∧
    run Config.init ([.enter, .report 1, .enter, .report 2, .abort, .report 3, .exit] : List (Op Nat))
      = (Config.init, [.unit, .collected, .unit, .collected, .left (some [2]), .collected, .left (some [1, 3])]) := by
  decide

/-- outside any capture context: after any pattern of nested / aborted contexts has unwound
`captured_errors` is `None` -/
theorem C16_capture_restores_outside (ops : List (Op E)) (hb : balanced ops = true) (c : Config E)
    (h : c.st.captured = none) : (run c ops).1.st.captured = none := by
  rw [(C16_capture_restores ops hb c).2.1, h]; rfl

/-- nested contexts compose: inside an enclosing context (`captured_errors` is a list `l`), after
any balanced pattern of inner contexts the enclosing context has collected exactly the reports
made directly in it, nothing was printed or raised meanwhile, `error_code` is untouched, and the
next report is collected by the enclosing context too. -/
theorem C16_capture_nested (ops : List (Op E)) (hb : balanced ops = true) (c : Config E)
    (l : List E) (h : c.st.captured = some l) (e : E) :
    (run c ops).1.st.captured = some (l ++ baseReports 0 ops) ∧
    printedOf (run c ops).2 = [] ∧ raisedOf (run c ops).2 = [] ∧
    (run c ops).1.st.errorCode = c.st.errorCode ∧
    (run c (ops ++ [.report e])).1.st.captured = some (l ++ baseReports 0 ops ++ [e]) ∧
    (run c (ops ++ [.report e])).2.getLast? = some .collected := by
  have hd : depthAfter 0 ops = some 0 := by simpa [balanced] using hb
  have hr := C16_capture_restores ops hb c
  have hin := run_inside ops 0 0 c [] c.st.captured c.saved hd rfl rfl (by simp) (by simp [h])
  have hcap : (run c ops).1.st.captured = some (l ++ baseReports 0 ops) := by
    rw [hr.2.1, h]; rfl
  refine ⟨hcap, hin.1, hin.2, ?_, ?_, ?_⟩
  · rw [hr.2.2.2, hin.1]; rfl
  · rw [run_append]
    simp [run_cons, run_nil, step, report, hcap]
  · rw [run_append]
    simp [run_cons, run_nil, step, report, hcap]

/-- one context, in isolation: entering, running any balanced body and leaving — normally or by
an exception — yields exactly the reports made directly in the body and puts `captured_errors`
and the frames of the enclosing contexts back EXACTLY as they were on entry. -/
theorem C16_capture_context (body : List (Op E)) (hb : balanced body = true) (c : Config E)
    (close : Op E) (hc : close = .exit ∨ close = .abort) :
    (run c (.enter :: body ++ [close])).1.st.captured = c.st.captured ∧
    (run c (.enter :: body ++ [close])).1.saved = c.saved ∧
    (run c (.enter :: body ++ [close])).2.getLast? = some (.left (some (baseReports 0 body))) := by
  have hr := C16_capture_restores body hb (step c .enter).1
  have hcap : (run (step c .enter).1 body).1.st.captured = some (baseReports 0 body) := by
    rw [hr.2.1]; simp [step, captureEnter, extend]
  have hsv : (run (step c .enter).1 body).1.saved = c.st.captured :: c.saved := by
    rw [hr.1]; simp [step, captureEnter]
  rw [List.cons_append, run_cons, run_append]
  generalize run (step c .enter).1 body = R at hsv hcap ⊢
  rcases hc with rfl | rfl <;> simp [run_cons, run_nil, step, leave, hsv, hcap, captureExit]
  all_goals
    rw [← List.cons_append, List.getLast?_concat]

/-- the reports made directly in the body of a context are determined by the body alone: what
follows the matching exit does not matter (so `Spec.directBody` of the text after an `enter` is
what `C16_capture_context` says the context yields) -/
theorem C16_direct_body (body rest : List (Op E)) (hb : balanced body = true) (close : Op E)
    (hc : close = .exit ∨ close = .abort) :
    Spec.directBody (body ++ close :: rest) = baseReports 0 body := by
  have hd : depthAfter 0 body = some 0 := by simpa [balanced] using hb
  rw [Spec.directBody, baseReports_append body _ 0 0 hd]
  rcases hc with rfl | rfl <;> simp [baseReports]

/-- nesting on a concrete history: inside an outer context an inner one is aborted; the outer
context has its direct reports, goes on collecting, and yields them all when left -/
theorem C16_capture_nested_nonvacuous :
    balanced ([.enter, .report 2, .abort, .report 3] : List (Op Nat)) = true ∧
    (run { st := { strict := true, errorCode := 0, captured := some [1] }, saved := [none] }
        ([.enter, .report 2, .abort, .report 3] ++ [.report 4] : List (Op Nat))).1
      = { st := { strict := true, errorCode := 0, captured := some [1, 3, 4] }, saved := [none] } ∧
    (run Config.init ([.enter, .report 1, .enter, .report 2, .exit, .report 3] ++ [.abort] : List (Op Nat))).2.getLast?
      = some (.left (some [1, 3])) ∧
    Spec.directBody ([.report 1, .enter, .report 2, .exit, .report 3] ++ .abort :: [.report 9] : List (Op Nat)) = [1, 3] := by
  decide

/-- every history of the grammar satisfies the decidable hypothesis of `C16_capture_restores`
(proved by induction over well-bracketed histories) -/
theorem C16_wellBracketed_balanced (ops : List (Op E)) (h : Spec.WellBracketed ops) : balanced ops = true := by
  have key : ∀ d, depthAfter d ops = some d := by
    induction h with
    | nil => intro d; rfl
    | report e => intro d; rfl
    | setStrict b => intro d; rfl
    | context body _ ih =>
      intro d
      simp only [depthAfter, List.cons_append]
      rw [depthAfter_append body _ (d + 1) (d + 1) (ih (d + 1))]
      rfl
    | aborted body _ ih =>
      intro d
      simp only [depthAfter, List.cons_append]
      rw [depthAfter_append body _ (d + 1) (d + 1) (ih (d + 1))]
      rfl
    | append a b _ _ iha ihb =>
      intro d
      rw [depthAfter_append a b d d (iha d)]
      exact ihb d
  simp [balanced, key 0]

theorem C16_wellBracketed_balanced_nonvacuous :
    Spec.WellBracketed ([.report 1] ++ (.enter :: ([.report 2] ++ (.enter :: [] ++ [.abort])) ++ [.exit]) : List (Op Nat)) :=
  .append _ _ (.report 1) (.context _ (.append _ _ (.report 2) (.aborted _ .nil)))

/-- the decidable hypothesis and the grammar describe the same histories -/
theorem C16_balanced_iff_wellBracketed (ops : List (Op E)) :
    balanced ops = true ↔ Spec.WellBracketed ops :=
  ⟨fun h => balanced_wellBracketed ops.length ops (Nat.le_refl _) (by simpa [balanced] using h),
   C16_wellBracketed_balanced ops⟩

/-- Refinement to the reference semantics.  Started outside any capture context, in every
history that never leaves a context it did not enter (contexts may still be open at the end),
each report does what `Spec.reportObs` says from the nesting depth and the strict flag alone:
collected inside a context, raised outside in strict mode, printed outside in non-strict mode;
and `error_code` ends as `Spec.finalCode` says. -/
theorem C16_history_refines_spec (ops : List (Op E)) (c : Config E) (d' : Nat)
    (h1 : c.st.captured = none) (h2 : c.saved = []) (hd : depthAfter 0 ops = some d') :
    reportsOnly (run c ops).2 = Spec.reportObs 0 c.st.strict ops ∧
    (run c ops).1.saved.length = d' ∧
    (run c ops).1.st.errorCode = Spec.finalCode c.st.errorCode (Spec.reportObs 0 c.st.strict ops) := by
  have hc : Clean c := ⟨[], by simp [Config.full, h1, h2], by simp⟩
  have := run_refines ops c d' hc (by simpa [h2] using hd)
  simp only [h2, List.length_nil] at this
  refine ⟨this.1, this.2.2, ?_⟩
  rw [run_errorCode, Spec.finalCode, ← this.1, printedOf_reportsOnly]

theorem C16_history_refines_spec_nonvacuous :
    depthAfter 0 ([.report 1, .enter, .report 2, .setStrict false, .exit, .report 3, .enter] : List (Op Nat)) = some 1 ∧
    Spec.reportObs 0 true ([.report 1, .enter, .report 2, .setStrict false, .exit, .report 3, .enter] : List (Op Nat))
      = [.raised 1, .collected, .printed 3] := by decide

/-! ## error_code -/

/-- `error_code` only ever goes from its value to 2 and never back: along every history (any
operations, well-bracketed or not) it is unchanged or 2, it is 2 as soon as a warning has been
printed, and a longer history never has a smaller code (for codes ≤ 2, i.e. always in pybtex). -/
theorem C16_error_code_monotone (a b : List (Op E)) (c : Config E) :
    ((run c a).1.st.errorCode = c.st.errorCode ∨ (run c a).1.st.errorCode = 2) ∧
    (printedOf (run c a).2 ≠ [] → (run c a).1.st.errorCode = 2) ∧
    (c.st.errorCode ≤ 2 → (run c a).1.st.errorCode ≤ (run c (a ++ b)).1.st.errorCode ∧
      (run c (a ++ b)).1.st.errorCode ≤ 2) := by
  have ha := run_errorCode a c
  have hab := run_errorCode b (run c a).1
  refine ⟨?_, ?_, ?_⟩
  · rw [ha]; split <;> simp
  · intro h
    rw [ha]
    cases hp : printedOf (run c a).2 with
    | nil => exact absurd hp h
    | cons x xs => simp
  · intro hle
    rw [run_append]
    simp only
    rw [hab, ha]
    split <;> split <;> omega

theorem C16_error_code_monotone_nonvacuous :
    (run Config.init ([.setStrict false, .report 1, .enter, .report 2, .exit] : List (Op Nat))).1.st.errorCode = 2 ∧
    (run Config.init ([.setStrict false, .enter, .report 2, .exit] : List (Op Nat))).1.st.errorCode = 0 := by
  decide

/-! ## location -/

/-- The location an error renders with is the one current when it was reported, whatever happens
afterwards.  An error is BUILT from the mutable parse state (`.aux` context, scanner position) at
the moment of the report and keeps a copy: in capture mode, after any continuation `h₂` of the
history, the list holds first the errors built during `h₁` from the states current at their
reports — the same values as if nothing had followed — then those of `h₂`. -/
theorem C16_location_stable {σ : Type} (w : σ) (s : State E) (l : List E) (h : s.captured = some l)
    (h₁ h₂ : List (WOp σ E)) :
    (runWorld w s (h₁ ++ h₂)).2.1.captured
      = some (l ++ builtErrors w h₁ ++ builtErrors (worldAfter w h₁) h₂) ∧
    (runWorld w s h₁).2.1.captured = some (l ++ builtErrors w h₁) := by
  constructor
  · rw [(runWorld_captured (h₁ ++ h₂) w s l h).2, builtErrors_append]
    simp
  · rw [(runWorld_captured h₁ w s l h).2]

/-- `.aux` instance: an error reported on line 3 still renders with file name, line number and
the marked line after the parser has moved on and finally cleared its context (`parse_file`'s
epilogue); likewise a `TokenRequired` keeps the position the scanner had. -/
theorem C16_location_stable_nonvacuous :
    let ctx0 : AuxContext := { filename := some "a.aux".toList, lineno := none, line := none }
    let hist : List (WOp AuxContext Err) :=
      [.mutate fun c => { c with lineno := some 3, line := some "\\bibstyle{x}".toList },
       .report (mkAuxError "illegal, another \\bibstyle command".toList),
       .mutate fun c => { c with lineno := some 4, line := some "\\relax".toList },
       .mutate fun c => { c with lineno := none, line := none }]
    ((runWorld ctx0 { strict := true, errorCode := 0, captured := some [] } hist).2.1.captured.map
        fun es => es.map fun e => formatErrorLines e errorPrefix)
      = some [.ok ["a.aux: \\bibstyle{x}".toList, "a.aux: ^^^^^^^^^^^^".toList,
                   "a.aux: ERROR: in line 3: illegal, another \\bibstyle command".toList]] := by
  decide +kernel

/-- rendering reads the error value only: two errors built from the same parse state are
rendered alike, whatever the parser does later (there is no other input) -/
theorem C16_location_snapshot (msg : Str) (ctx : AuxContext) (d : Str) (p : ScanState) :
    (mkAuxError msg ctx).getFilename = ctx.filename ∧
    (mkAuxError msg ctx).str =
      (match ctx.lineno with
       | some n => if n = 0 then [] else "in line ".toList ++ natStr n ++ ": ".toList
       | none => []) ++ msg ∧
    (mkTokenRequired d p).getFilename = p.filename ∧
    (mkTokenRequired d p).str = syntaxStr "syntax error".toList p.lineno (d ++ " expected".toList) := by
  refine ⟨rfl, rfl, rfl, rfl⟩

/-! ## the two exception classes that are not pybtex errors -/

/-- `BibTeXNameFormatError` is unreachable: format letters that pass `check_format_chars` (which
raises a `PybtexSyntaxError` otherwise) are accepted by `NamePart.__init__`, and the format
character it stores is one of `f l v j` (no `KeyError` in `NamePart.format`).  `SkipEntry` never
leaves `parse_bibliography`: the loop body turns it into "nothing yielded, nothing reported". -/
theorem C16_no_foreign_exception (already : Bool) (value : Str)
    (h : checkFormatChars already value = true) :
    (∃ a abbr, namePartInit value = some (a, abbr) ∧ a ∈ formatLetters) ∧
    (guardCommand (CmdOutcome.skipEntry : CmdOutcome Unit) = (none, none)) := by
  refine ⟨?_, rfl⟩
  simp only [checkFormatChars, namePartInit] at h ⊢
  generalize lower value = v at h ⊢
  match v with
  | [] => simp at h
  | [a] =>
    refine ⟨a, true, rfl, ?_⟩
    simp at h
    simpa using h.2
  | [a, b] =>
    simp at h
    obtain ⟨_, h1, h2⟩ := h
    subst h1
    exact ⟨a, false, by simp, by simpa using h2⟩
  | _ :: _ :: _ :: _ => simp at h

theorem C16_no_foreign_exception_nonvacuous :
    checkFormatChars false "fF".toList = true ∧ namePartInit "fF".toList = some ('f', false) ∧
    checkFormatChars false "fg".toList = false ∧ checkFormatChars true "f".toList = false := by
  decide

end Pybtex.Props
