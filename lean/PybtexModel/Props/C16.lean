/-
C16 — every problem is a renderable pybtex error, the same in all reporting modes.

Property theorems only.  Model of the code: `Model/Errors.lean` (`pybtex/errors.py` as a state
machine, the rendering of every error class, `CommandLine.__call__`); reference semantics a
reader has to agree with: `Spec/Reporting.lean`; helper lemmas: `Lemmas/Errors.lean`.

The model follows the code AFTER proposed_fixes/C16-1.diff (`capture()` restores the previous
value), C16-2.diff (`PluginNotFound.__init__` without `assert`), C20-1/2.diff (`AuxDataError`)
and the C11 fix of `NamePart.__init__` (format letters lower-cased).
-/
import PybtexModel.Lemmas.Errors
import PybtexModel.Lemmas.ErrorSources

namespace Pybtex.Props
open Pybtex Pybtex.Errors
variable {E : Type}

/-! ## rendering -/

/-- `format_error` is defined for every error value of every class (for `TokenRequired`: built
from a parser state in which `get_error_context` does not index out of range) and has the shape
context lines ++ [prefix ++ str(error)], every line prefixed by the file name when there is one;
`format_error` itself is those lines joined by newlines. -/
theorem C16_render_total (e : Err) (hwf : e.WF = true) (pre : Str) :
    ∃ ctx : List Str,
      e.contextLines = .ok ctx ∧
      formatErrorLines e pre = .ok ((ctx ++ [pre ++ e.str]).map (withFile e.getFilename)) ∧
      formatError e pre = .ok (joinWith ['\n'] ((ctx ++ [pre ++ e.str]).map (withFile e.getFilename))) := by
  obtain ⟨ctx, h⟩ := Errors.contextLines_ok e hwf
  refine ⟨ctx, h, ?_, ?_⟩
  · simp [formatErrorLines, h, bind, Except.bind, pure, Except.pure]
  · simp [formatError, formatErrorLines, h, bind, Except.bind, pure, Except.pure, Except.map]

/-- a `TokenRequired` from a real-looking parser state satisfies the hypothesis and renders with
the offending line, the marker under the error column, and the located message -/
theorem C16_render_total_nonvacuous :
    (Err.tokenRequired "'='".toList (some "a.bib".toList)
      { kind := .lowLevel, text := "@article{k,\n  title x\n}\n".toList, start := some 0,
        lineno := some 2, pos := 20 }).WF = true ∧
    formatErrorLines (Err.tokenRequired "'='".toList (some "a.bib".toList)
      { kind := .lowLevel, text := "@article{k,\n  title x\n}\n".toList, start := some 0,
        lineno := some 2, pos := 20 }) errorPrefix
      = .ok ["a.bib: @article{k,".toList, "a.bib:   title x".toList, "a.bib:        ^^^".toList,
             "a.bib: ERROR: syntax error in line 2: '=' expected".toList] := by
  decide +kernel

/-- only `TokenRequired` carries a condition: every other class renders unconditionally -/
theorem C16_render_total_other_classes (e : Err)
    (h : ∀ d f i, e ≠ .tokenRequired d f i) : e.WF = true := by
  cases e <;> first | rfl | exact absurd rfl (h _ _ _)

/-- with a (non-empty) file name every rendered line starts with `<file name>: `; the last line
is the prefixed message -/
theorem C16_render_filename (e : Err) (hwf : e.WF = true) (pre f : Str)
    (hf : e.getFilename = some f) (hne : f ≠ []) :
    ∃ lines : List Str, formatErrorLines e pre = .ok lines ∧
      (∀ l ∈ lines, (f ++ [':', ' ']).isPrefixOf l = true) ∧
      lines.getLast? = some (f ++ [':', ' '] ++ (pre ++ e.str)) := by
  obtain ⟨ctx, _, h2, _⟩ := C16_render_total e hwf pre
  refine ⟨_, h2, ?_, ?_⟩
  · intro l hl
    obtain ⟨x, _, rfl⟩ := List.mem_map.mp hl
    have : f.isEmpty = false := by cases f <;> simp_all
    simp [withFile, hf, this]
  · have : f.isEmpty = false := by cases f <;> simp_all
    simp [List.map_append, withFile, hf, this]

/-- without a file name (or with an empty one) the lines are not prefixed -/
theorem C16_render_no_filename (e : Err) (hwf : e.WF = true) (pre : Str)
    (hf : e.getFilename = none ∨ e.getFilename = some []) :
    ∃ ctx : List Str, e.contextLines = .ok ctx ∧ formatErrorLines e pre = .ok (ctx ++ [pre ++ e.str]) := by
  obtain ⟨ctx, h1, h2, _⟩ := C16_render_total e hwf pre
  refine ⟨ctx, h1, ?_⟩
  rw [h2]
  have : withFile e.getFilename = id := by
    funext l
    rcases hf with h | h <;> simp [withFile, h]
  simp [this]

/-- instances with and without a file name (the hypotheses of the two theorems above) -/
theorem C16_render_filename_nonvacuous :
    (Err.auxData "m".toList (some "x.aux".toList) (some 3) (some "\\foo".toList)).WF = true ∧
    (Err.auxData "m".toList (some "x.aux".toList) (some 3) (some "\\foo".toList)).getFilename = some "x.aux".toList ∧
    formatErrorLines (Err.auxData "m".toList (some "x.aux".toList) (some 3) (some "\\foo".toList)) warningPrefix
      = .ok ["x.aux: \\foo".toList, "x.aux: ^^^^".toList, "x.aux: WARNING: in line 3: m".toList] ∧
    (Err.duplicateField "k".toList "title".toList).getFilename = none ∧
    formatErrorLines (Err.duplicateField "k".toList "title".toList) errorPrefix
      = .ok ["ERROR: entry with key k has a duplicate title field".toList] := by
  decide +kernel

/-- The list of classes the harness compares with the `PybtexError` subclasses found in the source
is exactly the set of classes the model has values (hence a rendering) for: no listed class lacks
a rendering, no rendered class is missing from the list. -/
theorem C16_class_list_exact (n : String) : n ∈ classNames ↔ ∃ e : Err, e.className = n := by
  constructor
  · intro h
    simp only [classNames, List.mem_cons, List.not_mem_nil, or_false] at h
    rcases h with h | h | h | h | h | h | h | h | h | h | h | h | h | h | h <;> subst h
    · exact ⟨.plain .pybtexError [] none, rfl⟩
    · exact ⟨.plain .bibliographyDataError [] none, rfl⟩
    · exact ⟨.plain .bibTeXError [] none, rfl⟩
    · exact ⟨.plain .convertError [] none, rfl⟩
    · exact ⟨.duplicateField [] [], rfl⟩
    · exact ⟨.invalidNameString [], rfl⟩
    · exact ⟨.pluginGroupNotFound [], rfl⟩
    · exact ⟨.pluginNotFound [] [], rfl⟩
    · exact ⟨.fieldIsMissing [] .none, rfl⟩
    · exact ⟨.syntaxErr .pybtexSyntaxError [] none none, rfl⟩
    · exact ⟨.syntaxErr .undefinedMacro [] none none, rfl⟩
    · exact ⟨.syntaxErr .prematureEOF [] none none, rfl⟩
    · exact ⟨.syntaxErr .unbalancedBrace [] none none, rfl⟩
    · exact ⟨.tokenRequired [] none { kind := .scanner, text := [], start := none, lineno := none, pos := 0 }, rfl⟩
    · exact ⟨.auxData [] none none none, rfl⟩
  · rintro ⟨e, rfl⟩
    cases e with
    | plain c _ _ => cases c <;> simp [Err.className, PlainClass.name, classNames]
    | syntaxErr c _ _ _ => cases c <;> simp [Err.className, SyntaxClass.name, classNames]
    | _ => simp [Err.className, classNames]

/-! ## the three reporting modes -/

/-- Mode independence.  For a computation that performs the reports `e₁ … eₙ` (and then possibly
fails with a fatal error):
* capture mode (entered from ANY state, also inside another capture, strict or not) collects
  exactly `[e₁ … eₙ]`, prints and raises nothing, and leaves the module state as it was;
* non-strict mode prints the same `n` warnings in the same order and `error_code` is 2 iff
  `n > 0` (otherwise unchanged);
* strict mode raises `e₁` before anything else happens and changes nothing;
the fatal error surfaces in every mode that gets to it.  All three are the `Spec.modes`. -/
theorem C16_mode_independent (s : State E) (c : Comp E) :
    (execCaptured s c = (s, some (Spec.modes c).collected, c.fatal)) ∧
    (s.captured = none → s.strict = false →
      exec s c = ({ s with errorCode := if c.reports.isEmpty then s.errorCode else 2 },
                  (Spec.modes c).printed.map Obs.printed, c.fatal)) ∧
    (s.captured = none → s.strict = true →
      (exec s c).1 = s ∧ (exec s c).2.2 = (Spec.modes c).strictRaises ∧
      printedOf (exec s c).2.1 = [] ∧ raisedOf (exec s c).2.1 = c.reports.take 1 ∧
      raisedOf (exec s c).2.1 <+: (Spec.modes c).collected) := by
  refine ⟨?_, ?_, ?_⟩
  · simp only [execCaptured, exec, captureEnter, captureExit]
    rw [execReports_captured c.reports _ [] rfl]
    cases s
    simp [Spec.modes]
  · intro h1 h2
    simp only [exec]
    rw [execReports_nonstrict c.reports s h1 h2]
    simp [Spec.modes]
  · intro h1 h2
    cases hr : c.reports with
    | nil => simp [exec, hr, execReports, Spec.modes, printedOf, raisedOf]
    | cons e es =>
      simp only [exec, hr]
      rw [execReports_strict e es s h1 h2]
      simp [Spec.modes, hr, printedOf, raisedOf]

/-- on a concrete computation with two problems: collected, printed, raised -/
theorem C16_mode_independent_nonvacuous :
    execCaptured (State.init : State Nat) { reports := [7, 8], fatal := none }
      = (State.init, some [7, 8], none) ∧
    exec ({ strict := false, errorCode := 0, captured := none } : State Nat) { reports := [7, 8], fatal := none }
      = ({ strict := false, errorCode := 2, captured := none }, [.printed 7, .printed 8], none) ∧
    exec (State.init : State Nat) { reports := [7, 8], fatal := none }
      = (State.init, [.raised 7], some 7) := by decide

/-- in non-strict mode the text that reaches stderr for each problem is its rendering with the
`WARNING: ` prefix: defined for every (well-formed) error, ending in `WARNING: ` ++ `str(error)` -/
theorem C16_warning_text (e : Err) (hwf : e.WF = true) :
    ∃ ctx, formatErrorLines e warningPrefix
      = .ok ((ctx ++ [warningPrefix ++ e.str]).map (withFile e.getFilename)) := by
  obtain ⟨ctx, _, h, _⟩ := C16_render_total e hwf warningPrefix
  exact ⟨ctx, h⟩

/-- Exit status of the command line (`CommandLine.__call__`; `main` resets `error_code` first, so
from ANY module state outside a capture, whatever `error_code` and `strict` were):
0 iff nothing was reported, 2 iff there were only warnings, 1 iff a pybtex error escaped; stderr
carries one warning per report, in order, then the fatal error with the `ERROR: ` prefix; the
caller's `strict` is put back and `error_code` is left as the status of this run's warnings. -/
theorem C16_exit_status (s : State E) (c : Comp E) (h1 : s.captured = none) :
    (commandLine s c).2.2 = (Spec.modes c).status ∧
    (commandLine s c).2.1 = c.reports.map (fun e => (false, e)) ++
      (match c.fatal with
       | some f => [(true, f)]
       | none => []) ∧
    (commandLine s c).1 = { s with errorCode := if c.reports.isEmpty then 0 else 2 } := by
  have h := (C16_mode_independent (setStrict { s with errorCode := 0 } false) c).2.1
    (by simp [setStrict, h1]) (by simp [setStrict])
  have hp : ∀ l : List E, printedOf (l.map Obs.printed) = l := by
    intro l
    induction l with
    | nil => rfl
    | cons a l ih => simp [printedOf, ih]
  simp only [commandLine]
  rw [h]
  cases hf : c.fatal with
  | some f => simp [Spec.modes, hf, hp, setStrict]
  | none =>
    simp only [Spec.modes, hf, hp, setStrict]
    cases c.reports <;> simp

theorem C16_exit_status_nonvacuous :
    (commandLine (State.init : State Nat) { reports := [], fatal := none }).2.2 = 0 ∧
    (commandLine (State.init : State Nat) { reports := [1], fatal := none }).2.2 = 2 ∧
    (commandLine (State.init : State Nat) { reports := [1], fatal := some 5 }).2
      = ([(false, 1), (true, 5)], 1) ∧
    (commandLine ({ strict := true, errorCode := 2, captured := none } : State Nat) { reports := [], fatal := none })
      = ({ strict := true, errorCode := 0, captured := none }, [], 0) := by decide

/-! ## capture contexts

Every theorem of this section is about histories in which contexts are left innermost first
(`with`-statement discipline, LIFO): `Op.exit` / `Op.abort` leave the innermost open context, and
`balanced` / `Spec.WellBracketed` describe such histories.  That is the quantifier of the property
("every nesting/abort pattern").  Context managers driven by hand can be left in another order;
then "leaving capture mode restores normal reporting" is FALSE: `C16_capture_nonLIFO_neg`. -/

/-- Leaving capture contexts restores reporting.  For every history `ops` in which each exit
(normal or by an exception) matches an enter and every context is closed at the end — any nesting,
any mixture of normal exits and aborts — run from ANY configuration (inside or outside other
contexts):
* the frames of the enclosing contexts are untouched;
* `captured_errors` is back to what it was, extended (when it is a list) by exactly the reports
  made directly at the level of the history, i.e. outside all of its own contexts: an enclosing
  context goes on collecting, and outside any context `captured_errors` is `None` again;
* `strict` is what the `set_strict_mode` calls made it, `error_code` is unchanged unless a
  warning was printed (then 2). -/
theorem C16_capture_restores (ops : List (Errors.Op E)) (hb : balanced ops = true) (c : Config E) :
    (run c ops).1.saved = c.saved ∧
    (run c ops).1.st.captured = extend c.st.captured (baseReports 0 ops) ∧
    (run c ops).1.st.strict = finalStrict c.st.strict ops ∧
    (run c ops).1.st.errorCode = (if (printedOf (run c ops).2).isEmpty then c.st.errorCode else 2) := by
  have hd : depthAfter 0 ops = some 0 := by simpa [balanced] using hb
  obtain ⟨top', h1, h2⟩ := run_stack ops 0 0 c [] c.st.captured c.saved hd rfl rfl
  have : top' = [] := List.eq_nil_of_length_eq_zero h2
  subst this
  simp only [Config.full, List.nil_append, List.cons.injEq] at h1
  exact ⟨h1.2, h1.1, run_strict ops c, run_errorCode ops c⟩

theorem C16_capture_restores_nonvacuous :
    balanced ([.enter, .report 1, .enter, .report 2, .abort, .report 3, .exit] : List (Errors.Op Nat)) = true ∧
    run Config.init ([.enter, .report 1, .enter, .report 2, .abort, .report 3, .exit] : List (Errors.Op Nat))
      = (Config.init, [.unit, .collected, .unit, .collected, .left (some [2]), .collected, .left (some [1, 3])]) := by
  decide

/-- outside any capture context: after any pattern of nested / aborted contexts has unwound
`captured_errors` is `None` -/
theorem C16_capture_restores_outside (ops : List (Errors.Op E)) (hb : balanced ops = true) (c : Config E)
    (h : c.st.captured = none) : (run c ops).1.st.captured = none := by
  rw [(C16_capture_restores ops hb c).2.1, h]; rfl

/-- nested contexts compose: inside an enclosing context (`captured_errors` is a list `l`), after
any balanced pattern of inner contexts the enclosing context has collected exactly the reports
made directly in it, nothing was printed or raised meanwhile, `error_code` is untouched, and the
next report is collected by the enclosing context too. -/
theorem C16_capture_nested (ops : List (Errors.Op E)) (hb : balanced ops = true) (c : Config E)
    (l : List E) (h : c.st.captured = some l) (e : E) :
    (run c ops).1.st.captured = some (l ++ baseReports 0 ops) ∧
    printedOf (run c ops).2 = [] ∧ raisedOf (run c ops).2 = [] ∧
    (run c ops).1.st.errorCode = c.st.errorCode ∧
    (run c (ops ++ [.report e])).1.st.captured = some (l ++ baseReports 0 ops ++ [e]) ∧
    (run c (ops ++ [.report e])).2.getLast? = some .collected := by
  have hd : depthAfter 0 ops = some 0 := by simpa [balanced] using hb
  have hr := C16_capture_restores ops hb c
  have hin := run_inside ops 0 0 c [] c.st.captured c.saved hd rfl rfl (by simp) (by simp [h])
  have hcap : (run c ops).1.st.captured = some (l ++ baseReports 0 ops) := by
    rw [hr.2.1, h]; rfl
  refine ⟨hcap, hin.1, hin.2, ?_, ?_, ?_⟩
  · rw [hr.2.2.2, hin.1]; rfl
  · rw [run_append]
    simp [run_cons, run_nil, step, report, hcap]
  · rw [run_append]
    simp [run_cons, run_nil, step, report, hcap]

/-- one context, in isolation: entering, running any balanced body and leaving — normally or by
an exception — yields exactly the reports made directly in the body and puts `captured_errors`
and the frames of the enclosing contexts back EXACTLY as they were on entry. -/
theorem C16_capture_context (body : List (Errors.Op E)) (hb : balanced body = true) (c : Config E)
    (close : Errors.Op E) (hc : close = .exit ∨ close = .abort) :
    (run c (.enter :: body ++ [close])).1.st.captured = c.st.captured ∧
    (run c (.enter :: body ++ [close])).1.saved = c.saved ∧
    (run c (.enter :: body ++ [close])).2.getLast? = some (.left (some (baseReports 0 body))) := by
  have hr := C16_capture_restores body hb (step c .enter).1
  have hcap : (run (step c .enter).1 body).1.st.captured = some (baseReports 0 body) := by
    rw [hr.2.1]; simp [step, captureEnter, extend]
  have hsv : (run (step c .enter).1 body).1.saved = c.st.captured :: c.saved := by
    rw [hr.1]; simp [step, captureEnter]
  rw [List.cons_append, run_cons, run_append]
  generalize run (step c .enter).1 body = R at hsv hcap ⊢
  rcases hc with rfl | rfl <;> simp [run_cons, run_nil, step, leave, hsv, hcap, captureExit]
  all_goals
    rw [← List.cons_append, List.getLast?_concat]

/-- the reports made directly in the body of a context are determined by the body alone: what
follows the matching exit does not matter (so `Spec.directBody` of the text after an `enter` is
what `C16_capture_context` says the context yields) -/
theorem C16_direct_body (body rest : List (Errors.Op E)) (hb : balanced body = true) (close : Errors.Op E)
    (hc : close = .exit ∨ close = .abort) :
    Spec.directBody (body ++ close :: rest) = baseReports 0 body := by
  have hd : depthAfter 0 body = some 0 := by simpa [balanced] using hb
  rw [Spec.directBody, baseReports_append body _ 0 0 hd]
  rcases hc with rfl | rfl <;> simp [baseReports]

/-- nesting on a concrete history: inside an outer context an inner one is aborted; the outer
context has its direct reports, goes on collecting, and yields them all when left -/
theorem C16_capture_nested_nonvacuous :
    balanced ([.enter, .report 2, .abort, .report 3] : List (Errors.Op Nat)) = true ∧
    (run { st := { strict := true, errorCode := 0, captured := some [1] }, saved := [none] }
        ([.enter, .report 2, .abort, .report 3] ++ [.report 4] : List (Errors.Op Nat))).1
      = { st := { strict := true, errorCode := 0, captured := some [1, 3, 4] }, saved := [none] } ∧
    (run Config.init ([.enter, .report 1, .enter, .report 2, .exit, .report 3] ++ [.abort] : List (Errors.Op Nat))).2.getLast?
      = some (.left (some [1, 3])) ∧
    Spec.directBody ([.report 1, .enter, .report 2, .exit, .report 3] ++ .abort :: [.report 9] : List (Errors.Op Nat)) = [1, 3] := by
  decide

/-- every history of the grammar satisfies the decidable hypothesis of `C16_capture_restores`
(proved by induction over well-bracketed histories) -/
theorem C16_wellBracketed_balanced (ops : List (Errors.Op E)) (h : Spec.WellBracketed ops) : balanced ops = true := by
  have key : ∀ d, depthAfter d ops = some d := by
    induction h with
    | nil => intro d; rfl
    | report e => intro d; rfl
    | setStrict b => intro d; rfl
    | context body _ ih =>
      intro d
      simp only [depthAfter, List.cons_append]
      rw [depthAfter_append body _ (d + 1) (d + 1) (ih (d + 1))]
      rfl
    | aborted body _ ih =>
      intro d
      simp only [depthAfter, List.cons_append]
      rw [depthAfter_append body _ (d + 1) (d + 1) (ih (d + 1))]
      rfl
    | append a b _ _ iha ihb =>
      intro d
      rw [depthAfter_append a b d d (iha d)]
      exact ihb d
  simp [balanced, key 0]

theorem C16_wellBracketed_balanced_nonvacuous :
    Spec.WellBracketed ([.report 1] ++ (.enter :: ([.report 2] ++ (.enter :: [] ++ [.abort])) ++ [.exit]) : List (Errors.Op Nat)) :=
  .append _ _ (.report 1) (.context _ (.append _ _ (.report 2) (.aborted _ .nil)))

/-- the decidable hypothesis and the grammar describe the same histories -/
theorem C16_balanced_iff_wellBracketed (ops : List (Errors.Op E)) :
    balanced ops = true ↔ Spec.WellBracketed ops :=
  ⟨fun h => balanced_wellBracketed ops.length ops (Nat.le_refl _) (by simpa [balanced] using h),
   C16_wellBracketed_balanced ops⟩

/-- Refinement to the reference semantics.  Started outside any capture context, in every
history that never leaves a context it did not enter (contexts may still be open at the end),
each report does what `Spec.reportObs` says from the nesting depth and the strict flag alone:
collected inside a context, raised outside in strict mode, printed outside in non-strict mode;
and `error_code` ends as `Spec.finalCode` says. -/
theorem C16_history_refines_spec (ops : List (Errors.Op E)) (c : Config E) (d' : Nat)
    (h1 : c.st.captured = none) (h2 : c.saved = []) (hd : depthAfter 0 ops = some d') :
    reportsOnly (run c ops).2 = Spec.reportObs 0 c.st.strict ops ∧
    (run c ops).1.saved.length = d' ∧
    (run c ops).1.st.errorCode = Spec.finalCode c.st.errorCode (Spec.reportObs 0 c.st.strict ops) := by
  have hc : Clean c := ⟨[], by simp [Config.full, h1, h2], by simp⟩
  have := run_refines ops c d' hc (by simpa [h2] using hd)
  simp only [h2, List.length_nil] at this
  refine ⟨this.1, this.2.2, ?_⟩
  rw [run_errorCode, Spec.finalCode, ← this.1, printedOf_reportsOnly]

theorem C16_history_refines_spec_nonvacuous :
    depthAfter 0 ([.report 1, .enter, .report 2, .setStrict false, .exit, .report 3, .enter] : List (Errors.Op Nat)) = some 1 ∧
    Spec.reportObs 0 true ([.report 1, .enter, .report 2, .setStrict false, .exit, .report 3, .enter] : List (Errors.Op Nat))
      = [.raised 1, .collected, .printed 3] := by decide

/-! ## error_code -/

/-- `error_code` only ever goes from its value to 2 and never back: along every history (any
operations, well-bracketed or not) it is unchanged or 2, it is 2 as soon as a warning has been
printed, and a longer history never has a smaller code (for codes ≤ 2, i.e. always in pybtex). -/
theorem C16_error_code_monotone (a b : List (Errors.Op E)) (c : Config E) :
    ((run c a).1.st.errorCode = c.st.errorCode ∨ (run c a).1.st.errorCode = 2) ∧
    (printedOf (run c a).2 ≠ [] → (run c a).1.st.errorCode = 2) ∧
    (c.st.errorCode ≤ 2 → (run c a).1.st.errorCode ≤ (run c (a ++ b)).1.st.errorCode ∧
      (run c (a ++ b)).1.st.errorCode ≤ 2) := by
  have ha := run_errorCode a c
  have hab := run_errorCode b (run c a).1
  refine ⟨?_, ?_, ?_⟩
  · rw [ha]; split <;> simp
  · intro h
    rw [ha]
    cases hp : printedOf (run c a).2 with
    | nil => exact absurd hp h
    | cons x xs => simp
  · intro hle
    rw [run_append]
    simp only
    rw [hab, ha]
    split <;> split <;> omega

theorem C16_error_code_monotone_nonvacuous :
    (run Config.init ([.setStrict false, .report 1, .enter, .report 2, .exit] : List (Errors.Op Nat))).1.st.errorCode = 2 ∧
    (run Config.init ([.setStrict false, .enter, .report 2, .exit] : List (Errors.Op Nat))).1.st.errorCode = 0 := by
  decide

/-! ## location -/

/-- The location an error renders with is the one current when it was reported, whatever happens
afterwards.  An error is BUILT from the mutable parse state (`.aux` context, scanner position) at
the moment of the report and keeps a copy: in capture mode, after any continuation `h₂` of the
history, the list holds first the errors built during `h₁` from the states current at their
reports — the same values as if nothing had followed — then those of `h₂`. -/
theorem C16_location_stable {σ : Type} (w : σ) (s : State E) (l : List E) (h : s.captured = some l)
    (h₁ h₂ : List (WOp σ E)) :
    (runWorld w s (h₁ ++ h₂)).2.1.captured
      = some (l ++ builtErrors w h₁ ++ builtErrors (worldAfter w h₁) h₂) ∧
    (runWorld w s h₁).2.1.captured = some (l ++ builtErrors w h₁) := by
  constructor
  · rw [(runWorld_captured (h₁ ++ h₂) w s l h).2, builtErrors_append]
    simp
  · rw [(runWorld_captured h₁ w s l h).2]

/-- `.aux` instance: an error reported on line 3 still renders with file name, line number and
the marked line after the parser has moved on and finally cleared its context (`parse_file`'s
epilogue); likewise a `TokenRequired` keeps the position the scanner had. -/
theorem C16_location_stable_nonvacuous :
    let ctx0 : AuxContext := { filename := some "a.aux".toList, lineno := none, line := none }
    let hist : List (WOp AuxContext Err) :=
      [.mutate fun c => { c with lineno := some 3, line := some "\\bibstyle{x}".toList },
       .report (mkAuxError "illegal, another \\bibstyle command".toList),
       .mutate fun c => { c with lineno := some 4, line := some "\\relax".toList },
       .mutate fun c => { c with lineno := none, line := none }]
    ((runWorld ctx0 { strict := true, errorCode := 0, captured := some [] } hist).2.1.captured.map
        fun es => es.map fun e => formatErrorLines e errorPrefix)
      = some [.ok ["a.aux: \\bibstyle{x}".toList, "a.aux: ^^^^^^^^^^^^".toList,
                   "a.aux: ERROR: in line 3: illegal, another \\bibstyle command".toList]] := by
  decide +kernel

/-- `C16_location_stable` covers capture mode only (audit-d, C16 finding 1).  The same OUTSIDE any
capture context, for both values of `strict`: the observations of a world history are, in order,
the errors built from the states current at their reports — each one raised (strict; the history
goes on, as in `run`) or printed with `error_code = 2` (non-strict) — and the observations of
`h₁` are not changed by a continuation `h₂`.  Like `C16_location_stable` this is a statement about a
pure model in which error values cannot alias the parse state; that the PYTHON objects do not is
carried by `mkAuxError` (fix C20-2) and the `location_stable` clause of the correspondence. -/
theorem C16_location_stable_all_modes {σ : Type} (w : σ) (s : State E) (h : s.captured = none)
    (h₁ h₂ : List (WOp σ E)) :
    (runWorld w s (h₁ ++ h₂)).2.2
      = (builtErrors w h₁ ++ builtErrors (worldAfter w h₁) h₂).map
          (fun e => if s.strict then Obs.raised e else Obs.printed e) ∧
    (runWorld w s h₁).2.2
      = (builtErrors w h₁).map (fun e => if s.strict then Obs.raised e else Obs.printed e) ∧
    (runWorld w s (h₁ ++ h₂)).2.1.captured = none := by
  have key : ∀ (ops : List (WOp σ E)) (w : σ) (s : State E), s.captured = none →
      (runWorld w s ops).2.2
        = (builtErrors w ops).map (fun e => if s.strict then Obs.raised e else Obs.printed e) ∧
      (runWorld w s ops).2.1.captured = none := by
    intro ops
    induction ops with
    | nil => intro w s h; simp [runWorld, builtErrors, h]
    | cons op ops ih =>
      intro w s h
      cases op with
      | mutate f => simpa [runWorld, builtErrors] using ih (f w) s h
      | report mk =>
        have hs : (report s (mk w)).1.captured = none ∧ (report s (mk w)).1.strict = s.strict := by
          simp only [report, h]; split <;> simp [h]
        have := ih w (report s (mk w)).1 hs.1
        simp only [runWorld, builtErrors, List.map_cons, this.1, this.2, hs.2, and_true]
        simp only [report, h]
        split <;> simp_all
  refine ⟨?_, (key h₁ w s h).1, (key (h₁ ++ h₂) w s h).2⟩
  rw [(key (h₁ ++ h₂) w s h).1, builtErrors_append]

/-- non-strict instance: the warning printed for line 3 is the error built on line 3, although the
context object has been changed twice since -/
theorem C16_location_stable_all_modes_nonvacuous :
    let ctx0 : AuxContext := { filename := some "a.aux".toList, lineno := none, line := none }
    let hist : List (WOp AuxContext Err) :=
      [.mutate fun c => { c with lineno := some 3, line := some "\\bibstyle{x}".toList },
       .report (mkAuxError "illegal, another \\bibstyle command".toList),
       .mutate fun c => { c with lineno := some 4, line := some "\\relax".toList },
       .mutate fun c => { c with lineno := none, line := none }]
    (runWorld ctx0 { strict := false, errorCode := 0, captured := none } hist).2.2
      = [.printed (.auxData "illegal, another \\bibstyle command".toList (some "a.aux".toList) (some 3)
          (some "\\bibstyle{x}".toList))] ∧
    (runWorld ctx0 { strict := true, errorCode := 0, captured := none } hist).2.2
      = [.raised (.auxData "illegal, another \\bibstyle command".toList (some "a.aux".toList) (some 3)
          (some "\\bibstyle{x}".toList))] := by
  decide +kernel

/-- rendering reads the error value only: two errors built from the same parse state are
rendered alike, whatever the parser does later (there is no other input) -/
theorem C16_location_snapshot (msg : Str) (ctx : AuxContext) (d : Str) (p : ScanState) :
    (mkAuxError msg ctx).getFilename = ctx.filename ∧
    (mkAuxError msg ctx).str =
      (match ctx.lineno with
       | some n => if n = 0 then [] else "in line ".toList ++ natStr n ++ ": ".toList
       | none => []) ++ msg ∧
    (mkTokenRequired d p).getFilename = p.filename ∧
    (mkTokenRequired d p).str = syntaxStr "syntax error".toList p.lineno (d ++ " expected".toList) := by
  refine ⟨rfl, rfl, rfl, rfl⟩

/-! ## the two exception classes that are not pybtex errors -/

/-- `BibTeXNameFormatError` is unreachable: format letters that pass `check_format_chars` (which
raises a `PybtexSyntaxError` otherwise) are accepted by `NamePart.__init__`, and the format
character it stores is one of `f l v j` (no `KeyError` in `NamePart.format`).  `SkipEntry` never
leaves `parse_bibliography`: the loop body turns it into "nothing yielded, nothing reported". -/
theorem C16_no_foreign_exception (already : Bool) (value : Str)
    (h : checkFormatChars already value = true) :
    (∃ a abbr, namePartInit value = some (a, abbr) ∧ a ∈ formatLetters) ∧
    (guardCommand (CmdOutcome.skipEntry : CmdOutcome Unit) = (none, none)) := by
  refine ⟨?_, rfl⟩
  simp only [checkFormatChars, namePartInit] at h ⊢
  generalize lower value = v at h ⊢
  match v with
  | [] => simp at h
  | [a] =>
    refine ⟨a, true, rfl, ?_⟩
    simp at h
    simpa using h.2
  | [a, b] =>
    simp at h
    obtain ⟨_, h1, h2⟩ := h
    subst h1
    exact ⟨a, false, by simp, by simpa using h2⟩
  | _ :: _ :: _ :: _ => simp at h

theorem C16_no_foreign_exception_nonvacuous :
    checkFormatChars false "fF".toList = true ∧ namePartInit "fF".toList = some ('f', false) ∧
    checkFormatChars false "fg".toList = false ∧ checkFormatChars true "f".toList = false := by
  decide


/-! ## context managers left in any order (outside the `with` discipline) -/

/-- The LIFO assumption of the capture theorems is an embedding, not a change of model: a history
of `with` blocks is the free-order history in which every exit leaves the most recently entered
manager, and the free-order machine (`fstep`/`frun`: every open manager keeps the value it will put
back in its own frame) does on it exactly what `run` does. -/
theorem C16_capture_LIFO_embedding (ops : List (Errors.Op E)) (c : Config E) :
    frun c (ops.map Errors.Op.toFree) = run c ops ∧ lifo (ops.map Errors.Op.toFree) = true := by
  refine ⟨Errors.frun_toFree ops c, ?_⟩
  induction ops with
  | nil => rfl
  | cons op ops ih => cases op <;> simp [Errors.Op.toFree, lifo, ih]

/-- NOT LIFO: enter A, enter B, leave A, leave B.  Leaving A puts back `None` while B is still
open (its reports are raised / printed), and leaving B puts back A's list: every context has been
left but `captured_errors` is a list for ever — every later problem is silently swallowed, in
strict and non-strict mode alike.  "Leaving capture mode always restores normal reporting" holds
for `with` blocks only. -/
theorem C16_capture_nonLIFO_neg :
    let h : List (FOp Nat) := [.enter, .enter, .exitNth 1, .report 7, .exitNth 0, .report 8]
    lifo h = false ∧
    (frun (Config.init : Config Nat) h).1.saved = [] ∧
    (frun (Config.init : Config Nat) h).1.st.captured = some [8] ∧
    (frun (Config.init : Config Nat) h).2 = [.unit, .unit, .left (some []), .raised 7, .left none, .collected] := by
  decide

/-! ## the readers of user input: every exit is a listed pybtex error -/

/-- `.bib` reader (model of C01/C10, `Bib.parseBib`): for EVERY text, mode, wanted-set, macro table
and role list, each problem it reports and the error it raises (strict mode, or the nesting guard
of `Person()`) is an exception object of one of eight `PybtexError` subclasses, all of them in
`classNames`; nothing is lost when the run is read as a computation (`bibComp`); class and
`str(error)` do not depend on what the reader model leaves out (file name, marker position). -/
theorem C16_bib_reader_exits_listed (text : Str) (strict : Bool) (wanted : Option (List Str))
    (macros0 : List (Str × Str)) (roles : List Str) (fn : Option Str) (ctx : CtxInfo) :
    (∀ e ∈ (Bib.parseBib text strict wanted macros0 roles).1.errs,
      ∃ x, ofBib fn ctx e = some x ∧ x.className ∈ bibClasses) ∧
    (∀ e, (Bib.parseBib text strict wanted macros0 roles).2 = some e →
      ∃ x, ofBib fn ctx e = some x ∧ x.className ∈ bibClasses) ∧
    (bibComp fn ctx text wanted macros0 roles).reports.length
      = (Bib.parseBib text false wanted macros0 roles).1.errs.length ∧
    (∀ c ∈ bibClasses, c ∈ classNames) ∧
    (∀ fn' ctx' e, (ofBib fn ctx e).map (fun x => (x.className, x.str))
      = (ofBib fn' ctx' e).map (fun x => (x.className, x.str))) := by
  obtain ⟨h1, h2⟩ := Errors.parseBib_noInternal text strict wanted macros0 roles
  refine ⟨fun e he => Errors.ofBib_some fn ctx e (h1 e he), fun e he => Errors.ofBib_some fn ctx e (h2 e he),
    ?_, by decide, fun fn' ctx' e => Errors.ofBib_view fn fn' ctx ctx' e⟩
  apply Errors.filterMap_all_some
  intro e he
  obtain ⟨x, hx, _⟩ := Errors.ofBib_some fn ctx e ((Errors.parseBib_noInternal text false wanted macros0 roles).1 e he)
  exact ⟨x, hx⟩

theorem C16_bib_reader_exits_listed_nonvacuous :
    (bibComp none { kind := .lowLevel, text := [], start := none, lineno := none, pos := 0 }
        "@a{k, t = x, t = 1}\n@b{k, u}".toList).reports.map (fun x => (x.className, x.str))
      = [("UndefinedMacro", "undefined string in line 1: x".toList),
         ("DuplicateField", "entry with key k has a duplicate t field".toList),
         ("TokenRequired", "syntax error in line 2: '=' expected".toList),
         ("BibliographyDataError", "repeated bibliography entry: k".toList)] := by
  decide +kernel

/-- Mode independence of the `.bib` reader, NOT by construction of `Comp`: the reader model has its
own strict mode (`handle_error` raises instead of appending).  What its strict run raises is what
the abstract computation built from its continue-mode run says strict mode raises: the first
problem of the continue-mode list, or — when that list is empty — the same final error or none.
With `C16_mode_independent` for the computation: capture collects the continue-mode list,
non-strict mode prints it, strict mode raises its head, for every text. -/
theorem C16_bib_reader_mode_independent (text : Str) (wanted : Option (List Str))
    (macros0 : List (Str × Str)) (roles : List Str) (fn : Option Str) (ctx : CtxInfo) :
    bibStrictRaised fn ctx text wanted macros0 roles
      = (Spec.modes (bibComp fn ctx text wanted macros0 roles)).strictRaises ∧
    (exec (State.init : State Err) (bibComp fn ctx text wanted macros0 roles)).2.2
      = bibStrictRaised fn ctx text wanted macros0 roles := by
  have h := Errors.bibStrictRaised_eq fn ctx text wanted macros0 roles
  refine ⟨h, ?_⟩
  rw [h]
  exact ((C16_mode_independent State.init (bibComp fn ctx text wanted macros0 roles)).2.2 rfl rfl).2.1

theorem C16_bib_reader_mode_independent_nonvacuous :
    (bibStrictRaised none { kind := .lowLevel, text := [], start := none, lineno := none, pos := 0 }
        "@a{k, t = x, t = 1}\n@b{k, u}".toList).map (fun x => (x.className, x.str))
      = some ("UndefinedMacro", "undefined string in line 1: x".toList) ∧
    bibStrictRaised none { kind := .lowLevel, text := [], start := none, lineno := none, pos := 0 }
        "@a{k, t = 1}".toList = none := by
  decide +kernel

/-- `.bst` parser (model of C15): whichever entry point reads the text (`parse_string`,
`parse_stream`, `parse_file`), it returns the program or raises a `PrematureEOF`, a
`TokenRequired` or the `PybtexSyntaxError` of an over-long integer literal — never the model-only outcomes; parsing reports nothing, so the run is the same
computation in every mode. -/
theorem C16_bst_parser_exits_listed (entry : BstEntry) (src : Str) (fn : Option Str) (ctx : CtxInfo) :
    (∀ e, bstParse entry src = .error e → ∃ x, ofBst fn ctx e = some x ∧ x.className ∈ bstClasses) ∧
    (bstComp fn ctx entry src).reports = [] ∧
    ((bstComp fn ctx entry src).fatal = none ↔ ∃ p, bstParse entry src = .ok p) ∧
    (∀ c ∈ bstClasses, c ∈ classNames) := by
  refine ⟨fun e he => ?_, ?_, ?_, by decide⟩
  · obtain ⟨h1, h2⟩ := Errors.bstParse_error entry src e he
    exact Errors.ofBst_some fn ctx e h1 h2
  · unfold bstComp; split <;> rfl
  · unfold bstComp
    cases hp : bstParse entry src with
    | ok p => simp
    | error e =>
      obtain ⟨h1, h2⟩ := Errors.bstParse_error entry src e hp
      obtain ⟨x, hx, _⟩ := Errors.ofBst_some fn ctx e h1 h2
      simp [hx]

theorem C16_bst_parser_exits_listed_nonvacuous :
    (bstComp none { kind := .scanner, text := [], start := none, lineno := none, pos := 0 } .file
        "READ\nBOGUS {x}".toList).fatal.map (fun x => (x.className, x.str))
      = some ("TokenRequired", "syntax error in line 2: BST command expected".toList) ∧
    (bstComp none { kind := .scanner, text := [], start := none, lineno := none, pos := 0 } .string
        "FUNCTION {f} { #1 }".toList).fatal = none := by
  decide +kernel

/-- `.aux` reader (model of C20) over any file system in which inclusion from `top` is at most
`fuel` files deep (`depthOk`, decidable; included files may be missing): every problem reported is
an `AuxDataError` that renders exactly as the reader model says (`str`, context, file name — so
`C16_render_total` applies to it), and the error that ends the reading, if any, is an
`AuxDataError` or the `PybtexError` of a file that cannot be opened. -/
theorem C16_aux_reader_exits_listed (fs : Aux.FS) (fuel : Nat) (top : Str)
    (hd : Aux.depthOk fs fuel top = true) :
    (∀ a, Aux.parse fs fuel top = .error a →
      ∃ x, ofAuxFatal a.fatal = some x ∧ x.className ∈ auxClasses) ∧
    (∀ r : Aux.Report, (ofAux r).className = "AuxDataError" ∧ (ofAux r).str = r.str ∧
      (ofAux r).getContext = .ok r.getContext ∧ (ofAux r).getFilename = some r.file ∧ (ofAux r).WF = true) ∧
    (auxComp fs fuel top).reports = (Aux.captured (Aux.parse fs fuel top)).map ofAux ∧
    (∀ c ∈ auxClasses, c ∈ classNames) := by
  refine ⟨fun a ha => ?_, fun r => ⟨rfl, Errors.ofAux_str r, Errors.ofAux_context r, rfl, rfl⟩, ?_, by decide⟩
  · have h1 := Aux.parseFile_noFuel fs fuel top Aux.St.init true hd a ha
    have h2 := (Aux.parseFile_good fs fuel Aux.St.init top true).1 a ha
    exact Errors.ofAuxFatal_some a.fatal h1 h2
  · cases h : Aux.parse fs fuel top <;> simp [auxComp, Aux.captured, h]

theorem C16_aux_reader_exits_listed_nonvacuous :
    Aux.depthOk (Aux.fsOf [("t.aux".toList, ["\\bibstyle{a}".toList, "\\bibstyle{b}".toList])]) 2 "t.aux".toList = true ∧
    (auxComp (Aux.fsOf [("t.aux".toList, ["\\bibstyle{a}".toList, "\\bibstyle{b}".toList])]) 2 "t.aux".toList).reports.map
        (fun x => formatErrorLines x warningPrefix)
      = [.ok ["t.aux: \\bibstyle{b}".toList, "t.aux: ^^^^^^^^^^^^".toList,
              "t.aux: WARNING: in line 2: illegal, another \\bibstyle command".toList]] ∧
    (auxComp (Aux.fsOf [("t.aux".toList, ["\\bibstyle{a}".toList, "\\bibstyle{b}".toList])]) 2 "t.aux".toList).fatal.map
        (fun x => (x.className, x.str))
      = some ("AuxDataError", "found no \\bibdata command".toList) := by
  decide +kernel

/-! ## the real command lines -/

/-- `--strict` on the command line of `pybtex`, `pybtex-convert`, `pybtex-format` (accepted
options in any order and number, right number of arguments), from ANY module state outside a
capture: "in strict mode the first problem raises" — the first problem is what ends the run: it is
the only thing written to stderr, with the `ERROR: ` prefix, and the exit status is 1; an input
without problems finishes with status 0.  Afterwards `strict` is what the CALLER had (the
`finally` of `main`), `error_code` is 0 (reset at the start, nothing was printed). -/
theorem C16_main_strict_option (numArgs : Nat) (perr : E) (s : State E) (a : Argv) (c : Comp E)
    (hacc : ∀ o ∈ a.opts, o = .strict ∨ o = .other) (hs : CliOpt.strict ∈ a.opts)
    (hn : a.nargs = numArgs) (hc : s.captured = none) :
    (cliMain numArgs perr s a c).2.1 =
      (match (Spec.modes c).strictRaises with
       | some e => [(true, e)]
       | none => []) ∧
    (cliMain numArgs perr s a c).2.2 =
      (match (Spec.modes c).strictRaises with
       | some _ => 1
       | none => 0) ∧
    (cliMain numArgs perr s a c).1 = { s with errorCode := 0 } := by
  have hm := (C16_mode_independent ({ s with errorCode := 0, strict := true }) c).2.2 hc rfl
  simp only [cliMain, Errors.applyOpts_accepted perr a.opts _ hacc, hs, if_true, hn, ne_eq, not_true_eq_false,
    if_false, setStrict]
  obtain ⟨h1, h2, h3, _, _⟩ := hm
  generalize exec { s with errorCode := 0, strict := true } c = r at h1 h2 h3
  obtain ⟨r1, r2, r3⟩ := r
  simp only at h1 h2 h3
  subst h1 h2
  cases (Spec.modes c).strictRaises <;> simp [h3]

theorem C16_main_strict_option_nonvacuous :
    (cliMain 2 (0 : Nat) State.init { opts := [.other, .strict], nargs := 2 } { reports := [7, 8], fatal := none }).2
      = ([(true, 7)], 1) ∧
    (cliMain 2 (0 : Nat) State.init { opts := [.strict], nargs := 2 } { reports := [], fatal := none }).2 = ([], 0) ∧
    (cliMain 2 (0 : Nat) State.init { opts := [], nargs := 2 } { reports := [7, 8], fatal := none }).2
      = ([(false, 7), (false, 8)], 2) ∧
    (cliMain 2 (0 : Nat) { strict := false, errorCode := 2, captured := none } { opts := [.strict], nargs := 2 }
        { reports := [7], fatal := none })
      = ({ strict := false, errorCode := 0, captured := none }, [(true, 7)], 1) := by decide

/-- Without `--strict` `main` is the non-strict run of `C16_exit_status`, whatever `strict` and
`error_code` were before (`main` resets both, and puts `strict` back afterwards): every problem is
printed as a warning in order, a fatal error follows with `ERROR: `; the exit status is 1 for a
fatal error, 2 as soon as one problem was reported, 0 otherwise — problems ALWAYS make the status
non-zero, and no problem means status 0, from any state.
A command line that is not accepted never runs the computation and never ends with status 0,
except `--help` / `--version`. -/
theorem C16_main_exit_status (numArgs : Nat) (perr : E) (s : State E) (a : Argv) (c : Comp E)
    (hc : s.captured = none) :
    ((∀ o ∈ a.opts, o = .other) → a.nargs = numArgs →
      cliMain numArgs perr s a c = commandLine s c ∧
      (cliMain numArgs perr s a c).2.1 = c.reports.map (fun e => (false, e)) ++
        (match c.fatal with
         | some f => [(true, f)]
         | none => []) ∧
      (cliMain numArgs perr s a c).2.2 = (Spec.modes c).status) ∧
    ((∀ o ∈ a.opts, o ≠ .info) → (a.nargs ≠ numArgs ∨ CliOpt.rejected ∈ a.opts ∨ CliOpt.pluginError ∈ a.opts) →
      (cliMain numArgs perr s a c).2.2 ≠ 0) := by
  constructor
  · intro hacc hn
    have key : ∀ (opts : List CliOpt) (t : State E), (∀ o ∈ opts, o = .other) → applyOpts perr t opts = (t, none) := by
      intro opts
      induction opts with
      | nil => intro t _; rfl
      | cons o os ih =>
        intro t h
        rw [h o (by simp), applyOpts, ih t (fun o ho => h o (by simp [ho]))]
    have e1 : cliMain numArgs perr s a c = commandLine s c := by
      simp only [cliMain, key a.opts _ hacc, hn, ne_eq, not_true_eq_false, if_false, commandLine]
    obtain ⟨h1, h2, _⟩ := C16_exit_status s c hc
    exact ⟨e1, by rw [e1]; exact h2, by rw [e1]; exact h1⟩
  · intro hinfo hbad
    have key : ∀ (opts : List CliOpt) (t : State E), (∀ o ∈ opts, o ≠ .info) →
        ((applyOpts perr t opts).2 = none ∧ CliOpt.rejected ∉ opts ∧ CliOpt.pluginError ∉ opts) ∨
        (applyOpts perr t opts).2 = some .usage ∨ (applyOpts perr t opts).2 = some (.raised perr) := by
      intro opts
      induction opts with
      | nil => intro t _; left; simp [applyOpts]
      | cons o os ih =>
        intro t h
        have hos : ∀ o ∈ os, o ≠ .info := fun o ho => h o (by simp [ho])
        cases o with
        | strict => rw [applyOpts]; rcases ih (setStrict t true) hos with ⟨h1, h2, h3⟩ | h1 | h1 <;> simp_all
        | other => rw [applyOpts]; rcases ih t hos with ⟨h1, h2, h3⟩ | h1 | h1 <;> simp_all
        | rejected => right; left; rfl
        | info => exact absurd rfl (h .info (by simp))
        | pluginError => right; right; rfl
    rcases key a.opts (setStrict { s with errorCode := 0 } false) hinfo with ⟨h1, h2, h3⟩ | h1 | h1
    · have hn : a.nargs ≠ numArgs := by
        rcases hbad with h | h | h
        · exact h
        · exact absurd h h2
        · exact absurd h h3
      generalize hg : applyOpts perr (setStrict { s with errorCode := 0 } false) a.opts = r at h1
      obtain ⟨r1, r2⟩ := r
      simp only at h1
      subst h1
      simp [cliMain, hg, hn]
    · generalize hg : applyOpts perr (setStrict { s with errorCode := 0 } false) a.opts = r at h1
      obtain ⟨r1, r2⟩ := r
      simp only at h1
      subst h1
      simp [cliMain, hg]
    · generalize hg : applyOpts perr (setStrict { s with errorCode := 0 } false) a.opts = r at h1
      obtain ⟨r1, r2⟩ := r
      simp only at h1
      subst h1
      simp [cliMain, hg]

theorem C16_main_exit_status_nonvacuous :
    (cliMain 2 (0 : Nat) State.init { opts := [.other], nargs := 2 } { reports := [7], fatal := some 9 }).2
      = ([(false, 7), (true, 9)], 1) ∧
    (cliMain 2 (0 : Nat) State.init { opts := [], nargs := 1 } { reports := [], fatal := none }).2 = ([], 1) ∧
    (cliMain 2 (0 : Nat) State.init { opts := [.strict, .rejected], nargs := 2 } { reports := [], fatal := none }).2 = ([], 2) ∧
    (cliMain 2 (5 : Nat) State.init { opts := [.pluginError], nargs := 2 } { reports := [7], fatal := none }).2
      = ([(true, 5)], 1) := by decide

/-- `main` does not depend on, and does not disturb, the caller's reporting state (8c0015f): from
ANY module state outside a capture what a command line writes and its exit status are those of the
same command line in a fresh interpreter; afterwards `strict` is what the caller had — on every way
out: accepted or rejected options, `--help`, an unknown plug-in, a wrong argument count, a fatal
error, a `--strict` raise —, no capture has been opened, and `error_code` is 0 or 2.  So in a
sequence of command lines run in one interpreter every run has the status of ITS OWN input.
(`error_code` set by `report_error` OUTSIDE `main` still stays set until something resets it:
`C16_error_code_monotone`.) -/
theorem C16_main_history_independent (numArgs : Nat) (perr : E) (s : State E) (a : Argv) (c : Comp E)
    (hc : s.captured = none) :
    (cliMain numArgs perr s a c).2 = (cliMain numArgs perr State.init a c).2 ∧
    (cliMain numArgs perr s a c).1.strict = s.strict ∧
    (cliMain numArgs perr s a c).1.captured = none ∧
    ((cliMain numArgs perr s a c).1.errorCode = 0 ∨ (cliMain numArgs perr s a c).1.errorCode = 2) := by
  have hs1 : setStrict { s with errorCode := 0 } false = setStrict { (State.init : State E) with errorCode := 0 } false := by
    cases s; simp_all [setStrict, State.init]
  have hopt : ∀ (opts : List CliOpt) (t : State E), t.captured = none → t.errorCode = 0 →
      (applyOpts perr t opts).1.captured = none ∧ (applyOpts perr t opts).1.errorCode = 0 := by
    intro opts
    induction opts with
    | nil => intro t h1 h2; exact ⟨h1, h2⟩
    | cons o os ih =>
      intro t h1 h2
      cases o <;> simp only [applyOpts]
      · exact ih _ (by simp [setStrict, h1]) (by simp [setStrict, h2])
      · exact ih _ h1 h2
      all_goals exact ⟨h1, h2⟩
  have hexec : ∀ (t : State E), t.captured = none → t.errorCode = 0 →
      (exec t c).1.captured = none ∧ ((exec t c).1.errorCode = 0 ∨ (exec t c).1.errorCode = 2) := by
    intro t h1 h2
    cases hst : t.strict with
    | false =>
      have h := (C16_mode_independent t c).2.1 h1 hst
      rw [h]
      refine ⟨h1, ?_⟩
      simp only
      split <;> simp [h2]
    | true =>
      have h := ((C16_mode_independent t c).2.2 h1 hst).1
      rw [h]
      exact ⟨h1, Or.inl h2⟩
  refine ⟨?_, ?_⟩
  · simp only [cliMain, hs1]
    generalize applyOpts perr (setStrict { (State.init : State E) with errorCode := 0 } false) a.opts = r
    obtain ⟨r1, r2⟩ := r
    cases r2 with
    | some st => cases st <;> rfl
    | none =>
      simp only
      split
      · rfl
      · cases (exec r1 c).2.2 <;> rfl
  · have h0 := hopt a.opts (setStrict { s with errorCode := 0 } false) (by simp [setStrict, hc]) (by simp [setStrict])
    simp only [cliMain]
    generalize applyOpts perr (setStrict { s with errorCode := 0 } false) a.opts = r at h0
    obtain ⟨r1, r2⟩ := r
    simp only at h0
    cases r2 with
    | some st => cases st <;> simp [setStrict, h0.1, h0.2]
    | none =>
      simp only
      split
      · simp [setStrict, h0.1, h0.2]
      · have he := hexec r1 h0.1 h0.2
        cases (exec r1 c).2.2 <;> simp [setStrict, he.1, he.2]

/-- a run with warnings followed by a clean input: statuses 2 then 0 (before 8c0015f: 2 then 2);
a caller in strict mode is in strict mode again after a non-strict `main`, and after an option
error -/
theorem C16_main_history_independent_nonvacuous :
    (cliRuns 2 (0 : Nat) State.init
      [({ opts := [], nargs := 2 }, { reports := [7], fatal := none }),
       ({ opts := [], nargs := 2 }, { reports := [], fatal := none })]).2 = [([(false, 7)], 2), ([], 0)] ∧
    (cliRuns 2 (0 : Nat) State.init
      [({ opts := [.strict], nargs := 2 }, { reports := [], fatal := none }),
       ({ opts := [], nargs := 2 }, { reports := [7], fatal := none })])
      = ({ strict := true, errorCode := 2, captured := none }, [([], 0), ([(false, 7)], 2)]) ∧
    (cliMain 2 (0 : Nat) State.init { opts := [.rejected], nargs := 0 } { reports := [7], fatal := none })
      = (State.init, [], 2) := by
  decide

/-! ## runs of the BibTeX engine -/

/-- How a run of the BibTeX engine ends, by the interpreter model of C03 on the lazily parsed
program (`bstRun`): the end is classified as a non-pybtex exception (`foreign`) ONLY where that
model says the Python code raises one (`IErr.internal`: ill-typed operands, commands out of
order — the recorded finding C16-bst-illformed-program), as unknown ONLY when the model's fuel
runs out; a `.bst` syntax error is the error of `Bst.parseFile` (C15 model), a `PrematureEOF`, a
`TokenRequired` or a `PybtexSyntaxError`; a finished run has a program that parses completely.  Everything else is a
`BibTeXError` or a `PybtexSyntaxError` subclass raised by the interpreter. -/
theorem C16_bst_run_end_partial (fn : Option Str) (ctx : CtxInfo) (fuel : Nat) (bst : Str) (inp : Interp.Input) :
    ((bstRun fn ctx fuel bst inp).2 = .finished →
      Bst.parseFile bst = .ok (bstFilePrefix bst).1 ∧ ∃ o, Interp.run fuel (bstFilePrefix bst).1 inp = .ok o) ∧
    (∀ x, (bstRun fn ctx fuel bst inp).2 = .bstSyntax x →
      x.className ∈ bstClasses ∧ ∃ e, Bst.parseFile bst = .error e ∧ ofBst fn ctx e = some x) ∧
    (∀ w, (bstRun fn ctx fuel bst inp).2 = .foreign w →
      ∃ l, Interp.run fuel (bstFilePrefix bst).1 inp = .error (.internal w, l)) ∧
    ((bstRun fn ctx fuel bst inp).2 = .unknown →
      ∃ l, Interp.run fuel (bstFilePrefix bst).1 inp = .error (.outOfFuel, l)) := by
  have hpf := Errors.parseFile_eq_prefix bst
  unfold bstRun
  generalize hpre : bstFilePrefix bst = pre at hpf
  obtain ⟨prog, oe⟩ := pre
  simp only
  cases hrun : Interp.run fuel prog inp with
  | ok o =>
    cases oe with
    | none => simp at hpf; simp [hpf]
    | some e =>
      simp only at hpf
      obtain ⟨h1, h2⟩ := Errors.bstParse_error .file bst e hpf
      obtain ⟨x, hx, hc⟩ := Errors.ofBst_some fn ctx e h1 h2
      simp only [hx]
      refine ⟨by simp, ?_, by simp, by simp⟩
      intro y hy
      simp at hy
      subst hy
      exact ⟨hc, e, hpf, hx⟩
  | error p =>
    obtain ⟨ie, l⟩ := p
    cases ie <;> simp

theorem C16_bst_run_end_partial_nonvacuous :
    (bstRun none { kind := .scanner, text := [], start := none, lineno := none, pos := 0 } 100
        "FUNCTION {f} { \"w\" warning$ }\nEXECUTE {f}\n".toList { bibTexts := [], citations := [] }).1.map
          (fun l => l.map fun x => (x.className, x.str)) = some [("BibTeXError", "w".toList)] ∧
    (bstRun none { kind := .scanner, text := [], start := none, lineno := none, pos := 0 } 100
        "FUNCTION {f} { \"w\" warning$ }\nEXECUTE {f}\n".toList { bibTexts := [], citations := [] }).2 = .finished ∧
    (bstRun none { kind := .scanner, text := [], start := none, lineno := none, pos := 0 } 100
        "FUNCTION {f} { pop$ }\nEXECUTE {f}\nBOGUS".toList { bibTexts := [], citations := [] }).2
      = .bibtexError "pop from empty stack".toList := by
  decide +kernel

/-- The recorded finding: `.bst` programs for which the BibTeX engine has no pybtex outcome.  A
built-in applied to an operand of the wrong type, an entry-dependent function outside `ITERATE`,
`ITERATE` of an undefined name: the Python code raises `TypeError` / `AttributeError` / `KeyError`
there (the C03 model's `IErr.internal`), so "every problem in a .bst file is reported as a pybtex
error" is FALSE of such programs. -/
theorem C16_bst_run_foreign_neg :
    (bstRun none { kind := .scanner, text := [], start := none, lineno := none, pos := 0 } 100
        "FUNCTION {f} { \"a\" #1 + }\nEXECUTE {f}\n".toList { bibTexts := [], citations := [] }).2
      = .foreign "TypeError: +" ∧
    (bstRun none { kind := .scanner, text := [], start := none, lineno := none, pos := 0 } 100
        "EXECUTE {cite$}\n".toList { bibTexts := [], citations := [] }).2
      = .foreign "AttributeError: current_entry_key" ∧
    (bstRun none { kind := .scanner, text := [], start := none, lineno := none, pos := 0 } 100
        "ITERATE {nofn}\n".toList { bibTexts := [], citations := [] }).2
      = .foreign "KeyError: ITERATE function" := by
  decide +kernel

end Pybtex.Props
