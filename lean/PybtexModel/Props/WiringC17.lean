/-
C17 — how the installed reader / writer classes are wired (regenerated `Gen/PluginClasses.lean`:
`unicode_io` and the entry-point methods each class overrides below BaseParser / BaseWriter).

Kept apart from `Props/C17.lean` because this table is the one that differs between a tree with and
without the proposed fixes C17-2 (YAML plug-ins) and C17-4 (BibTeXML reader): every installed class must
be wired in one of the ways `Model/IO.lean` models, namely
  readers  `.base u` (only `parse_stream` overridden), `.bibtex` (`unicode_io`, `parse_string` is the text
           core and `parse_stream` reads the stream and calls it: BibTeX, and BibTeXML after C17-4)
  writers  `.base u` (only `write_stream` overridden), `.bibtexml`
and the three formats must be wired as the theorems of `Props/C17.lean` are applied to them.
An override added, removed or changed in /repo breaks the `decide`.
-/
import PybtexModel.Lemmas.IO
import PybtexModel.Gen.PluginClasses

namespace Pybtex.Props
open Pybtex Pybtex.IO

theorem C17_classes_wf :
    readerKindsKnown Gen.readerClasses = true ∧
    writerKindsKnown Gen.writerClasses = true ∧
    (Gen.readerClasses.map fun c => (c.1, readerKindOf c.2.1 c.2.2)) =
      [("pybtex.database.input.bibtex:Parser".toList, some .bibtex),
       ("pybtex.database.input.bibtexml:Parser".toList, some .bibtex),
       ("pybtex.database.input.bibyaml:Parser".toList, some (.base true))] ∧
    (Gen.writerClasses.map fun c => (c.1, writerKindOf c.2.1 c.2.2)) =
      [("pybtex.database.output.bibtex:Writer".toList, some (.base true)),
       ("pybtex.database.output.bibtexml:Writer".toList, some .bibtexml),
       ("pybtex.database.output.bibyaml:Writer".toList, some (.base true))] := by
  refine ⟨by decide +kernel, by decide +kernel, by decide +kernel, by decide +kernel⟩

end Pybtex.Props
