/-
C09, extension -- property theorems about the code that `Model/BackendsX.lean` adds to the model: `LaTeXParser.parse(level)`
for every level, the further input encodings of `latex.Backend(encoding)` / `write_to_file`, `Text.render_as`, the HTML
formatting methods on arbitrary arguments.  Property theorems only; helpers (`Latex.rangesAscii`, `HtmlReadsAs`) are in
`Lemmas/BackendsX.lean`.
-/
import PybtexModel.Props.C09
import PybtexModel.Lemmas.BackendsX

namespace Pybtex.Props
open Pybtex Pybtex.RT Pybtex.Backends Pybtex.Spec

/-- **`LaTeXParser(text).parse(level)` inside a group (`level > 0`).**  `Tex.splitAtClose 0 text` finds the first closing
brace that closes nothing.  (1) If there is one -- `text = body } after` -- the parse succeeds whatever the level: the `Text`
denotes exactly the non-brace characters of `body`, each inside as many `Protected` as its brace depth, and the scanner stands
just behind that brace (`pos`, `lineno` counted over `body }`); nothing of `after` has been looked at.  (2) If there is none,
the parse raises the syntax error at the end of the text with the scanner just behind the last brace (position 0 for a text
without braces).  (3) [model wiring] level 0 is `parse`. -/
theorem C09_parse_level (text : Str) (level : Nat) :
    (∀ body after, Tex.splitAtClose 0 text = some (body, after) →
      ∃ t, LaTeXParser.parseLevel text (level + 1) =
          .ok (t, ⟨after, body.length + 1, 1 + Scanner.countNewlines (body ++ ['}'])⟩) ∧
        sem [] t = Tex.asFlat (Tex.depthsFrom 0 body) ∧ Normal t = true ∧ text = body ++ '}' :: after) ∧
    (Tex.splitAtClose 0 text = none →
      LaTeXParser.parseLevel text (level + 1) =
        .error (.unbalanced (1 + Scanner.countNewlines (text.take (Tex.lastBraceEnd text))) (Tex.lastBraceEnd text))) ∧
    (match LaTeXParser.parseLevel text 0 with | .ok p => Except.ok p.1 | .error e => .error e) = LaTeXParser.parse text := by
  refine ⟨?_, ?_, ?_⟩
  · intro body after h
    obtain ⟨ps, h1, h2, h3⟩ := LaTeXParser.parts_group text.length text (Nat.le_refl _) level 0 1 body after h
    obtain ⟨e, _⟩ := Tex.splitAtClose_eq text 0 body after h
    refine ⟨RT.mk .text ps, ?_, ?_, normal_mk .text ps h3, e⟩
    · simp only [LaTeXParser.parseLevel, LaTeXParser.State.init, h1, Nat.zero_add]
    · rw [sem_mk]; simp only [sem, Kind.markup, List.append_nil]; exact h2
  · intro h
    have := LaTeXParser.err_eof text.length text (Nat.le_refl _) (level + 1) 0 1 h (Or.inl (Nat.succ_ne_zero _))
    simp only [LaTeXParser.parseLevel, LaTeXParser.State.init, this, Nat.zero_add]
  · simp only [LaTeXParser.parseLevel, LaTeXParser.parse]
    cases LaTeXParser.iterStringParts 0 (LaTeXParser.State.init text) with
    | error e => rfl
    | ok p => rfl

theorem C09_parse_level_nonvacuous :
    Tex.splitAtClose 0 "a{b}\nc}d{e".toList = some ("a{b}\nc".toList, "d{e".toList) ∧
    (match LaTeXParser.parseLevel "a{b}\nc}d{e".toList 2 with
      | .ok (t, st) => some (render (latex Latex.latexcodecEncode) t, st.rest, st.pos, st.lineno) | .error _ => none)
      = some (some "a{b}\nc".toList, "d{e".toList, 7, 2) ∧
    Tex.splitAtClose 0 "a{b".toList = none ∧
    (match LaTeXParser.parseLevel "a{b".toList 1 with | .ok _ => none | .error e => some e) = some (.unbalanced 1 2) ∧
    -- a text without braces is an error at every level but 0
    (match LaTeXParser.parseLevel "abc".toList 3 with | .ok _ => none | .error e => some e) = some (.unbalanced 1 0) := by
  decide +kernel

/-- **Every input encoding the model names contains ASCII**, so `C09_latex_encoding` applies to `latex.Backend(encoding)` for
each of them -- the three of `Latex.encodableIn` and every codec of the regenerated table `Gen.extraEncodings` (its code-point
ranges are re-read from the interpreter on every run; an encoding without the ASCII block would break this theorem).
Spelled out for such an encoding `E`: (1) an encoded `String` is representable, non-erased, at the same brace depth;
(2) the encoder fails exactly on a character the encoding lacks and the table does not translate; (3) a rendering that
succeeds is representable when the URLs are, and is brace-balanced when the text parts and URLs are. -/
theorem C09_encodings :
    (∀ name E, Latex.encodableInX name = some E → ∀ c : Char, c.toNat < 128 → E c = true) ∧
    (∀ name E, Latex.encodableInX name = some E →
      (∀ s o, Latex.latexcodecEncodeE E s = some o →
        o.all E = true ∧ (o = [] → s = []) ∧ ∀ d, depthAfter d o = depthAfter d s) ∧
      (∀ s, Latex.latexcodecEncodeE E s = none ↔ ∃ c ∈ s, E c = false ∧ Latex.latexMap c = none) ∧
      (∀ t out, render (latexE (Latex.latexcodecEncodeE E)) t = some (.ok out) →
        (allKinds (fun k => match k with | .href u _ => u.all E | _ => true) t = true → out.all E = true) ∧
        (allStrs (fun s => balanced s) t = true →
          allKinds (fun k => match k with | .href u _ => balanced u | _ => true) t = true → balanced out = true))) := by
  have htab : Gen.extraEncodings.all (fun e => Latex.rangesAscii e.2) = true := by decide +kernel
  have h1 : ∀ name E, Latex.encodableInX name = some E → ∀ c : Char, c.toNat < 128 → E c = true := by
    intro name E h c hc
    unfold Latex.encodableInX at h
    cases hold : Latex.encodableIn name with
    | some E0 =>
      rw [hold] at h
      simp only [Option.some.injEq] at h
      subst h
      unfold Latex.encodableIn at hold
      split at hold
      · simp only [Option.some.injEq] at hold; subst hold; simpa using hc
      · split at hold
        · simp only [Option.some.injEq] at hold; subst hold; simp; omega
        · split at hold
          · simp only [Option.some.injEq] at hold; subst hold; rfl
          · cases hold
    | none =>
      rw [hold] at h
      simp only [Latex.extraEncodable] at h
      cases hf : Gen.extraEncodings.find? (fun e => e.1.contains name) with
      | none => rw [hf] at h; cases h
      | some e =>
        rw [hf] at h
        simp only [Option.some.injEq] at h
        subst h
        have hm : e ∈ Gen.extraEncodings := List.mem_of_find?_eq_some hf
        exact Latex.inRanges_of_rangesAscii (List.all_eq_true.1 htab e hm) c hc
  refine ⟨h1, ?_⟩
  intro name E h
  have hall := C09_latex_encoding E (h1 name E h)
  refine ⟨hall.1, hall.2.1, ?_⟩
  intro t out hr
  have := hall.2.2.1 t out hr
  exact ⟨this.1, this.2.2.2⟩

theorem C09_encodings_nonvacuous :
    -- ISO 8859-2 has Ł and é, not the Greek alpha (no translation in the table either: the encoder fails) nor the en dash (translated)
    (Latex.encodableInX "latin2".toList).map (fun E => (E (Char.ofNat 0x141), E (Char.ofNat 0xe9), E (Char.ofNat 0x2013), E 'a'))
      = some (true, true, false, true) ∧
    (Latex.encodableInX "latin2".toList).bind (fun E => Latex.latexcodecEncodeE E [Char.ofNat 0x141, Char.ofNat 0x2013, '_'])
      = some [Char.ofNat 0x141, '-', '-', '\\', '_'] ∧
    -- KOI8-R has the Cyrillic letters, Windows-1252 has the euro sign that ISO 8859-1 lacks
    (Latex.encodableInX "koi8-r".toList).map (fun E => (E (Char.ofNat 0x43f), E (Char.ofNat 0xe9))) = some (true, false) ∧
    (Latex.encodableInX "windows-1252".toList).map (fun E => E (Char.ofNat 0x20ac)) = some true ∧
    (Latex.encodableInX "latin-1".toList).map (fun E => E (Char.ofNat 0x20ac)) = some false ∧
    (Latex.encodableInX "no-such-codec".toList).isNone = true := by
  decide +kernel

/-- **`write_to_file` of the LaTeX backend: a document that was written is representable** in the encoding the backend was
created with (any set `E` of characters that contains ASCII) as soon as the parts that are written verbatim are: the preamble,
the labels, the keys and the URLs.  Text is never the reason for a `UnicodeEncodeError` of the file: a character the encoding
lacks has been translated or has raised the encoder's (pybtex) error before.  Hence the file is written
(`writeToFile … = some …`) and holds exactly the document. -/
theorem C09_latex_file (E : Char → Bool) (hE : ∀ c : Char, c.toNat < 128 → E c = true) (bib : FormattedBibliography) (doc : Str)
    (hpre : bib.preamble.all E = true)
    (hent : ∀ e ∈ bib.entries, e.label.all E = true ∧ e.key.all E = true ∧
      allKinds (fun k => match k with | .href u _ => u.all E | _ => true) e.text = true)
    (h : writeToStreamE (Latex.latexcodecEncodeE E) bib = .ok doc) :
    doc.all E = true ∧ writeToFile E (.ok doc) = some (.ok doc) := by
  have hlit : ∀ w : Str, w.all Latex.isAscii = true → w.all E = true := by
    intro w hw
    rw [List.all_eq_true] at hw ⊢
    intro x hx
    exact hE x (by simpa [Latex.isAscii] using hw x hx)
  have hren := fun t out hr => ((C09_latex_encoding E hE).2.2.1 t out hr).1
  -- the entries
  have hbody : ∀ (es : List FormattedEntry) body,
      (∀ e ∈ es, e.label.all E = true ∧ e.key.all E = true ∧
        allKinds (fun k => match k with | .href u _ => u.all E | _ => true) e.text = true) →
      writeEntriesE (Latex.latexcodecEncodeE E) es = .ok body → body.all E = true := by
    intro es
    induction es with
    | nil => intro body _ hb; simp only [writeEntriesE, Except.ok.injEq] at hb; subst hb; rfl
    | cons e es ih =>
      intro body hes hb
      have he := hes e (by simp)
      rw [writeEntriesE] at hb
      cases htext : render (latexE (Latex.latexcodecEncodeE E)) e.text with
      | none => rw [htext] at hb; cases hb
      | some r =>
        cases r with
        | error err => rw [htext] at hb; cases hb
        | ok text =>
          rw [htext] at hb
          cases hrest : writeEntriesE (Latex.latexcodecEncodeE E) es with
          | error err => rw [hrest] at hb; cases hb
          | ok rest =>
            rw [hrest] at hb
            simp only [Except.ok.injEq] at hb
            have hrestE := ih rest (fun x hx => hes x (by simp [hx])) hrest
            have htextE := hren e.text text htext he.2.2
            have a1 := hlit ['{'] (by decide)
            have a2 := hlit ['}'] (by decide)
            have hlab : (Latex.bibitemLabel e.label).all E = true := by
              unfold Latex.bibitemLabel
              split
              · simp only [List.all_append, he.1, a1, a2, Bool.and_self]
              · exact he.1
            have l1 := hlit "\n\n\\bibitem[".toList (by decide)
            have l2 := hlit "]{".toList (by decide)
            have l3 := hlit "}\n".toList (by decide)
            rw [← hb]
            unfold Latex.writeEntry
            generalize "\n\n\\bibitem[".toList = A at l1 ⊢
            generalize "]{".toList = B at l2 ⊢
            generalize "}\n".toList = C at l3 ⊢
            simp only [List.all_append, l1, l2, l3, hlab, he.2.1, htextE, hrestE, Bool.and_self]
  -- the longest label is one of the labels (or empty)
  have hlong : (longestLabel (bib.entries.map (·.label))).all E = true := by
    cases hl : bib.entries.map (·.label) with
    | nil => rfl
    | cons l ls =>
      have hm := ((C09_document plaintextOutput bib).2.2.2 l ls).1
      rw [← hl] at hm
      obtain ⟨e, he, hel⟩ := List.mem_map.1 hm
      rw [← hl, ← hel]
      exact (hent e he).1
  simp only [writeToStreamE] at h
  split at h
  · cases h
  · rename_i body hb
    simp only [Except.ok.injEq] at h
    have hbE := hbody _ body hent hb
    have l1 := hlit "\\begin{thebibliography}{".toList (by decide)
    have l2 := hlit ['}'] (by decide)
    have l3 := hlit ['\n'] (by decide)
    have l4 := hlit Latex.epilogue (by decide)
    have hdoc : doc.all E = true := by
      rw [← h]
      unfold Latex.prologue
      split <;> simp only [List.all_append, l1, l2, l3, l4, hlong, hbE, hpre, Bool.and_self, List.all_nil]
    exact ⟨hdoc, by simp only [writeToFile, hdoc, if_true]⟩

theorem C09_latex_file_nonvacuous :
    -- ISO 8859-2: Ł is kept, the en dash is translated, the document is representable and the file is written
    ((Latex.encodableInX "iso-8859-2".toList).map fun E =>
      match writeToStreamE (Latex.latexcodecEncodeE E)
          ⟨[⟨"k".toList, .node (.tag "em".toList) [.str [Char.ofNat 0x141, Char.ofNat 0x2013]], "1".toList⟩], []⟩ with
      | .ok doc => (some doc, doc.all E, (writeToFile E (.ok doc)).isSome)
      | .error _ => (none, false, false))
      = some (some ("\\begin{thebibliography}{1}\n\n\\bibitem[1]{k}\n\\emph{".toList ++ [Char.ofNat 0x141] ++
          "--}\n\n\\end{thebibliography}\n".toList), true, true) ∧
    -- a label is written verbatim: the hypothesis on the labels cannot be dropped
    ((Latex.encodableInX "ascii".toList).map fun E =>
      match writeToStreamE (Latex.latexcodecEncodeE E) ⟨[⟨"k".toList, .str "x".toList, [Char.ofNat 0xe9]⟩], []⟩ with
      | .ok doc => (doc.all E, (writeToFile E (.ok doc)).isSome)
      | .error _ => (true, true)) = some (false, false) := by
  decide +kernel

/-- **The formatting methods of the HTML backend, each on its own, on ARBITRARY well-formed arguments** (function level: the
arguments need not be renderings of a rich text).  `format_str` of any string is well formed and reads back as the string;
well-formedness is kept by `render_sequence` (character data concatenated), by `format_tag` with an identifier-like name, by
`format_href` with a quote-free URL and by `format_protected`, and the characters of the argument end up inside exactly one more
element: `<name>`, `<a>`, `<span>`.  A well-formed string is accepted by `Html.read` started at top level. -/
theorem C09_html_methods :
    (∀ s, HtmlReadsAs (Backends.Html.formatStr s) (s.map fun c => (c, []))) ∧
    (∀ xs ps, All₂ HtmlReadsAs xs ps → HtmlReadsAs (renderSequence xs) ps.flatten) ∧
    (∀ n x p, n ≠ [] → n.all Html.nameChar = true → x ≠ [] → HtmlReadsAs x p →
      HtmlReadsAs (Backends.Html.formatTag n x) (p.map fun y => (y.1, n :: y.2))) ∧
    (∀ u e x p, u.contains '"' = false → x ≠ [] → HtmlReadsAs x p →
      HtmlReadsAs (Backends.Html.formatHref u x e) (p.map fun y => (y.1, ['a'] :: y.2))) ∧
    (∀ x p, HtmlReadsAs x p → HtmlReadsAs (Backends.Html.formatProtected x) (p.map fun y => (y.1, "span".toList :: y.2))) ∧
    (∀ x p, HtmlReadsAs x p → Html.read x = some p) := by
  have hT := C09_tables.2.2.2.1
  have hesc : Html.escapesOK Gen.htmlEscapes = true := by
    simp only [Html.tablesOK, Bool.and_eq_true] at hT; exact hT.1
  refine ⟨?_, ?_, ?_, ?_, ?_, ?_⟩
  · intro s stk o
    show Html.run ⟨.text, stk, o⟩ (escape s) = _
    rw [Html.run_escape hesc]
    simp [List.map_map, Function.comp_def]
  · intro xs ps hall
    induction hall with
    | nil => intro stk o; simp [renderSequence, Html.run]
    | @cons x p xs ps hxp _ ih =>
      intro stk o
      have e : renderSequence (x :: xs) = x ++ renderSequence xs := by simp [renderSequence]
      rw [e, Html.run_append, hxp stk o]
      simp only [Option.bind_some]
      rw [ih stk]
      simp
  · intro n x p hne hn hx h
    have e2 : "</".toList = ['<', '/'] := by decide
    have key : Backends.Html.formatTag n x = ('<' :: n ++ ['>']) ++ x ++ ('<' :: '/' :: n ++ ['>']) := by
      unfold Backends.Html.formatTag
      have hxe : x.isEmpty = false := by cases x with | nil => exact absurd rfl hx | cons => rfl
      simp only [hxe, Bool.false_eq_true, if_false]
      rw [e2]
      simp only [List.append_assoc, List.cons_append, List.nil_append]
    rw [key]
    exact htmlReadsAs_wrap n x _ _ p (fun stk o => Html.run_open stk o n hne hn) (fun stk o => Html.run_close stk o n hn) h
  · intro u e x p hu hx h
    have e1 : "<a href=\"".toList = '<' :: ['a'] ++ ' ' :: "href=\"".toList := by decide
    have e2 : "</a>".toList = '<' :: '/' :: ['a'] ++ ['>'] := by decide
    have key : Backends.Html.formatHref u x e =
        ('<' :: ['a'] ++ ' ' :: ("href=\"".toList ++ u ++ ['"'] ++ (if e then " target=\"_blank\"".toList else [])) ++ ['>'])
          ++ x ++ ('<' :: '/' :: ['a'] ++ ['>']) := by
      unfold Backends.Html.formatHref
      have hxe : x.isEmpty = false := by cases x with | nil => exact absurd rfl hx | cons => rfl
      simp only [hxe, Bool.false_eq_true, if_false]
      rw [e1, e2]
      generalize "href=\"".toList = A
      generalize (if e = true then " target=\"_blank\"".toList else []) = T
      simp only [List.append_assoc, List.cons_append, List.nil_append]
    rw [key]
    exact htmlReadsAs_wrap ['a'] x _ _ p
      (fun stk o => Html.run_openAttrs stk o ['a'] _ (by simp) (by decide) (Html.href_attrs u hu e))
      (fun stk o => Html.run_close stk o ['a'] (by decide)) h
  · intro x p h
    unfold Backends.Html.formatProtected
    have e1 : "<span class=\"bibtex-protected\">".toList
        = '<' :: "span".toList ++ ' ' :: "class=\"bibtex-protected\"".toList ++ ['>'] := by decide
    have e2 : "</span>".toList = '<' :: '/' :: "span".toList ++ ['>'] := by decide
    rw [e1, e2]
    exact htmlReadsAs_wrap "span".toList x _ _ p
      (fun stk o => Html.run_openAttrs stk o "span".toList _ (by decide) (by decide) (by decide))
      (fun stk o => Html.run_close stk o "span".toList (by decide)) h
  · intro x p h
    have := h [] []
    simp only [List.nil_append] at this
    simp only [Html.read, this]
    congr 1
    induction p with
    | nil => rfl
    | cons a p ih => simp

theorem C09_html_methods_nonvacuous :
    -- an argument that is no rendering of any rich text (an element the backend never emits), wrapped by two methods
    Html.read (Backends.Html.formatHref "u?a=1&b".toList (Backends.Html.formatTag "em".toList "<q>R&amp;D</q>".toList) true)
      = some [('R', ["a".toList, "em".toList, "q".toList]), ('&', ["a".toList, "em".toList, "q".toList]),
              ('D', ["a".toList, "em".toList, "q".toList])] ∧
    -- the reader is strict: an argument that is not well formed is not repaired by wrapping it
    Html.read (Backends.Html.formatTag "em".toList "a<b".toList) = none ∧
    Html.read (Backends.Html.formatTag "x y".toList "a".toList) = none := by
  decide +kernel

/-- **`Text.render_as(name)` reaches exactly the four backends.**  (1) Every plug-in name and alias that the regenerated
entry-point table lists for the group `pybtex.backends` resolves to one of the four backend classes, and each class is
reached by its own name; the empty name gives the default plug-in, LaTeX.  (2) [model wiring] what `render_as` returns is what
`render` returns for a fresh backend of that class, so every theorem about `render html / markdown / (latex encode) /
plaintext` is a theorem about `render_as`; an unknown name is `PluginNotFound` before anything is rendered. -/
theorem C09_render_as (encode : Str → Str) :
    (Gen.installedPlugins.all (fun e =>
      !(e.1 == "pybtex.backends".toList || e.1 == "pybtex.backends.aliases".toList) ||
        (findBackend e.2.1 == backendOfValue e.2.2 && (backendOfValue e.2.2).isSome)) = true) ∧
    findBackend "html".toList = some .html ∧ findBackend "markdown".toList = some .markdown ∧
    findBackend "latex".toList = some .latex ∧ findBackend "plaintext".toList = some .plaintext ∧
    findBackend [] = some .latex ∧
    (∀ name t, renderAs encode name t =
      match findBackend name with
      | none => none
      | some .html => some (render html t)
      | some .markdown => some (render markdown t)
      | some .latex => some (render (latex encode) t)
      | some .plaintext => some (render plaintext t)) := by
  refine ⟨by decide +kernel, by decide +kernel, by decide +kernel, by decide +kernel, by decide +kernel, by decide +kernel, ?_⟩
  intro name t
  unfold renderAs
  cases findBackend name with
  | none => rfl
  | some b => cases b <;> rfl

theorem C09_render_as_nonvacuous :
    findBackend "md".toList = some .markdown ∧ findBackend "text".toList = some .plaintext ∧
    findBackend "HTML".toList = none ∧ findBackend ".html".toList = none ∧
    renderAs Latex.latexcodecEncode "text".toList
      (build (.node .text [.str "Longcat is ".toList, .node (.tag "em".toList) [.str "looooooong".toList], .str "!".toList]))
      = some (some "Longcat is looooooong!".toList) ∧
    renderAs Latex.latexcodecEncode "nosuch".toList (.str "x".toList) = none := by
  decide +kernel

end Pybtex.Props
