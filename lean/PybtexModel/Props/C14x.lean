/-
C14, extension — the lookup as the code is written NOW: `Entry._find_field` is a `while True:` loop
around the step function `Entry._find_crossref_entry` (model: `Model/CrossrefLoop.lean`,
`findFieldLoop` / `findCrossrefEntry` / `findCrossrefField`).  The theorems of `Props/C14.lean`
are stated about the recursive form `findField` (`Model/Crossref.lean`); here the two are proved
equal, the step function is tied to the reference `Spec.parent`, and the `visited` parameter that
all three methods accept is shown to be harmless: it can cut a lookup short, never change a value.
Property theorems only; helper lemmas: `Lemmas/CrossrefLoop.lean`.
-/
import PybtexModel.Props.C14
import PybtexModel.Lemmas.CrossrefLoop
import PybtexModel.Lemmas.CrossrefU

namespace Pybtex.Props
open Pybtex Spec C14Ex

/-- The loop is the recursion: for EVERY database (or none), every visited set, entry and name the
model of the code as written now (loop + step function) returns what the recursive model returns;
so every `C14_*` theorem about `findField` is a theorem about the loop.  `_find_crossref_field`
(one step, then the loop with the enlarged set) likewise. -/
theorem C14_loop_is_recursion (bibData : Option BibData) (visited : List Str) (e : Entry) (name : Str) :
    findFieldLoop bibData visited e name = findField bibData visited e name ∧
    findFieldLoop bibData [] e name = e.findField name bibData ∧
    findCrossrefField bibData visited e name =
      match findCrossrefEntry bibData visited e with
      | none => none
      | some (p, visited') => findField bibData visited' p name := by
  refine ⟨findFieldLoop_eq_findField _ _ _ _, findFieldLoop_eq_findField _ _ _ _, ?_⟩
  unfold findCrossrefField
  cases findCrossrefEntry bibData visited e with
  | none => rfl
  | some r => exact findFieldLoop_eq_findField _ _ _ _

theorem C14_loop_is_recursion_nonvacuous :
    findFieldLoop (some db) [] (get db "child") (s "year") = some (s "1984") ∧
    findFieldLoop (some db) [] (get db "m1") (s "note") = none ∧
    findCrossrefField (some db) [] (get db "child") (s "title") = none ∧
    findCrossrefField (some db) [] (get db "child") (s "note") = some (s "pn") ∧
    (findCrossrefEntry (some db) [] (get db "child")).map (fun r => (r.1.key, r.2)) = some (s "Parent", [s "parent"]) := by
  decide +kernel

/-- Inheritance, for the loop: on every well-formed database the loop started with the empty
visited set (what `Field.value`, the template `field` node and the entry API call) yields the
value of the first entry along the cross-reference chain that defines the field or role. -/
theorem C14_loop_inherits_nearest (db : BibData) (hdb : DbWF db) (e : Entry) (he : EntryWF e) (name : Str) :
    findFieldLoop (some db) [] e name = lookup db.toS e.toS name := by
  rw [findFieldLoop_eq_findField]
  exact C14_inherits_nearest db hdb e he name

theorem C14_loop_inherits_nearest_nonvacuous :
    DbWF db ∧ EntryWF (get db "child") ∧
    lookup db.toS (get db "child").toS (s "author") = some (s "G, A") ∧
    lookup db.toS (get db "self").toS (s "year") = none := by decide +kernel

/-- The step function is the reference parent: with nothing visited yet, `_find_crossref_entry`
succeeds exactly when the reference `parent` (the database entry the `crossref` field names, up
to letter case) exists, returns that entry, and records exactly its lower-cased reference; without
a database it always raises. -/
theorem C14_step_is_parent (db : BibData) (hdb : DbWF db) (e : Entry) (he : EntryWF e) :
    (findCrossrefEntry (some db) [] e).map (fun r => r.1.toS) = parent db.toS e.toS ∧
    (∀ p V, findCrossrefEntry (some db) [] e = some (p, V) →
        ∃ x, e.fields.getItem Pybtex.xrefName = some x ∧ V = [lower x]) ∧
    (∀ V, findCrossrefEntry none V e = none) := by
  refine ⟨?_, ?_, fun V => rfl⟩
  · rw [findCrossrefEntry_eq, parent_toS hdb he]
    cases e.fields.getItem Pybtex.xrefName with
    | none => rfl
    | some x =>
      simp only [List.contains_nil, Bool.false_eq_true, if_false, Option.bind_some, Option.map_map]
      rfl
  · intro p V h
    obtain ⟨db', x, hdb', hx, -, -, hV⟩ := findCrossrefEntry_some h
    exact ⟨x, hx, hV⟩

theorem C14_step_is_parent_nonvacuous :
    (parent db.toS (get db "child").toS).map (·.key) = some (s "Parent") ∧
    (parent db.toS (get db "dang").toS).map (·.key) = none ∧
    (parent db.toS (get db "self").toS).map (·.key) = some (s "self") := by decide +kernel

/-- The `visited` parameter (all three methods accept it) can only cut a lookup short:
(1) what a lookup that starts with a visited set `V'` finds, the lookup with any subset `V` of it
finds too — in particular the lookup with the empty set;
(2) on a well-formed database, whatever `_find_field` returns with ANY visited set is the reference
value (it may be missing where the reference has a value, never another value);
(3) the same for `_find_crossref_field` called on an entry that does not define the name itself. -/
theorem C14_visited_only_cuts (db : BibData) (hdb : DbWF db) (e : Entry) (he : EntryWF e) (name : Str)
    (V' : List Str) (v : Str) :
    (∀ V : List Str, (∀ k, V.contains k = true → V'.contains k = true) →
        findFieldLoop (some db) V' e name = some v → findFieldLoop (some db) V e name = some v) ∧
    (findFieldLoop (some db) V' e name = some v → lookup db.toS e.toS name = some v) ∧
    (e.own name = none → findCrossrefField (some db) V' e name = some v → lookup db.toS e.toS name = some v) := by
  have cut0 : ∀ (q : Entry), findField (some db) V' q name = some v → findField (some db) [] q name = some v :=
    fun q h => findField_visited_cut (some db) V' q name [] (by simp) v h
  refine ⟨?_, ?_, ?_⟩
  · intro V hsub h
    rw [findFieldLoop_eq_findField] at h ⊢
    exact findField_visited_cut (some db) V' e name V hsub v h
  · intro h
    rw [findFieldLoop_eq_findField] at h
    rw [← C14_inherits_nearest db hdb e he name]
    exact cut0 e h
  · intro hown h
    rw [← C14_inherits_nearest db hdb e he name]
    show findField (some db) [] e name = some v
    unfold findCrossrefField at h
    rw [findCrossrefEntry_eq] at h
    rw [findField_eq, hown]
    dsimp only at h ⊢
    cases hx : e.fields.getItem Pybtex.xrefName with
    | none => simp [hx] at h
    | some x =>
      simp only [hx] at h
      simp only [List.contains_nil, Bool.false_eq_true, if_false]
      by_cases hc : V'.contains (lower x) = true
      · rw [if_pos hc] at h; simp at h
      · rw [if_neg hc] at h
        cases hp : db.entries.getItem x with
        | none => simp [hp] at h
        | some p =>
          simp only [hp, Option.map_some] at h
          rw [findFieldLoop_eq_findField] at h
          refine findField_visited_cut (some db) (lower x :: V') p name [lower x] ?_ v h
          intro k hk
          simp only [List.contains_cons, List.contains_nil, Bool.or_false] at hk
          simp only [List.contains_cons, hk, Bool.true_or]

theorem C14_visited_only_cuts_nonvacuous :
    -- child → Parent → grand: with `grand` already visited the year is cut off, the parent's note is still found;
    -- `_find_crossref_field` on child skips child's own title
    findFieldLoop (some db) [s "grand"] (get db "child") (s "year") = none ∧
    findFieldLoop (some db) [s "grand"] (get db "child") (s "note") = some (s "pn") ∧
    findFieldLoop (some db) [] (get db "child") (s "year") = some (s "1984") ∧
    (get db "child").own (s "note") = none ∧
    findCrossrefField (some db) [s "zz"] (get db "child") (s "note") = some (s "pn") := by decide +kernel

/-- [table tie]  The constants the hand-written model hard-codes are the literals of the source as
regenerated on this run (`harness/tablegen/c14.py` → `Gen/C14Consts.lean`): the `' and '` of
`_find_person_field`, the field name `_find_crossref_entry`, `add_entry` and the BST variable
`crossref` use, the empty default of `visited`, `bib_data=None`, `min_crossrefs=2` of both engines
(the value the driver ops of C14 run the engines with). -/
theorem C14_constants_match :
    Pybtex.andSep = Gen.C14.personSep ∧ Pybtex.xrefName = Gen.C14.crossrefField ∧
    Pybtex.xrefName = Gen.C14.crossrefAddEntry ∧ Pybtex.xrefName = Gen.C14.crossrefVariable ∧
    Gen.C14.visitedDefaults = [[], []] ∧ Gen.C14.bibDataDefaultIsNone = true ∧
    Gen.C14.minCrossrefsDefault = 2 := by decide

/-- The template node `field` (with the message of its `FieldIsMissing`): on a well-formed database
it yields the reference value, and `missing <name> in <key>` exactly when no entry along the chain
defines the name; in a context WITHOUT a database (`format_entry(label, entry)`,
`format_entries(entries)`) it sees the entry's own fields and roles only.  It agrees with the
node model of `Props/C14.lean` (`templateField`) up to the message. -/
theorem C14_field_node (db : BibData) (hdb : DbWF db) (e : Entry) (he : EntryWF e) (name : Str) :
    (templateFieldMsg (some db) e name = match lookup db.toS e.toS name with
        | some v => Except.ok v
        | none => Except.error (fieldIsMissingMessage name e.key)) ∧
    (templateFieldMsg none e name = match e.toS.own name with
        | some v => Except.ok v
        | none => Except.error (fieldIsMissingMessage name e.key)) ∧
    (∀ ctx v, templateFieldMsg ctx e name = Except.ok v ↔ templateField ctx e name = Except.ok v) := by
  refine ⟨?_, ?_, ?_⟩
  · simp only [templateFieldMsg, C14_loop_inherits_nearest db hdb e he name]
    cases lookup db.toS e.toS name <;> rfl
  · simp only [templateFieldMsg, findFieldLoop_eq_findField, findField_noDb, Entry.own_toS he]
    cases e.toS.own name <;> rfl
  · intro ctx v
    simp only [templateFieldMsg, templateField, Entry.findField, findFieldLoop_eq_findField]
    cases findField ctx [] e name <;> simp

theorem C14_field_node_nonvacuous :
    templateFieldMsg (some db) (get db "child") (s "year") = Except.ok (s "1984") ∧
    templateFieldMsg none (get db "child") (s "year") = Except.error (s "missing year in child") ∧
    templateFieldMsg (some db) (get db "m1") (s "note") = Except.error (s "missing note in m1") := by decide +kernel

/-- The BST variable `crossref` (`interpreter.Crossref.value`): on a well-formed database it is the
stored key of the reference parent — the entry the `crossref` field names up to letter case — and
missing exactly when the entry has no `crossref` field or the reference dangles (so a dangling
reference is a missing value, not a crash). -/
theorem C14_crossref_variable (db : BibData) (hdb : DbWF db) (e : Entry) (he : EntryWF e) :
    bstCrossrefValue db e = match parent db.toS e.toS with
      | some p => BstValue.str p.key
      | none => BstValue.missing Pybtex.xrefName := by
  rw [parent_toS hdb he]
  unfold bstCrossrefValue
  cases e.fields.getItem Pybtex.xrefName with
  | none => rfl
  | some x =>
    simp only [Option.bind_some]
    cases db.entries.getItem x <;> rfl

theorem C14_crossref_variable_nonvacuous :
    bstCrossrefValue db (get db "child") = BstValue.str (s "Parent") ∧
    bstCrossrefValue db (get db "dang") = BstValue.missing (s "crossref") ∧
    bstCrossrefValue db (get db "grand") = BstValue.missing (s "crossref") ∧
    bstCrossrefValue db (get db "self") = BstValue.str (s "self") := by decide +kernel

/-! ### The lookup over Unicode keys (`Model/CrossrefU.lean`, key normaliser = parameter) -/

namespace C14UEx
open Pybtex.Uni
/-- `Straße` → `ÉCOLE` (written `école`) → `ΟΔΟΣ` (written `οδος`, final sigma as `str.lower()`
produces it); `İ` ⇄ `K` (KELVIN SIGN, written `k`) is a cycle; `dang` → `οδοσ` (medial sigma:
not the lower-cased key) dangles; the field name `NÖTE` is asked as `nöte` -/
def udb : UDb := (addEntries lowerPy Uni.CIDict.empty [
  (s "Straße", UEntry.ofPairs lowerPy [(s "title", s "T"), (s "Crossref", s "école")] []),
  (s "ÉCOLE", UEntry.ofPairs lowerPy [(s "NÖTE", s "pn"), (s "crossref", s "οδος")] [(s "Éditeur", [s "E, One", s "E, Two"])]),
  (s "ΟΔΟΣ", UEntry.ofPairs lowerPy [(s "nöte", s "gn"), (s "year", s "1984")] []),
  (s "İ", UEntry.ofPairs lowerPy [(s "crossref", s "k")] []),
  (s "\u212a", UEntry.ofPairs lowerPy [(s "CROSSREF", s "i\u0307"), (s "year", s "2001")] []),
  (s "dang", UEntry.ofPairs lowerPy [(s "crossref", s "οδοσ")] []),
  (s "école", UEntry.ofPairs lowerPy [(s "note", s "second spelling of an existing key")] [])]).1

def uget (k : String) : UEntry :=
  match Uni.CIDict.getItem lowerPy udb (s k) with
  | some e => e
  | none => UEntry.ofPairs lowerPy [] []
end C14UEx

section
open Pybtex.Uni C14UEx

/-- Inheritance and termination over Unicode keys, with NO hypothesis: for EVERY key normaliser
`norm` (the driver runs `str.lower()` of the interpreter, `lowerPy`), every database value, entry
and name, the loop of the code started with the empty visited set equals the reference lookup
`lookupU` — the value of the first entry that defines the name, as a field or as a role, along a
plain walk of `len(db)+1` entries through `entries[crossref]` — and a walk of any greater length
gives the same, so going round a cycle again never changes the answer.  The only fact used about
the containers is that `entries[x]` depends on `norm x` alone. -/
theorem C14_u_inherits_nearest (norm : Str → Str) (db : UDb) (e : UEntry) (name : Str) :
    Uni.findFieldLoop norm (some db) [] e name = lookupU norm db e name ∧
    (∀ n, Uni.CIDict.len db + 1 ≤ n →
      Uni.findFieldLoop norm (some db) [] e name = (walkU norm db n e).findSome? (UEntry.own norm · name)) :=
  ⟨findFieldLoop_spec norm db e name _ (Nat.le_refl _), fun n hn => findFieldLoop_spec norm db e name n hn⟩

theorem C14_u_inherits_nearest_nonvacuous :
    -- Straße → ÉCOLE → ΟΔΟΣ: note from the parent (asked as nöte / NÖTE), year from two levels up, role joined
    lookupU lowerPy udb (uget "STRASSE") (s "nöte") = none ∧            -- `STRASSE` is not a spelling of `Straße`
    lookupU lowerPy udb (uget "straße") (s "nöte") = some (s "pn") ∧
    lookupU lowerPy udb (uget "straße") (s "year") = some (s "1984") ∧
    lookupU lowerPy udb (uget "straße") (s "éditeur") = some (s "E, One and E, Two") ∧
    lookupU lowerPy udb (uget "i\u0307") (s "year") = some (s "2001") ∧   -- İ → K (Kelvin) across the cycle
    lookupU lowerPy udb (uget "i\u0307") (s "nöte") = none ∧
    lookupU lowerPy udb (uget "dang") (s "year") = none ∧                -- medial sigma: dangling
    Uni.CIDict.len udb = 6 ∧ (addEntries lowerPy Uni.CIDict.empty [(s "É", UEntry.ofPairs lowerPy [] []), (s "é", UEntry.ofPairs lowerPy [] [])]).2 = [s "é"] := by
  decide +kernel

/-- Own first, missing, dangling — over Unicode keys, every `norm`, every visited set:
(1) what the entry defines itself (field, else role) is returned whatever the database and whatever
has been visited [model wiring: one unfolding]; (2) without a database only the entry is asked;
(3) the answer is missing iff no entry of the reference walk defines the name;
(4) a reference to a key the database does not have gives missing when the entry lacks the name. -/
theorem C14_u_own_missing_dangling (norm : Str → Str) (db : UDb) (e : UEntry) (name : Str) :
    (∀ bd V v, e.own norm name = some v → Uni.findFieldLoop norm bd V e name = some v) ∧
    (∀ V, Uni.findFieldLoop norm none V e name = e.own norm name) ∧
    (Uni.findFieldLoop norm (some db) [] e name = none ↔
      ∀ q ∈ walkU norm db (Uni.CIDict.len db + 1) e, q.own norm name = none) ∧
    (∀ x V, Uni.CIDict.getItem norm e.fields Uni.xrefName = some x → Uni.CIDict.getItem norm db x = none →
      e.own norm name = none → Uni.findFieldLoop norm (some db) V e name = none) := by
  refine ⟨?_, fun V => findFieldLoop_noDb norm V e name, ?_, ?_⟩
  · intro bd V v h
    rw [Uni.findFieldLoop_eq, h]
  · rw [(C14_u_inherits_nearest norm db e name).1, lookupU, List.findSome?_eq_none_iff]
  · intro x V hx hd hown
    rw [Uni.findFieldLoop_eq', hown]
    simp only [hx, hd]
    split <;> rfl

theorem C14_u_own_missing_dangling_nonvacuous :
    (uget "école").own lowerPy (s "NÖTE") = some (s "pn") ∧
    Uni.CIDict.getItem lowerPy (uget "dang").fields Uni.xrefName = some (s "οδοσ") ∧
    Uni.CIDict.getItem lowerPy udb (s "οδοσ") = none ∧
    (Uni.CIDict.getItem lowerPy udb (s "οδος")).isSome = true ∧
    (uget "dang").own lowerPy (s "year") = none := by decide +kernel

/-- The `visited` parameter over Unicode keys, every `norm`, every database: what a lookup finds
with a visited set it finds with every subset of it, and a value returned with ANY visited set is
the reference value (missing is possible where the reference has a value, another value is not). -/
theorem C14_u_visited_only_cuts (norm : Str → Str) (db : UDb) (e : UEntry) (name : Str) (V' : List Str) (v : Str) :
    (∀ V : List Str, (∀ k, V.contains k = true → V'.contains k = true) →
        Uni.findFieldLoop norm (some db) V' e name = some v → Uni.findFieldLoop norm (some db) V e name = some v) ∧
    (Uni.findFieldLoop norm (some db) V' e name = some v → lookupU norm db e name = some v) := by
  refine ⟨fun V hsub h => findFieldLoop_visited_cut norm (some db) V' e name V hsub v h, fun h => ?_⟩
  rw [← (C14_u_inherits_nearest norm db e name).1]
  exact findFieldLoop_visited_cut norm (some db) V' e name [] (by simp) v h

theorem C14_u_visited_only_cuts_nonvacuous :
    Uni.findFieldLoop lowerPy (some udb) [s "οδος"] (uget "straße") (s "year") = none ∧
    Uni.findFieldLoop lowerPy (some udb) [s "οδοσ"] (uget "straße") (s "year") = some (s "1984") ∧
    Uni.findFieldLoop lowerPy (some udb) [s "οδος"] (uget "straße") (s "nöte") = some (s "pn") := by decide +kernel

end

end Pybtex.Props
